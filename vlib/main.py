import argparse, importlib, json, os, sys, traceback
from . import core


def main():
    # cpppo generators abandoned in mid-parse complain when garbage-collected ('Exception ignored in ...'): noise, not a result
    sys.unraisablehook = lambda *a: None
    ap = argparse.ArgumentParser()
    ap.add_argument('pid')
    ap.add_argument('--tier', default=os.environ.get('VERIF_TIER', 'quick'))
    ap.add_argument('--replay')
    ap.add_argument('--seed', type=int, default=int(os.environ.get('VERIF_SEED', '0') or 0))
    a = ap.parse_args()
    if a.pid == 'setup':
        return setup()
    tier = a.tier if a.tier in ('quick', 'thorough') else 'quick'
    mod = importlib.import_module('props.' + a.pid.lower())
    rep = json.load(open(a.replay)) if a.replay else None
    if rep is not None:
        # a replay re-runs the deterministic check that produced the file (same tier, same seed) on the current tree and
        # reports whether the same violation (same content hash = same file name) is produced again
        tier, a.seed = rep.get('tier', tier), int(rep.get('seed', a.seed))
    ctx = core.Ctx(a.pid, tier, a.seed)
    try:
        core.import_cpppo()
        if rep is not None:
            print('REPLAY %s: %s' % (a.pid, rep.get('what') or rep.get('no_longer_checks')))
            print('  witness: %s' % json.dumps(rep.get('witness') or rep.get('notes'), default=str)[:1500])
        mod.run(ctx)
        rc = ctx.finish()
        if rep is not None:
            again = os.path.basename(a.replay) in [os.path.basename(p) for p in ctx.replay_paths]
            print('REPLAY %s' % ('reproduced' if again else ('not reproduced; the check %s' % ('still fails' if rc else 'passes'))))
            return 1 if again or rc else 0
        return rc
    except core.HarnessError as e:
        print('HARNESS-ERROR %s: %s' % (a.pid, e))
        if str(e).startswith(('cpppo imported', 'coq_makefile', 'model build', 'extraction failed', 'ocaml build', 'vmodel', 'forbidden constructs')):
            return 2                         # the machinery itself could not be built / run
        # a precondition the harness establishes by running the implementation (a fault-free baseline, the simulator starting up, ...)
        # does not hold: on the unchanged tree it does, so the property is no longer shown to hold for this tree
        ctx.unresolved('a baseline the check establishes by running the implementation failed', dict(message=str(e)[:1500]))
        ctx.coverage.setdefault('obligations', 0); ctx.coverage.setdefault('discharged', 0); ctx.coverage.setdefault('evaluations', 0)
        return ctx.finish()
    except Exception as e:
        # the implementation (or the harness driving it) raised where the unchanged tree does not: the
        # correspondence could not be evaluated, so the property is no longer shown to hold
        traceback.print_exc()
        ctx.unresolved('correspondence run aborted by an unexpected exception',
                       dict(exception=type(e).__name__, message=str(e)[:500], trace=traceback.format_exc()[-1500:]))
        ctx.coverage.setdefault('obligations', 0); ctx.coverage.setdefault('discharged', 0); ctx.coverage.setdefault('evaluations', 0)
        return ctx.finish()


def setup():
    bad = core.grep_gate()
    if bad:
        print('forbidden constructs: ' + '; '.join(bad)); return 2
    vos = [os.path.relpath(f, core.COQ)[:-2] + '.vo' for f in core.coq_sources()]
    rc, out, dt = core.coq_make(vos)
    print(out[-3000:])
    if rc != 0:
        print('SETUP: coq build failed'); return 2
    core.build_vmodel()
    print('SETUP ok (%.0fs)' % dt)
    return 0


if __name__ == '__main__':
    sys.exit(main())
