"""Shared runner machinery for the cpppo proof checks (see DESIGN.md section 2)."""
import hashlib, json, os, random, re, subprocess, sys, time, glob

VERIF = os.path.dirname(os.path.dirname(os.path.abspath(__file__)))
COQ = os.path.join(VERIF, 'coq')
BUILD = os.path.join(VERIF, 'build')
OCAML_SRC = os.path.join(VERIF, 'ocaml')
# The checks always verify /repo.  VERIF_ALT_TREE=<dir containing a `cpppo` checkout> is a development aid used only by
# tools/try_mutation_alt.sh to judge a seeded change in a scratch copy without touching /repo; no registered command sets it.
_ALT = os.environ.get('VERIF_ALT_TREE')
REPO = os.path.join(_ALT, 'cpppo') if _ALT else '/repo'
OUT = (os.environ.get('VERIF_OUT') if _ALT else None) or VERIF
NCPU = os.cpu_count() or 8

FORBIDDEN = re.compile(
    r'\b(Admitted|admit|Axiom|Axioms|Parameter|Parameters|Conjecture|Conjectures|Admit Obligations|'
    r'Unset Guard Checking|Unset Positivity Checking|Unset Universe Checking|bypass_check|'
    r'native_compute|type-in-type|impredicative-set)\b')


class HarnessError(Exception):
    pass


def sh(cmd, timeout=None, cwd=None, env=None, input=None):
    p = subprocess.run(cmd, shell=isinstance(cmd, str), cwd=cwd, env=env, input=input,
                       stdout=subprocess.PIPE, stderr=subprocess.STDOUT, timeout=timeout, text=True)
    return p.returncode, p.stdout


def import_cpppo():
    """Import the implementation from /repo's working tree (editable install) and assert it."""
    import cpppo
    f = os.path.realpath(cpppo.__file__)
    if not f.startswith(REPO + '/'):
        raise HarnessError('cpppo imported from %s, not from %s' % (f, REPO))
    return cpppo


def coq_sources():
    out = []
    for d in ('Base', 'Model', 'Proofs', 'Properties', 'Gen'):
        out += sorted(glob.glob(os.path.join(COQ, d, '**', '*.v'), recursive=True))
    return out


def grep_gate():
    bad = []
    for f in coq_sources() + glob.glob(os.path.join(COQ, 'Extract', '*.v')):
        txt = open(f).read()
        # strip comments (non-nested is enough for our sources)
        txt = re.sub(r'\(\*.*?\*\)', ' ', txt, flags=re.S)
        for m in FORBIDDEN.finditer(txt):
            bad.append('%s: %s' % (os.path.relpath(f, VERIF), m.group(0)))
    return bad


def _ensure_makefile():
    srcs = [os.path.relpath(f, COQ) for f in coq_sources()]
    listing = '\n'.join(srcs)
    stamp = os.path.join(COQ, '.sources.list')
    old = open(stamp).read() if os.path.exists(stamp) else None
    if old != listing or not os.path.exists(os.path.join(COQ, 'Makefile')):
        rc, out = sh(['coq_makefile', '-f', '_CoqProject'] + srcs + ['-o', 'Makefile'], cwd=COQ, timeout=120)
        if rc != 0:
            raise HarnessError('coq_makefile failed:\n' + out)
        open(stamp, 'w').write(listing)


def coq_make(targets, timeout=2400):
    """Full .vo build of the given targets (never -vos)."""
    _ensure_makefile()
    t0 = time.time()
    rc, out = sh(['timeout', str(timeout), 'make', '-j%d' % NCPU, '-k'] + list(targets), cwd=COQ, timeout=timeout + 30)
    return rc, out, time.time() - t0


def properties_file(pid):
    return os.path.join(COQ, 'Properties', pid + '.v')


def theorem_names(path):
    txt = open(path).read()
    txt = re.sub(r'\(\*.*?\*\)', ' ', txt, flags=re.S)
    return re.findall(r'^\s*(?:Theorem|Lemma|Corollary|Example)\s+([A-Za-z0-9_\']+)', txt, flags=re.M)


def compile_properties(pid, timeout=900):
    """(Re)compile Properties/<pid>.v, capturing Print Assumptions output.
    Returns dict(ok, names, discharged, assumptions{name: [axioms]}, log)."""
    path = properties_file(pid)
    names = theorem_names(path)
    vo = path[:-2] + '.vo'
    if os.path.exists(vo):
        os.remove(vo)
    rc, out, dt = coq_make([os.path.relpath(vo, COQ)], timeout=timeout)
    ok = rc == 0 and os.path.exists(vo)
    assumptions, cur = {}, None
    # Output of consecutive `Print Assumptions thm.`: either "Closed under the global context"
    # or "Axioms:" followed by lines; we emit a marker via the theorem order.
    blocks = re.split(r'(?m)^(?=Closed under the global context|Axioms:)', out)
    pa = [b for b in blocks if b.startswith('Closed under') or b.startswith('Axioms:')]
    txt = re.sub(r'\(\*.*?\*\)', ' ', open(path).read(), flags=re.S)
    printed = re.findall(r'Print Assumptions\s+([A-Za-z0-9_\'.]+)\s*\.', txt)
    for nm, b in zip(printed, pa):
        if b.startswith('Closed'):
            assumptions[nm] = []
        else:
            body = b[len('Axioms:'):]
            # stop at make noise
            body = re.split(r'(?m)^(COQC|make|File )', body)[0]
            axs = re.findall(r'(?m)^([A-Za-z_][A-Za-z0-9_\'.]*)\s*:', body)
            assumptions[nm] = axs
    failed = []
    if not ok:
        m = re.search(r'File "[^"]*Properties/%s\.v", line (\d+)' % pid, out)
        if m:
            line = int(m.group(1))
            src = open(path).read().split('\n')
            # theorems whose statement starts at/after the last theorem start <= line fail
            starts = [(i + 1, re.match(r'\s*(?:Theorem|Lemma|Corollary|Example)\s+([A-Za-z0-9_\']+)', l))
                      for i, l in enumerate(src)]
            starts = [(i, mm.group(1)) for i, mm in starts if mm]
            done = [n for i, n in starts if i <= line]
            failed = [done[-1]] if done else names[:1]
            discharged = max(0, len(done) - 1)
        else:
            failed = ['<dependency of Properties/%s.v>' % pid]
            discharged = 0
    else:
        discharged = len(names)
    return dict(ok=ok, names=names, discharged=discharged, assumptions=assumptions, failed=failed,
                log=out[-6000:], wall=dt)


def _hash_files(files):
    h = hashlib.sha256()
    for f in sorted(files):
        h.update(f.encode()); h.update(open(f, 'rb').read())
    return h.hexdigest()


def build_vmodel(timeout=900):
    """Extract the runnable models to OCaml and build build/ocaml/vmodel (cached by input hash)."""
    rc, out, _ = coq_make([os.path.relpath(f, COQ)[:-2] + '.vo' for f in glob.glob(os.path.join(COQ, 'Model', 'Run*.v'))],
                          timeout=timeout)
    if rc != 0:
        raise HarnessError('model build failed:\n' + out[-4000:])
    bdir = os.path.join(BUILD, 'ocaml')
    os.makedirs(bdir, exist_ok=True)
    inputs = glob.glob(os.path.join(COQ, 'Model', '*.v')) + glob.glob(os.path.join(COQ, 'Base', '*.v')) + \
        glob.glob(os.path.join(COQ, 'Gen', '*.v')) + \
        glob.glob(os.path.join(COQ, 'Extract', '*.v')) + glob.glob(os.path.join(OCAML_SRC, '*.ml'))
    hv = _hash_files(inputs)
    stamp = os.path.join(bdir, 'stamp')
    exe = os.path.join(bdir, 'vmodel')
    if os.path.exists(exe) and os.path.exists(stamp) and open(stamp).read() == hv:
        return exe
    rc, out = sh('coqc -Q %s CV -o %s/Extract.vo %s/Extract/Extract.v' % (COQ, bdir, COQ), cwd=bdir, timeout=timeout)
    if rc != 0:
        raise HarnessError('extraction failed:\n' + out[-4000:])
    for f in glob.glob(os.path.join(OCAML_SRC, '*.ml')):
        open(os.path.join(bdir, os.path.basename(f)), 'w').write(open(f).read())
    rc, out = sh('ocamlfind ocamlopt -w -a -package str model.mli model.ml dispatch.ml driver.ml -o vmodel',
                 cwd=bdir, timeout=timeout)
    if rc != 0:
        raise HarnessError('ocaml build failed:\n' + out[-4000:])
    open(stamp, 'w').write(hv)
    return exe


def run_model(name, cases, timeout=1800, shards=None):
    """cases: list of lists of ints.  Returns list of lists of ints (model outputs)."""
    exe = build_vmodel()
    if not cases:
        return []
    shards = shards or min(NCPU, max(1, len(cases) // 200))
    chunks = [cases[i::shards] for i in range(shards)]
    procs = []
    for ch in chunks:
        data = '\n'.join(name + ' ' + ' '.join(str(int(x)) for x in c) for c in ch) + '\n'
        p = subprocess.Popen([exe], stdin=subprocess.PIPE, stdout=subprocess.PIPE, stderr=subprocess.PIPE, text=True)
        procs.append((p, data))
    # feed concurrently via threads to avoid pipe deadlock
    import threading
    outs = [None] * len(procs)
    def work(i):
        p, data = procs[i]
        try:
            o, e = p.communicate(data, timeout=timeout)
        except subprocess.TimeoutExpired:
            p.kill(); o, e = '', 'timeout'
        outs[i] = (p.returncode, o, e)
    ths = [threading.Thread(target=work, args=(i,)) for i in range(len(procs))]
    [t.start() for t in ths]; [t.join() for t in ths]
    res = [None] * len(cases)
    for si, (rc, o, e) in enumerate(outs):
        if rc != 0:
            raise HarnessError('vmodel failed rc=%s: %s' % (rc, (e or '')[-2000:]))
        lines = o.split('\n')
        idxs = list(range(si, len(cases), shards))
        if len(lines) < len(idxs):
            raise HarnessError('vmodel returned %d lines for %d cases' % (len(lines), len(idxs)))
        for k, i in enumerate(idxs):
            res[i] = [int(t) for t in lines[k].split()]
    return res


# ---------------------------------------------------------------------------------------------

class Findings:
    def __init__(self):
        p = os.path.join(VERIF, 'known_findings.json')
        self.entries = json.load(open(p)) if os.path.exists(p) else []

    def known_for(self, pid):
        return [e for e in self.entries if e.get('property') == pid and e.get('status') == 'known']


class Ctx:
    """One run of one property's check."""

    def __init__(self, pid, tier, seed):
        self.pid, self.tier, self.seed = pid, tier, seed
        self.rng = random.Random(seed * 1000003 + int(pid[1:]))
        self.t0 = time.time()
        self.violations = []        # (replay dict, found_input: bool)
        self.replay_paths = []      # replay files written by finish()
        self.known_hits = []        # strings
        self.coverage = dict(obligations=0, discharged=0, checker_cmd='', trusted_base=[],
                             evaluations=0, distinct_nontrivial=0, rule='', samples=[])
        self.assumptions = []
        self.findings = Findings()
        self.proof = None
        self.broken = []            # names of theorems / correspondences that no longer check
        self.notes = []

    thorough = property(lambda self: self.tier == 'thorough')

    # -- proof side --------------------------------------------------------------------------
    def prove(self):
        bad = grep_gate()
        if bad:
            raise HarnessError('forbidden constructs in coq/: ' + '; '.join(bad))
        r = compile_properties(self.pid)
        self.proof = r
        cov = self.coverage
        cov['obligations'] = len(r['names'])
        cov['discharged'] = r['discharged']
        cov['theorems'] = r['names']
        cov['checker_cmd'] = 'make -C /verif/coq Properties/%s.vo  (coqc 8.16.1 full .vo build; Print Assumptions per theorem)' % self.pid
        axs = sorted({a for v in r['assumptions'].values() for a in v})
        cov['print_assumptions'] = {k: (v or 'Closed under the global context') for k, v in r['assumptions'].items()}
        cov['trusted_base'] = ['Coq 8.16.1 kernel (coqc) incl. vm_compute; no native_compute',
                               'axioms reported by Print Assumptions: ' + (', '.join(axs) if axs else 'none (closed under the global context)'),
                               'extraction: ExtrOcamlBasic directives only; ocaml/driver.ml decimal<->Z glue',
                               'hand-written model tied to /repo by the correspondence run below']
        if not r['ok']:
            for n in r['failed']:
                self.broken.append('theorem ' + n)
            self.notes.append('proof build failed: ' + r['log'][-1500:])
        return r['ok']

    # -- reporting -----------------------------------------------------------------------------
    def sample(self, s, cap=6):
        if len(self.coverage['samples']) < cap:
            self.coverage['samples'].append(s)

    def violation(self, witness, what, known_key=None):
        """A concrete failing input was found on the implementation."""
        for e in self.findings.known_for(self.pid):
            if known_key is not None and e.get('key') == known_key:
                msg = 'KNOWN-FINDING: property=%s %s' % (self.pid, e.get('what_fails', what))
                if msg not in self.known_hits:
                    self.known_hits.append(msg)
                return False
        self.violations.append((dict(witness=witness, what=what), True))
        return True

    def unresolved(self, name, detail=None):
        """A theorem or correspondence no longer checks."""
        self.broken.append(name)
        if detail is not None:
            self.notes.append('%s: %s' % (name, json.dumps(detail, default=str)[:3000]))

    def finish(self):
        os.makedirs(os.path.join(OUT, 'replays'), exist_ok=True)
        os.makedirs(os.path.join(OUT, 'evidence'), exist_ok=True)
        lines = []
        for rep, found in self.violations:
            body = dict(property=self.pid, tier=self.tier, seed=self.seed, kind='failing-input', broken=self.broken,
                        replay_cmd='./check %s --replay <this file>' % self.pid, **rep)
            h = hashlib.sha1(json.dumps(body, sort_keys=True, default=str).encode()).hexdigest()[:12]
            path = os.path.join(OUT, 'replays', '%s-%s.json' % (self.pid, h))
            json.dump(body, open(path, 'w'), indent=1, default=str)
            lines.append('VIOLATION property=%s replay=%s' % (self.pid, path)); self.replay_paths.append(path)
        if self.broken and not self.violations:
            body = dict(property=self.pid, tier=self.tier, seed=self.seed, kind='no-failing-input-found',
                        no_longer_checks=self.broken, notes=self.notes)
            h = hashlib.sha1(json.dumps(body, sort_keys=True, default=str).encode()).hexdigest()[:12]
            path = os.path.join(OUT, 'replays', '%s-%s.json' % (self.pid, h))
            json.dump(body, open(path, 'w'), indent=1, default=str)
            lines.append('VIOLATION property=%s replay=%s no-failing-input-found' % (self.pid, path)); self.replay_paths.append(path)
        cov = self.coverage
        cov['known_findings_matched'] = self.known_hits
        cov['no_longer_checks'] = self.broken
        if self.notes:
            cov['notes'] = self.notes[:20]
        ev = dict(property_id=self.pid, tier=self.tier, seed=self.seed, level='proof', coverage=cov,
                  assumptions=self.assumptions, wall_s=round(time.time() - self.t0, 2),
                  violations=len(lines))
        json.dump(ev, open(os.path.join(OUT, 'evidence', self.pid + '.json'), 'w'), indent=1, default=str)
        for m in self.known_hits:
            print(m)
        for l in lines:
            print(l)
        print('%s %s tier=%s seed=%d obligations=%d discharged=%d evaluations=%d wall=%.1fs' % (
            self.pid, 'FAIL' if lines else 'ok', self.tier, self.seed, cov['obligations'], cov['discharged'],
            cov['evaluations'], time.time() - self.t0))
        sys.stdout.flush()
        return 1 if lines else 0
