#!/usr/bin/env python3
"""Regenerates MANIFEST.json from the table below (keeps it valid at all times)."""
import json, os
HERE = os.path.dirname(os.path.abspath(__file__))
LOGIX_NOTE = "Trusted: Coq kernel; extraction (ExtrOcamlBasic) + OCaml driver; the hand-written model Model/Logix.v (exec/produce) is tied to /repo only by the differential run: same configurations and request histories (each request as wire bytes through Logix.produce and the Message Router's own parser) through the in-process Message Router object and through the extracted model, compared on reply bytes and a hash of the whole tag-store image after every request, full image at the end.  Scalar CIP types only; requests are dotdicts (wire parsing is C01's business)."
CLAIMED = {
 'C19': dict(
   text='Coq theorems (Properties/C19.v, closed under the global context) over an executable model of shatter/merge: for every '
        'non-empty set of in-bank ranges with counts>=1, any reach>=0 and limit, the output is a sorted disjoint chain, in-bank, '
        'within the applicable limit, covers every requested register and nothing beyond reach; shatter tiles exactly.  The model is '
        'tied to /repo by differential execution on an exhaustive small scope (all 1-2 range multisets over two bank edges x reach x limit) '
        'plus seeded random lists; the implementation output is also judged directly against the property to produce replays.',
   note='Trusted: Coq kernel; extraction (ExtrOcamlBasic) + 60-line OCaml driver; the hand-written model Model/Plc.v agrees with the '
        'Python outside the explored inputs only by the argument that both are the same 20-line loop; sorted() = lexicographic order.',
   technique='Coq proof (induction over the sorted sweep with a chain/tiles invariant) + model/implementation correspondence',
   design='6 C19'),

 'C03': dict(
   text='Coq theorems (Properties/C03.v) over the executable tag-store model: every request changes exactly the elements of its accepted write window to exactly '
        'the written values (pointwise frame theorem), over any history an element holds the value of the last accepted covering write or its initial value, a '
        'successful read returns the current window with the tag\'s own type and status 0/6 as the window reaches the requested end, store shape is invariant, '
        'symbolic and numeric views coincide, pack/unpack round trip.  Tie: correspondence on random configurations x histories; an independent array spec '
        'judges the implementation directly.',
   note=LOGIX_NOTE, technique='Coq proof (pointwise effect + induction over histories) + model/implementation correspondence', design='6 C03'),
 'C04': dict(
   text='Coq theorems (Properties/C04.v): for every tag, start, count and byte budget the Read Tag Fragmented walk (offset advanced by bytes received) terminates in '
        'ceil(n/ceil(budget/size)) fragments with statuses 06..06 00, each of 1..ceil(budget/size) whole elements, concatenating to exactly the requested elements; '
        'Write Tag Fragmented pieces whose offsets tile a range store exactly the concatenation there and nothing else.  Tie: correspondence on an exhaustive grid of '
        'type x length x budget x (start,count) plus an adaptive client walk on the implementation.',
   note=LOGIX_NOTE, technique='Coq proof (induction on the fragment walk over the reply_elements arithmetic) + correspondence', design='6 C04'),
 'C05': dict(
   text='Coq theorems (Properties/C05.v): every refused request leaves the store unchanged; writes are refused exactly with 0x05/[0], 0xFF/[0x2107], 0xFF/[0x2105] for '
        'unknown tag, unacceptable type/value, window outside the tag; Set Attribute Single replaces the whole attribute or fails; the invariant "every stored value '
        'packs in its tag\'s type" is preserved by every request and implies every reply can be produced.  The behaviour of the originally pinned tree is refuted by '
        'two computed witnesses (UDINT 0xFFFFFFFF into DINT; Set Attribute Single @0x77/1/1 overwriting the first tag) - both repaired by fix: commits.',
   note=LOGIX_NOTE, technique='Coq proof (case analysis of exec_write/exec_set, invariant preservation) + refutation witnesses by vm_compute + correspondence', design='6 C05'),
 'C07': dict(
   text='Coq theorems (Properties/C07.v): on a well-formed readable store a Multiple Service Packet yields exactly the replies and final store of its members executed '
        'one by one in order; a refused member changes nothing and leaves its neighbours\' replies as if absent; bundle reply bytes = header, count, offsets, members, '
        'offset i = 2+2N+sum of earlier lengths.  Tie: correspondence on histories of bundles; oracle = same members bundled vs singly on two identical simulators, and the client half (connector.collect) on the bundle reply vs the members\' replies one per frame.',
   note=LOGIX_NOTE, technique='Coq proof (induction over the member list with readable/well-formed invariants) + correspondence', design='6 C07'),

 'C20': dict(
   text='Coq theorems (Properties/C20.v): for every value (any nesting, any payload bytes incl. delimiter/length look-alikes) and any following bytes, '
        'parse(dump v ++ tail) = (v, tail); the streaming machine fed dump v ++ tail in any chunking stops exactly at the end of the message with its payload and '
        'type, converting to v for the supported types; the receive loop tnet_from is chunking-independent and yields every message of a separator-delimited '
        'stream in order.  Tie: correspondence of tnetstrings.dump/parse, tnet_machine and tnet_from (fake chunked connection; also with a receive timeout expiring before every chunk) with the extracted model.',
   note='Trusted: Coq kernel; extraction + OCaml driver; hand-written models of tnetstrings and of the 4-state tnet machine / receive loop (not the generic automata '
        'engine) tied by differential runs; floats carried as their str() text (float(str(f))==f checked on samples); only integer spellings dump produces.',
   technique='Coq proof (nested induction over values; phase lemmas for the streaming machine) + correspondence', design='6 C20'),

 'C15': dict(
   text='Coq theorems (Properties/C15.v): the accept decision is true for every route path when unconfigured; for a simple device iff the request has no '
        '(or an empty) route path; for a configured path c iff absent/empty/exactly c; a refused request yields encapsulation status 0x08 with the store '
        'untouched and the request never executed, an accepted one is executed exactly as Model.Logix.exec; printing a well-formed route path and parsing '
        'the text yields the same segments.  Tie: correspondence with complete SendRRData frames through logix.process under a UCMM subclass per personality '
        '(all personalities x request paths x services in thorough, incl. address-string links that merely spell the configured number: C15_link_kind), cpppo\'s own client against a simulator configured --route-path 1/0, and parse_route_path on text/JSON.',
   note='Trusted: Coq kernel; extraction + driver; hand-written Model/Route.v tied by the differential run; request frames are built with cpppo\'s own producers; '
        'remote routing (UCMM.route table) not modelled; IPv4 dotted quads only.',
   technique='Coq proof (decision procedure equivalences, text round trip by induction) + exhaustive correspondence on the personality x path grid', design='6 C15'),

 'C16': dict(
   text='Coq theorems (Properties/C16.v) over a string-level transcription of dotdict: canonical paths split into first component and rest; "a.b..c" '
        'resolves as "a.c"; after a successful assignment by any canonical path lookup returns the value; paths through another first component are untouched '
        '(even when the assignment fails midway); membership = lookup success; iteration lists canonical leaf paths and each looks up to the listed value; deleting '
        'a non-empty level and reserved names (final and interior) are refused; the pinned tree accepted "m.items.c" (witness, repaired by a fix: commit).  '
        'Tie: _resolve exhaustively on all strings up to length 6 (thorough 8) over {a,b,.,[,]} and seeded operation sequences incl. name[i] lists of mappings.',
   note='Trusted: Coq kernel; extraction + driver; hand-written Model/Dotdict.v tied by the differential run; index expressions other than name[<digits>] and '
        'object aliasing ("copies are structurally independent") are outside the model - aliasing is checked on the implementation only.',
   technique='Coq proof (string lemmas for _resolve, induction over path components / tree depth) + exhaustive and random correspondence', design='6 C16'),

 'C01': dict(
   text='A reference EtherNet/IP CIP codec is assembled in Coq from verified format combinators (Base/Fmt.v): every format carries its encoder, strict decoder and '
        'the proofs dec(enc m ++ tl) = (m, tl) and dec bs = (m, tl) -> bs = enc m ++ tl; Properties/C01.v projects them for the whole frame (header, commands, CPF '
        'items, Unconnected Send, every Logix-dialect request/reply, Multiple Service Packet with its offset table), Connection Manager services, EPATH / route '
        'path, status, typed data, scalars, strings, and proves the NCP encode/decode round trip.  Tie: for generated messages cpppo produce must equal the '
        'reference encoder and cpppo parse must recover the reference decoder\'s fields; parse(produce(m)) = m is judged on the implementation alone.',
   note='Trusted: Coq kernel; extraction + driver; Python adapters dotdict<->AST (props/codec_common.py); the reference codec is written from the layout tables and shares '
        'no code with cpppo.  Not modelled: identity/communications item contents, STRUCT/UDT data, generic service codes, zero-element payloads (cpppo cannot parse them).',
   technique='Coq proof by construction (verified parser/printer combinators) + model/implementation correspondence', design='6 C01'),
 'C11': dict(
   text='Coq theorems (Properties/C11.v) over a reference semantics that shares nothing with cpppo or greenery: Brzozowski derivatives are proved to compute the '
        'standard inductive language semantics (nullable, derivative, non-emptiness), and the reference run is proved to split every input into the longest prefix '
        'all of whose non-empty prefixes can still be extended to a sentence and the untouched rest, accepting iff that prefix is non-empty and a sentence.  Tie: '
        'every expression up to an operator bound over {a,b,.,[ab],[^a],[^ab]} with * + ? {m,n} | on every string up to a length bound through cpppo.regex, and '
        'bytes machines (whole and at every 2-way chunking), compared with the extracted reference; a sample of the same machine graphs is run through the '
        'engine interpreter model (Model/Engine.v).',
   note='Trusted: Coq kernel; extraction + driver; printer from the expression AST to regex text (props/c11.py).  greenery (regex -> DFA) is third-party and is exercised, '
        'not verified.  Three recorded known findings: bytes machines are not faithful on multi-byte *input* symbols (lead byte consumed then NonTerminal; "." and '
        'negated classes match one byte); greenery 2.1 reduces (XX+)? / (X{n,})? with n>=2 / (XX+)* to X*, so those machines accept a single X.  The quick tier samples expressions/strings, the thorough tier is exhaustive up to the stated bounds.',
   technique='Coq proof (derivatives = standard semantics; longest-viable-prefix run) + exhaustive small-scope correspondence', design='6 C11'),
 'C10': dict(
   text='Coq theorems (Properties/C10.v) over an interpreter for the automata engine (Model/Engine.v: state.run / transition / __getitem__ order, limit -> absolute '
        'ending, dfa delegate with repeat cycles and stasis, struct decode) and over the input sources (Model/Source.v: peeking / chaining): for every machine graph, '
        'state, data and input a state that completes has sent <= every enclosing ending and <= the point where its limit was resolved + limit; a limited parser consumed '
        'a prefix no longer than the limit, counted exactly that prefix and left the rest in order; an ending only shrinks; once limited only the no-input edge is followed; '
        'a dfa that ends terminal ran exactly `repeat` initial-->terminal cycles and a cycle stalling non-terminal fails the parse; for every legitimate history of '
        'next/push/peek/chain, taken ++ remaining = everything supplied and sent = |taken| (and sent + |remaining| is conserved for any history).  Tie: live machine graphs '
        'are dumped and run through the extracted interpreter against machine.run() (limits 0..5 around 8 leaf parsers, length/count-prefixed bodies, regex repeats, '
        'all inputs over {a,b} up to length 5); random op sequences on the real source classes; 13 library parsers (decide edges and callable limits answered by oracle '
        'tapes recorded from the implementation) through the interpreter and under a run/delegate monitor with a byte-level framing oracle.',
   note='Trusted: Coq kernel; extraction + driver; the graph dumper (props/engine_common.py); decide predicates and callable limits are external calls whose outcomes are recorded from the '
        'implementation\'s run (oracle tapes; theorems hold for every tape); move_if data effects are not modelled (data of such machines not compared); the dumper refuses '
        'recognizers, tuple symbols, unknown process/terminate overrides; the monitor (sent <= resolved ending, ending never relaxed, sent = pulled - held) and framing '
        'predicted from the raw bytes judge the implementation independently.  Complete inputs only; fresh '
        'machines (cpppo dfas keep cycle/final from an earlier run, which leaks into .terminal for repeat=0 over a nested dfa - described in DESIGN.md).',
   technique='Coq proof (induction over interpreter fuel / operation histories) + model/implementation correspondence + runtime monitor', design='6 C10'),
 'C02': dict(
   text='Coq theorems (Properties/C02.v) over the incremental framer (Model/Framing.v): feeding any sequence of received blocks equals framing the uncut stream; '
        'everything emitted is a frame of exactly 24 + declared bytes and frames + unfinished remainder tile the stream; conversely any sequence of well-formed '
        'frames, whatever their contents or what follows, is divided into exactly those frames; a stream ending after n bytes yields exactly the frames whose final '
        'byte was delivered (a prefix of the full sequence; the next frame ends beyond n); for every request processor the session loop has the same effects and '
        'replies for the same delivered bytes and never hands an unfinished frame to the processor.  Tie: the real enip_srv_tcp loop with the real logix.process on a '
        'scripted connection (every two-way split, byte-at-a-time, random k-way, every truncation offset; tags read back over a second session), client.__next__ on '
        'scripted recvfrom with the genuine reply streams, the dumped enip_machine graph through the engine interpreter, and three cuts against a real TCP listener.',
   note='Trusted: Coq kernel; extraction + driver; recv()/recvfrom boundaries are scripted by replacing network.recv / client.recvfrom from outside (no source hooks); '
        'bytes are modelled as non-negative integers; kernel socket behaviour, threads and the accept loop are exercised only by the TCP smoke run (not modelled).',
   technique='Coq proof (fold/append lemmas, invariant of the byte-step framer, exactness by induction over frames) + model/implementation correspondence', design='6 C02'),
 'C17': dict(
   text='Coq theorems (Properties/C17.v) over an exact-arithmetic model (Model/Times.v): for every instant (any rational, hence any float), precision and zone table, '
        'the wall-clock fields + fraction that render produces parse back - with no DST designation or with the rendered one - to the rendered instant or are refused, '
        'never to another instant; unambiguous readings are accepted, a DST/non-DST overlap is refused without designation and resolved with it; the calendar maps '
        'every day number in Z to a valid date that maps back (one 400-year era by kernel computation, the rest by periodicity); a < b under the 1 ms epsilon implies '
        'the millisecond renderings are strictly ordered and equal renderings compare equal; rounding is to nearest (carries into the next second); every duration '
        '(seconds >= 0, microseconds) formats to components that parse back to it.  Tie: timestamp.render / timestamp(text) / comparisons / duration str+parse / '
        'parse_seconds against the extracted model around daylight-saving transitions of tz-database zones, rounding fractions and millisecond-apart pairs.',
   note='Trusted: Coq kernel (era check via vm_cast_no_check => the VM is in the base for C17_calendar / C17_render_parse); extraction + driver; floats enter as exact rationals; '
        'independent TZif reader for the zone files zoneinfo uses, instants 1971..2036; text <-> numeric fields by the harness regex.  DST abbreviations (MST/MDT) cannot be run '
        'against the implementation here (support_abbreviations needs classic pytz; the environment has the zoneinfo shim): those theorems stand on the model alone.',
   technique='Coq proof (nia bounds for round-half-even, periodicity + computed era for the calendar, list induction for zones, digit lemmas for durations) + correspondence', design='6 C17'),
 'C18': dict(
   text='Coq theorems (Properties/C18.v) over a model of reader.open (file selection, pacing) and loader.load (all seven states, _strict release rule, future queue, limit): '
        'for EVERY history, look-ahead, limit and schedule of load() calls the delivered records are in timestamp order, each is a logged record with its logged values, none '
        'is delivered before clock + look-ahead reaches it, and on COMPLETE the register map is the fold of the delivered records; the switching / initial file selection is '
        'characterised.  The "exactly once" clause is machine-refuted on the faithful model by three witnesses (re-delivery of an equal-timestamp file reached from AWAITING; a '
        'newer file starting at the all-equal timestamp of the previous one skipped; endless re-opening after trailing non-data records) - each reproduced on cpppo and recorded '
        'as a known finding.  Tie: generated histories written to real rotated plain/gz/bz2 files and replayed by the live loader under a frozen clock, every load() compared '
        '(state, events, final map) with the extracted model; the property judged on the implementation by an independent oracle.',
   note='Trusted: Coq kernel; extraction + driver; frozen clock via files.timer/times.timer replaced from outside; factor 1, no duration/upcoming, default on_bad_* flags; '
        'timestamps multiples of 10 ms.  Partial: a positive exactly-once theorem (C18_exactly_once_partial) is proved for well-behaved histories (>= 2 strictly increasing register records per file, files strictly ordered) replayed from before their start with one catching-up load; other schedules rest on the universal guarantees and the correspondence; the check reports any violation outside the three recorded shapes.',
   technique='Coq proof (invariant over the loader state machine, induction over fuel and schedule; vm_compute refutation witnesses) + correspondence', design='6 C18'),
 'C06': dict(
   text='Coq theorems (Properties/C06.v) over a session model (Model/Session.v: Register / Unregister / List* / SendRRData, the CIP request executed by Model.Route.ucmm_local = '
        'Model.Logix.exec behind the route-path filter): for every request sequence, personality and store the reply frames are aligned one-to-one and in order with the requests '
        'until the session ends; each carries its request\'s command, sender context, options and session handle (Register: a new non-zero one); a SendRRData reply has status 0 and a '
        'CIP reply whose service code is the request\'s with the reply bit set, or a non-zero status, no payload, and nothing after it; Unregister is answered by nothing; while nothing '
        'ends the session every request is answered.  Independence of pipelining/chunking is C02.  Tie: generated sessions through the real enip_srv_tcp + logix.process as one block '
        'and frame by frame (also after an aborted session from the same peer), replies compared field by field with the extracted model; one routed scenario over real sockets.',
   note='Trusted: Coq kernel; extraction + driver; cpppo\'s own producer renders the typed requests to frames (their byte layout is C01); session handles are random (oracle function in '
        'the model, only non-zero-ness compared); Forward Open / connected sends not in this check; remote routes only in the timing-dependent socket scenario (not modelled).',
   technique='Coq proof (induction over the request sequence; service-bit lemma over Model.Logix.exec) + model/implementation correspondence', design='6 C06'),
 'C08': dict(
   text='Coq theorems (Properties/C08.v): a tag store changes only through a write / set service that is acknowledged (every refusal, every read, every bundle without such a member '
        'leaves it unchanged); a frame is handed to the request processor only when its final byte has arrived (any processor, any chunking); a corrupt inner length cannot make a '
        'nested parser complete beyond its limit; the reference decoder used as oracle accepts exactly the well-formed encodings; within one sub-machine cycle the visited '
        '(target, next symbol, position) triples are pairwise distinct, so the cycle ends within |U|+1 iterations and never runs out of fuel.  Observation (runtime): hostile streams '
        '(random bytes; bit flips, insertions, deletions, truncations, inconsistent length/count/offset fields at every nesting level, cut frames and cut bundle members of valid '
        'sessions) through the real enip_srv_tcp + logix.process under a 4 s guard: return in time, reply-or-close, no per-connection state left, second session served, tags '
        'changed only as the complete well-formed write requests in the stream (reference decoder: Model.Framing + Model.Codec) change them; 5 streams against a real TCP listener.',
   note='PARTIAL by nature: hang-freedom, exception containment and liveness are runtime behaviour the Coq models (total functions) cannot exhibit; they are observed, not proved. '
        'Trusted: Coq kernel; extraction + driver; the time guard; the tolerant reading that a write REQUEST which is complete and well-formed on its own counts even when the '
        'enclosing frame has trailing bytes or a later bundle member is malformed (cpppo executes exactly those; documented in DESIGN.md).',
   technique='Coq proof (store-change lemmas over Model.Logix, pigeonhole bound on the cycle crumbs, reuse of C01/C02/C10 theorems) + guarded structure-aware fuzzing against the reference decoder', design='6 C08'),
 'C12': dict(
   text='Coq theorems (Properties/C12.v): for every operation list and bundle size limit the bundling plan of connector.issue issues every operation exactly once and in order, never '
        'produces an empty bundle and never mixes operations with different route or send paths; executing operations group by group - however grouped - yields the statuses, values '
        'and final tags of executing them one by one, and a Multiple Service Packet executes exactly like that; for every pipelining depth every issued operation is harvested '
        'exactly once in issue order; every well-formed operation description (TAG, [i], [a-b], +offset, =(TYPE)values) parses back to the operation it spells.  Tie: the real '
        'client.connector against a simulator subprocess, wire requests intercepted from outside: bundles sent = extracted plan, issue/harvest interleaving = extracted schedule; '
        'and on the implementation: one result per operation, identical statuses/values under every (depth, multiple, fragment) setting, each bundle on its operations\' route path; '
        'parse_operations / parse_path / format_path on generated descriptions.',
   note='Trusted: Coq kernel; extraction + driver; the size estimates that drive bundling are re-stated in the harness from issue()\'s documentation; results are compared across settings '
        'on the implementation (their agreement with the array model is C03-C07); numeric @class/instance/attribute and JSON path text are checked on the implementation only.',
   technique='Coq proof (induction over the operation list / schedule fuel; separator-freeness lemmas for the text round trip) + model/implementation correspondence', design='6 C12'),
 'C13': dict(
   text='Coq theorems (Properties/C13.v) over the reply-matching model (Model/Harvest.v) and the framing model: whatever replies arrive and however the stream ends, every result '
        'yielded pairs an operation with a reply carrying that operation\'s own sender context and service (reply bit set), results are the first k operations in order with the '
        'first k replies; a result stream that ends normally is complete (never silently fewer results); a stream ending inside a frame with replies owed raises; a stream cut '
        'after n bytes completes exactly the frames whose final byte was delivered.  The pre-fix behaviour of synchronous is kept as a machine-checked witness.  Observation: a '
        'simulator behind a fault-injecting relay on real sockets; cuts / silences over the reply stream (all frame boundaries, neighbours, every 9th / every offset) for '
        'connector.pipeline (bundled and not), connector.operate(depth=0) and proxy.read (+ discard and reconnect); result counts compared with the models\' prediction.',
   note='PARTIAL: socket errors, timeouts and reconnection are runtime behaviour observed through the relay (server->client cuts and silences only; no client->server cuts, no '
        'kernel resets); the theorems carry the matching logic.  Trusted: Coq kernel; extraction + driver; 1 s client timeout on localhost.',
   technique='Coq proof (induction over the issued operations) + fault-injection against the live client compared with the extracted models', design='6 C13'),
 'C14': dict(
   text='Coq theorems (Properties/C14.v): requests carried over Forward Open connections are answered with exactly the CIP replies, and leave exactly the tags, of the same requests '
        'issued unconnected (the array model of C03-C05), whatever opens / closes, connection ids and sequence counts are interleaved; every connected reply echoes its request\'s '
        'sequence count, and that count survives the wire for every value 0..65535; Forward Close removes exactly that connection and touches no tag; the reference codec the raw '
        'client is assembled from (Connection Manager services, frames with connection_ID / connection_data items) decodes only what it encodes.  Observation: pylogix 1.1.6 against '
        'a live simulator (register, Forward Open, read / write / large and exact-fit array reads / multi-reads / out-of-range / unknown tags against a plain array model, with the '
        'connection sequence counter carried across 0x8000 and the 16-bit wrap) and a raw client built from the extracted reference encoder/decoder (Register, Forward Open, '
        'connected reads/writes at boundary sequence counts, Forward Close, Unregister); finally each client re-reads what the other wrote.',
   note='PARTIAL by nature: interoperation of two programs over TCP is observed, not proved; the theorems carry the connected-session logic and the codec.  Trusted: Coq kernel; '
        'extraction + driver; pylogix as installed; its status strings are taken as the documented statuses; UDT / STRING tags and pylogix tag-list services are not exercised.',
   technique='Coq proof (induction over connected histories; verified codec fields) + differential runs of two independent clients against the live simulator', design='6 C14'),
 'C09': dict(
   text='Coq theorems (Properties/C09.v): for every interleaving of closure registrations and parser exits - threads acting while another thread\'s closure runs included - every '
        'post-processing closure of dfa_post is run by the thread that registered it and the per-thread lists stay separate; a refused request or a read never changes the array; '
        'under every schedule of any number of sessions whose requests are atomic steps, whole-range writes of one repeated value are only ever observed whole (no torn reads).  '
        'Tie / observation: the real dfa_post driven through generated interleavings with thread identity injected from outside (log compared with the extracted model); element '
        'ranges stored / fetched by exactly one slice operation on a recording backing list, array state compared with the model; a live simulator with switch interval 1e-5 s and '
        '4-6 simultaneous sessions (bundled / pipelined private and shared traffic): own replies only, read-your-writes, no torn or invented values.',
   note='PARTIAL by nature: thread scheduling, the GIL and lock order are the runtime\'s; a theorem cannot exhibit a race.  The models state what must hold under every schedule, the '
        'harness chooses interleavings at the granularity of dfa_post calls / closure bodies and samples finer ones by stress.  Trusted: Coq kernel; extraction + driver; '
        'atomicity of a single list slice operation under CPython\'s GIL.',
   technique='Coq proof (invariant over event trees; induction over schedules) + deterministic interleaving replay of the real objects + live multi-session stress', design='6 C09'),
}
PENDING = {}
ALL = ['C%02d' % i for i in range(1, 21)]

def main():
    checks = []
    for pid in ALL:
        if pid not in CLAIMED: continue
        c = CLAIMED[pid]
        checks.append(dict(property_id=pid, quick_cmd='./check %s --tier quick' % pid,
                           thorough_cmd='./check %s --tier thorough' % pid,
                           evidence_file='/verif/evidence/%s.json' % pid,
                           replay_cmd_template='./check %s --replay {path}' % pid,
                           engine='coq-proof+correspondence',
                           level_claimed=dict(category='proof', text=c['text'], design_ref='DESIGN.md section ' + c['design']),
                           level_note=c['note'], technique=c['technique']))
    na = [dict(property_id=p, reason=PENDING.get(p, 'not claimed yet: model/theorems for this property are not built in this revision of /verif (see DESIGN.md section 9 build order)'))
          for p in ALL if p not in CLAIMED]
    m = dict(version=1, setup_cmd='./check setup',
             hooks=dict(guard='PJKUNDERT_CPPPO_VERIF', enable='no source hooks are needed: checks import /repo live and instrument from outside',
                        baseline_off_cmd='cd /repo && /venv/bin/python -m pytest -ra -q -p no:cacheprovider --timeout=900 --continue-on-collection-errors',
                        source_commits=[], add_only=True),
             engines=[dict(name='coq-proof+correspondence', path='/verif/check', serves_properties=sorted(CLAIMED),
                           kind_free_text='Coq 8.16.1 theorems over executable Gallina models (coq/), models extracted to OCaml (build/ocaml/vmodel) and run '
                                          'against the live /repo implementation on generated cases (props/*.py)')],
             checks=checks, not_applicable=na,
             notes='See DESIGN.md.  known_findings.json lists recorded/fixed defects.  All checks: ./check <id> --tier quick|thorough.')
    json.dump(m, open(os.path.join(HERE, 'MANIFEST.json'), 'w'), indent=1)

if __name__ == '__main__':
    main()
