#!/usr/bin/env python3
"""Regenerates MANIFEST.json from the table below (keeps it valid at all times)."""
import json, os
HERE = os.path.dirname(os.path.abspath(__file__))
CLAIMED = {
 'C19': dict(
   text='Coq theorems (Properties/C19.v, closed under the global context) over an executable model of shatter/merge: for every '
        'non-empty set of in-bank ranges with counts>=1, any reach>=0 and limit, the output is a sorted disjoint chain, in-bank, '
        'within the applicable limit, covers every requested register and nothing beyond reach; shatter tiles exactly.  The model is '
        'tied to /repo by differential execution on an exhaustive small scope (all 1-2 range multisets over two bank edges x reach x limit) '
        'plus seeded random lists; the implementation output is also judged directly against the property to produce replays.',
   note='Trusted: Coq kernel; extraction (ExtrOcamlBasic) + 60-line OCaml driver; the hand-written model Model/Plc.v agrees with the '
        'Python outside the explored inputs only by the argument that both are the same 20-line loop; sorted() = lexicographic order.',
   technique='Coq proof (induction over the sorted sweep with a chain/tiles invariant) + model/implementation correspondence',
   design='6 C19'),
}
PENDING = {}
ALL = ['C%02d' % i for i in range(1, 21)]

def main():
    checks = []
    for pid in ALL:
        if pid not in CLAIMED: continue
        c = CLAIMED[pid]
        checks.append(dict(property_id=pid, quick_cmd='./check %s --tier quick' % pid,
                           thorough_cmd='./check %s --tier thorough' % pid,
                           evidence_file='/verif/evidence/%s.json' % pid,
                           replay_cmd_template='./check %s --replay {path}' % pid,
                           engine='coq-proof+correspondence',
                           level_claimed=dict(category='proof', text=c['text'], design_ref='DESIGN.md section ' + c['design']),
                           level_note=c['note'], technique=c['technique']))
    na = [dict(property_id=p, reason=PENDING.get(p, 'not claimed yet: model/theorems for this property are not built in this revision of /verif (see DESIGN.md section 9 build order)'))
          for p in ALL if p not in CLAIMED]
    m = dict(version=1, setup_cmd='./check setup',
             hooks=dict(guard='PJKUNDERT_CPPPO_VERIF', enable='no source hooks are needed: checks import /repo live and instrument from outside',
                        baseline_off_cmd='cd /repo && /venv/bin/python -m pytest -ra -q -p no:cacheprovider --timeout=900 --continue-on-collection-errors',
                        source_commits=[], add_only=True),
             engines=[dict(name='coq-proof+correspondence', path='/verif/check', serves_properties=sorted(CLAIMED),
                           kind_free_text='Coq 8.16.1 theorems over executable Gallina models (coq/), models extracted to OCaml (build/ocaml/vmodel) and run '
                                          'against the live /repo implementation on generated cases (props/*.py)')],
             checks=checks, not_applicable=na,
             notes='See DESIGN.md.  known_findings.json lists recorded/fixed defects.  All checks: ./check <id> --tier quick|thorough.')
    json.dump(m, open(os.path.join(HERE, 'MANIFEST.json'), 'w'), indent=1)

if __name__ == '__main__':
    main()
