#!/bin/bash
# tools/round3.sh <Cxx> -- store the round-4 changes of a property as seeded/Cxx/m7,m8 and judge them
ID=$1
for k in 1 2; do src=/tmp/mut4/$ID/m$k; dst=/verif/seeded/$ID/m$((k+6)); [ -f $src/patch.diff ] && mkdir -p $dst && cp $src/patch.diff $src/demo.py $src/notes.md $dst/; done
( /verif/tools/one_mutation_alt.sh $ID m7 & /verif/tools/one_mutation_alt.sh $ID m8 & wait )
