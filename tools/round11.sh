#!/bin/bash
# tools/round11.sh <Cxx> -- store the round-11 change of a property as seeded/Cxx/m15 and judge it
ID=$1
src=/tmp/mut11/$ID/m1; dst=/verif/seeded/$ID/m15; [ -f $src/patch.diff ] && mkdir -p $dst && cp $src/patch.diff $src/demo.py $src/notes.md $dst/
/verif/tools/one_mutation_alt.sh $ID m15
