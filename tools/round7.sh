#!/bin/bash
# tools/round7.sh <Cxx> -- store the round-7 change of a property as seeded/Cxx/m13 and judge it
ID=$1
src=/tmp/mut7/$ID/m1; dst=/verif/seeded/$ID/m13; [ -f $src/patch.diff ] && mkdir -p $dst && cp $src/patch.diff $src/demo.py $src/notes.md $dst/
/verif/tools/one_mutation_alt.sh $ID m13
