#!/bin/bash
# tools/round5.sh <Cxx> -- store the round-6 changes of a property as seeded/Cxx/m11,m12 and judge them
ID=$1
for k in 1 2; do src=/tmp/mut6/$ID/m$k; dst=/verif/seeded/$ID/m$((k+10)); [ -f $src/patch.diff ] && mkdir -p $dst && cp $src/patch.diff $src/demo.py $src/notes.md $dst/; done
( /verif/tools/one_mutation_alt.sh $ID m11 & /verif/tools/one_mutation_alt.sh $ID m12 & wait )
