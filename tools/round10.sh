#!/bin/bash
# tools/round10.sh <Cxx> -- store the round-10 change of a property as seeded/Cxx/m15 and judge it
ID=$1
src=/tmp/mut10/$ID/m1; dst=/verif/seeded/$ID/m15; [ -f $src/patch.diff ] && mkdir -p $dst && cp $src/patch.diff $src/demo.py $src/notes.md $dst/
/verif/tools/one_mutation_alt.sh $ID m15
