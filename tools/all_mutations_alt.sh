#!/bin/bash
# tools/all_mutations_alt.sh [tier] [parallel] -- every seeded change, each in its own scratch worktree, -> seeded/RESULTS.tsv
TIER=${1:-quick}; P=${2:-5}
ls -d /verif/seeded/C*/m* | while read d; do echo "$(basename $(dirname $d)) $(basename $d)"; done \
  | xargs -P $P -L 1 sh -c '/verif/tools/one_mutation_alt.sh $0 $1 '"$TIER" | sort > /verif/seeded/RESULTS.tsv.new
mv /verif/seeded/RESULTS.tsv.new /verif/seeded/RESULTS.tsv
echo done >> /verif/seeded/RESULTS.tsv
