#!/bin/bash
# tools/one_mutation_alt.sh <Cxx> <mK> [tier] -- judge one seeded change in its own scratch worktree (/tmp/alt/<Cxx><mK>, never /repo):
# demo.py on the clean and on the changed tree, then the property's check against the changed tree.  Prints one TSV line.
ID=$1; M=$2; TIER=${3:-quick}
D=/verif/seeded/$ID/$M; T=/tmp/alt/$ID$M
mkdir -p $T
[ -d $T/cpppo ] || git -C /repo worktree add -q --detach $T/cpppo HEAD
git -C $T/cpppo checkout -q -- . ; git -C $T/cpppo checkout -q --detach "$(git -C /repo rev-parse HEAD)"
run_demo() { ( mkdir -p $T/m && cd $T && sed -e "s#/tmp/mut[0-9]*/$ID#$T#g" $D/demo.py > $T/m/demo.py && PYTHONPATH=$T timeout 300 /venv/bin/python -W ignore $T/m/demo.py >/dev/null 2>&1; echo $? ); }
dc=$(run_demo)
if ! git -C $T/cpppo apply $D/patch.diff 2>/dev/null; then echo -e "$ID\t$M\tpatch-does-not-apply\t-\t-\t-\t-"; exit 0; fi
dp=$(run_demo)
res=$(cd /verif && VERIF_ALT_TREE=$T VERIF_OUT=$T/out timeout 1500 ./check $ID --tier $TIER 2>&1); rc=$?
git -C $T/cpppo checkout -q -- .
kind=$(echo "$res" | grep -c "no-failing-input-found")
nv=$(echo "$res" | grep -c "^VIOLATION")
echo -e "$ID\t$M\texit=$rc\tviolations=$nv\tno_failing_input=$kind\tdemo_clean=$dc\tdemo_changed=$dp"
