#!/bin/bash
# tools/try_mutation_alt.sh <dir containing a cpppo worktree> <patch.diff> <Cxx> [tier]
# Judge a seeded change in a scratch worktree (never /repo): apply, run the check against that tree, undo.
# Evidence/replay files are written under a private directory so concurrent runs do not collide.
set -u
T=$(readlink -f "$1"); P=$(readlink -f "$2"); ID=$3; TIER=${4:-quick}
git -C "$T/cpppo" checkout -q -- . || exit 2
git -C "$T/cpppo" checkout -q --detach "$(git -C /repo rev-parse HEAD)" || exit 2
git -C "$T/cpppo" apply "$P" || { echo "patch does not apply"; exit 2; }
cd /verif && VERIF_ALT_TREE="$T" VERIF_OUT="$T/out" ./check "$ID" --tier "$TIER" 2>&1 | grep -v "^KNOWN-FINDING" | tail -4 | cut -c1-400
RC=${PIPESTATUS[0]}
git -C "$T/cpppo" checkout -q -- .
echo "exit=$RC"
