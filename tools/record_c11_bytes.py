#!/venv/bin/python
"""Development tool (never run by a check): record, input by input, where cpppo's bytes regex machines deviate from the standard
semantics on the CURRENT /repo tree -> known/c11_bytes.json.  Each entry: "regex\\0input" -> [machine result, finding key].
The check treats a deviation as the recorded finding only if this exact input produces this exact result."""
import json, os, sys
sys.path.insert(0, '/verif')
from vlib import core
core.import_cpppo()
from props import c11
out = {}
stats = {}
for rx, s, whole, mo in c11.bytes_deviations(True):
    if whole == mo:
        continue
    wild = any(t in rx for t in ('.', '[^'))
    if whole == ('nonterminal',) and mo[0] == 'ok':
        key = 'C11/bytes-multibyte-lead-byte-consumed'
    elif wild:
        key = 'C11/bytes-wildcard-is-one-byte'
    else:
        key = 'UNCLASSIFIED'
    out[rx + '\x00' + s] = [repr(whole), key]
    stats[(rx, key)] = stats.get((rx, key), 0) + 1
json.dump(out, open('/verif/known/c11_bytes.json', 'w'), indent=0, ensure_ascii=True, sort_keys=True)
for k in sorted(stats):
    print(k, stats[k])
print(len(out), 'deviations')
