#!/bin/bash
# tools/all_mutations.sh [tier] -- apply every seeded change in turn, run its property's check, record the outcome in seeded/RESULTS.tsv
TIER=${1:-quick}
OUT=/verif/seeded/RESULTS.tsv
: > $OUT
for d in /verif/seeded/C*/m*; do
  id=$(basename $(dirname $d)); m=$(basename $d)
  [ -f $d/patch.diff ] || continue
  cd /repo; git diff --quiet || { echo "/repo dirty"; exit 2; }
  if ! git apply $d/patch.diff 2>/dev/null; then echo -e "$id\t$m\tpatch-does-not-apply\t-" >> $OUT; continue; fi
  cd /verif; res=$(./check $id --tier $TIER 2>&1); rc=$?
  git -C /repo checkout -- .
  kind=$(echo "$res" | grep -c "no-failing-input-found")
  nv=$(echo "$res" | grep -c "^VIOLATION")
  echo -e "$id\t$m\texit=$rc\tviolations=$nv\tno_failing_input=$kind" >> $OUT
done
echo done >> $OUT
