#!/bin/bash
# tools/confirm_seed.sh <ID> <mK> <test files...>: confirm a sub-agent's mutation in its scratch worktree and keep it under seeded/
ID=$1; M=$2; shift 2
W=/tmp/mut/$ID/cpppo; D=/tmp/mut/$ID/$M
cd $W || exit 2
git checkout -q -- . 
PY="env PYTHONPATH=/tmp/mut/$ID PYTHONHASHSEED=0 /venv/bin/python"
$PY $D/demo.py >/tmp/demo_clean.log 2>&1; C=$?
git apply $D/patch.diff || { echo "patch failed"; exit 2; }
$PY $D/demo.py >/tmp/demo_mut.log 2>&1; X=$?
T="skipped"
if [ $# -gt 0 ]; then
  $PY -m pytest -q -p no:cacheprovider --timeout=600 "$@" > /tmp/tests_mut.log 2>&1
  T=$(tail -1 /tmp/tests_mut.log)
fi
git checkout -q -- .
echo "demo clean=$C mutated=$X tests: $T"
if [ $C -eq 0 ] && [ $X -ne 0 ]; then
  mkdir -p /verif/seeded/$ID/$M
  cp $D/patch.diff $D/demo.py /verif/seeded/$ID/$M/
  [ -f $D/notes.md ] && cp $D/notes.md /verif/seeded/$ID/$M/
  echo "$T" > /verif/seeded/$ID/$M/tests_with_patch.txt
  tail -3 /tmp/demo_mut.log > /verif/seeded/$ID/$M/demo_output_mutated.txt
  echo kept
else
  echo "NOT kept"
fi
