#!/bin/bash
# tools/round5.sh <Cxx> -- store the round-5 changes of a property as seeded/Cxx/m9,m10 and judge them
ID=$1
for k in 1 2; do src=/tmp/mut5/$ID/m$k; dst=/verif/seeded/$ID/m$((k+8)); [ -f $src/patch.diff ] && mkdir -p $dst && cp $src/patch.diff $src/demo.py $src/notes.md $dst/; done
( /verif/tools/one_mutation_alt.sh $ID m9 & /verif/tools/one_mutation_alt.sh $ID m10 & wait )
