#!/bin/bash
# tools/round3.sh <Cxx> -- store the round-3 changes of a property as seeded/Cxx/m5,m6 and judge them
ID=$1
for k in 1 2; do src=/tmp/mut3/$ID/m$k; dst=/verif/seeded/$ID/m$((k+4)); [ -f $src/patch.diff ] && mkdir -p $dst && cp $src/patch.diff $src/demo.py $src/notes.md $dst/; done
( /verif/tools/one_mutation_alt.sh $ID m5 & /verif/tools/one_mutation_alt.sh $ID m6 & wait )
