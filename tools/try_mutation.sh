#!/bin/bash
# tools/try_mutation.sh <patch.diff> <Cxx> [tier]  -- apply a seeded change to /repo, run the check, undo it.
set -u
P=$(readlink -f "$1"); ID=$2; TIER=${3:-quick}
cd /repo || exit 2
if ! git diff --quiet; then echo "/repo has local changes; refusing"; exit 2; fi
git apply "$P" || { echo "patch does not apply"; exit 2; }
cd /verif && ./check "$ID" --tier "$TIER" 2>&1 | tail -6
RC=${PIPESTATUS[0]}
git -C /repo checkout -- .
echo "exit=$RC"
