#!/bin/bash
# tools/baseline.sh -- run /repo's pinned test suite and report which of the 89 stable tests did not pass.
OUT=$(mktemp /tmp/junit.XXXXXX.xml)
cd /repo && /venv/bin/python -m pytest -ra -q -p no:cacheprovider --timeout=900 --continue-on-collection-errors --junitxml=$OUT > /tmp/baseline.log 2>&1
/venv/bin/python - "$OUT" <<'PY'
import json, sys, xml.etree.ElementTree as ET
stable = set(json.load(open('/root/.vp/BASELINE.json'))['stable_pass'])
ok = set()
for tc in ET.parse(sys.argv[1]).getroot().iter('testcase'):
    name = tc.get('classname', '') + '::' + tc.get('name')
    if not any(c.tag in ('failure', 'error', 'skipped') for c in tc):
        ok.add(name)
missing = sorted(stable - ok)
print('stable=%d passed_of_stable=%d missing=%r' % (len(stable), len(stable & ok), missing))
PY
rm -f $OUT
