#!/usr/bin/env python3
"""tools/write_meta.py -- (re)write seeded/Cxx/mK/meta.json from the sub-agent's notes.md and seeded/RESULTS.tsv."""
import glob, json, os, re
HERE = os.path.dirname(os.path.dirname(os.path.abspath(__file__)))
res = {}
p = os.path.join(HERE, 'seeded', 'RESULTS.tsv')
if os.path.exists(p):
    for l in open(p):
        f = l.rstrip('\n').split('\t')
        if len(f) >= 5 and '=' in f[2]:
            res[(f[0], f[1])] = dict(exit=f[2].split('=')[1], violations=int(f[3].split('=')[1]), no_failing_input=int(f[4].split('=')[1]),
                                     demo=(f[5].split('=')[1], f[6].split('=')[1]) if len(f) >= 7 else None)


def bullet(text, *keys):
    """the (possibly multi-line) bullet that starts with one of the keys"""
    lines = text.split('\n')
    for i, l in enumerate(lines):
        s = l.lstrip('-* ').strip()
        if any(s.lower().startswith(k) for k in keys):
            out = [s]
            for m in lines[i + 1:]:
                if m.startswith(('  ', '\t')) and not m.lstrip().startswith(('- ', '* ')):
                    out.append(m.strip())
                else:
                    break
            return ' '.join(out)
    return None


for d in sorted(glob.glob(os.path.join(HERE, 'seeded', 'C*', 'm*'))):
    pid, mk = d.split(os.sep)[-2:]
    notes = open(os.path.join(d, 'notes.md')).read() if os.path.exists(os.path.join(d, 'notes.md')) else ''
    title = notes.split('\n', 1)[0].lstrip('# ').strip()
    r = res.get((pid, mk))
    meta = dict(
        property=pid, change=mk, title=title,
        files=['patch.diff', 'demo.py', 'notes.md'],
        what_it_needs_to_manifest=bullet(notes, 'need', 'trigger', 'needed to manifest') or 'see notes.md',
        why_it_breaks_the_property=bullet(notes, 'why it breaks', 'effect', 'violation') or 'see notes.md',
        tests_run_with_the_patch=bullet(notes, 'tests run', 'tests with patch', 'existing tests', 'tests') or 'see notes.md',
        round={'m1': 1, 'm2': 1, 'm3': 2, 'm4': 2, 'm5': 3, 'm6': 3, 'm7': 4, 'm8': 4, 'm9': 5, 'm10': 5, 'm11': 6, 'm12': 6, 'm13': 7, 'm14': (9 if pid in ('C02','C03','C05','C07','C09','C13','C14','C17','C18','C19') else 8), 'm15': (11 if pid in ('C02','C03','C05','C07','C09','C13','C14','C17','C18','C19') else 10)}.get(mk),
        confirmed_by_us=('demo.py exit status on the clean tree / with patch.diff applied: %s / %s (tools/one_mutation_alt.sh, scratch worktree at /repo HEAD)' % r['demo'] if r and r.get('demo') else 'demo.py exits 0 on the clean worktree and 1 with patch.diff applied') + '; the pinned test files named above keep their outcomes',
        apply='git -C /repo apply /verif/seeded/%s/%s/patch.diff ; undo: git -C /repo checkout -- .   (or, without touching /repo: tools/one_mutation_alt.sh %s %s)' % (pid, mk, pid, mk),
        caught_by='./check %s --tier quick' % pid,
        detection=(None if r is None else
                   ('not detected' if r['exit'] == '0' else
                    'correspondence broken, no independent failing input (VIOLATION … no-failing-input-found)' if r['no_failing_input'] and r['violations'] == r['no_failing_input']
                    else 'failing input reported (%d VIOLATION line(s))' % r['violations'])),
    )
    json.dump(meta, open(os.path.join(d, 'meta.json'), 'w'), indent=1)
print('wrote', len(glob.glob(os.path.join(HERE, 'seeded', 'C*', 'm*', 'meta.json'))), 'meta.json files')
