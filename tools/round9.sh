#!/bin/bash
# tools/round9.sh <Cxx> -- store the round-9 change of a property as seeded/Cxx/m14 and judge it
ID=$1
src=/tmp/mut9/$ID/m1; dst=/verif/seeded/$ID/m14; [ -f $src/patch.diff ] && mkdir -p $dst && cp $src/patch.diff $src/demo.py $src/notes.md $dst/
/verif/tools/one_mutation_alt.sh $ID m14
