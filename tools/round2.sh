#!/bin/bash
# tools/round2.sh <Cxx> [tier] [src=/tmp/mut2] -- judge both round-2 seeded changes of a property in scratch worktrees, in parallel
ID=$1; TIER=${2:-quick}; SRC=${3:-/tmp/mut2}
for k in m1 m2; do
  T=/tmp/alt/$ID$k; mkdir -p $T
  [ -d $T/cpppo ] || git -C /repo worktree add -q --detach $T/cpppo HEAD
  ( /verif/tools/try_mutation_alt.sh $T $SRC/$ID/$k/patch.diff $ID $TIER > /tmp/alt/$ID$k.$TIER.log 2>&1 ) &
done
wait
for k in m1 m2; do echo "== $ID $k $TIER"; tail -n 4 /tmp/alt/$ID$k.$TIER.log | cut -c1-300; done
