(* C03: tags behave as typed arrays; a read returns the most recently written values. *)
From Coq Require Import ZArith List Bool Lia ZifyBool Arith.
From CV Require Import Base.ListX Model.Logix Proofs.Logix.
Import ListNotations.
Open Scope Z_scope.

Definition elem (st : store) (k i : nat) : option val :=
  match attr_at st k with Some a => nth_error (a_vals a) i | None => None end.

(* What an accepted request overwrites: (tag number, first index, new values).  None for reads and
   for every refused request. *)
Definition effect (q : quirks) (st : store) (r : req) : option (nat * nat * list val) :=
  match r with
  | WriteTag p ty n d =>
      match snd (exec_write q st r p false ty n 0 d), lookup st p with
      | RWrite _, Some k => match attr_at st k with
                            | Some a => Some (k, Z.to_nat (wbeg a p false 0), d)
                            | None => None end
      | _, _ => None
      end
  | WriteFrag p ty n off d =>
      match snd (exec_write q st r p true ty n off d), lookup st p with
      | RWrite _, Some k => match attr_at st k with
                            | Some a => Some (k, Z.to_nat (wbeg a p true off), d)
                            | None => None end
      | _, _ => None
      end
  | SetAttr p bytes =>
      match snd (exec_set q st p bytes), p with
      | RSet, PNum c i (Some a) None =>
          match attr_target q st c i a with
          | Some k => match attr_at st k with
                      | Some at_ => Some (k, 0%nat, map (unpack_raw (a_ty at_))
                                       (chunks (Z.to_nat (alen at_)) (Z.to_nat (siz (a_ty at_))) bytes))
                      | None => None end
          | None => None
          end
      | _, _ => None
      end
  | _ => None
  end.

Definition covers (e : option (nat * nat * list val)) (k i : nat) : bool :=
  match e with
  | Some (k', b, d) => (k =? k')%nat && (b <=? i)%nat && (i <? b + length d)%nat
  | None => false
  end.

Definition written (e : option (nat * nat * list val)) (i : nat) : option val :=
  match e with Some (_, b, d) => nth_error d (i - b) | None => None end.

Lemma elem_upd st k a a' j i : attr_at st k = Some a ->
  elem (upd_attr st k a') j i = if (j =? k)%nat then nth_error (a_vals a') i else elem st j i.
Proof.
  intros Ha. unfold elem. rewrite upd_attr_at by (eapply attr_at_lt; eauto).
  destruct (j =? k)%nat; reflexivity.
Qed.

(* A request changes exactly the elements its effect covers, to exactly the written values; every
   other element of every tag keeps its value. *)
Theorem exec1_pointwise q maxb st r : wf_store st ->
  forall j i, elem (fst (exec1 q maxb st r)) j i =
              if covers (effect q st r) j i then written (effect q st r) i else elem st j i.
Proof.
  intros Hwf j i. destruct r; cbn [exec1 fst effect covers]; try reflexivity.
  - destruct (exec_write q st _ p false ty elements 0 data) as [st' rp] eqn:E. cbn [fst snd].
    destruct (exec_write_cases _ _ _ _ _ _ _ _ _ _ _ Hwf E)
      as [(-> & s & e & -> & _) | (-> & k & a & Hl & Ha & _ & Hb0 & Hd1 & Hfit1 & _ & _ & ->)]; [reflexivity|].
    rewrite Hl, Ha. cbn [covers written]. rewrite (elem_upd _ _ a) by exact Ha. cbn [a_vals].
    destruct (Nat.eqb_spec j k) as [->|Hne]; cbn [andb]; [|reflexivity].
    rewrite splice_nth by lia. unfold elem. rewrite Ha. reflexivity.
  - destruct (exec_write q st _ p true ty elements offset data) as [st' rp] eqn:E. cbn [fst snd].
    destruct (exec_write_cases _ _ _ _ _ _ _ _ _ _ _ Hwf E)
      as [(-> & s & e & -> & _) | (-> & k & a & Hl & Ha & _ & Hb0 & Hd1 & Hfit1 & _ & _ & ->)]; [reflexivity|].
    rewrite Hl, Ha. cbn [covers written]. rewrite (elem_upd _ _ a) by exact Ha. cbn [a_vals].
    destruct (Nat.eqb_spec j k) as [->|Hne]; cbn [andb]; [|reflexivity].
    rewrite splice_nth by lia. unfold elem. rewrite Ha. reflexivity.
  - destruct (exec_set q st p bytes) as [st' rp] eqn:E. cbn [fst snd].
    destruct (exec_set_cases _ _ _ _ _ _ E) as [(-> & ->) | (-> & c & ii & a & k & at_ & -> & Ht & Ha & Hlen & ->)]; [reflexivity|].
    rewrite Ht, Ha. cbn [covers written]. rewrite (elem_upd _ _ at_) by exact Ha. cbn [a_vals].
    destruct (Nat.eqb_spec j k) as [->|Hne]; cbn [andb]; [|reflexivity].
    rewrite Nat.sub_0_r. cbn [Nat.leb].
    destruct (Nat.ltb_spec i (0 + length (map (unpack_raw (a_ty at_)) (chunks (Z.to_nat (alen at_)) (Z.to_nat (siz (a_ty at_))) bytes)))) as [Hlt|Hge];
      [reflexivity|].
    unfold elem. rewrite Ha.
    assert (length (a_vals at_) = Z.to_nat (alen at_)) as Hl.
    { pose proof (wf_attr_of _ _ _ Hwf Ha) as Hw. unfold wf_attr in Hw. unfold alen.
      destruct (a_scalar at_); [rewrite Hw by auto; reflexivity | lia]. }
    rewrite map_length, chunks_length in Hge.
    transitivity (@None val); [apply nth_error_None; rewrite map_length, chunks_length; lia | symmetry; apply nth_error_None; lia].
Qed.

(* ---- histories ---------------------------------------------------------------------------------- *)

Definition run (q : quirks) (maxb : Z) (st : store) (hs : list req) : store :=
  fold_left (fun s r => fst (exec1 q maxb s r)) hs st.

Fixpoint untouched (q : quirks) (maxb : Z) (st : store) (hs : list req) (k i : nat) : Prop :=
  match hs with
  | [] => True
  | r :: t => covers (effect q st r) k i = false /\ untouched q maxb (fst (exec1 q maxb st r)) t k i
  end.

Lemma run_wf q maxb hs : forall st, wf_store st -> Forall req_ok hs -> wf_store (run q maxb st hs).
Proof.
  induction hs as [|r t IH]; intros st Hwf Hok; [exact Hwf|]. inversion Hok; subst. cbn [run fold_left].
  apply IH; auto. destruct (exec1 q maxb st r) as [s1 rp] eqn:E.
  destruct (exec1_inv _ _ _ _ _ _ Hwf H1 E) as (_ & Hw & _). exact Hw.
Qed.

Theorem history_untouched q maxb hs : forall st k i,
  wf_store st -> Forall req_ok hs -> untouched q maxb st hs k i ->
  elem (run q maxb st hs) k i = elem st k i.
Proof.
  induction hs as [|r t IH]; intros st k i Hwf Hok Hu; [reflexivity|].
  inversion Hok; subst. destruct Hu as [Hc Hu]. cbn [run fold_left].
  change (fold_left _ t ?s) with (run q maxb s t).
  rewrite IH; auto.
  - rewrite exec1_pointwise by exact Hwf. rewrite Hc. reflexivity.
  - destruct (exec1 q maxb st r) as [s1 rp] eqn:E.
    destruct (exec1_inv _ _ _ _ _ _ Hwf H1 E) as (_ & Hw & _). exact Hw.
Qed.

(* the value of an element after a history is the one given by the last accepted write covering it *)
Theorem history_latest q maxb h1 w h2 st k i :
  wf_store st -> Forall req_ok (h1 ++ w :: h2) ->
  let s1 := run q maxb st h1 in
  covers (effect q s1 w) k i = true ->
  untouched q maxb (fst (exec1 q maxb s1 w)) h2 k i ->
  elem (run q maxb st (h1 ++ w :: h2)) k i = written (effect q s1 w) i.
Proof.
  intros Hwf Hok s1 Hc Hu. unfold run. rewrite fold_left_app. cbn [fold_left].
  change (fold_left _ h1 st) with s1. change (fold_left _ h2 ?s) with (run q maxb s h2).
  apply Forall_app in Hok as [Hok1 Hok2]. inversion Hok2; subst.
  assert (wf_store s1) as Hwf1 by (apply run_wf; auto).
  rewrite history_untouched; auto.
  - rewrite exec1_pointwise by exact Hwf1. rewrite Hc. reflexivity.
  - destruct (exec1 q maxb s1 w) as [s2 rp] eqn:E.
    destruct (exec1_inv _ _ _ _ _ _ Hwf1 H1 E) as (_ & Hw & _). exact Hw.
Qed.

Lemma alen_length st k a : wf_store st -> attr_at st k = Some a -> alen a = Z.of_nat (length (a_vals a)).
Proof.
  intros Hwf Ha. pose proof (wf_attr_of _ _ _ Hwf Ha) as Hw. unfold wf_attr in Hw. unfold alen.
  destruct (a_scalar a); [rewrite Hw by auto; reflexivity | reflexivity].
Qed.

(* a successful read returns the current elements of the addressed window, typed as the tag *)
Theorem read_window maxb st r p frag n off svc s ty vals :
  wf_store st ->
  exec_read maxb st r p frag n off = RRead svc s ty vals ->
  exists k a, lookup st p = Some k /\ attr_at st k = Some a /\ ty = a_ty a /\ svc = rsvc r /\
    let beg := Z.to_nat (path_elem p + (if frag then off else 0) / siz (a_ty a)) in
    (forall i, (i < length vals)%nat -> nth_error vals i = elem st k (beg + i)) /\
    1 <= Z.of_nat (length vals) /\
    Z.of_nat beg + Z.of_nat (length vals) <= Z.of_nat (length (a_vals a)) /\
    Z.of_nat (length vals) = Z.min (n - (if frag then off else 0) / siz (a_ty a)) (budget_elems maxb (siz (a_ty a))) /\
    (s = 0 \/ s = 6) /\
    (s = 0 <-> Z.of_nat beg + Z.of_nat (length vals) = path_elem p + n).
Proof.
  intros Hwf H. destruct (exec_read_cases _ _ _ _ _ _ _ _ H) as [(s' & e & E & _) | (k & a & cnt & Hl & Ha & Hrest)];
    [discriminate|].
  cbv zeta in Hrest. destruct Hrest as (Hor & Hb0 & Hc1 & Hca & Hn & Hcnt & E).
  rewrite (alen_length _ _ _ Hwf Ha) in *.
  inversion E; subst svc s ty vals; clear E. exists k, a.
  split; [exact Hl|]. split; [exact Ha|]. split; [reflexivity|]. split; [reflexivity|]. cbv zeta.
  set (beg := path_elem p + (if frag then off else 0) / siz (a_ty a)) in *.
  assert (length (firstn (Z.to_nat cnt) (skipn (Z.to_nat beg) (a_vals a))) = Z.to_nat cnt) as Hlen
    by (rewrite firstn_length, skipn_length; lia).
  rewrite Hlen. split; [|split; [|split; [|split; [|split]]]]; try lia.
  - intros i Hi. unfold elem. rewrite Ha. rewrite nth_error_firstn by lia. rewrite nth_error_skipn. reflexivity.
  - destruct (beg + cnt =? path_elem p + n); auto.
  - destruct (beg + cnt =? path_elem p + n) eqn:E; lia.
Qed.

Lemma read_views maxb st r p p' frag n off :
  lookup st p = lookup st p' -> path_elem p = path_elem p' ->
  exec_read maxb st r p frag n off = exec_read maxb st r p' frag n off.
Proof. intros H1 H2. unfold exec_read. rewrite H1, H2. reflexivity. Qed.

(* non-vacuity witness: two tags, one also visible at @0x99/1/3; a history of writes by name and by
   address, then reads through the other view *)
Definition C03_example_ok : bool :=
  let st := Store [Attr INT false [VI 1; VI 2; VI 3; VI 4; VI 5]; Attr DINT false [VI 7; VI 8; VI 9]]
                  [((2, 1, 1), 0%nat); ((153, 1, 3), 1%nat)] [(0, (2, 1, 1)); (1, (153, 1, 3))] in
  let hs := [WriteTag (PSym 0 (Some 1)) 195 2 [VI 50; VI 60];
             WriteFrag (PNum 153 1 (Some 3) (Some 0)) 196 3 4 [VI (-1)];
             ReadTag (PSym 1 None) 3;
             WriteTag (PSym 0 (Some 4)) 195 2 [VI 0; VI 0];
             SetAttr (PNum 153 1 (Some 3) None) [1; 0; 0; 0; 2; 0; 0; 0; 3; 0; 0; 0]] in
  let st' := run fixed 488 st hs in
  match elem st' 0 1, elem st' 0 4, elem st' 1 1,
        exec_read 488 st' (ReadTag (PNum 153 1 (Some 3) (Some 1)) 2) (PNum 153 1 (Some 3) (Some 1)) false 2 0 with
  | Some (VI 50), Some (VI 5), Some (VI 2), RRead 204 0 DINT [VI 2; VI 3] => true
  | _, _, _, _ => false
  end.
