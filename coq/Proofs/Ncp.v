(* Network Connection Parameter encode/decode round trip (C01). *)
From Coq Require Import ZArith List Bool Lia ZifyBool.
From CV Require Import Base.Fmt Model.Codec.
Open Scope Z_scope.
Ltac Zify.zify_post_hook ::= Z.to_euclidean_division_equations.

Theorem ncp_roundtrip large p : ncp_ok large p -> ncp_decode large (ncp_encode large p) = p.
Proof.
  destruct p as [sz va pr ty re]. unfold ncp_ok, ncp_encode, ncp_decode. cbn [n_size n_variable n_priority n_type n_redundant].
  intros (Hs & Hv & Hp & Ht & Hr). destruct large.
  - f_equal; lia.
  - f_equal; lia.
Qed.

Theorem ncp_range large p : ncp_ok large p -> 0 <= ncp_encode large p < (if large then 4294967296 else 65536).
Proof.
  destruct p as [sz va pr ty re]. unfold ncp_ok, ncp_encode. cbn [n_size n_variable n_priority n_type n_redundant].
  intros (Hs & Hv & Hp & Ht & Hr). destruct large; lia.
Qed.
