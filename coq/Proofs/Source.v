(* Proofs about Model/Source.v (property C10): `sent` is the net number of symbols taken from the input. *)
From Coq Require Import ZArith List Bool Lia.
From CV Require Import Model.Source.
Import ListNotations.
Open Scope Z_scope.

Lemma advance_spec ch :
  match advance ch with
  | Some (c, r, rest) => concat ch = c :: r ++ concat rest
  | None => concat ch = []
  end.
Proof.
  induction ch as [|b t IH]; simpl; [reflexivity|].
  destruct b as [|c r]; simpl; [exact IH | reflexivity].
Qed.

(* next delivers exactly the head of what remains, and counts it *)
Lemma next_spec s :
  match remaining s with
  | [] => fst (next s) = None /\ remaining (snd (next s)) = [] /\ s_sent (snd (next s)) = s_sent s
  | c :: r => fst (next s) = Some c /\ remaining (snd (next s)) = r /\ s_sent (snd (next s)) = s_sent s + 1
  end.
Proof.
  destruct s as [it bk ch sn]. unfold remaining, next. simpl.
  destruct bk as [|x b]; simpl; [|auto].
  destruct it as [|c r]; simpl; [|auto].
  pose proof (advance_spec ch) as H. destruct (advance ch) as [[[c r] rest]|]; rewrite H; simpl; auto.
Qed.

Lemma push_spec x s : remaining (push x s) = x :: remaining s /\ s_sent (push x s) = s_sent s - 1.
Proof. destruct s; unfold remaining, push; simpl; auto. Qed.

(* peek shows the head of what remains and changes neither the remaining symbols nor the count *)
Lemma peek_spec s :
  fst (peek s) = hd_error (remaining s) /\ remaining (snd (peek s)) = remaining s /\ s_sent (snd (peek s)) = s_sent s.
Proof.
  unfold peek. destruct (s_back s) as [|x b] eqn:Eb.
  - pose proof (next_spec s) as H. destruct (next s) as [[c|] s'] eqn:En; cbn [fst snd] in *.
    + destruct (remaining s) as [|c0 r]; destruct H as (H1 & H2 & H3); [discriminate|]. inversion H1; subst c0.
      destruct (push_spec c s') as (P1 & P2). cbn [fst snd]. rewrite P1, P2, H2, H3. simpl. repeat split; lia.
    + destruct (remaining s) as [|c0 r]; destruct H as (H1 & H2 & H3); [|discriminate]. cbn [fst snd]. simpl. auto.
  - simpl. unfold remaining. rewrite Eb. simpl. auto.
Qed.

Lemma chain_spec b s : remaining (chain b s) = remaining s ++ b /\ s_sent (chain b s) = s_sent s.
Proof.
  destruct s as [it bk ch sn]. unfold remaining, chain. simpl. rewrite concat_app. simpl.
  rewrite app_nil_r, !app_assoc. auto.
Qed.

(* ---- histories.  Ghost state: the symbols taken and not pushed back (most recent first), and everything
   supplied so far.  A push is legitimate when it returns the most recently taken symbol (what the engine and
   `remembering` do). ---- *)
Fixpoint legit (taken : list Z) (s : src) (ops : list op) : Prop :=
  match ops with
  | [] => True
  | ONext :: t => match fst (next s) with
                  | Some c => legit (c :: taken) (snd (next s)) t
                  | None => legit taken (snd (next s)) t
                  end
  | OPush x :: t => match taken with
                    | y :: tk => x = y /\ legit tk (push x s) t
                    | [] => False
                    end
  | OPeek :: t => legit taken (snd (peek s)) t
  | OChain b :: t => legit taken (chain b s) t
  end.

Fixpoint taken_after (taken : list Z) (s : src) (ops : list op) : list Z :=
  match ops with
  | [] => taken
  | ONext :: t => match fst (next s) with
                  | Some c => taken_after (c :: taken) (snd (next s)) t
                  | None => taken_after taken (snd (next s)) t
                  end
  | OPush x :: t => taken_after (tl taken) (push x s) t
  | OPeek :: t => taken_after taken (snd (peek s)) t
  | OChain b :: t => taken_after taken (chain b s) t
  end.

Fixpoint supplied (ops : list op) : list Z :=
  match ops with
  | [] => []
  | OChain b :: t => b ++ supplied t
  | _ :: t => supplied t
  end.

Lemma run_ops_cons s o t : run_ops s (o :: t) =
  (fst (step s o) :: fst (run_ops (snd (step s o)) t), snd (run_ops (snd (step s o)) t)).
Proof. simpl. destruct (step s o) as [r s1]. simpl. destruct (run_ops s1 t). reflexivity. Qed.

(* For every legitimate history: the symbols taken (in order) followed by what remains is exactly everything
   that was supplied, and `sent` is the number of symbols taken. *)
Theorem accounting ops : forall taken s total,
  legit taken s ops ->
  rev taken ++ remaining s = total -> s_sent s = Z.of_nat (length taken) ->
  let s' := snd (run_ops s ops) in
  let tk := taken_after taken s ops in
  rev tk ++ remaining s' = total ++ supplied ops /\ s_sent s' = Z.of_nat (length tk).
Proof.
  induction ops as [|o t IH]; intros taken s total Hl Hr Hs.
  - simpl. rewrite app_nil_r. auto.
  - rewrite run_ops_cons. destruct o as [|x| |b]; cbn [step legit taken_after supplied] in *.
    + pose proof (next_spec s) as Hn. destruct (next s) as [[c|] s1] eqn:En; simpl in *.
      * destruct (remaining s) as [|c0 r]; destruct Hn as (H1 & H2 & H3); [discriminate|]. inversion H1; subst c0.
        apply (IH (c :: taken) s1 total Hl).
        -- simpl. rewrite <- app_assoc. simpl. rewrite H2. exact Hr.
        -- rewrite H3, Hs. simpl length. lia.
      * destruct (remaining s) as [|c0 r]; destruct Hn as (H1 & H2 & H3); [|discriminate].
        apply (IH taken s1 total Hl); [rewrite H2; exact Hr | lia].
    + destruct taken as [|y tk]; [destruct Hl|]. destruct Hl as (-> & Hl). simpl fst. simpl snd.
      destruct (push_spec y s) as (P1 & P2).
      apply (IH tk (push y s) total Hl).
      * rewrite P1. simpl in Hr. rewrite <- app_assoc in Hr. exact Hr.
      * rewrite P2, Hs. simpl length. lia.
    + destruct (peek_spec s) as (_ & P2 & P3).
      apply (IH taken (snd (peek s)) total Hl); [rewrite P2; exact Hr | lia].
    + simpl fst. simpl snd. destruct (chain_spec b s) as (C1 & C2).
      rewrite app_assoc. apply (IH taken (chain b s) (total ++ b) Hl).
      * rewrite C1, app_assoc, Hr. reflexivity.
      * lia.
Qed.

(* For any history at all (arbitrary pushes included) the count is conserved:
   sent + |remaining| = |input| + |chained| *)
Theorem conservation ops : forall s,
  let s' := snd (run_ops s ops) in
  s_sent s' + Z.of_nat (length (remaining s')) = s_sent s + Z.of_nat (length (remaining s)) + Z.of_nat (length (supplied ops)).
Proof.
  induction ops as [|o t IH]; intros s.
  - simpl. lia.
  - rewrite run_ops_cons. cbv zeta in *. cbn [snd]. rewrite IH. destruct o as [|x| |b]; cbn [step supplied].
    + pose proof (next_spec s) as Hn. destruct (remaining s) as [|c r]; destruct Hn as (_ & H2 & H3); rewrite H2, H3; simpl length; lia.
    + simpl snd. destruct (push_spec x s) as (P1 & P2). rewrite P1, P2. simpl length. lia.
    + destruct (peek_spec s) as (_ & P2 & P3). rewrite P2, P3. lia.
    + simpl snd. destruct (chain_spec b s) as (C1 & C2). rewrite C1, C2, !app_length. lia.
Qed.

(* every symbol delivered by next is the head of what remained: delivery is in order, nothing is skipped or
   repeated, across pushed-back symbols and block boundaries *)
Corollary next_in_order s c : fst (next s) = Some c -> remaining s = c :: remaining (snd (next s)).
Proof.
  intros H. pose proof (next_spec s) as Hn. destruct (remaining s) as [|c0 r]; destruct Hn as (H1 & H2 & _).
  - congruence.
  - rewrite H in H1. inversion H1; subst c0. rewrite H2. reflexivity.
Qed.
