(* Proofs about Model/Session.v (property C06). *)
From Coq Require Import ZArith List Bool Lia.
From CV Require Import Model.Logix Model.Route Model.Session Proofs.Logix.
Import ListNotations.
Open Scope Z_scope.

Definition head_svc (rp : reply) : Z :=
  match rp with
  | RRead s _ _ _ | RWrite s | RFail s _ _ => s
  | RGet _ => 142 | RSet => 144 | RMulti _ => 138
  end.

Lemma produce_head rp bs : produce rp = Some bs -> hd_error bs = Some (head_svc rp).
Proof.
  destruct rp as [s st ty vs|s|s st e|d| |rs]; simpl.
  - destruct (pack_all ty vs); intros H; inversion H; reflexivity.
  - intros H; inversion H; reflexivity.
  - intros H; inversion H; reflexivity.
  - intros H; inversion H; reflexivity.
  - intros H; inversion H; reflexivity.
  - generalize (@nil (list Z)). induction rs as [|r t IH]; intros acc H.
    + inversion H; reflexivity.
    + destruct (produce r); [apply (IH _ H) | discriminate].
Qed.

(* the reply to every request carries the request's service code with the reply bit set *)
Lemma exec_reply_service q maxb st r st' rp :
  wf_store st -> exec q maxb st r = (st', rp) -> head_svc rp = rsvc r.
Proof.
  intros Hwf. destruct r as [p n|p n off|p ty n d|p ty n off d|p|p bs|rs]; unfold exec; cbn [exec1]; intros H.
  - assert (rp = exec_read maxb st (ReadTag p n) p false n 0) as -> by (inversion H; reflexivity).
    destruct (exec_read_cases maxb st (ReadTag p n) p false n 0 _ eq_refl) as [(s & e & -> & _) | (k & a & cnt & _ & _ & Hx)].
    + reflexivity.
    + cbv zeta in Hx. destruct Hx as (_ & _ & _ & _ & _ & _ & ->). reflexivity.
  - assert (rp = exec_read maxb st (ReadFrag p n off) p true n off) as -> by (inversion H; reflexivity).
    destruct (exec_read_cases maxb st (ReadFrag p n off) p true n off _ eq_refl) as [(s & e & -> & _) | (k & a & cnt & _ & _ & Hx)].
    + reflexivity.
    + cbv zeta in Hx. destruct Hx as (_ & _ & _ & _ & _ & _ & ->). reflexivity.
  - destruct (exec_write_cases _ _ _ _ _ _ _ _ _ _ _ Hwf H) as [(_ & s & e & -> & _) | (-> & _)]; reflexivity.
  - destruct (exec_write_cases _ _ _ _ _ _ _ _ _ _ _ Hwf H) as [(_ & s & e & -> & _) | (-> & _)]; reflexivity.
  - assert (rp = exec_get q st p) as -> by (inversion H; reflexivity). unfold exec_get.
    repeat (match goal with |- context [match ?x with _ => _ end] => destruct x end); reflexivity.
  - destruct (exec_set_cases _ _ _ _ _ _ H) as [(_ & ->) | (-> & _)]; reflexivity.
  - destruct (exec_seq q maxb st rs) as [st1 [l|]]; inversion H; reflexivity.
Qed.

(* requests keep the store well-formed *)
Definition req_ok_deep (r : req) : Prop :=
  match r with Multiple rs => Forall req_ok rs | _ => req_ok r end.

Lemma exec_seq_wf q maxb rs : forall st, wf_store st -> Forall req_ok rs -> wf_store (fst (exec_seq q maxb st rs)).
Proof.
  induction rs as [|r t IH]; intros st Hwf Hok; cbn [exec_seq]; [exact Hwf|].
  inversion Hok as [|? ? Hr Hok']; subst.
  destruct (exec1 q maxb st r) as [st1 rp] eqn:E1.
  destruct (exec1_inv _ _ _ _ _ _ Hwf Hr E1) as (_ & Hwf1 & _).
  destruct (produce rp); [|exact Hwf1].
  specialize (IH st1 Hwf1 Hok'). destruct (exec_seq q maxb st1 t) as [st2 rps]. exact IH.
Qed.

Lemma exec_wf q maxb st r : wf_store st -> req_ok_deep r -> wf_store (fst (exec q maxb st r)).
Proof.
  intros Hwf Hok. destruct r as [p n|p n off|p ty n d|p ty n off d|p|p bs|l]; unfold exec;
    try (match goal with |- context [exec1 ?q ?m ?s ?r] => destruct (exec1 q m s r) as [st1 rp] eqn:E1;
           destruct (exec1_inv _ _ _ _ _ _ Hwf Hok E1) as (_ & H & _); exact H end).
  pose proof (exec_seq_wf q maxb l st Hwf Hok) as H. destruct (exec_seq q maxb st l) as [st1 rps]. exact H.
Qed.

Section SessionProofs.
  Variable handle_of : nat -> Z.
  Variable cfg : option (list seg).
  Variable maxb : Z.
  Hypothesis handles_nonzero : forall n, handle_of n <> 0.

  Notation respond := (respond handle_of cfg maxb).
  Notation srun := (srun handle_of cfg maxb).

  (* what a reply must look like for its request *)
  Definition matches (q : ereq) (r : ereply) : Prop :=
    p_cmd r = q_cmd q /\ p_ctx r = e_ctx (q_env q) /\ p_opts r = e_opts (q_env q) /\
    match q with
    | QRegister _ => p_sess r <> 0 /\ p_status r = 0 /\ p_body r = BRegister
    | QUnregister _ => False
    | QList c _ => p_sess r = e_sess (q_env q) /\ p_status r = 0 /\ p_body r = BList c
    | QSend _ _ rq =>
        p_sess r = e_sess (q_env q) /\
        ((p_status r = 0 /\ exists bs, p_body r = BCip bs /\ hd_error bs = Some (rsvc rq)) \/
         (p_status r <> 0 /\ p_body r = BNone))
    end.

  Lemma respond_matches s q s1 r go :
    wf_store (s_store s) -> respond s q = (s1, Some r, go) -> matches q r.
  Proof.
    intros Hwf. destruct q as [e|e|c e|e rp rq]; simpl.
    - intros H; inversion H; subst. unfold matches; simpl. repeat split; auto.
    - discriminate.
    - intros H; inversion H; subst. unfold matches; simpl. repeat split; auto.
    - destruct (unroutable (s_store s) rq).
      { intros H; inversion H; subst. unfold matches; simpl. repeat split; auto. right. split; [discriminate | reflexivity]. }
      unfold ucmm_local. destruct (accept cfg rp).
      + destruct (exec fixed maxb (s_store s) rq) as [st' rep] eqn:Ex.
        destruct (produce rep) as [bs|] eqn:Ep; intros H; inversion H; subst; unfold matches; simpl; repeat split; auto.
        * left. split; [reflexivity|]. exists bs. split; [reflexivity|].
          rewrite (produce_head _ _ Ep). f_equal. eapply exec_reply_service; eauto.
        * right. split; [discriminate | reflexivity].
      + intros H; inversion H; subst. unfold matches; simpl. repeat split; auto. right. split; [discriminate | reflexivity].
  Qed.

  (* the store stays well-formed along a session (so the service-bit lemma applies to every request) *)
  Definition sreq_ok (q : ereq) : Prop := match q with QSend _ _ r => req_ok_deep r | _ => True end.

  Lemma respond_wf s q : wf_store (s_store s) -> sreq_ok q -> wf_store (s_store (fst (fst (respond s q)))).
  Proof.
    intros Hwf Hok. destruct q as [e|e|c e|e rp rq]; simpl; auto.
    destruct (unroutable (s_store s) rq); [exact Hwf|].
    unfold ucmm_local. destruct (accept cfg rp); [|exact Hwf].
    pose proof (exec_wf fixed maxb (s_store s) rq Hwf Hok) as H.
    destruct (exec fixed maxb (s_store s) rq) as [st' rep]. destruct (produce rep); exact H.
  Qed.

  (* ---- the replies of a session: exactly one per request, in request order, until the session ends ---- *)
  Inductive aligned : sstate -> list ereq -> list ereply -> Prop :=
  | AlNil s : aligned s [] []
  | AlReply s q t r rest s1 :
      respond s q = (s1, Some r, true) -> matches q r -> aligned s1 t rest -> aligned s (q :: t) (r :: rest)
  | AlLast s q t r s1 :                    (* a refusal: one frame with a non-zero status, then the session ends *)
      respond s q = (s1, Some r, false) -> matches q r -> aligned s (q :: t) [r]
  | AlEnd s q t s1 : respond s q = (s1, None, false) -> aligned s (q :: t) [].

  Theorem srun_aligned qs : forall s,
    wf_store (s_store s) -> Forall sreq_ok qs -> aligned s qs (fst (srun s qs)).
  Proof.
    induction qs as [|q t IH]; intros s Hwf Hok; simpl; [constructor|].
    inversion Hok as [|? ? Hq Hok']; subst.
    pose proof (respond_wf s q Hwf Hq) as Hwf1.
    destruct (respond s q) as [[s1 rep] go] eqn:Er. simpl in Hwf1.
    destruct rep as [r|].
    - destruct go.
      + specialize (IH s1 Hwf1 Hok'). destruct (srun s1 t) as [rest s2]. simpl in *.
        eapply AlReply; eauto. exact (respond_matches _ _ _ _ _ Hwf Er).
      + simpl. eapply AlLast; eauto. exact (respond_matches _ _ _ _ _ Hwf Er).
    - assert (go = false) as ->.
      { destruct q as [e|e|c e|e rp rq]; simpl in Er; try (inversion Er; reflexivity).
        destruct (unroutable (s_store s) rq); [inversion Er|].
        destruct (ucmm_local cfg maxb (s_store s) rp rq) as [st' [code|[bs|]]]; inversion Er. }
      simpl. eapply AlEnd; eauto.
  Qed.

  (* consequences: at most one reply per request; exactly one while nothing ends the session *)
  Lemma aligned_length s qs rs : aligned s qs rs -> (length rs <= length qs)%nat.
  Proof. induction 1; simpl; lia. Qed.

  Fixpoint never_ends (s : sstate) (qs : list ereq) : Prop :=
    match qs with
    | [] => True
    | q :: t => snd (respond s q) = true /\ never_ends (fst (fst (respond s q))) t
    end.

  Theorem all_answered qs : forall s, never_ends s qs -> length (fst (srun s qs)) = length qs.
  Proof.
    induction qs as [|q t IH]; intros s H; simpl; [reflexivity|]. destruct H as [Hgo Hrest].
    destruct (respond s q) as [[s1 rep] go] eqn:Er. simpl in *. subst go.
    specialize (IH s1 Hrest). destruct (srun s1 t) as [rest s2]. simpl in *.
    destruct rep as [r|]; simpl; [lia|].
    exfalso. destruct q as [e|e|c e|e rp rq]; simpl in Er; try discriminate.
    destruct (unroutable (s_store s) rq); [inversion Er|].
    destruct (ucmm_local cfg maxb (s_store s) rp rq) as [st' [code|[bs|]]]; inversion Er.
  Qed.
  (* a single request that names no existing Object: exactly one frame, status 8, no payload, the request's own session handle /
     context / options; nothing changes and nothing after it is answered - whatever the route path and the personality *)
  Lemma unroutable_reply s e rp r t :
    unroutable (s_store s) r = true ->
    srun s (QSend e rp r :: t) = ([Rep 111 (e_sess e) 8 (e_ctx e) (e_opts e) BNone], s).
  Proof. intros H. cbn [Model.Session.srun Model.Session.respond]. simpl q_env. rewrite H. reflexivity. Qed.

  (* ... and only such a request, or the route filter, ends a session on a SendRRData: a dispatched request on an accepted route is
     answered with status 0 or, when its reply cannot be rendered, status 8 *)
  Lemma routable_accepted s e rp r :
    unroutable (s_store s) r = false -> accept cfg rp = true ->
    respond s (QSend e rp r) =
      (let (st', rep) := exec fixed maxb (s_store s) r in
       match produce rep with
       | Some bs => (SS st' (s_nreg s), Some (Rep 111 (e_sess e) 0 (e_ctx e) (e_opts e) (BCip bs)), true)
       | None => (SS st' (s_nreg s), Some (Rep 111 (e_sess e) 8 (e_ctx e) (e_opts e) BNone), false)
       end).
  Proof.
    intros Hu Ha. cbn [Model.Session.respond]. simpl q_env. rewrite Hu. unfold ucmm_local. rewrite Ha.
    destruct (exec fixed maxb (s_store s) r) as [st' rep]. destruct (produce rep); reflexivity.
  Qed.
End SessionProofs.
