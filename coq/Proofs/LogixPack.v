(* struct.pack / unpack round trip for the CIP scalar types (used by C03, C01). *)
From Coq Require Import ZArith List Bool Lia ZifyBool Arith.
From CV Require Import Base.ListX Model.Logix Proofs.Logix.
Import ListNotations.
Open Scope Z_scope.

Lemma le_bytes_le_val c : Forall is_byte c -> le_bytes (length c) (le_val c) = c.
Proof.
  induction 1 as [|b t Hb Ht IH]; [reflexivity|].
  cbn [length le_bytes le_val]. unfold is_byte in Hb.
  replace ((b + 256 * le_val t) mod 256) with b.
  - replace ((b + 256 * le_val t) / 256) with (le_val t); [rewrite IH; reflexivity|].
    apply Z.div_unique with (r := b); lia.
  - apply Z.mod_unique with (q := le_val t); lia.
Qed.

Lemma le_val_le_bytes n v : 0 <= v < 256 ^ Z.of_nat n -> le_val (le_bytes n v) = v.
Proof.
  revert v; induction n as [|n IH]; intros v Hv.
  - simpl in *. lia.
  - cbn [le_bytes le_val]. rewrite Nat2Z.inj_succ, Z.pow_succ_r in Hv by lia.
    rewrite IH.
    + pose proof (Z.div_mod v 256 ltac:(lia)). lia.
    + split; [apply Z.div_pos; lia | apply Z.div_lt_upper_bound; lia].
Qed.

Lemma pack_unpack1 t c :
  length c = Z.to_nat (siz t) -> Forall is_byte c -> t <> BOOL ->
  pack t (unpack1 t c) = Some c.
Proof.
  intros Hl Hb Hnb. pose proof (le_val_bound c Hb) as Hv. rewrite Hl in Hv.
  pose proof (le_bytes_le_val c Hb) as Hr. rewrite Hl in Hr.
  destruct t; try congruence; cbn [siz] in *; unfold unpack1, pack, in_range, two_compl;
    change (256 ^ Z.of_nat (Z.to_nat 1)) with 256 in Hv;
    change (256 ^ Z.of_nat (Z.to_nat 2)) with 65536 in Hv;
    change (256 ^ Z.of_nat (Z.to_nat 4)) with 4294967296 in Hv;
    change (256 ^ Z.of_nat (Z.to_nat 8)) with 18446744073709551616 in Hv;
    change (Z.to_nat 1) with 1%nat in Hr; change (Z.to_nat 2) with 2%nat in Hr;
    change (Z.to_nat 4) with 4%nat in Hr; change (Z.to_nat 8) with 8%nat in Hr;
    change (Z.shiftl 1 8) with 256; change (Z.shiftl 1 16) with 65536;
    change (Z.shiftl 1 32) with 4294967296; change (Z.shiftl 1 64) with 18446744073709551616.
  all: repeat match goal with |- context [if (?a <? ?b) then _ else _] => destruct (a <? b) eqn:? end.
  all: try match goal with |- context [if (?a && ?b) then _ else _] => destruct (a && b) eqn:?; [|lia] end.
  all: try (rewrite Hr; reflexivity).
  all: f_equal; rewrite <- Hr at 2; f_equal; lia.
Qed.
