(* A positive exactly-once theorem for Model/History.v (property C18): a replay that starts before a well-behaved
   history begins and then catches up delivers every logged record exactly once, in order.
   "Well-behaved" excludes precisely the shapes of the three recorded findings: every file holds at least two
   records, all register data, with strictly increasing timestamps (>= 2 ms apart), and every older file ends
   strictly before every newer file begins. *)
From Coq Require Import ZArith List Bool Lia ZifyBool.
From CV Require Import Model.History Proofs.History.
Import ListNotations.
Open Scope Z_scope.

Definition is_regs (r : rec) : Prop := exists l, r_pay r = PRegs l.

Definition last_ts (f : file) : Z := r_ts (last f (Rec 0 PNull)).

(* timestamps strictly increasing along a list of records, starting above t *)
Fixpoint chain_from (t : option Z) (rs : list rec) : Prop :=
  match rs with
  | [] => True
  | r :: rest => (match t with None => True | Some x => tlt x (r_ts r) = true end) /\ chain_from (Some (r_ts r)) rest
  end.

Definition nice_file (f : file) : Prop := (2 <= length f)%nat /\ Forall is_regs f /\ chain_from None f.

(* newest first; every older file ends strictly before every newer one begins *)
Fixpoint ordered (fs : list file) : Prop :=
  match fs with
  | [] => True
  | f :: older => Forall (fun o => tlt (last_ts o) (first_ts f) = true) older /\ ordered older
  end.

Definition ev_of (r : rec) : list event := match r_pay r with PRegs l => [(r_ts r, l)] | _ => [] end.
Definition data_of (f : file) : list event := flat_map ev_of f.
(* what was logged, oldest file first *)
Definition logged (files : list file) : list event := flat_map data_of (rev files).

Definition due (now look : Z) (r : rec) : Prop := tgt (r_ts r) (now + look) = false.

Lemma tlt_tge a b : tlt a b = true -> tge b a = true.
Proof. unfold tge, tlt. lia. Qed.
Lemma tlt_tgt a b : tlt a b = true -> tgt b a = true.
Proof. unfold tgt. auto. Qed.
Lemma tlt_not_tge a b : tlt a b = true -> tge a b = false.
Proof. unfold tge, tlt. lia. Qed.

(* ---- one register record arriving while the loader is alive and not exhausted ---- *)
Definition running (s : lstate) : Prop := match s with INITIAL | SWITCHING | STREAMING | AWAITING => True | _ => False end.

Lemma on_item_regs now nev l fi ts regs :
  running (l_state l) ->
  (match l_ts l with None => True | Some t => tge ts t = true end) ->
  exists l1, on_item now None nev l (IRec fi ts (PRegs regs)) = (l1, [(ts, regs)], FContinue) /\
    l_state l1 = STREAMING /\ l_gen l1 = l_gen l /\ l_ts l1 = Some ts /\
    l_strict l1 = (if l_strict l && negb (st_opening (l_state l)) && (match l_ts l with None => true | Some t => tgt ts t end)
                   then false else l_strict l).
Proof.
  intros Hrun Hfresh. unfold on_item.
  assert ((match l_ts l with None => true | Some t => tge ts t end) = true) as Hf.
  { destruct (l_ts l); [exact Hfresh | reflexivity]. }
  destruct (l_state l) eqn:Es; try (destruct Hrun; fail); rewrite Hf;
    destruct (absorb now (l_future l ++ [(ts, regs)]) (l_until l) (l_values l)) as [[fut unt] vals];
    eexists; (split; [reflexivity|]); simpl; auto.
Qed.

Lemma last_default {A} (l : list A) d1 d2 : l <> [] -> last l d1 = last l d2.
Proof.
  induction l as [|a l IH]; [congruence|]. intros _. destruct l as [|b l]; [reflexivity|].
  change (last (a :: b :: l) d1) with (last (b :: l) d1). change (last (a :: b :: l) d2) with (last (b :: l) d2).
  apply IH. discriminate.
Qed.

(* ---- streaming the rest of a file: the generator has delivered r0, `rest` are all due ---- *)
Lemma drain_stream files now look : forall rest fuel l evs fi r0 t0,
  l_gen l = GAt fi r0 rest true -> l_state l = STREAMING -> l_ts l = Some t0 ->
  Forall is_regs rest -> Forall (due now look) rest -> chain_from (Some t0) rest ->
  (length rest < fuel)%nat ->
  exists l', drain fuel files now look None l evs = (l', evs ++ flat_map ev_of rest, FContinue) /\
    l_gen l' = GDone /\ l_state l' = STREAMING /\
    l_ts l' = Some (r_ts (last rest (Rec t0 PNull))) /\
    l_strict l' = (match rest with [] => l_strict l | _ => false end).
Proof.
  induction rest as [|r rest' IH]; intros fuel l evs fi r0 t0 Hg Hs Ht Hregs Hdue Hch Hf.
  - destruct fuel as [|f]; [simpl in Hf; lia|]. cbn [drain]. rewrite Hg. cbn [gen_next].
    eexists. split; [rewrite app_nil_r; reflexivity|]. simpl. auto.
  - destruct fuel as [|f]; [simpl in Hf; lia|]. cbn [drain]. rewrite Hg. cbn [gen_next].
    apply Forall_cons_iff in Hregs as [[regs Hp] Hregs']. apply Forall_cons_iff in Hdue as [Hd Hdue'].
    destruct Hch as [Hlt Hch']. unfold due in Hd. rewrite Hd.
    set (l0 := Loader (l_state l) (GAt fi r rest' true) (l_ts l) (l_strict l) (l_future l) (l_until l) (l_values l)).
    destruct (on_item_regs now (Z.of_nat (length evs)) l0 fi (r_ts r) regs) as (l1 & Ho & S1 & G1 & T1 & X1).
    { unfold l0; simpl. rewrite Hs. exact I. }
    { unfold l0; simpl. rewrite Ht. apply tlt_tge. exact Hlt. }
    rewrite Hp. fold l0. rewrite Ho.
    destruct (IH f l1 (evs ++ [(r_ts r, regs)]) fi r (r_ts r)) as (l' & Hd' & G' & S' & T' & X'); auto.
    { simpl in Hf. lia. }
    exists l'. split.
    + rewrite Hd'. f_equal. f_equal. cbn [flat_map]. unfold ev_of at 2. rewrite Hp. rewrite <- app_assoc. reflexivity.
    + split; [exact G'|]. split; [exact S'|]. split.
      * rewrite T'. f_equal. destruct rest' as [|x y]; [reflexivity|]. f_equal.
        change (last (r :: x :: y) (Rec t0 PNull)) with (last (x :: y) (Rec t0 PNull)). apply last_default. discriminate.
      * rewrite X'. destruct rest' as [|x y]; [|reflexivity].
        rewrite X1. unfold l0; simpl. rewrite Hs, Ht. simpl. rewrite (tlt_tgt _ _ Hlt).
        destruct (l_strict l); reflexivity.
Qed.

(* ---- choosing the next file: the files still to do (pre, newest first) all begin after the target, the current
   one does not ---- *)
Lemma select_run target strict f post : forall pre idx best,
  Forall (fun g => sel_after target strict g = true) pre -> sel_after target strict f = false ->
  select (pre ++ f :: post) idx target true strict best =
    match pre with [] => best | _ => Some (idx + length pre - 1)%nat end.
Proof.
  induction pre as [|g t IH]; intros idx best Hall Hf.
  - simpl app. rewrite select_after, Hf. reflexivity.
  - apply Forall_cons_iff in Hall as [Hg Ht]. simpl app. rewrite select_after, Hg, IH by assumption.
    destruct t; simpl; f_equal; lia.
Qed.

Lemma last_ts_first f : nice_file f -> tlt (first_ts f) (last_ts f) = true.
Proof.
  intros (Hlen & _ & Hch). destruct f as [|a [|b t]]; simpl in Hlen; try lia.
  unfold first_ts, last_ts. simpl first_ts.
  assert (forall t0 rs x, chain_from (Some t0) (x :: rs) -> tlt t0 (r_ts (last (x :: rs) (Rec 0 PNull))) = true) as K.
  { intros t0 rs. revert t0. induction rs as [|y rs IH]; intros t0 x [H1 H2]; [exact H1|].
    change (last (x :: y :: rs) (Rec 0 PNull)) with (last (y :: rs) (Rec 0 PNull)).
    specialize (IH (r_ts x) y H2). unfold tlt in *. lia. }
  destruct Hch as [_ Hch]. apply (K (r_ts a) t b Hch).
Qed.


Lemma ordered_newer a : forall f b, ordered (a ++ f :: b) -> Forall (fun h => tlt (last_ts f) (first_ts h) = true) a.
Proof.
  induction a as [|h a' IH]; intros f b H; [constructor|]. simpl in H. destruct H as [Hall Ho].
  constructor; [|eapply IH; eauto].
  rewrite Forall_forall in Hall. apply Hall. apply in_or_app. right. left. reflexivity.
Qed.

Lemma length_le_concat (fs : list file) g : In g fs -> (length g <= length (concat fs))%nat.
Proof.
  induction fs as [|h t IH]; intros Hin; [destruct Hin|]. simpl. rewrite app_length.
  destruct Hin as [->|Hin]; [lia | specialize (IH Hin); lia].
Qed.

Lemma nice_shape f : nice_file f -> exists r rest, f = r :: rest /\ rest <> [] /\ Forall is_regs (r :: rest) /\
  chain_from (Some (r_ts r)) rest /\ r_ts (last rest (Rec (r_ts r) PNull)) = last_ts f /\ first_ts f = r_ts r.
Proof.
  intros (Hlen & Hregs & Hch). destruct f as [|r [|x y]]; simpl in Hlen; try lia.
  exists r, (x :: y). split; [reflexivity|]. split; [discriminate|]. split; [exact Hregs|].
  destruct Hch as [_ Hch]. split; [exact Hch|]. split; [|reflexivity].
  unfold last_ts. change (last (r :: x :: y) (Rec 0 PNull)) with (last (x :: y) (Rec 0 PNull)).
  f_equal. apply last_default. discriminate.
Qed.

(* ---- one whole file, freshly opened while SWITCHING ---- *)
Lemma drain_fresh_file files now look pre g f post fuel l evs :
  files = (pre ++ [g]) ++ f :: post -> ordered files -> nice_file g -> nice_file f -> Forall (due now look) g ->
  l_gen l = GNew (Some (last_ts f)) true false -> l_state l = SWITCHING -> l_ts l = Some (last_ts f) -> l_strict l = true ->
  (length g < fuel)%nat ->
  exists l', drain fuel files now look None l evs = (l', evs ++ data_of g, FContinue) /\
    l_gen l' = GDone /\ l_state l' = STREAMING /\ l_ts l' = Some (last_ts g) /\ l_strict l' = false.
Proof.
  intros Hfiles Hord Hg Hf Hdue Hgen Hst Hts Hstrict Hfuel.
  destruct (nice_shape g Hg) as (r & rest & -> & Hne & Hregs & Hch & Hlast & Hfirst).
  destruct fuel as [|fu]; [simpl in Hfuel; lia|]. cbn [drain]. rewrite Hgen. cbn [gen_next].
  assert (select files 0 (last_ts f) true false None = Some (length pre)) as Hsel.
  { rewrite Hfiles. rewrite select_run.
    - destruct pre as [|p0 pre0]; [reflexivity|]. cbn [app]. cbv iota. apply f_equal.
      cbn [length]. rewrite app_length. simpl. lia.
    - rewrite Hfiles in Hord. pose proof (ordered_newer _ _ _ Hord) as Hn.
      eapply Forall_impl; [|exact Hn]. intros h Hh. simpl. apply tlt_tge. exact Hh.
    - simpl. apply tlt_not_tge. apply last_ts_first. exact Hf. }
  rewrite Hsel.
  assert (nth_error files (length pre) = Some (r :: rest)) as Hnth.
  { rewrite Hfiles, <- app_assoc. rewrite nth_error_app2 by lia. rewrite Nat.sub_diag. reflexivity. }
  rewrite Hnth.
  apply Forall_cons_iff in Hdue as [Hd Hdue']. unfold due in Hd. rewrite Hd.
  apply Forall_cons_iff in Hregs as [[regs Hp] Hregs'].
  set (l0 := Loader (l_state l) (GAt (length pre) r rest true) (l_ts l) (l_strict l) (l_future l) (l_until l) (l_values l)).
  destruct (on_item_regs now (Z.of_nat (length evs)) l0 (length pre) (r_ts r) regs) as (l1 & Ho & S1 & G1 & T1 & X1).
  { unfold l0; simpl. rewrite Hst. exact I. }
  { unfold l0; simpl. rewrite Hts. apply tlt_tge. rewrite <- Hfirst.
    rewrite Hfiles in Hord. pose proof (ordered_newer _ _ _ Hord) as Hn. rewrite Forall_forall in Hn.
    apply Hn. apply in_or_app. right. left. reflexivity. }
  rewrite Hp. fold l0. rewrite Ho.
  destruct (drain_stream files now look rest fu l1 (evs ++ [(r_ts r, regs)]) (length pre) r (r_ts r)) as (l' & Hd' & G' & S' & T' & X'); auto.
  { simpl in Hfuel. lia. }
  exists l'. split.
  - rewrite Hd'. unfold data_of. cbn [flat_map]. unfold ev_of at 2. rewrite Hp, <- app_assoc. reflexivity.
  - split; [exact G'|]. split; [exact S'|]. split; [rewrite T', Hlast; reflexivity|].
    rewrite X'. destruct rest; [congruence | reflexivity].
Qed.

(* ---- catching up through all the newer files ---- *)
Lemma catchup files now look : ordered files -> Forall nice_file files -> Forall (Forall (due now look)) files ->
  forall pre f post fuel l evs, files = pre ++ f :: post ->
  l_state l = SWITCHING -> l_ts l = Some (last_ts f) -> l_strict l = false ->
  (length (concat files) + length pre + 2 <= fuel)%nat ->
  exists l', load_loop fuel files now look None false l evs = (l', evs ++ flat_map data_of (rev pre), false) /\
             l_state l' = EXHAUSTED.
Proof.
  intros Hord Hnice Hdue. induction pre as [|g pre' IH] using rev_ind; intros f post fuel l evs Hfiles Hst Hts Hstrict Hfuel.
  - destruct fuel as [|fu]; [lia|]. cbn [load_loop]. rewrite Hst. cbn [st_le_streaming orb st_opening].
    set (l0 := Loader SWITCHING (GNew (l_ts l) (negb false) (l_strict l)) (l_ts l) true (l_future l) (l_until l) (l_values l)).
    assert (drain (S fu * 4) files now look None l0 evs =
            (Loader EXHAUSTED GNoop (l_ts l0) (l_strict l0) (l_future l0) (l_until l0) (l_values l0), evs, FContinue)) as Hd.
    { cbn [Nat.mul Nat.add drain]. unfold l0 at 1. cbn [l_gen gen_next]. rewrite Hts, Hstrict. cbn [negb].
      assert (select files 0 (last_ts f) true false None = None) as ->; [|reflexivity].
      rewrite Hfiles. simpl app. rewrite select_after.
      assert (sel_after (last_ts f) false f = false) as ->; [|reflexivity].
      simpl. apply tlt_not_tge. apply last_ts_first.
      rewrite Forall_forall in Hnice. apply Hnice. rewrite Hfiles. left. reflexivity. }
    rewrite Hd. cbn [l_state l_gen].
    destruct fu as [|fu']; [lia|]. cbn [load_loop l_state st_le_streaming orb].
    eexists. split; [simpl; rewrite app_nil_r; reflexivity | reflexivity].
  - destruct fuel as [|fu]; [lia|]. cbn [load_loop]. rewrite Hst. cbn [st_le_streaming orb st_opening].
    set (l0 := Loader SWITCHING (GNew (l_ts l) (negb false) (l_strict l)) (l_ts l) true (l_future l) (l_until l) (l_values l)).
    assert (In g files) as Hgin by (rewrite Hfiles; apply in_or_app; left; apply in_or_app; right; left; reflexivity).
    assert (In f files) as Hfin by (rewrite Hfiles; apply in_or_app; right; left; reflexivity).
    rewrite Forall_forall in Hnice, Hdue.
    destruct (drain_fresh_file files now look pre' g f post (S fu * 4) l0 evs Hfiles Hord (Hnice g Hgin) (Hnice f Hfin) (Hdue g Hgin))
      as (l1 & Hd & G1 & S1 & T1 & X1).
    { unfold l0; simpl. rewrite Hts, Hstrict. reflexivity. }
    { reflexivity. }
    { unfold l0; simpl. exact Hts. }
    { reflexivity. }
    { pose proof (length_le_concat files g Hgin). rewrite app_length in Hfuel. simpl in Hfuel. lia. }
    rewrite Hd, S1, G1.
    set (l2 := Loader SWITCHING GDone (l_ts l1) (l_strict l1) (l_future l1) (l_until l1) (l_values l1)).
    destruct (IH g (f :: post) fu l2 (evs ++ data_of g)) as (l' & Hl' & Se).
    { rewrite Hfiles, <- app_assoc. reflexivity. }
    { reflexivity. }
    { unfold l2; simpl. exact T1. }
    { unfold l2; simpl. exact X1. }
    { rewrite app_length in Hfuel. simpl in Hfuel. lia. }
    exists l'. split; [|exact Se]. rewrite Hl'. f_equal. f_equal. rewrite rev_app_distr. simpl. rewrite <- app_assoc. reflexivity.
Qed.

(* ---- the initial open when every file begins after the start: the oldest file ---- *)
Lemma select_oldest t strict : forall files idx best,
  files <> [] -> Forall (fun g => sel_before t strict g = false) files ->
  select files idx t false strict best = Some (idx + length files - 1)%nat.
Proof.
  induction files as [|f rest IH]; intros idx best Hne Hall; [congruence|].
  apply Forall_cons_iff in Hall as [Hf Hrest]. cbn [select]. fold (sel_before t strict f). rewrite Hf. cbn [andb negb].
  destruct rest as [|g rest'].
  - simpl. f_equal. lia.
  - rewrite IH by (try discriminate; assumption). simpl. f_equal. lia.
Qed.

Section Replay.
  Variables (files pre : list file) (old : file) (look t0 T : Z).
  Hypothesis Hfiles : files = pre ++ [old].
  Hypothesis Hord : ordered files.
  Hypothesis Hnice : Forall nice_file files.
  Hypothesis Hlook : 0 <= look.
  Hypothesis Hstart : tgt (first_ts old) (t0 + look) = true.       (* the replay starts before the history begins *)
  Hypothesis Hdue : Forall (Forall (due T look)) files.             (* ... and then catches up past its end *)

  Lemma old_in : In old files.
  Proof. rewrite Hfiles. apply in_or_app. right. left. reflexivity. Qed.

  Lemma all_after_start : Forall (fun g => sel_before t0 false g = false) files.
  Proof.
    rewrite Hfiles. apply Forall_app. split.
    - rewrite Hfiles in Hord. replace (pre ++ [old]) with (pre ++ old :: []) in Hord by reflexivity.
      pose proof (ordered_newer _ _ _ Hord) as Hn. eapply Forall_impl; [|exact Hn].
      intros g Hg. simpl. pose proof (last_ts_first old) as Hl.
      pose proof (proj1 (Forall_forall _ _) Hnice) as HniceF. specialize (Hl (HniceF old old_in)).
      unfold tle, tgt, tlt in *. lia.
    - constructor; [|constructor]. simpl. unfold tle, tgt, tlt in *. lia.
  Qed.

  Lemma first_load : exists r0 rest0 l1,
    old = r0 :: rest0 /\ load files look None t0 init = (l1, []) /\
    l_state l1 = AWAITING /\ l_gen l1 = GAt (length pre) r0 rest0 false /\ l_ts l1 = None /\ l_strict l1 = true.
  Proof.
    pose proof (proj1 (Forall_forall _ _) Hnice) as HniceF.
    destruct (nice_shape old (HniceF old old_in)) as (r0 & rest0 & Eo & Hne & Hregs & Hch & Hlast & Hfirst).
    exists r0, rest0. unfold load. cbn [init l_state st_alive].
    remember (length (concat files) + length files + 4)%nat as n eqn:En.
    destruct n as [|[|n']]; [lia | lia |].
    cbn [load_loop init l_state st_le_streaming orb st_opening l_ts l_strict l_future l_until l_values negb].
    cbn [Nat.mul Nat.add drain l_gen gen_next].
    assert (select files 0 t0 false false None = Some (length pre)) as ->.
    { rewrite select_oldest; [|rewrite Hfiles; destruct pre; discriminate | exact all_after_start].
      rewrite Hfiles, app_length. simpl. f_equal. lia. }
    assert (nth_error files (length pre) = Some (r0 :: rest0)) as ->.
    { rewrite Hfiles, nth_error_app2 by lia. rewrite Nat.sub_diag, Eo. reflexivity. }
    pose proof Hstart as Hs. rewrite Eo in Hs. simpl in Hs. rewrite Hs.
    cbn [on_item l_state l_gen l_ts l_strict l_future l_until l_values app].
    cbn [load_loop l_state st_le_streaming orb].
    eexists. split; [exact Eo|]. split; [reflexivity|]. simpl. auto.
  Qed.

  Lemma second_load r0 rest0 l1 :
    old = r0 :: rest0 ->
    l_state l1 = AWAITING -> l_gen l1 = GAt (length pre) r0 rest0 false -> l_ts l1 = None -> l_strict l1 = true ->
    exists l2, load files look None T l1 = (l2, logged files) /\ l_state l2 = EXHAUSTED.
  Proof.
    intros Eo Hst Hgen Hts Hstrict.
    pose proof (proj1 (Forall_forall _ _) Hnice) as HniceF. pose proof (proj1 (Forall_forall _ _) Hdue) as HdueF.
    destruct (nice_shape old (HniceF old old_in)) as (r & rest & Eo' & Hne & Hregs & Hch & Hlast & Hfirst).
    rewrite Eo in Eo'. inversion Eo'; subst r rest. clear Eo'.
    unfold load. rewrite Hst. cbn [st_alive].
    remember (length (concat files) + length files + 4)%nat as n eqn:En.
    destruct n as [|f]; [lia|].
    cbn [load_loop]. rewrite Hst. cbn [st_le_streaming orb st_opening].
    pose proof (HdueF old old_in) as Hd. rewrite Eo in Hd. apply Forall_cons_iff in Hd as [Hd0 Hdrest].
    apply Forall_cons_iff in Hregs as [[regs Hp] Hregs'].
    (* the awaited first record *)
    assert (exists l', drain (S f * 4) files T look None l1 [] = (l', data_of old, FContinue) /\
              l_gen l' = GDone /\ l_state l' = STREAMING /\ l_ts l' = Some (last_ts old) /\ l_strict l' = false) as (l' & Hdr & G' & S' & T' & X').
    { assert (exists k, (S f * 4 = S k)%nat /\ (length rest0 < k)%nat) as (k & Ek & Hk).
      { exists (3 + f * 4)%nat. split; [lia|]. pose proof (length_le_concat files old old_in) as H. rewrite Eo in H. simpl in H. lia. }
      rewrite Ek. cbn [drain]. rewrite Hgen. cbn [gen_next]. unfold due in Hd0. rewrite Hd0.
      set (l0 := Loader (l_state l1) (GAt (length pre) r0 rest0 true) (l_ts l1) (l_strict l1) (l_future l1) (l_until l1) (l_values l1)).
      destruct (on_item_regs T (Z.of_nat (length (@nil event))) l0 (length pre) (r_ts r0) regs) as (la & Ho & Sa & Ga & Ta & Xa).
      { unfold l0; simpl. rewrite Hst. exact I. }
      { unfold l0; simpl. rewrite Hts. exact I. }
      rewrite Hp. fold l0. rewrite Ho.
      destruct (drain_stream files T look rest0 k la ([] ++ [(r_ts r0, regs)]) (length pre) r0 (r_ts r0) Ga Sa Ta Hregs' Hdrest Hch Hk)
        as (lb & Hb & Gb & Sb & Tb & Xb).
      exists lb. cbn [app] in Hb |- *. split.
      - rewrite Hb. unfold data_of. rewrite Eo. cbn [flat_map]. unfold ev_of at 2. rewrite Hp. reflexivity.
      - split; [exact Gb|]. split; [exact Sb|]. split; [rewrite Tb, Hlast; reflexivity|].
        rewrite Xb. destruct rest0; [congruence | reflexivity]. }
    rewrite Hdr, S', G'.
    set (l2 := Loader SWITCHING GDone (l_ts l') (l_strict l') (l_future l') (l_until l') (l_values l')).
    destruct (catchup files T look Hord) with (pre := pre) (f := old) (post := @nil file) (fuel := f) (l := l2) (evs := data_of old)
      as (l3 & Hl3 & S3).
    { exact Hnice. }
    { exact Hdue. }
    { exact Hfiles. }
    { reflexivity. }
    { unfold l2; simpl. exact T'. }
    { unfold l2; simpl. exact X'. }
    { assert (length files = length pre + 1)%nat as Hlf by (rewrite Hfiles, app_length; simpl; lia). lia. }
    exists l3. split; [|exact S3]. rewrite Hl3. f_equal.
    unfold logged. rewrite Hfiles, rev_app_distr. reflexivity.
  Qed.

  (* The replay delivers every logged record exactly once, in logged order: the delivered sequence IS the log. *)
  Theorem exactly_once : concat (snd (replay files look None [t0; T] init)) = logged files.
  Proof.
    destruct first_load as (r0 & rest0 & l1 & Eo & H1 & S1 & G1 & T1 & X1).
    destruct (second_load r0 rest0 l1 Eo S1 G1 T1 X1) as (l2 & H2 & S2).
    cbn [replay]. rewrite H1, H2. simpl. rewrite app_nil_r. reflexivity.
  Qed.
End Replay.
