(* Proofs for property C08: only a successful write changes the tag store; the engine's no-progress detection
   bounds the work per sub-machine cycle. *)
From Coq Require Import ZArith List Bool Lia.
From CV Require Import Model.Logix Proofs.Logix Model.Engine Proofs.Engine.
Import ListNotations.
Open Scope Z_scope.

(* ---- the tag store ---- *)
Definition is_write (r : req) : Prop :=
  match r with WriteTag _ _ _ _ | WriteFrag _ _ _ _ _ | SetAttr _ _ => True | _ => False end.

(* one request: the store changes only if it is a write / set service that was acknowledged *)
Theorem exec1_store_change q maxb st r st' rp :
  wf_store st -> req_ok r -> exec1 q maxb st r = (st', rp) -> st' <> st -> is_write r /\ ~ is_fail rp.
Proof.
  intros Hwf Hok H Hne.
  destruct (exec1_inv _ _ _ _ _ _ Hwf Hok H) as (_ & _ & _ & Hfail).
  split; [|intros Hf; apply Hne; exact (Hfail Hf)].
  destruct r; simpl; auto; cbn [exec1] in H; inversion H; subst; congruence.
Qed.

Lemma exec1_nonwrite q maxb st r st' rp : ~ is_write r -> exec1 q maxb st r = (st', rp) -> st' = st.
Proof. intros Hn H. destruct r; simpl in Hn; try tauto; cbn [exec1] in H; inversion H; reflexivity. Qed.

(* a bundle without a write / set member leaves the store as it was, whatever its members are *)
Theorem exec_seq_nonwrite q maxb rs : forall st st' rps,
  Forall (fun r => ~ is_write r) rs -> exec_seq q maxb st rs = (st', rps) -> st' = st.
Proof.
  induction rs as [|r t IH]; intros st st' rps Hall H; cbn [exec_seq] in H.
  - inversion H; reflexivity.
  - inversion Hall as [|? ? Hr Hall']; subst.
    destruct (exec1 q maxb st r) as [st1 rp] eqn:E1.
    pose proof (exec1_nonwrite _ _ _ _ _ _ Hr E1) as ->.
    destruct (produce rp); [|inversion H; reflexivity].
    destruct (exec_seq q maxb st t) as [st2 rps2] eqn:E2. inversion H; subst. eapply IH; eauto.
Qed.

Theorem exec_store_change q maxb st r st' rp :
  exec q maxb st r = (st', rp) -> st' <> st ->
  match r with Multiple rs => ~ Forall (fun m => ~ is_write m) rs | _ => is_write r end.
Proof.
  intros H Hne. destruct r as [p n|p n off|p ty n d|p ty n off d|p|p bs|rs]; unfold exec in H; simpl; auto;
    try (exfalso; apply Hne; eapply exec1_nonwrite; [|exact H]; simpl; tauto).
  intros Hall. apply Hne. destruct (exec_seq q maxb st rs) as [st1 rps] eqn:E. inversion H; subst.
  eapply exec_seq_nonwrite; eauto.
Qed.

(* ---- the engine: a sub-machine cycle cannot spin ---- *)
(* every iteration of a cycle either moves on in the input or visits a (target, next symbol, position) triple not
   seen before in this cycle; the triples seen are pairwise distinct *)
Fixpoint cycle_steps (rec : runner) (h : nat) (cur : nat) (s : source) (d : data) (seen : list crumb) : nat :=
  match h with
  | O => O
  | S h' =>
    match rec cur s d with
    | RFail _ => 1
    | ROk s' d' y t =>
      match y with
      | Some (Some tgt) =>
          let c := (Some tgt, peek s', sent s') in
          if seen_in c seen then 1 else S (cycle_steps rec h' tgt s' d' (c :: seen))
      | _ => 1
      end
    end
  end.

Lemma crumb_eqb_eq a b : crumb_eqb a b = true -> a = b.
Proof.
  destruct a as [[t1 p1] s1], b as [[t2 p2] s2]. unfold crumb_eqb. intros H.
  apply andb_true_iff in H as [H H3]. apply andb_true_iff in H as [H1 H2].
  apply Z.eqb_eq in H3. subst s2.
  assert (t1 = t2) as -> by (destruct t1, t2; try discriminate; [apply Nat.eqb_eq in H1; subst; reflexivity | reflexivity]).
  assert (p1 = p2) as -> by (destruct p1, p2; try discriminate; [apply Z.eqb_eq in H2; subst; reflexivity | reflexivity]).
  reflexivity.
Qed.

Lemma crumb_eqb_refl a : crumb_eqb a a = true.
Proof.
  destruct a as [[t p] s]. unfold crumb_eqb. rewrite Z.eqb_refl.
  destruct t; destruct p; rewrite ?Nat.eqb_refl, ?Z.eqb_refl; reflexivity.
Qed.

Lemma seen_in_spec c l : seen_in c l = true <-> In c l.
Proof.
  unfold seen_in. rewrite existsb_exists. split.
  - intros (x & Hx & E). apply crumb_eqb_eq in E. subst. exact Hx.
  - intros H. exists c. split; [exact H | apply crumb_eqb_refl].
Qed.

(* the crumbs a cycle can ever record lie in a finite universe U (the caller gives it: targets x positions);
   then the cycle ends (done, stasis, or failure) within |U| + 1 iterations whatever the fuel *)
Theorem cycle_bounded rec (U : list crumb) :
  (forall cur s d s' d' tgt t, rec cur s d = ROk s' d' (Some (Some tgt)) t -> In (Some tgt, peek s', sent s') U) ->
  forall h cur s d seen, NoDup seen -> incl seen U ->
  (cycle_steps rec h cur s d seen + length seen <= S (length U))%nat.
Proof.
  intros HU h. induction h as [|h IH]; intros cur s d seen Hnd Hincl; cbn [cycle_steps].
  - pose proof (NoDup_incl_length Hnd Hincl). lia.
  - pose proof (NoDup_incl_length Hnd Hincl) as Hlen.
    destruct (rec cur s d) as [s' d' y t|c] eqn:Er; [|lia].
    destruct y as [[tgt|]|]; try lia.
    destruct (seen_in (Some tgt, peek s', sent s') seen) eqn:Es; [lia|].
    assert (~ In (Some tgt, peek s', sent s') seen) as Hnin.
    { intros Hin. apply seen_in_spec in Hin. congruence. }
    specialize (IH tgt s' d' ((Some tgt, peek s', sent s') :: seen)).
    assert (NoDup ((Some tgt, peek s', sent s') :: seen)) as Hnd' by (constructor; assumption).
    assert (incl ((Some tgt, peek s', sent s') :: seen) U) as Hincl'.
    { intros x [<-|Hx]; [eapply HU; eauto | apply Hincl; exact Hx]. }
    specialize (IH Hnd' Hincl'). simpl in IH. lia.
Qed.

(* with more fuel than that bound the cycle never reports "out of fuel" by itself *)
Lemma cycle_once_steps rec : forall h cur s d seen,
  (cycle_steps rec h cur s d seen < h)%nat \/ h = O \/
  (cycle_steps rec h cur s d seen = h) .
Proof.
  induction h as [|h IH]; intros; [right; left; reflexivity|]. cbn [cycle_steps].
  destruct (rec cur s d) as [s' d' y t|c]; [|destruct h; [right; right; reflexivity | left; lia]].
  destruct y as [[tgt|]|]; try (destruct h; [right; right; reflexivity | left; lia]).
  destruct (seen_in _ seen); [destruct h; [right; right; reflexivity | left; lia]|].
  destruct (IH tgt s' d' ((Some tgt, peek s', sent s') :: seen)) as [H|[H|H]]; [left; lia | subst h; right; right; reflexivity | right; right; lia].
Qed.

Theorem cycle_never_out_of_fuel rec (U : list crumb) :
  (forall cur s d s' d' tgt t, rec cur s d = ROk s' d' (Some (Some tgt)) t -> In (Some tgt, peek s', sent s') U) ->
  (forall cur s d, rec cur s d <> RFail 9) ->
  forall h cur s d seen, NoDup seen -> incl seen U -> (S (length U) - length seen < h)%nat ->
  cycle_once rec h cur s d seen <> CFail 9.
Proof.
  intros HU Hrec h. induction h as [|h IH]; intros cur s d seen Hnd Hincl Hfuel; [lia|].
  cbn [cycle_once]. destruct (rec cur s d) as [s' d' y t|c] eqn:Er.
  - destruct y as [[tgt|]|]; try (destruct t; discriminate).
    destruct (seen_in (Some tgt, peek s', sent s') seen) eqn:Es; [destruct t; discriminate|].
    assert (~ In (Some tgt, peek s', sent s') seen) as Hnin by (intros Hin; apply seen_in_spec in Hin; congruence).
    apply IH.
    + constructor; assumption.
    + intros x [<-|Hx]; [eapply HU; eauto | apply Hincl; exact Hx].
    + cbn [length]. pose proof (NoDup_incl_length Hnd Hincl).
      assert (In (Some tgt, peek s', sent s') U) as HinU by (eapply HU; eauto).
      assert (length seen < length U)%nat.
      { assert (NoDup ((Some tgt, peek s', sent s') :: seen)) as Hnd' by (constructor; assumption).
        assert (incl ((Some tgt, peek s', sent s') :: seen) U) as Hincl' by (intros x [<-|Hx]; [exact HinU | apply Hincl; exact Hx]).
        pose proof (NoDup_incl_length Hnd' Hincl') as Hl. cbn [length] in Hl. unfold crumb in *. lia. }
      unfold crumb in *. lia.
  - intros E. inversion E; subst. exact (Hrec cur s d Er).
Qed.
