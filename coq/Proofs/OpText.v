(* Proofs about Model/OpText.v (property C12): a well-formed operation description parses back to the operation it spells. *)
From Coq Require Import ZArith List Bool Lia.
From CV Require Import Model.Tnet Model.Route Model.OpText Proofs.Tnet Proofs.Route.
Import ListNotations.
Open Scope Z_scope.

Lemma break_at_free sep a : free_of sep a -> break_at sep a = None.
Proof. induction 1 as [|c t Hc Ht IH]; simpl; [reflexivity | rewrite Hc, IH; reflexivity]. Qed.

Lemma break_at_app sep a b : free_of sep a -> break_at sep (a ++ sep :: b) = Some (a, b).
Proof.
  induction 1 as [|c t Hc Ht IH]; simpl.
  - rewrite Z.eqb_refl. reflexivity.
  - rewrite Hc, IH. reflexivity.
Qed.

(* a name may not contain the characters the syntax uses *)
Definition name_ok (n : list Z) : Prop :=
  n <> [] /\ free_of c_eq n /\ free_of c_plus n /\ free_of c_lbr n.
Definition type_ok (t : list Z) : Prop := free_of c_rpar t /\ free_of c_eq t.

Definition op_ok (o : optext) : Prop :=
  name_ok (t_name o) /\
  match t_elem o with None => True | Some (a, None) => 0 <= a | Some (a, Some b) => 0 <= a /\ 0 <= b end /\
  match t_off o with None => True | Some f => 0 <= f end /\
  match t_write o with None => True | Some (ty, vals) => type_ok ty /\ vals <> [] end.

Ltac dfree := repeat (first [ apply free_app | apply Forall_cons; [reflexivity|] | apply Forall_nil
                            | (apply dec_free; [lia | reflexivity]) | assumption ]).

Lemma elem_text_free sep e :
  is_digit sep = false -> (c_lbr =? sep) = false -> (c_rbr =? sep) = false -> (c_dash =? sep) = false ->
  match e with None => True | Some (a, None) => 0 <= a | Some (a, Some b) => 0 <= a /\ 0 <= b end ->
  free_of sep (match e with
               | None => []
               | Some (a, None) => c_lbr :: dec a ++ [c_rbr]
               | Some (a, Some b) => c_lbr :: dec a ++ c_dash :: dec b ++ [c_rbr]
               end).
Proof.
  intros Hd H1 H2 H3 He. destruct e as [[a [b|]]|]; [destruct He| |constructor].
  - constructor; [exact H1|]. apply free_app; [apply dec_free; auto|]. constructor; [exact H3|].
    apply free_app; [apply dec_free; auto|]. constructor; [exact H2 | constructor].
  - constructor; [exact H1|]. apply free_app; [apply dec_free; auto|]. constructor; [exact H2 | constructor].
Qed.

Lemma parse_elem_print n e :
  free_of c_lbr n ->
  match e with None => True | Some (a, None) => 0 <= a | Some (a, Some b) => 0 <= a /\ 0 <= b end ->
  parse_elem (n ++ match e with
                   | None => []
                   | Some (a, None) => c_lbr :: dec a ++ [c_rbr]
                   | Some (a, Some b) => c_lbr :: dec a ++ c_dash :: dec b ++ [c_rbr]
                   end) = Some (n, e).
Proof.
  intros Hn He. unfold parse_elem. destruct e as [[a [b|]]|].
  - destruct He as [Ha Hb]. rewrite break_at_app by exact Hn.
    replace (dec a ++ c_dash :: dec b ++ [c_rbr]) with ((dec a ++ c_dash :: dec b) ++ c_rbr :: []) by (rewrite <- app_assoc; reflexivity).
    rewrite break_at_app by (apply free_app; [apply dec_free; [lia|reflexivity] | constructor; [reflexivity | apply dec_free; [lia|reflexivity]]]).
    rewrite break_at_app by (apply dec_free; [lia | reflexivity]).
    destruct (dec_spec a Ha) as (_ & _ & ->). destruct (dec_spec b Hb) as (_ & _ & ->). reflexivity.
  - rewrite break_at_app by exact Hn.
    rewrite break_at_app by (apply dec_free; [lia | reflexivity]).
    rewrite break_at_free by (apply dec_free; [lia | reflexivity]).
    destruct (dec_spec a He) as (_ & _ & ->). reflexivity.
  - rewrite app_nil_r. rewrite break_at_free by exact Hn. reflexivity.
Qed.

Lemma split_join vals : vals <> [] ->
  split_on c_comma (join c_comma (map print_int vals)) [] = map print_int vals.
Proof.
  induction vals as [|v t IH]; intros Hne; [congruence|].
  destruct t as [|v2 t'].
  - simpl. apply split_on_last. apply print_int_free; reflexivity.
  - change (join c_comma (map print_int (v :: v2 :: t'))) with (print_int v ++ c_comma :: join c_comma (map print_int (v2 :: t'))).
    rewrite split_on_app by (apply print_int_free; reflexivity). simpl rev. simpl app at 1.
    rewrite IH by discriminate. reflexivity.
Qed.

Lemma all_some_parse vals : all_some (map parse_int (map print_int vals)) = Some vals.
Proof.
  induction vals as [|v t IH]; simpl; [reflexivity|]. rewrite print_parse_int, IH. reflexivity.
Qed.

Lemma join_free sep vals : is_digit sep = false -> (c_minus =? sep) = false -> (c_comma =? sep) = false ->
  free_of sep (join c_comma (map print_int vals)).
Proof.
  intros H1 H2 H3. induction vals as [|v t IH]; [constructor|].
  destruct t as [|v2 t']; [simpl; apply print_int_free; auto|].
  change (join c_comma (map print_int (v :: v2 :: t'))) with (print_int v ++ c_comma :: join c_comma (map print_int (v2 :: t'))).
  apply free_app; [apply print_int_free; auto|]. constructor; [exact H3 | exact IH].
Qed.

(* Every well-formed operation description denotes exactly the operation it spells. *)
Theorem parse_print_op o : op_ok o -> parse_op (print_op o) = Some o.
Proof.
  destruct o as [n e f w]. intros ((Hne & Hneq & Hnpl & Hnlb) & He & Hf & Hw). cbn [t_name t_elem t_off t_write] in *.
  unfold parse_op, print_op. cbn [t_name t_elem t_off t_write].
  set (etxt := match e with
               | None => []
               | Some (a, None) => c_lbr :: dec a ++ [c_rbr]
               | Some (a, Some b) => c_lbr :: dec a ++ c_dash :: dec b ++ [c_rbr]
               end).
  set (ftxt := match f with None => [] | Some f0 => c_plus :: dec f0 end).
  assert (free_of c_eq etxt) as Hee by (apply elem_text_free; auto; reflexivity).
  assert (free_of c_plus etxt) as Hep by (apply elem_text_free; auto; reflexivity).
  assert (free_of c_eq ftxt) as Hfe.
  { unfold ftxt. destruct f as [f0|]; [|constructor]. constructor; [reflexivity | apply dec_free; [lia | reflexivity]]. }
  assert (parse_elem (n ++ etxt) = Some (n, e)) as Hpe by (apply parse_elem_print; auto).
  (* the offset part, once the '=' part is gone *)
  assert (forall tail : list Z -> option (Z * option Z) -> option Z -> option optext, (let (lhs2, off) := match break_at c_plus (n ++ etxt ++ ftxt) with
                                            | Some (a, b) => (a, Some b) | None => (n ++ etxt ++ ftxt, None) end in
            match (match off with
                   | None | Some [] => Some None
                   | Some o => match undec o with Some v => Some (Some v) | None => None end
                   end) with
            | None => None
            | Some offv => match parse_elem lhs2 with None => None | Some (nm, el) => tail nm el offv end
            end) = tail n e f) as Hoff.
  { intros tail. unfold ftxt. destruct f as [f0|].
    - rewrite app_assoc. rewrite break_at_app by (apply free_app; assumption).
      destruct (dec_spec f0 Hf) as (_ & Hnn & Hu). destruct (dec f0) as [|c r] eqn:Ed; [congruence|].
      rewrite Hu, Hpe. reflexivity.
    - rewrite app_nil_r. rewrite break_at_free by (apply free_app; assumption). rewrite Hpe. reflexivity. }
  destruct w as [[ty vals]|].
  - destruct Hw as [[Htr Hte] Hvn].
    rewrite !app_assoc. rewrite break_at_app by (repeat apply free_app; assumption).
    rewrite <- !app_assoc.
    rewrite (Hoff (fun nm el offv =>
      match c_lpar :: ty ++ c_rpar :: join c_comma (map print_int vals) with
      | c :: r => if c =? c_lpar then match break_at c_rpar r with
                                      | Some (ty0, vs) => match all_some (map parse_int (split_on c_comma vs [])) with
                                                          | Some vals0 => Some (OpText nm el offv (Some (ty0, vals0)))
                                                          | None => None end
                                      | None => None end else None
      | [] => Some (OpText nm el offv None)
      end)).
    rewrite Z.eqb_refl. rewrite break_at_app by exact Htr.
    rewrite split_join by exact Hvn. rewrite all_some_parse. reflexivity.
  - rewrite !app_nil_r. rewrite !app_assoc. rewrite break_at_free by (repeat apply free_app; assumption).
    rewrite <- !app_assoc. rewrite (Hoff (fun nm el offv => Some (OpText nm el offv None))). reflexivity.
Qed.

(* distinct operations never share a text *)
Lemma print_op_injective a b : op_ok a -> op_ok b -> print_op a = print_op b -> a = b.
Proof.
  intros Ha Hb H. pose proof (parse_print_op a Ha) as A. pose proof (parse_print_op b Hb) as B.
  rewrite H in A. rewrite A in B. injection B as ->. reflexivity.
Qed.
