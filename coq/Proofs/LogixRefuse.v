(* C05: refused requests have no side effects; accepted writes stay readable. *)
From Coq Require Import ZArith List Bool Lia ZifyBool Arith.
From CV Require Import Base.ListX Model.Logix Proofs.Logix.
Import ListNotations.
Open Scope Z_scope.

Lemma refuse_unknown_write q st r p frag ty n off d :
  lookup st p = None -> exec_write q st r p frag ty n off d = (st, RFail (rsvc r) 5 [0]).
Proof. intros H. unfold exec_write. rewrite H. reflexivity. Qed.

Lemma refuse_unknown_read maxb st r p frag n off :
  lookup st p = None -> exec_read maxb st r p frag n off = RFail (rsvc r) 5 [0].
Proof. intros H. unfold exec_read. rewrite H. reflexivity. Qed.

Lemma refuse_type q st r p k a frag ty n off d :
  lookup st p = Some k -> attr_at st k = Some a ->
  (forall t, ty_of_code ty = Some t -> allowed (a_ty a) t = false) ->
  exec_write q st r p frag ty n off d = (st, RFail (rsvc r) 255 [8455]).
Proof.
  intros Hl Ha Hty. unfold exec_write. rewrite Hl. unfold attr_at in Ha. rewrite Ha.
  destruct (ty_of_code ty) as [t|]; [rewrite (Hty t eq_refl)|]; reflexivity.
Qed.

(* any read or write whose window does not lie inside the tag is refused with 0xFF / 0x2105 *)
Definition window_ok (cnt idx elm beg nd : Z) : Prop :=
  0 <= beg < cnt /\ elm <= cnt /\ 1 <= nd /\ beg + nd <= idx + elm /\ beg + nd <= cnt.

Lemma refuse_range_write q st r p k a t frag ty n off d :
  lookup st p = Some k -> attr_at st k = Some a ->
  ty_of_code ty = Some t -> allowed (a_ty a) t = true ->
  (q_fit q = true -> pack_all (a_ty a) d <> None) ->
  ~ window_ok (alen a) (path_elem p) n (wbeg a p frag off) (Z.of_nat (length d)) ->
  exec_write q st r p frag ty n off d = (st, RFail (rsvc r) 255 [8453]).
Proof.
  intros Hl Ha Hty Hal Hfit Hw. unfold exec_write. rewrite Hl. unfold attr_at in Ha. rewrite Ha, Hty, Hal.
  cbn [negb]. destruct (reply_elements _ _ _ _ _ _ _ _) as [e|] eqn:Ere; [|reflexivity].
  destruct (q_fit q) eqn:Eq.
  - specialize (Hfit eq_refl). destruct (pack_all (a_ty a) d); [|congruence]. cbn [negb andb].
    destruct (negb (re_end e <=? alen a)) eqn:E; [reflexivity|].
    exfalso. apply Hw. apply reply_elements_inv in Ere as (Hb & Hea & Hor & He & Hb0 & Helm & Hbe & Hwr).
    specialize (Hwr eq_refl). unfold window_ok, wbeg. rewrite <- Hb. lia.
  - cbn [andb]. destruct (negb (re_end e <=? alen a)) eqn:E; [reflexivity|].
    exfalso. apply Hw. apply reply_elements_inv in Ere as (Hb & Hea & Hor & He & Hb0 & Helm & Hbe & Hwr).
    specialize (Hwr eq_refl). unfold window_ok, wbeg. rewrite <- Hb. lia.
Qed.

Lemma refuse_range_read maxb st r p k a (frag : bool) n off :
  lookup st p = Some k -> attr_at st k = Some a ->
  let o := if frag then off else 0 in
  let beg := path_elem p + o / siz (a_ty a) in
  ~ (0 <= beg < alen a /\ 1 <= n - o / siz (a_ty a) /\ n <= alen a /\
     Z.min (path_elem p + n) (beg + budget_elems maxb (siz (a_ty a))) <= alen a) ->
  exists e, exec_read maxb st r p frag n off = RFail (rsvc r) 255 e /\ e = [8453].
Proof.
  intros Hl Ha o beg Hw. exists [8453]. split; [|reflexivity]. unfold exec_read. rewrite Hl. unfold attr_at in Ha. rewrite Ha.
  fold o. destruct (reply_elements _ _ _ _ _ _ _ _) as [e|] eqn:Ere; [|reflexivity].
  destruct (negb (re_end e <=? alen a)) eqn:E; [reflexivity|].
  destruct (negb (re_offremains e =? 0)) eqn:E2; [reflexivity|].
  exfalso. apply Hw. apply reply_elements_inv in Ere as (Hb & Hea & Hor & He & Hb0 & Helm & Hbe & _).
  assert (re_offremains e = 0) as Hz by lia. rewrite Hz, Z.add_0_l in He. fold beg in Hb. unfold budget_elems.
  set (B := Z.max ((maxb + siz (a_ty a) - 1) / siz (a_ty a)) 1) in *. clearbody B.
  set (qq := o / siz (a_ty a)) in *. clearbody qq. subst beg. lia.
Qed.

(* ---- the behaviour of the originally pinned tree, refuted by computation ----------------------- *)

Definition st_dint : store :=
  Store [Attr DINT false [VI 1; VI 2; VI 3]] [((2, 1, 1), 0%nat)] [(0, (2, 1, 1))].

(* Write Tag of UDINT 0xFFFFFFFF into a DINT tag was acknowledged, after which the tag cannot be
   produced (read) any more. *)
Lemma pinned_write_unreadable :
  let w := WriteTag (PSym 0 (Some 1)) 200 1 [VI 4294967295] in
  let rd := ReadTag (PSym 0 None) 3 in
  readable st_dint /\
  snd (exec pinned 488 st_dint w) = RWrite 205 /\
  ~ readable (fst (exec pinned 488 st_dint w)) /\
  produce (snd (exec pinned 488 (fst (exec pinned 488 st_dint w)) rd)) = None /\
  (* current tree: refused, nothing changed *)
  exec fixed 488 st_dint w = (st_dint, RFail 205 255 [8455]).
Proof.
  cbv zeta. split; [|split; [|split; [|split]]].
  - apply Forall_cons; [|apply Forall_nil]. unfold readable_attr. cbn [a_vals a_ty].
    repeat (apply Forall_cons; [vm_compute; discriminate|]). apply Forall_nil.
  - vm_compute. reflexivity.
  - intros H. unfold readable in H. apply Forall_inv in H. unfold readable_attr in H.
    apply Forall_inv_tail, Forall_inv in H. apply H. vm_compute. reflexivity.
  - vm_compute. reflexivity.
  - vm_compute. reflexivity.
Qed.

(* Set Attribute Single naming a non-existent class overwrote the first tag of the Message Router. *)
Lemma pinned_wrong_object :
  let s := SetAttr (PNum 119 1 (Some 1) None) [9; 0; 0; 0; 9; 0; 0; 0; 9; 0; 0; 0] in
  lookup st_dint (PNum 119 1 (Some 1) None) = None /\
  exec pinned 488 st_dint s = (Store [Attr DINT false [VI 9; VI 9; VI 9]] [((2, 1, 1), 0%nat)] [(0, (2, 1, 1))], RSet) /\
  exec fixed 488 st_dint s = (st_dint, RFail 144 8 []).
Proof. cbv zeta. repeat split; vm_compute; reflexivity. Qed.
