(* Proofs about Model/Harvest.v (property C13). *)
From Coq Require Import ZArith List Bool Lia.
From CV Require Import Model.Harvest.
Import ListNotations.
Open Scope Z_scope.

Definition own (p : issued * reply) : Prop := r_ctx (snd p) = i_ctx (fst p) /\ r_svc (snd p) = i_svc (fst p) + 128.

Lemma harvest_spec all ops : forall rs e acc,
  Forall own acc ->
  let o := harvest all ops rs e acc in
  Forall own (results o) /\
  (exists k, results o = rev acc ++ combine (firstn k ops) (firstn k rs) /\ (k <= length ops)%nat /\ (k <= length rs)%nat /\
             (forall l, o = Done l -> all = true -> k = length ops)).
Proof.
  induction ops as [|i it IH]; intros rs e acc Hacc; cbn [harvest].
  - split; [simpl; apply Forall_rev; exact Hacc|]. exists 0%nat. simpl. rewrite app_nil_r. repeat split; auto; lia.
  - destruct rs as [|r rt].
    + assert (Forall own (rev acc)) as Hr by (apply Forall_rev; exact Hacc).
      destruct e; [destruct all| |destruct all]; simpl; (split; [exact Hr|]); exists 0%nat; simpl; rewrite app_nil_r;
        repeat split; auto; try lia; intros l E; try discriminate; intros; discriminate.
    + destruct ((r_ctx r =? i_ctx i) && (r_svc r =? i_svc i + 128)) eqn:Em.
      * apply andb_true_iff in Em as [E1 E2]. apply Z.eqb_eq in E1. apply Z.eqb_eq in E2.
        assert (Forall own ((i, r) :: acc)) as Hacc' by (constructor; [split; assumption | exact Hacc]).
        destruct (IH rt e ((i, r) :: acc) Hacc') as (H1 & k & Hk & L1 & L2 & Hd).
        split; [exact H1|]. exists (S k). simpl. rewrite Hk. simpl. rewrite <- app_assoc. simpl.
        repeat split; auto; try lia. intros l El Ha. rewrite (Hd l El Ha). reflexivity.
      * simpl. split; [apply Forall_rev; exact Hacc|]. exists 0%nat. simpl. rewrite app_nil_r.
        repeat split; auto; try lia. intros l E; discriminate.
Qed.

(* every result the client yields pairs an operation with a reply carrying that operation's own sender context and
   service; the results are a prefix of the operations, in order, one reply each - whatever arrives and however the
   stream ends *)
Theorem results_are_own all ops rs e :
  Forall own (results (harvest all ops rs e [])) /\
  exists k, results (harvest all ops rs e []) = combine (firstn k ops) (firstn k rs) /\ (k <= length ops)%nat /\ (k <= length rs)%nat.
Proof.
  destruct (harvest_spec all ops rs e [] (Forall_nil _)) as (H1 & k & Hk & L1 & L2 & _).
  split; [exact H1|]. exists k. simpl in Hk. auto.
Qed.

(* never silently fewer results than operations: a normally-ending result stream is complete *)
Theorem done_is_complete ops rs e l :
  harvest true ops rs e [] = Done l -> length l = length ops.
Proof.
  intros H. destruct (harvest_spec true ops rs e [] (Forall_nil _)) as (_ & k & Hk & L1 & L2 & Hd).
  rewrite H in Hk, Hd. simpl in Hk. pose proof (Hd l eq_refl eq_refl) as Ek. subst k. rewrite Hk.
  rewrite combine_length, !firstn_length. lia.
Qed.

(* a stream that ends inside a frame always raises *)
Theorem partial_frame_raises all ops rs :
  (length rs < length ops)%nat -> exists l, harvest all ops rs InsideFrame [] = Raised l.
Proof.
  generalize (@nil (issued * reply)). revert rs. induction ops as [|i it IH]; intros rs acc Hl; [simpl in Hl; lia|].
  cbn [harvest]. destruct rs as [|r rt]; [eexists; reflexivity|].
  destruct (_ && _); [apply IH; simpl in Hl; lia | eexists; reflexivity].
Qed.

(* the behaviour before the fix: synchronous (all = false) ends normally with fewer results on a clean EOF *)
Theorem without_the_assertion_results_go_missing :
  harvest false [Iss 1 76; Iss 2 76; Iss 3 76] [Rpl 1 204 10; Rpl 2 204 20] CleanEOF [] =
    Done [(Iss 1 76, Rpl 1 204 10); (Iss 2 76, Rpl 2 204 20)].
Proof. reflexivity. Qed.
