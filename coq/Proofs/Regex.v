(* Proofs about Model/Regex.v (property C11): derivatives compute the standard language semantics, and the
   run consumes exactly the longest prefix that can be extended to a sentence. *)
From Coq Require Import ZArith List Bool Lia.
From CV Require Import Model.Regex.
Import ListNotations.
Open Scope Z_scope.

(* standard regular-expression semantics *)
Inductive matches : re -> list Z -> Prop :=
| MEps : matches REps []
| MSet neg cs c : set_match neg cs c = true -> matches (RSet neg cs) [c]
| MCat a b u v : matches a u -> matches b v -> matches (RCat a b) (u ++ v)
| MAltL a b w : matches a w -> matches (RAlt a b) w
| MAltR a b w : matches b w -> matches (RAlt a b) w
| MStar0 a : matches (RStar a) []
| MStarS a u v : matches a u -> matches (RStar a) v -> matches (RStar a) (u ++ v).

Lemma cat_inv a b w : matches (RCat a b) w -> exists u v, w = u ++ v /\ matches a u /\ matches b v.
Proof. intros H. inversion H; subst. eauto. Qed.

Lemma alt_inv a b w : matches (RAlt a b) w -> matches a w \/ matches b w.
Proof. intros H. inversion H; subst; auto. Qed.

Lemma set_inv neg cs w : matches (RSet neg cs) w -> exists c, w = [c] /\ set_match neg cs c = true.
Proof. intros H. inversion H; subst. eauto. Qed.

Lemma nullable_spec r : nullable r = true <-> matches r [].
Proof.
  induction r as [| |neg cs|a IHa b IHb|a IHa b IHb|a IHa]; simpl.
  - split; [discriminate | intros H; inversion H].
  - split; [constructor | reflexivity].
  - split; [discriminate | intros H; apply set_inv in H as (c & E & _); discriminate].
  - rewrite andb_true_iff, IHa, IHb. split.
    + intros [Ha Hb]. change (@nil Z) with (@nil Z ++ []). constructor; auto.
    + intros H. apply cat_inv in H as (u & v & E & Hu & Hv). symmetry in E. apply app_eq_nil in E as [-> ->]. auto.
  - rewrite orb_true_iff, IHa, IHb. split.
    + intros [H|H]; [apply MAltL | apply MAltR]; auto.
    + intros H. apply alt_inv in H. exact H.
  - split; [constructor | reflexivity].
Qed.

(* a non-empty star sentence starts with a non-empty sentence of the body *)
Lemma star_cons a c w : matches (RStar a) (c :: w) ->
  exists u v, w = u ++ v /\ matches a (c :: u) /\ matches (RStar a) v.
Proof.
  intros H. remember (RStar a) as r eqn:Er. remember (c :: w) as s eqn:Es.
  revert c w Es. induction H as [| | | | | |a' u v Hu _ Hv IH]; intros c0 w0 Es; try discriminate.
  inversion Er; subst a'. destruct u as [|x u'].
  - simpl in Es. apply (IH eq_refl c0 w0 Es).
  - simpl in Es. inversion Es; subst. exists u', v. auto.
Qed.

Lemma deriv_spec r : forall c w, matches (deriv c r) w <-> matches r (c :: w).
Proof.
  induction r as [| |neg cs|a IHa b IHb|a IHa b IHb|a IHa]; intros c w; simpl.
  - split; intros H; inversion H.
  - split; intros H; inversion H.
  - destruct (set_match neg cs c) eqn:E.
    + split; intros H.
      * inversion H; subst. constructor; auto.
      * apply set_inv in H as (c' & E' & _). inversion E'; subst. constructor.
    + split; intros H; [inversion H|]. apply set_inv in H as (c' & E' & Hm). inversion E'; subst. congruence.
  - destruct (nullable a) eqn:En.
    + split.
      * intros H. apply alt_inv in H as [H|H].
        -- apply cat_inv in H as (u & v & -> & Hu & Hv). apply IHa in Hu.
           change (c :: u ++ v) with ((c :: u) ++ v). constructor; auto.
        -- apply IHb in H. apply nullable_spec in En. change (c :: w) with ([] ++ c :: w). constructor; auto.
      * intros H. apply cat_inv in H as (u & v & E & Hu & Hv). destruct u as [|x u'].
        -- simpl in E. subst v. apply MAltR. apply IHb. auto.
        -- simpl in E. inversion E; subst. apply MAltL. constructor; [apply IHa; auto | auto].
    + split.
      * intros H. apply cat_inv in H as (u & v & -> & Hu & Hv). apply IHa in Hu.
        change (c :: u ++ v) with ((c :: u) ++ v). constructor; auto.
      * intros H. apply cat_inv in H as (u & v & E & Hu & Hv). destruct u as [|x u'].
        -- apply nullable_spec in Hu. congruence.
        -- simpl in E. inversion E; subst. constructor; [apply IHa; auto | auto].
  - split.
    + intros H. apply alt_inv in H as [H|H]; [apply MAltL; apply IHa | apply MAltR; apply IHb]; auto.
    + intros H. apply alt_inv in H as [H|H]; [apply MAltL; apply IHa | apply MAltR; apply IHb]; auto.
  - split.
    + intros H. apply cat_inv in H as (u & v & -> & Hu & Hv). apply IHa in Hu.
      change (c :: u ++ v) with ((c :: u) ++ v). constructor; auto.
    + intros H. apply star_cons in H as (u & v & -> & Hu & Hv). constructor; [apply IHa; auto | auto].
Qed.

(* some symbol lies outside any finite class *)
Lemma fresh_symbol cs : exists c, mem c cs = false.
Proof.
  exists (1 + fold_right Z.max 0 cs). unfold mem.
  assert (forall x, In x cs -> x <= fold_right Z.max 0 cs) as H.
  { induction cs as [|y t IH]; intros x Hx; [destruct Hx|]. simpl. destruct Hx as [->|Hx]; [lia | specialize (IH x Hx); lia]. }
  apply not_true_is_false. intros E. apply existsb_exists in E as (x & Hx & Ex). specialize (H x Hx). lia.
Qed.

Lemma nonempty_spec r : nonempty r = true <-> exists w, matches r w.
Proof.
  induction r as [| |neg cs|a IHa b IHb|a IHa b IHb|a IHa]; simpl.
  - split; [discriminate | intros (w & H); inversion H].
  - split; [exists []; constructor | reflexivity].
  - split.
    + intros H. destruct neg.
      * destruct (fresh_symbol cs) as (c & Hc). exists [c]. constructor. unfold set_match. rewrite Hc. reflexivity.
      * destruct cs as [|x t]; [discriminate|]. exists [x]. constructor. unfold set_match, mem. simpl. rewrite Z.eqb_refl. reflexivity.
    + intros (w & H). apply set_inv in H as (c & _ & Hm). unfold set_match in Hm. destruct neg; [reflexivity|].
      simpl in *. destruct cs; [discriminate | reflexivity].
  - rewrite andb_true_iff, IHa, IHb. split.
    + intros [(u & Hu) (v & Hv)]. exists (u ++ v). constructor; auto.
    + intros (w & H). apply cat_inv in H as (u & v & _ & Hu & Hv). split; eexists; eauto.
  - rewrite orb_true_iff, IHa, IHb. split.
    + intros [(w & H)|(w & H)]; exists w; [apply MAltL | apply MAltR]; auto.
    + intros (w & H). apply alt_inv in H as [H|H]; [left | right]; eexists; eauto.
  - split; [exists []; constructor | reflexivity].
Qed.

Fixpoint derivs (w : list Z) (r : re) : re := match w with [] => r | c :: t => derivs t (deriv c r) end.

Lemma derivs_spec w : forall r v, matches (derivs w r) v <-> matches r (w ++ v).
Proof. induction w as [|c t IH]; intros r v; simpl; [tauto|]. rewrite IH, deriv_spec. tauto. Qed.

Lemma derivs_app u v r : derivs (u ++ v) r = derivs v (derivs u r).
Proof. revert r; induction u; intros; simpl; auto. Qed.

(* extensible: the prefix can still be completed to a sentence *)
Definition viable (r : re) (p : list Z) : Prop := exists s, matches r (p ++ s).

Lemma lvp_props input : forall r consumed p rest r',
  lvp r input consumed = (p, rest, r') ->
  exists k, p = rev consumed ++ k /\ input = k ++ rest /\ r' = derivs k r /\
    (forall c t, rest = c :: t -> nonempty (deriv c r') = false) /\
    (forall k1 k2, k = k1 ++ k2 -> k1 <> [] -> nonempty (derivs k1 r) = true).
Proof.
  induction input as [|c t IH]; intros r consumed p rest r' H; simpl in H.
  - inversion H; subst. exists []. rewrite app_nil_r. repeat split; auto.
    + intros c t E; discriminate.
    + intros k1 k2 E Hne. symmetry in E. apply app_eq_nil in E as [-> _]. congruence.
  - destruct (nonempty (deriv c r)) eqn:En.
    + destruct (IH _ _ _ _ _ H) as (k & Ep & Ei & Er & Hmax & Hvia).
      exists (c :: k). simpl in Ep. rewrite <- app_assoc in Ep. simpl in Ep.
      split; [exact Ep|]. split; [simpl; f_equal; exact Ei|]. split; [exact Er|]. split; [exact Hmax|].
      intros k1 k2 E Hne. destruct k1 as [|x k1']; [congruence|]. simpl in E. inversion E; subst x. simpl.
      destruct k1' as [|y k1'']; [exact En|]. apply (Hvia (y :: k1'') k2); [assumption | discriminate].
    + inversion H; subst. exists []. rewrite app_nil_r. repeat split; auto.
      * intros c' t' E. inversion E; subst. exact En.
      * intros k1 k2 E Hne. symmetry in E. apply app_eq_nil in E as [-> _]. congruence.
Qed.

(* The machine consumes the longest prefix of the input that can be extended to a sentence, stores exactly it,
   leaves the rest, and accepts iff that prefix is non-empty and is itself a sentence. *)
Theorem rrun_spec r input acc p rest :
  rrun r input = (acc, p, rest) ->
  input = p ++ rest /\
  (forall q k, p = q ++ k -> q <> [] -> viable r q) /\
  (forall c t, rest = c :: t -> ~ viable r (p ++ [c])) /\
  (acc = true <-> p <> [] /\ matches r p).
Proof.
  unfold rrun. destruct (lvp r input []) as [[p' rest'] r'] eqn:E. intros H. inversion H; subst; clear H.
  destruct (lvp_props input r [] p rest r' E) as (k & Ep & Ei & Er & Hmax & Hvia). simpl in Ep. subst k.
  split; [exact Ei|]. split; [|split].
  - intros q k E2 Hne. specialize (Hvia q k E2 Hne). apply nonempty_spec in Hvia as (w & Hw).
    exists w. apply derivs_spec. exact Hw.
  - intros c t Er2 (s0 & Hs). specialize (Hmax c t Er2).
    assert (nonempty (deriv c r') = true) as Hn.
    { apply nonempty_spec. exists s0. apply deriv_spec. subst r'. apply derivs_spec. rewrite <- app_assoc in Hs. exact Hs. }
    congruence.
  - rewrite andb_true_iff, nullable_spec. subst r'. rewrite derivs_spec, app_nil_r. split.
    + intros [Hm Hp]. split; [destruct p; discriminate | exact Hm].
    + intros [Hp Hm]. split; [exact Hm | destruct p; [congruence | reflexivity]].
Qed.

(* ---- word-level: iterated derivatives decide membership and viability --------------------- *)
Lemma derivs_matches r w : nullable (derivs w r) = true <-> matches r w.
Proof. rewrite nullable_spec, derivs_spec, app_nil_r. reflexivity. Qed.

Lemma derivs_viable r w : nonempty (derivs w r) = true <-> viable r w.
Proof.
  rewrite nonempty_spec. unfold viable. split; intros [k Hk]; exists k; apply derivs_spec; exact Hk.
Qed.
