(* Proofs about Model/Dotdict.v (property C16). *)
From Coq Require Import ZArith List Bool Lia ZifyBool Arith.
From CV Require Import Base.ListX Model.Dotdict.
Import ListNotations.
Open Scope Z_scope.

(* ---- canonical paths: non-empty components free of '.', '[' ------------------------------------------ *)
Definition plain (c : key) : Prop := c <> [] /\ has DOT c = false /\ has LB c = false.

Fixpoint join (cs : list key) : key :=
  match cs with
  | [] => []
  | [c] => c
  | c :: t => c ++ DOT :: join t
  end.

Lemma has_app c a b : has c (a ++ b) = has c a || has c b.
Proof. unfold has. apply existsb_app. Qed.

Lemma key_eqb_refl k : key_eqb k k = true.
Proof. induction k; simpl; auto. rewrite Z.eqb_refl. auto. Qed.

Lemma key_eqb_eq a : forall b, key_eqb a b = true <-> a = b.
Proof.
  induction a as [|x a IH]; intros [|y b]; simpl; split; intros H; try discriminate; auto.
  - apply andb_true_iff in H as [H1 H2]. apply IH in H2. f_equal; [lia | auto].
  - inversion H; subst. rewrite Z.eqb_refl. apply IH. reflexivity.
Qed.

Lemma split_dot_app c r : has DOT c = false -> split_dot (c ++ DOT :: r) = (c, r).
Proof.
  induction c as [|x c IH]; simpl; intros H.
  - reflexivity.
  - apply orb_false_iff in H as [H1 H2]. assert ((x =? DOT) = false) as -> by (rewrite Z.eqb_sym; exact H1).
    rewrite IH by exact H2. reflexivity.
Qed.

(* no ".." in a path whose components are non-empty and dot-free *)
Fixpoint nodd (k : key) : bool :=
  match k with
  | c :: ((d :: _) as r) => negb ((c =? DOT) && (d =? DOT)) && nodd r
  | _ => true
  end.

Lemma split_dd_cons c d t :
  split_dd (c :: d :: t) = if (c =? DOT) && (d =? DOT) then Some ([], t)
                           else match split_dd (d :: t) with Some (a, b) => Some (c :: a, b) | None => None end.
Proof. reflexivity. Qed.

Lemma nodd_cons c d t : nodd (c :: d :: t) = negb ((c =? DOT) && (d =? DOT)) && nodd (d :: t).
Proof. reflexivity. Qed.

Lemma split_dd_nodd k : nodd k = true -> split_dd k = None.
Proof.
  induction k as [|c r IH]; [reflexivity|]. destruct r as [|d r']; [reflexivity|].
  rewrite nodd_cons, split_dd_cons. intros H. apply andb_true_iff in H as [H1 H2].
  destruct ((c =? DOT) && (d =? DOT)); [discriminate|]. rewrite IH by exact H2. reflexivity.
Qed.

Definition head_not_dot (r : key) : Prop := match r with x :: _ => (x =? DOT) = false | [] => True end.

Lemma nodd_comp c : has DOT c = false -> c <> [] -> forall r, nodd r = true -> head_not_dot r ->
  nodd (c ++ DOT :: r) = true.
Proof.
  induction c as [|x c IH]; intros Hd Hne r Hr Hh; [congruence|].
  simpl in Hd. apply orb_false_iff in Hd as [H1 H2].
  assert ((x =? DOT) = false) as Ex by (rewrite Z.eqb_sym; exact H1).
  destruct c as [|y c'].
  - cbn [app]. rewrite nodd_cons, Ex. cbn [andb negb]. destruct r as [|z r']; [reflexivity|].
    rewrite nodd_cons. simpl in Hh. rewrite Hh, andb_false_r. cbn [negb andb]. exact Hr.
  - cbn [app]. rewrite nodd_cons, Ex. cbn [andb negb].
    change (y :: c' ++ DOT :: r) with ((y :: c') ++ DOT :: r). apply IH; auto. discriminate.
Qed.

Lemma nodd_plain c : has DOT c = false -> nodd c = true.
Proof.
  induction c as [|x c IH]; intros H; [reflexivity|]. simpl in H. apply orb_false_iff in H as [H1 H2].
  destruct c as [|y c']; [reflexivity|]. rewrite nodd_cons.
  assert ((x =? DOT) = false) as -> by (rewrite Z.eqb_sym; exact H1). cbn [andb negb]. apply IH. exact H2.
Qed.

Lemma join_head c t : plain c -> head_not_dot (join (c :: t)).
Proof.
  intros (Hne & Hd & _). destruct c as [|x c']; [congruence|]. simpl in Hd. apply orb_false_iff in Hd as [H1 _].
  destruct t; simpl; rewrite Z.eqb_sym; exact H1.
Qed.

Lemma nodd_join cs : Forall plain cs -> nodd (join cs) = true.
Proof.
  induction 1 as [|c t Hc Ht IH]; [reflexivity|].
  destruct t as [|c2 t']; [simpl; apply nodd_plain; apply Hc|].
  change (join (c :: c2 :: t')) with (c ++ DOT :: join (c2 :: t')).
  destruct Hc as (Hne & Hd & _). apply nodd_comp; auto. apply join_head. inversion Ht; auto.
Qed.

Lemma split_dd_join cs : Forall plain cs -> split_dd (join cs) = None.
Proof. intros H. apply split_dd_nodd, nodd_join, H. Qed.

Lemma dedot_none f k : split_dd k = None -> dedot f k = k.
Proof. destruct f; simpl; intros H; [reflexivity | rewrite H; reflexivity]. Qed.

Lemma has_dot_join c c2 t : has DOT (join (c :: c2 :: t)) = true.
Proof.
  change (join (c :: c2 :: t)) with (c ++ DOT :: join (c2 :: t)). rewrite has_app.
  unfold has at 2. cbn [existsb]. rewrite Z.eqb_refl. cbn [orb]. apply orb_true_r.
Qed.

(* splitting a canonical path: the first component and the rest *)
Theorem split_key_join c c2 t : Forall plain (c :: c2 :: t) ->
  split_key (join (c :: c2 :: t)) = Ok (c, Some (join (c2 :: t))).
Proof.
  intros H. unfold split_key. rewrite has_dot_join. unfold resolve.
  rewrite dedot_none by (apply split_dd_join; exact H).
  inversion H as [|? ? (Hne & Hd & Hl) Ht]; subst.
  cbn [lead]. rewrite has_dot_join.
  change (join (c :: c2 :: t)) with (c ++ DOT :: join (c2 :: t)). rewrite split_dot_app by exact Hd.
  destruct c as [|x c']; [congruence|]. rewrite Hl. reflexivity.
Qed.

Theorem split_key_single c : plain c -> split_key c = Ok (c, None).
Proof. intros (_ & Hd & _). unfold split_key. rewrite Hd. reflexivity. Qed.

(* ---- association lists -------------------------------------------------------------------------------- *)
Lemma lookup_store k v kv k' :
  lookup k' (store k v kv) = if key_eqb k' k then Some v else lookup k' kv.
Proof.
  induction kv as [|[k0 v0] t IH]; simpl.
  - destruct (key_eqb k' k); reflexivity.
  - destruct (key_eqb k k0) eqn:E.
    + apply key_eqb_eq in E. subst. simpl. destruct (key_eqb k' k0); reflexivity.
    + simpl. destruct (key_eqb k' k0) eqn:E2.
      * apply key_eqb_eq in E2. subst. destruct (key_eqb k0 k) eqn:E3; [|reflexivity].
        apply key_eqb_eq in E3. subst. rewrite key_eqb_refl in E. discriminate.
      * exact IH.
Qed.

(* ---- get after set ------------------------------------------------------------------------------------ *)
Definition stored_as (v : val) : Prop := match v with VPlain _ => False | _ => True end.

Theorem get_after_set strict cs : Forall plain cs -> cs <> [] ->
  forall fs fg kv v kv', stored_as v ->
  (length cs <= fg)%nat ->
  set_in strict fs kv (join cs) v = (kv', None) ->
  get fg kv' (join cs) = Ok v.
Proof.
  induction cs as [|c t IH]; intros Hp Hne fs fg kv v kv' Hv Hfg Hs; [congruence|].
  destruct fs as [|fs]; [simpl in Hs; discriminate|].
  destruct fg as [|fg]; [simpl in Hfg; lia|].
  inversion Hp as [|? ? Hc Ht]; subst. destruct Hc as (Hcne & Hcd & Hcl).
  destruct t as [|c2 t'].
  - (* final component *)
    cbn [join] in *. cbn [set_in get] in *. rewrite split_key_single in * by (repeat split; auto).
    rewrite Hcl in *. cbn [andb] in Hs.
    destruct v; try contradiction; cbn iota beta in Hs;
      (destruct (is_invalid c); [inversion Hs|]; inversion Hs; subst;
       rewrite lookup_store, key_eqb_refl; reflexivity).
  - cbn [set_in get] in *. rewrite split_key_join in * by exact Hp.
    rewrite Hcl in *.
    assert (exists x y, join (c2 :: t') = x :: y) as (x & y & Ej).
    { inversion Ht as [|? ? (H2 & _) _]; subst. destruct c2 as [|z c2']; [congruence|].
      destruct t'; simpl; eauto. }
    rewrite Ej in Hs. rewrite <- Ej in Hs.
    destruct (strict && is_invalid c); [inversion Hs|].
    destruct (lookup c kv) as [[z|l|sub|pl]|] eqn:El; try (inversion Hs; fail).
    + destruct (set_in strict fs sub (join (c2 :: t')) v) as [sub' e] eqn:Es. inversion Hs; subst.
      rewrite lookup_store, key_eqb_refl. eapply IH; eauto; [discriminate | simpl in *; lia].
    + destruct (set_in strict fs [] (join (c2 :: t')) v) as [sub' e] eqn:Es. inversion Hs; subst.
      rewrite lookup_store, key_eqb_refl. eapply IH; eauto; [discriminate | simpl in *; lia].
Qed.

(* an assignment leaves every path with a different first component untouched *)
Theorem set_frame_first strict fs kv k v kv' e c c' rest fg q :
  split_key k = Ok (c, rest) -> has LB c = false ->
  set_in strict (S fs) kv k v = (kv', e) ->
  split_key q = Ok (c', None) \/ (exists r, split_key q = Ok (c', Some r)) ->
  has LB c' = false -> key_eqb c' c = false ->
  get (S fg) kv' q = get (S fg) kv q.
Proof.
  intros Hk Hlb Hs Hq Hlb' Hne.
  assert (lookup c' kv' = lookup c' kv) as Hl.
  { cbn [set_in] in Hs. rewrite Hk, Hlb in Hs. cbn [andb] in Hs.
    destruct rest as [[|x r]|].
    - destruct v; cbn iota beta in Hs;
        try (destruct (is_invalid c); inversion Hs; subst; try reflexivity; rewrite lookup_store, Hne; reflexivity).
      destruct (convert strict fs (VPlain kv0)) as [cc [ee|]]; inversion Hs; subst; try reflexivity.
      destruct (is_invalid c); inversion H0; subst; try reflexivity. rewrite lookup_store, Hne. reflexivity.
    - destruct (strict && is_invalid c); [inversion Hs; reflexivity|].
      destruct (lookup c kv) as [[z|l|sub|pl]|]; try (inversion Hs; reflexivity).
      + destruct (set_in strict fs sub (x :: r) v). inversion Hs; subst. rewrite lookup_store, Hne. reflexivity.
      + destruct (set_in strict fs [] (x :: r) v). inversion Hs; subst. rewrite lookup_store, Hne. reflexivity.
    - destruct v; cbn iota beta in Hs;
        try (destruct (is_invalid c); inversion Hs; subst; try reflexivity; rewrite lookup_store, Hne; reflexivity).
      destruct (convert strict fs (VPlain kv0)) as [cc [ee|]]; inversion Hs; subst; try reflexivity.
      destruct (is_invalid c); inversion H0; subst; try reflexivity. rewrite lookup_store, Hne. reflexivity. }
  cbn [get]. destruct Hq as [Hq | (r & Hq)]; rewrite Hq, Hlb', Hl; reflexivity.
Qed.

(* reserved method names are refused, at any level when strict *)
Theorem reserved_refused_final strict fs kv c v :
  plain c -> is_invalid c = true -> stored_as v ->
  set_in strict (S fs) kv c v = (kv, Some EKey).
Proof.
  intros Hp Hi Hv. cbn [set_in]. rewrite split_key_single by exact Hp. destruct Hp as (_ & _ & Hl). rewrite Hl.
  cbn [andb]. destruct v; try contradiction; cbn iota beta; rewrite Hi; reflexivity.
Qed.

Theorem reserved_refused_interior fs kv c c2 t v :
  Forall plain (c :: c2 :: t) -> is_invalid c = true ->
  set_in true (S fs) kv (join (c :: c2 :: t)) v = (kv, Some EKey).
Proof.
  intros Hp Hi. cbn [set_in]. rewrite split_key_join by exact Hp.
  inversion Hp as [|? ? (_ & _ & Hl) Ht]; subst. rewrite Hl, Hi.
  assert (exists x y, join (c2 :: t) = x :: y) as (x & y & Ej).
  { inversion Ht as [|? ? (H2 & _) _]; subst. destruct c2 as [|z c2']; [congruence|]. destruct t; simpl; eauto. }
  rewrite Ej. reflexivity.
Qed.

(* the originally pinned tree accepted a reserved name for an interior level *)
Lemma pinned_interior_reserved :
  let k := [109; 46; 105; 116; 101; 109; 115; 46; 99] in      (* "m.items.c" *)
  set_in false 8 [] k (VInt 1) = ([([109], VDot [([105; 116; 101; 109; 115], VDot [([99], VInt 1)])])], None) /\
  set_in true 8 [] k (VInt 1) = ([([109], VDot [])], Some EKey).
Proof. cbv zeta. split; vm_compute; reflexivity. Qed.

(* deleting a non-empty level is refused and changes nothing *)
Theorem del_nonempty_refused f kv c x sub :
  plain c -> lookup c kv = Some (VDot (x :: sub)) ->
  del_in (S f) kv c = (kv, Some EKey).
Proof.
  intros Hp Hl. cbn [del_in]. rewrite split_key_single by exact Hp.
  cbn [get]. rewrite split_key_single by exact Hp. destruct Hp as (_ & _ & Hlb). rewrite Hlb, Hl. reflexivity.
Qed.

(* membership agrees with lookup (by construction: `in` is "lookup does not raise KeyError") *)
Definition contains (f : nat) (kv : list (key * val)) (k : key) : bool :=
  match get f kv k with Ok _ => true | Err _ => false end.

Theorem contains_iff_get f kv k : contains f kv k = true <-> exists v, get f kv k = Ok v.
Proof. unfold contains. destruct (get f kv k); split; intros H; eauto; try discriminate. destruct H; discriminate. Qed.

Lemma split_dd_first s c : s <> [] -> nodd (s ++ [DOT]) = true ->
  split_dd (s ++ DOT :: DOT :: c) = Some (s, c).
Proof.
  induction s as [|x s IH]; intros Hne Hn; [congruence|].
  destruct s as [|y s'].
  - cbn [app] in *. rewrite nodd_cons in Hn. rewrite split_dd_cons.
    apply andb_true_iff in Hn as [H1 _]. rewrite Z.eqb_refl, andb_true_r in *.
    destruct (x =? DOT); [discriminate|]. rewrite split_dd_cons, Z.eqb_refl. reflexivity.
  - cbn [app] in *. rewrite nodd_cons in Hn. rewrite split_dd_cons.
    apply andb_true_iff in Hn as [H1 H2]. destruct ((x =? DOT) && (y =? DOT)); [discriminate|].
    rewrite IH; [reflexivity | discriminate | exact H2].
Qed.

Lemma dedot_S f k :
  dedot (S f) k = match split_dd k with
                  | None => k
                  | Some (front, back) =>
                      let trunc := trunc_last_dot front in
                      let sep := match trunc, back with [], _ | _, [] => [] | _, _ => [DOT] end in
                      dedot f (trunc ++ sep ++ back)
                  end.
Proof. reflexivity. Qed.

Lemma trunc_last_dot_app a b : has DOT b = false -> trunc_last_dot (a ++ DOT :: b) = a.
Proof.
  intros Hb. induction a as [|x a IH].
  - cbn [app trunc_last_dot]. rewrite Hb. reflexivity.
  - cbn [app trunc_last_dot]. rewrite has_app. unfold has at 2. cbn [existsb]. rewrite Z.eqb_refl.
    cbn [orb]. rewrite orb_true_r, IH. reflexivity.
Qed.

(* '..' addresses the parent level: "a.b..c" resolves exactly as "a.c" *)
Theorem dotdot_parent a b c : plain a -> plain b -> plain c ->
  resolve (a ++ DOT :: b ++ DOT :: DOT :: c) = resolve (a ++ DOT :: c).
Proof.
  intros (Ha1 & Ha2 & Ha3) (Hb1 & Hb2 & Hb3) (Hc1 & Hc2 & Hc3). unfold resolve.
  assert (nodd (a ++ DOT :: c) = true) as Hac.
  { apply nodd_comp; auto; [apply nodd_plain; auto|]. destruct c as [|z c']; [congruence|].
    simpl in Hc2. apply orb_false_iff in Hc2 as [H _]. simpl. rewrite Z.eqb_sym. exact H. }
  assert (forall f, dedot (S (S f)) (a ++ DOT :: b ++ DOT :: DOT :: c) = a ++ DOT :: c) as Hd.
  { intros f. rewrite dedot_S.
    replace (a ++ DOT :: b ++ DOT :: DOT :: c) with ((a ++ DOT :: b) ++ DOT :: DOT :: c)
      by (rewrite <- app_assoc; reflexivity).
    rewrite split_dd_first.
    - rewrite trunc_last_dot_app by exact Hb2.
      destruct a as [|x a']; [congruence|]. destruct c as [|z c']; [congruence|].
      cbv zeta. cbn [app]. apply dedot_none. apply split_dd_nodd. exact Hac.
    - destruct a; discriminate.
    - rewrite <- app_assoc. cbn [app]. apply nodd_comp; auto.
      + apply (nodd_comp b Hb2 Hb1 []); [reflexivity | exact I].
      + destruct b as [|y b']; [congruence|]. simpl in Hb2. apply orb_false_iff in Hb2 as [H _].
        simpl. rewrite Z.eqb_sym. exact H. }
  assert (length (a ++ DOT :: b ++ DOT :: DOT :: c) = S (S (length a + length b + length c + 1)))%nat as El
    by (rewrite !app_length; simpl; rewrite !app_length; simpl; lia).
  rewrite El, Hd. rewrite (dedot_none _ _ (split_dd_nodd _ Hac)).
  assert (forall f, lead (S f) (a ++ DOT :: c) None = Ok (a, Some c)) as Hl.
  { intros f. cbn [lead]. rewrite has_app. unfold has at 2. cbn [existsb]. rewrite Z.eqb_refl. cbn [orb].
    rewrite orb_true_r. rewrite split_dot_app by exact Ha2. destruct a as [|x a']; [congruence|]. rewrite Ha3. reflexivity. }
  rewrite !Hl. reflexivity.
Qed.

(* ---- key iteration lists leaf paths, and every listed key looks up to the listed value ------------------- *)
Definition plainb (c : key) : bool :=
  match c with [] => false | _ => negb (has DOT c) && negb (has LB c) end.

Lemma plainb_plain c : plainb c = true -> plain c.
Proof.
  unfold plainb, plain. destruct c as [|x c']; [discriminate|]. intros H. apply andb_true_iff in H as [H1 H2].
  repeat split; [discriminate | destruct (has DOT (x :: c')); auto; discriminate | destruct (has LB (x :: c')); auto; discriminate].
Qed.

Fixpoint nodupb (ks : list key) : bool :=
  match ks with [] => true | k :: t => negb (existsb (key_eqb k) t) && nodupb t end.

(* trees of ints, plain lists and levels (lists of mappings are covered by the correspondence only) *)
Fixpoint wfb (fuel : nat) (kv : list (key * val)) : bool :=
  match fuel with
  | O => false
  | S f =>
      nodupb (map fst kv) &&
      forallb (fun e : key * val =>
                 plainb (fst e) &&
                 match snd e with
                 | VInt _ => true
                 | VList l => match l with [] => true | _ => negb (all_dots l) end
                 | VDot sub => wfb f sub
                 | VPlain _ => false
                 end) kv
  end.

Lemma lookup_in_nodup kv : nodupb (map fst kv) = true -> forall k v, In (k, v) kv -> lookup k kv = Some v.
Proof.
  induction kv as [|[k0 v0] t IH]; intros Hn k v Hin; [destruct Hin|].
  cbn [map fst nodupb] in Hn. apply andb_true_iff in Hn as [H1 H2]. cbn [lookup].
  destruct Hin as [E | Hin].
  - inversion E; subst. rewrite key_eqb_refl. reflexivity.
  - destruct (key_eqb k k0) eqn:Ek.
    + apply key_eqb_eq in Ek. subst. exfalso.
      assert (existsb (key_eqb k0) (map fst t) = true) as Hx.
      { apply existsb_exists. exists k0. split; [|apply key_eqb_refl]. apply in_map_iff. exists (k0, v); auto. }
      rewrite Hx in H1. discriminate.
    + apply IH; auto.
Qed.

Theorem items_sound f : forall kv, wfb f kv = true ->
  forall k v, In (k, v) (items f kv) ->
  get (S f) kv k = Ok v /\ exists cs, Forall plain cs /\ cs <> [] /\ k = join cs.
Proof.
  induction f as [|f IH]; intros kv Hw k v Hin; [discriminate|].
  cbn [wfb] in Hw. apply andb_true_iff in Hw as [Hnd Hall].
  cbn [items] in Hin. apply in_flat_map in Hin as ([k0 v0] & Hin0 & Hin).
  rewrite forallb_forall in Hall. pose proof (Hall _ Hin0) as H0. cbn [fst snd] in H0.
  apply andb_true_iff in H0 as [Hp0 Hv0]. apply plainb_plain in Hp0.
  pose proof (lookup_in_nodup kv Hnd k0 v0 Hin0) as Hl0.
  assert (forall (Hleaf : In (k, v) [(k0, v0)]),
          get (S (S f)) kv k = Ok v /\ exists cs, Forall plain cs /\ cs <> [] /\ k = join cs) as Leaf.
  { intros [E|[]]. inversion E; subst. split.
    - cbn [get]. rewrite split_key_single by exact Hp0. pose proof Hp0 as (_ & _ & Hlb). rewrite Hlb, Hl0. destruct v; reflexivity.
    - exists [k]. split; [constructor; [exact Hp0 | constructor] | split; [discriminate | reflexivity]]. }
  destruct v0 as [z|l|sub|pl].
  - apply Leaf. exact Hin.
  - destruct l as [|e l']; [apply Leaf; exact Hin|].
    destruct (all_dots (e :: l')) eqn:Ed; [discriminate|]. apply Leaf. exact Hin.
  - destruct sub as [|e0 sub']; [apply Leaf; exact Hin|].
    apply in_map_iff in Hin as ([k' v'] & E & Hin'). cbn [fst snd] in E. inversion E; subst.
    destruct (IH _ Hv0 _ _ Hin') as (Hg & cs & Hcs & Hne & ->).
    split.
    + destruct cs as [|c2 t]; [congruence|].
      change (k0 ++ DOT :: join (c2 :: t)) with (join (k0 :: c2 :: t)).
      cbn [get]. rewrite split_key_join by (constructor; auto).
      pose proof Hp0 as (_ & _ & Hlb). rewrite Hlb, Hl0. exact Hg.
    + exists (k0 :: cs). repeat split; [constructor; auto | discriminate | destruct cs; [congruence | reflexivity]].
  - discriminate.
Qed.
