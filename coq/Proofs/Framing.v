(* Proofs about Model/Framing.v (property C02). *)
From Coq Require Import ZArith List Bool Lia ZifyBool.
From CV Require Import Model.Framing.
Import ListNotations.
Open Scope Z_scope.

Definition nonneg (l : list Z) : Prop := Forall (fun b => 0 <= b) l.

Lemma len_app a b : len (a ++ b) = len a + len b.
Proof. unfold len. rewrite app_length, Nat2Z.inj_add. reflexivity. Qed.

Lemma len_nonneg a : 0 <= len a.
Proof. unfold len. lia. Qed.

Lemma len_one (b : Z) : len [b] = 1.
Proof. reflexivity. Qed.

Lemma declared_prefix p q : 4 <= len p -> declared (p ++ q) = declared p.
Proof.
  unfold len, declared. intros H. rewrite !app_nth1 by lia. reflexivity.
Qed.

Lemma nth_nonneg l i : nonneg l -> 0 <= nth i l 0.
Proof.
  intros H. revert i. induction H as [|x t Hx _ IH]; intros i; destruct i; simpl; try lia; auto.
Qed.

Lemma declared_nonneg l : nonneg l -> 0 <= declared l.
Proof. intros H. unfold declared. pose proof (nth_nonneg l 2 H). pose proof (nth_nonneg l 3 H). lia. Qed.

Lemma nonneg_app a b : nonneg (a ++ b) <-> nonneg a /\ nonneg b.
Proof. unfold nonneg. apply Forall_app. Qed.

(* ---- the framer is a fold over the delivered bytes: how they are cut into blocks cannot matter ---- *)
Lemma srun_app a : forall buf b,
  srun buf (a ++ b) = let (f1, b1) := srun buf a in let (f2, b2) := srun b1 b in (f1 ++ f2, b2).
Proof.
  induction a as [|x t IH]; intros buf b; simpl.
  - destruct (srun buf b); reflexivity.
  - destruct (sstep buf x) as [buf' [f|]].
    + rewrite IH. destruct (srun buf' t) as [f1 b1]. destruct (srun b1 b) as [f2 b2]. reflexivity.
    + apply IH.
Qed.

Theorem feed_concat chunks : forall buf, feed buf chunks = srun buf (concat chunks).
Proof.
  induction chunks as [|c t IH]; intros buf; simpl; [reflexivity|].
  rewrite srun_app. destruct (srun buf c) as [f1 b1]. rewrite IH. reflexivity.
Qed.

(* ---- what the framer emits: exactly 24 + declared bytes per frame ---- *)
Lemma complete_wf f : complete f = true <-> wf_frame f.
Proof. unfold complete, wf_frame. lia. Qed.

Lemma step_keeps_unfinished buf b :
  nonneg (buf ++ [b]) -> unfinished buf -> complete (buf ++ [b]) = false -> unfinished (buf ++ [b]).
Proof.
  intros Hn Hu Hc. unfold unfinished in *. unfold complete in Hc.
  pose proof (declared_nonneg _ Hn) as Hd. rewrite len_app, len_one in *.
  pose proof (len_nonneg buf).
  destruct (Z_lt_dec (len buf + 1) 24) as [L|L]; [left; exact L|right].
  destruct (Z_lt_dec (len buf) 24) as [L2|L2].
  - lia.
  - assert (declared (buf ++ [b]) = declared buf) as E by (apply declared_prefix; lia).
    rewrite E in *. lia.
Qed.

Theorem srun_sound bs : forall buf fs r,
  nonneg (buf ++ bs) -> unfinished buf -> srun buf bs = (fs, r) ->
  buf ++ bs = concat fs ++ r /\ Forall wf_frame fs /\ unfinished r.
Proof.
  induction bs as [|b t IH]; intros buf fs r Hn Hu H; simpl in H.
  - inversion H; subst. rewrite app_nil_r. simpl. auto.
  - unfold sstep in H. assert (nonneg ((buf ++ [b]) ++ t)) as Hn' by (rewrite <- app_assoc; exact Hn).
    destruct (complete (buf ++ [b])) eqn:Ec.
    + destruct (srun [] t) as [fs' r'] eqn:Es. inversion H; subst fs r.
      apply nonneg_app in Hn' as [_ Hnt].
      destruct (IH [] fs' r' Hnt (or_introl eq_refl) Es) as (E1 & E2 & E3).
      * split; [|split; [constructor; [apply complete_wf; exact Ec | exact E2] | exact E3]].
        simpl in E1. simpl. rewrite <- app_assoc, <- E1, <- app_assoc. reflexivity.
    + assert (unfinished (buf ++ [b])) as Hu'.
      { apply step_keeps_unfinished; auto. apply nonneg_app in Hn' as [Hx _]. exact Hx. }
      destruct (IH (buf ++ [b]) fs r Hn' Hu' H) as (E1 & E2 & E3).
      rewrite <- app_assoc in E1. auto.
Qed.

(* a buffer that never becomes complete while q is appended emits nothing *)
Lemma srun_silent q : forall p,
  (forall k1 k2, q = k1 ++ k2 -> k1 <> [] -> complete (p ++ k1) = false) -> srun p q = ([], p ++ q).
Proof.
  induction q as [|b t IH]; intros p H; simpl.
  - rewrite app_nil_r. reflexivity.
  - unfold sstep. rewrite (H [b] t eq_refl) by discriminate.
    rewrite IH.
    + rewrite <- app_assoc. reflexivity.
    + intros k1 k2 E Hne. rewrite <- app_assoc. apply (H (b :: k1) k2); [simpl; rewrite E; reflexivity | discriminate].
Qed.

Lemma unfinished_prefix_incomplete p k : nonneg (p ++ k) -> unfinished (p ++ k) -> complete p = false.
Proof.
  intros Hn Hu. unfold unfinished, complete in *. rewrite len_app in Hu. pose proof (len_nonneg k).
  destruct (Z_lt_dec (len p) 24) as [L|L]; [lia|].
  assert (declared (p ++ k) = declared p) as E by (apply declared_prefix; lia). rewrite E in Hu. lia.
Qed.

Lemma srun_unfinished r : nonneg r -> unfinished r -> srun [] r = ([], r).
Proof.
  intros Hn Hu. apply (srun_silent r []). intros k1 k2 E _. simpl. subst r.
  eapply unfinished_prefix_incomplete; eauto.
Qed.

(* a well-formed frame at the head of the stream is emitted as it is, and framing restarts right after it *)
Lemma srun_frame f rest : nonneg f -> wf_frame f ->
  srun [] (f ++ rest) = let (fs, r) := srun [] rest in (f :: fs, r).
Proof.
  intros Hn [H24 Hl].
  destruct (exists_last (l := f)) as (p & b & E).
  { intros ->. unfold len in H24. simpl in H24. lia. }
  subst f. rewrite <- app_assoc. rewrite srun_app.
  rewrite (srun_silent p []).
  - simpl. unfold sstep.
    assert (complete (p ++ [b]) = true) as -> by (apply complete_wf; split; assumption).
    destruct (srun [] rest); reflexivity.
  - intros k1 k2 E _. simpl. subst p.
    assert (unfinished ((k1 ++ k2))) as Hu.
    { unfold unfinished. right. rewrite len_app, len_one in Hl.
      destruct (Z_lt_dec (len (k1 ++ k2)) 4) as [L|L].
      - rewrite len_app in H24. rewrite len_one in H24. lia.
      - rewrite <- (declared_prefix (k1 ++ k2) [b]) by lia. lia. }
    apply nonneg_app in Hn as [Hn _]. eapply unfinished_prefix_incomplete; eauto.
Qed.

(* Exactness: a stream that consists of well-formed frames followed by a proper beginning of a frame is divided
   into exactly those frames, with exactly that remainder - whatever the frames contain. *)
Theorem framing_exact fs : forall r,
  nonneg (concat fs ++ r) -> Forall wf_frame fs -> unfinished r -> srun [] (concat fs ++ r) = (fs, r).
Proof.
  induction fs as [|f t IH]; intros r Hn Hw Hu; simpl.
  - apply srun_unfinished; auto.
  - simpl in Hn. rewrite <- app_assoc in Hn. apply nonneg_app in Hn as [Hf Ht].
    inversion Hw; subst. rewrite <- app_assoc. rewrite srun_frame by assumption.
    rewrite IH by assumption. reflexivity.
Qed.

(* ---- truncation: a frame is emitted iff its final byte has been delivered ---- *)
Lemma srun_head bs : forall buf g fs r, srun buf bs = (g :: fs, r) -> exists k, k <> [] /\ g = buf ++ k.
Proof.
  induction bs as [|b t IH]; intros buf g fs r H; simpl in H; [discriminate|].
  unfold sstep in H. destruct (complete (buf ++ [b])).
  - destruct (srun [] t) as [fs' r']. inversion H; subst. exists [b]. split; [discriminate | reflexivity].
  - apply IH in H as (k & Hk & ->). exists (b :: k). split; [discriminate | rewrite <- app_assoc; reflexivity].
Qed.

Theorem truncation bs n :
  nonneg bs -> (n <= length bs)%nat ->
  let (f1, p) := srun [] (firstn n bs) in
  let (fall, r) := srun [] bs in
  exists f2, fall = f1 ++ f2 /\
    firstn n bs = concat f1 ++ p /\ unfinished p /\
    (forall g rest, f2 = g :: rest -> Z.of_nat n < len (concat f1) + len g).
Proof.
  intros Hn Hle.
  destruct (srun [] (firstn n bs)) as [f1 p] eqn:E1.
  pose proof (srun_app (firstn n bs) [] (skipn n bs)) as Ha. rewrite firstn_skipn, E1 in Ha.
  destruct (srun p (skipn n bs)) as [f2 r2] eqn:E2. rewrite Ha.
  exists f2. split; [reflexivity|].
  assert (nonneg (firstn n bs)) as Hn1.
  { rewrite <- (firstn_skipn n bs) in Hn. apply nonneg_app in Hn as [H _]. exact H. }
  destruct (srun_sound (firstn n bs) [] f1 p Hn1 (or_introl eq_refl) E1) as (S1 & S2 & S3).
  simpl in S1. split; [exact S1|]. split; [exact S3|].
  intros g rest ->. apply srun_head in E2 as (k & Hk & ->).
  assert (len (firstn n bs) = Z.of_nat n) as Hl by (unfold len; rewrite firstn_length; lia).
  rewrite S1, len_app in Hl. rewrite len_app.
  assert (0 < len k) by (unfold len; destruct k; [congruence | simpl; lia]). lia.
Qed.

(* ---- the session loop ---- *)
Section ServeProofs.
  Variable S : Type.
  Variable handle : S -> list Z -> S * list Z.

  Lemma process_app s a b :
    process S handle s (a ++ b) =
    let (s1, r1) := process S handle s a in let (s2, r2) := process S handle s1 b in (s2, r1 ++ r2).
  Proof.
    revert s. induction a as [|f t IH]; intros s; simpl.
    - destruct (process S handle s b); reflexivity.
    - destruct (handle s f) as [s1 r]. rewrite IH. destruct (process S handle s1 t) as [s2 rs].
      destruct (process S handle s2 b). reflexivity.
  Qed.

  (* the session's effects and replies depend on the bytes delivered, not on how recv() cut them *)
  Theorem serve_chunking s chunks1 chunks2 :
    concat chunks1 = concat chunks2 -> serve S handle s chunks1 = serve S handle s chunks2.
  Proof. intros E. unfold serve. rewrite !feed_concat, E. reflexivity. Qed.

  (* a stream of whole frames followed by an unfinished one: every whole frame is processed in order and the
     unfinished one is never handed to the request processor *)
  Theorem serve_complete_only s chunks fs r :
    concat chunks = concat fs ++ r -> nonneg (concat chunks) -> Forall wf_frame fs -> unfinished r ->
    serve S handle s chunks = process S handle s fs.
  Proof.
    intros E Hn Hw Hu. unfold serve. rewrite feed_concat, E, framing_exact; auto. rewrite <- E. exact Hn.
  Qed.
End ServeProofs.

(* ---- a byte stream has one division into frames ---------------------------------------------- *)

Lemma framing_unambiguous fs gs r s :
  nonneg (concat fs ++ r) -> Forall wf_frame fs -> unfinished r -> Forall wf_frame gs -> unfinished s ->
  concat fs ++ r = concat gs ++ s -> fs = gs /\ r = s.
Proof.
  intros Hn Hf Hr Hg Hs H.
  pose proof (framing_exact fs r Hn Hf Hr) as A.
  rewrite H in Hn. pose proof (framing_exact gs s Hn Hg Hs) as B.
  rewrite H in A. rewrite A in B. injection B as -> ->. split; reflexivity.
Qed.
