(* Proofs about Model/Engine.v (property C10): symbol accounting, limits and repeat counts of the engine. *)
From Coq Require Import ZArith List Bool Lia.
From CV Require Import Model.Engine.
Import ListNotations.
Open Scope Z_scope.

(* s' is s after taking some symbols k from the front: the rest is untouched and `sent` grew by exactly |k| *)
Definition extends (s s' : source) : Prop :=
  exists k, avail s = k ++ avail s' /\ sent s' = sent s + Z.of_nat (length k).

Lemma extends_refl s : extends s s.
Proof. exists []. split; [reflexivity | simpl; lia]. Qed.

Lemma extends_trans a b c : extends a b -> extends b c -> extends a c.
Proof.
  intros (k1 & E1 & S1) (k2 & E2 & S2). exists (k1 ++ k2). split.
  - rewrite E1, E2, app_assoc. reflexivity.
  - rewrite app_length, Nat2Z.inj_add. lia.
Qed.

Definition runner_ext (rec : runner) : Prop :=
  forall cur s d s' d' y t, rec cur s d = ROk s' d' y t -> extends s s'.

Lemma process_ext n s d s1 d1 : process n s d = Some (s1, d1) -> extends s s1.
Proof.
  unfold process. destruct (n_proc n) as [|k|].
  - intros H; inversion H; subst. apply extends_refl.
  - destruct s as [av sn]. simpl. destruct av as [|c r]; [discriminate|]. intros H; inversion H; subst.
    exists [c]. simpl. split; [reflexivity | lia].
  - destruct s as [av sn]. simpl. destruct av as [|c r]; [discriminate|]. intros H; inversion H; subst.
    exists [c]. simpl. split; [reflexivity | lia].
Qed.

(* what process takes is at most one symbol *)
Lemma process_step n s d s1 d1 : process n s d = Some (s1, d1) -> sent s1 <= sent s + 1.
Proof.
  unfold process. destruct (n_proc n) as [|k|].
  - intros H; inversion H; subst. lia.
  - destruct (avail s) as [|c r]; [discriminate|]. intros H; inversion H; subst. simpl. lia.
  - destruct (avail s) as [|c r]; [discriminate|]. intros H; inversion H; subst. simpl. lia.
Qed.

Lemma cycle_once_ext rec : runner_ext rec -> forall h cur s d seen s' d',
  (cycle_once rec h cur s d seen = CDone s' d' \/ cycle_once rec h cur s d seen = CStasis s' d') -> extends s s'.
Proof.
  intros Hrec h. induction h as [|h IH]; intros cur s d seen s' d' H; simpl in H.
  - destruct H; discriminate.
  - destruct (rec cur s d) as [s1 d1 y t|c] eqn:E; [|destruct H; discriminate].
    apply Hrec in E.
    destruct y as [[tgt|]|].
    + destruct (seen_in _ seen).
      * destruct t; destruct H as [H|H]; try discriminate. inversion H; subst. exact E.
      * apply (extends_trans _ _ _ E). eapply IH. exact H.
    + destruct t; destruct H as [H|H]; try discriminate. inversion H; subst. exact E.
    + destruct t; destruct H as [H|H]; try discriminate. inversion H; subst. exact E.
Qed.

Lemma cycles_loop_ext rec : runner_ext rec -> forall h init final g cycle s d ct s' d' y t,
  cycles_loop rec h init final g cycle s d ct = ROk s' d' y t -> extends s s'.
Proof.
  intros Hrec h init final g. induction g as [|g IH]; intros cycle s d ct s' d' y t H; simpl in H; [discriminate|].
  destruct (final <=? cycle).
  - inversion H; subst. apply extends_refl.
  - destruct (cycle_once rec h init s d (first_crumb init s)) as [c|s1 d1|s1 d1] eqn:E; [discriminate| |].
    + apply (extends_trans _ s1); [eapply cycle_once_ext; eauto | eapply IH; eauto].
    + inversion H; subst. eapply cycle_once_ext; eauto.
Qed.

Lemma delegate_ext rec f m n s d s' d' y t : runner_ext rec ->
  delegate rec f m n s d = ROk s' d' y t -> extends s s'.
Proof.
  intros Hrec. unfold delegate. destruct (n_sub n) as [[init rep]|].
  - destruct (resolve_lim rep d) as [[r dr]|]; [|discriminate].
    destruct (cycles_loop _ _ _ _ _ _ _ _ _) as [s1 d1 y1 t1|c] eqn:E; [|discriminate].
    intros H; inversion H; subst. eapply cycles_loop_ext; eauto.
  - intros H; inversion H; subst. apply extends_refl.
Qed.

Lemma finish_ok n e s2 d2 term s' d' y t :
  finish n e s2 d2 term = ROk s' d' y t ->
  s' = s2 /\ t = term /\ (exists d3, y = fst (transition n term s2 e d3)) /\ (forall e0, e = Some e0 -> sent s2 <= e0).
Proof.
  unfold finish. destruct (match n_struct n with Some st => struct_decode d2 st | None => Some d2 end) as [d3|]; [|discriminate].
  destruct (transition n term s2 e d3) as [y0 d4] eqn:Et.
  assert (exists dx, y0 = fst (transition n term s2 e dx)) as Hy by (exists d3; rewrite Et; reflexivity).
  destruct e as [e0|].
  - destruct (e0 <? sent s2) eqn:L; [discriminate|]. intros H; inversion H; subst.
    repeat split; auto. intros e1 E1; inversion E1; subst. apply Z.ltb_ge in L. exact L.
  - intros H; inversion H; subst. repeat split; auto. intros e0 E0; discriminate.
Qed.

Lemma min_ending_le ending snt lm :
  (forall e, ending = Some e -> exists e1, min_ending ending snt lm = Some e1 /\ e1 <= e) /\
  (forall l, lm = Some l -> exists e1, min_ending ending snt lm = Some e1 /\ e1 <= snt + l).
Proof.
  unfold min_ending. split.
  - intros e ->. destruct lm as [l|].
    + destruct (snt + l <? e) eqn:L.
      * apply Z.ltb_lt in L. exists (snt + l). split; [reflexivity | lia].
      * exists e. split; [reflexivity | lia].
    + exists e. split; [reflexivity | lia].
  - intros l ->. destruct ending as [e|].
    + destruct (snt + l <? e) eqn:L.
      * exists (snt + l). split; [reflexivity | lia].
      * apply Z.ltb_ge in L. exists e. split; [reflexivity | lia].
    + exists (snt + l). split; [reflexivity | lia].
Qed.

(* the shape of a successful run of one state *)
Lemma run_state_ok_inv f m id s d ending s' d' y t :
  run_state (S f) m id s d ending = ROk s' d' y t ->
  exists n s1 d1 lm d1' d2 y2,
    nth_error m id = Some n /\ process n s d = Some (s1, d1) /\ resolve_lim (n_limit n) d1 = Some (lm, d1') /\
    delegate (fun cur s0 d0 => run_state f m cur s0 d0 (min_ending ending (sent s1) lm)) f m n s1 d1' = ROk s' d2 y2 t /\
    finish n (min_ending ending (sent s1) lm) s' d2 t = ROk s' d' y t.
Proof.
  cbn [run_state]. destruct (nth_error m id) as [n|]; [|discriminate].
  destruct (process n s d) as [[s1 d1]|] eqn:Ep; [|discriminate].
  destruct (resolve_lim (n_limit n) d1) as [[lm d1']|] eqn:El; [|discriminate].
  destruct (delegate _ f m n s1 d1') as [s2 d2 y2 t2|c] eqn:Ed; [|discriminate].
  intros H. pose proof (finish_ok _ _ _ _ _ _ _ _ _ H) as (-> & -> & _ & _).
  exists n, s1, d1, lm, d1', d2, y2. auto.
Qed.

(* ---- accounting: what is consumed is a prefix of the input, the rest is untouched, and sent counts it ---- *)
Theorem run_state_ext fuel m ending : runner_ext (fun id s d => run_state fuel m id s d ending).
Proof.
  revert ending. induction fuel as [|f IH]; intros ending cur s d s' d' y t H; [discriminate|].
  apply run_state_ok_inv in H as (n & s1 & d1 & lm & d1' & d2 & y2 & _ & Ep & _ & Ed & _).
  apply (extends_trans _ s1); [eapply process_ext; eauto|].
  eapply delegate_ext; [|exact Ed]. apply IH.
Qed.

(* ---- limits ---- *)
Theorem run_state_limit fuel m id s d ending s' d' y t :
  run_state fuel m id s d ending = ROk s' d' y t ->
  (forall e, ending = Some e -> sent s' <= e) /\
  (forall n s1 d1 l dl, nth_error m id = Some n -> process n s d = Some (s1, d1) ->
     resolve_lim (n_limit n) d1 = Some (Some l, dl) -> sent s' <= sent s1 + l).
Proof.
  destruct fuel as [|f]; [discriminate|]. intros H.
  apply run_state_ok_inv in H as (n & s1 & d1 & lm & d1' & d2 & y2 & En & Ep & El & _ & Ef).
  apply finish_ok in Ef as (_ & _ & _ & Hle). split.
  - intros e ->. destruct (proj1 (min_ending_le (Some e) (sent s1) lm) e eq_refl) as (e1 & E1 & L1).
    specialize (Hle e1 E1). lia.
  - intros n' s1' d1'' l dl En' Ep' El'. rewrite En in En'; inversion En'; subst n'.
    rewrite Ep in Ep'; inversion Ep'; subst s1' d1''. rewrite El in El'; inversion El'; subst lm.
    destruct (proj2 (min_ending_le ending (sent s1) (Some l)) l eq_refl) as (e1 & E1 & L1).
    specialize (Hle e1 E1). lia.
Qed.

(* a limited parser (a dfa: consumes nothing itself) that completes took a prefix no longer than its limit and
   left the rest of the input, in order, to the enclosing grammar *)
Theorem limited_parser_bounded fuel m id n s d ending l dl s' d' y t :
  nth_error m id = Some n -> n_proc n = PNone -> resolve_lim (n_limit n) d = Some (Some l, dl) ->
  run_state fuel m id s d ending = ROk s' d' y t ->
  exists k, avail s = k ++ avail s' /\ sent s' = sent s + Z.of_nat (length k) /\ Z.of_nat (length k) <= l.
Proof.
  intros En Ep El H.
  destruct (run_state_ext fuel m ending id s d s' d' y t H) as (k & Ek & Es).
  exists k. split; [exact Ek|]. split; [exact Es|].
  destruct (run_state_limit _ _ _ _ _ _ _ _ _ _ H) as (_ & Hl).
  assert (process n s d = Some (s, d)) as Hp by (unfold process; rewrite Ep; reflexivity).
  specialize (Hl n s d l dl En Hp El). lia.
Qed.

(* once the limit is reached only the no-input edge is considered: the next symbol is not looked at *)
Lemma limited_transition n term s e d :
  e <= sent s ->
  transition n term s (Some e) d =
    if term && negb (n_greedy n) then (None, d)
    else match lookup_edge NON (n_trans n) with
         | None => (None, d)
         | Some cs => (Some (fst (decide_list cs d)), snd (decide_list cs d))
         end.
Proof.
  intros L. unfold transition. destruct (term && negb (n_greedy n)); [reflexivity|].
  assert (e <=? sent s = true) as -> by (apply Z.leb_le; exact L). cbn [choose].
  destruct (lookup_edge NON (n_trans n)) as [cs|]; [|reflexivity]. destruct (decide_list cs d); reflexivity.
Qed.

(* an outer ending can only be tightened by a limit, never relaxed *)
Lemma ending_only_shrinks ending snt lm e :
  ending = Some e -> exists e1, min_ending ending snt lm = Some e1 /\ e1 <= e.
Proof. intros H. exact (proj1 (min_ending_le ending snt lm) e H). Qed.

(* ---- repeat: a dfa that ends terminal ran its sub-machine exactly `repeat` times ---- *)
Inductive cycles_rel (rec : runner) (h : nat) (init : nat) : nat -> source -> data -> source -> data -> Prop :=
| CR0 s d : cycles_rel rec h init 0 s d s d
| CRS k s d s1 d1 s' d' :
    cycle_once rec h init s d (first_crumb init s) = CDone s1 d1 ->
    cycles_rel rec h init k s1 d1 s' d' -> cycles_rel rec h init (S k) s d s' d'
| CRlast s d s' d' :
    cycle_once rec h init s d (first_crumb init s) = CStasis s' d' -> cycles_rel rec h init 1 s d s' d'.

Lemma cycles_loop_count rec h init final g : forall cycle s d ct s' d' y,
  cycles_loop rec h init final g cycle s d ct = ROk s' d' y true ->
  cycles_rel rec h init (Z.to_nat (final - cycle)) s d s' d'.
Proof.
  induction g as [|g IH]; intros cycle s d ct s' d' y H; simpl in H; [discriminate|].
  destruct (final <=? cycle) eqn:L.
  - inversion H; subst. apply Z.leb_le in L. replace (Z.to_nat (final - cycle)) with 0%nat by lia. constructor.
  - apply Z.leb_gt in L.
    destruct (cycle_once rec h init s d (first_crumb init s)) as [c|s1 d1|s1 d1] eqn:E; [discriminate| |].
    + apply IH in H. replace (Z.to_nat (final - cycle)) with (S (Z.to_nat (final - (cycle + 1)))) by lia.
      econstructor; eauto.
    + inversion H as [[E1 E2 E3 E4]]; subst. apply Z.leb_le in E4.
      replace (Z.to_nat (final - cycle)) with 1%nat by lia. apply CRlast. exact E.
Qed.

(* a cycle in which the sub-machine stops (non-transition) in a non-terminal state is never counted: the dfa
   fails with NonTerminal, whatever the remaining cycles would have done *)
Lemma cycle_stall_fails rec h cur s d seen s' d' y :
  rec cur s d = ROk s' d' y false -> (y = None \/ y = Some None) ->
  cycle_once rec (S h) cur s d seen = CFail 2.
Proof. intros E [-> | ->]; simpl; rewrite E; reflexivity. Qed.

Lemma cycles_loop_fail rec h init final g cycle s d ct c :
  cycle < final -> cycle_once rec h init s d (first_crumb init s) = CFail c ->
  cycles_loop rec h init final (S g) cycle s d ct = RFail c.
Proof.
  intros L E. simpl. assert (final <=? cycle = false) as -> by (apply Z.leb_gt; exact L). rewrite E. reflexivity.
Qed.

Theorem repeat_exact f m id s d ending s' d' y :
  run_state (S f) m id s d ending = ROk s' d' y true ->
  forall n init rep, nth_error m id = Some n -> n_sub n = Some (init, rep) ->
  exists s1 d1 d1' d1'' d2 lm r,
    process n s d = Some (s1, d1) /\ resolve_lim (n_limit n) d1 = Some (lm, d1') /\ resolve_lim rep d1' = Some (r, d1'') /\
    cycles_rel (fun cur s0 d0 => run_state f m cur s0 d0 (min_ending ending (sent s1) lm)) f init
               (Z.to_nat (match r with None => 1 | Some z => z end)) s1 d1'' s' d2.
Proof.
  intros H n init rep En Es.
  apply run_state_ok_inv in H as (n' & s1 & d1 & lm & d1' & d2 & y2 & En' & Ep & El & Ed & _).
  rewrite En in En'; inversion En'; subst n'.
  unfold delegate in Ed. rewrite Es in Ed.
  destruct (resolve_lim rep d1') as [[r d1'']|] eqn:Er; [|discriminate].
  destruct (cycles_loop _ f init _ f 0 s1 d1'' _) as [s2 d2' y2' t2|c] eqn:Ec; [|discriminate].
  inversion Ed; subst. apply andb_true_iff in H3 as [_ ->].
  apply cycles_loop_count in Ec. rewrite Z.sub_0_r in Ec.
  exists s1, d1, d1', d1'', d2, lm, r. auto.
Qed.
