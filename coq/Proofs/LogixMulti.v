(* C07: a Multiple Service Packet is its members one by one. *)
From Coq Require Import ZArith List Bool Lia ZifyBool Arith.
From CV Require Import Base.ListX Model.Logix Proofs.Logix.
Import ListNotations.
Open Scope Z_scope.

(* the members issued individually, in order, on one store *)
Fixpoint run_seq (q : quirks) (maxb : Z) (st : store) (rs : list req) : store * list reply :=
  match rs with
  | [] => (st, [])
  | r :: t => let (st1, rp) := exec1 q maxb st r in
              let (st2, rps) := run_seq q maxb st1 t in (st2, rp :: rps)
  end.

Lemma run_seq_app q maxb st l1 l2 :
  run_seq q maxb st (l1 ++ l2) =
  let (s1, r1) := run_seq q maxb st l1 in let (s2, r2) := run_seq q maxb s1 l2 in (s2, r1 ++ r2).
Proof.
  revert st; induction l1 as [|r t IH]; intros st; simpl.
  - destruct (run_seq q maxb st l2); reflexivity.
  - destruct (exec1 q maxb st r) as [s1 rp]. rewrite IH.
    destruct (run_seq q maxb s1 t) as [s2 r2]. destruct (run_seq q maxb s2 l2). reflexivity.
Qed.

Lemma exec_seq_run_seq maxb rs : forall st,
  wf_store st -> readable st -> Forall req_ok rs ->
  exec_seq fixed maxb st rs = (fst (run_seq fixed maxb st rs), Some (snd (run_seq fixed maxb st rs))) /\
  wf_store (fst (run_seq fixed maxb st rs)) /\ readable (fst (run_seq fixed maxb st rs)) /\
  same_shape st (fst (run_seq fixed maxb st rs)).
Proof.
  induction rs as [|r t IH]; intros st Hwf Hr Hok; cbn [exec_seq run_seq].
  - simpl. split; [reflexivity|]. split; [exact Hwf|]. split; [exact Hr|]. apply same_shape_refl.
  - inversion Hok as [|? ? Hr1 Hok']; subst.
    destruct (exec1 fixed maxb st r) as [st1 rp] eqn:E1.
    destruct (exec1_inv _ _ _ _ _ _ Hwf Hr1 E1) as (Hs1 & Hwf1 & Hrd1 & _).
    specialize (Hrd1 eq_refl Hr).
    pose proof (produce1_total fixed maxb st r Hr) as Hp. rewrite E1 in Hp. cbn [snd] in Hp.
    destruct (produce rp); [|congruence].
    destruct (IH st1 Hwf1 Hrd1 Hok') as (IE & IW & IR & IS). rewrite IE.
    destruct (run_seq fixed maxb st1 t) as [st2 rps]. cbn [fst snd] in *.
    split; [reflexivity|]. split; [exact IW|]. split; [exact IR|]. eapply same_shape_trans; eauto.
Qed.

Theorem multi_equiv maxb st rs :
  wf_store st -> readable st -> Forall req_ok rs ->
  exec fixed maxb st (Multiple rs) =
  (fst (run_seq fixed maxb st rs), RMulti (snd (run_seq fixed maxb st rs))).
Proof.
  intros Hwf Hr Hok. cbn [exec].
  destruct (exec_seq_run_seq maxb rs st Hwf Hr Hok) as (E & _). rewrite E. reflexivity.
Qed.

(* a refused member leaves the tags as they were, so its neighbours are answered exactly as if it
   had not been in the bundle *)
Theorem multi_isolation q maxb st l1 r l2 :
  wf_store st -> Forall req_ok (l1 ++ r :: l2) ->
  let s1 := fst (run_seq q maxb st l1) in
  is_fail (snd (exec1 q maxb s1 r)) ->
  fst (run_seq q maxb st (l1 ++ r :: l2)) = fst (run_seq q maxb st (l1 ++ l2)) /\
  snd (run_seq q maxb st (l1 ++ r :: l2)) =
    snd (run_seq q maxb st l1) ++ snd (exec1 q maxb s1 r) :: snd (run_seq q maxb s1 l2) /\
  snd (run_seq q maxb st (l1 ++ l2)) = snd (run_seq q maxb st l1) ++ snd (run_seq q maxb s1 l2).
Proof.
  intros Hwf Hok s1 Hf. subst s1. rewrite !run_seq_app.
  assert (wf_store (fst (run_seq q maxb st l1))) as Hwf1.
  { clear Hf. apply Forall_app in Hok as [Hok1 _]. revert st Hwf Hok1.
    induction l1 as [|x t IH]; intros st Hwf Hok1; simpl; auto.
    inversion Hok1; subst. destruct (exec1 q maxb st x) as [sx rx] eqn:Ex.
    destruct (exec1_inv _ _ _ _ _ _ Hwf H1 Ex) as (_ & Hw & _).
    specialize (IH sx Hw H2). destruct (run_seq q maxb sx t); auto. }
  destruct (run_seq q maxb st l1) as [s1 r1]. cbn [fst snd] in *. cbn [run_seq].
  destruct (exec1 q maxb s1 r) as [s1' rp] eqn:E. cbn [snd] in Hf.
  assert (req_ok r) as Hr by (apply Forall_app in Hok as [_ Hok2]; inversion Hok2; auto).
  destruct (exec1_inv _ _ _ _ _ _ Hwf1 Hr E) as (_ & _ & _ & Hsame). specialize (Hsame Hf). subst s1'.
  destruct (run_seq q maxb s1 l2) as [s2 r2]. cbn [fst snd]. auto.
Qed.

(* ---- the offset table ----------------------------------------------------------------------------- *)

Fixpoint sum (l : list Z) : Z := match l with [] => 0 | x :: t => x + sum t end.

Lemma offsets_from_nth lens : forall base i, (i < length lens)%nat ->
  nth_error (offsets_from base lens) i = Some (base + sum (firstn i lens)).
Proof.
  induction lens as [|l t IH]; intros base i Hi; simpl in Hi; [lia|].
  destruct i as [|i]; simpl; [f_equal; lia|]. rewrite IH by lia. f_equal. lia.
Qed.

Lemma offsets_from_length lens base : length (offsets_from base lens) = length lens.
Proof. revert base; induction lens; intros; simpl; auto. Qed.

Fixpoint produce_all (rs : list reply) : option (list (list Z)) :=
  match rs with
  | [] => Some []
  | r :: t => match produce r, produce_all t with
              | Some b, Some bs => Some (b :: bs)
              | _, _ => None
              end
  end.

Definition bundle_bytes (parts : list (list Z)) : list Z :=
  let n := Z.of_nat (length parts) in
  138 :: 0 :: 0 :: 0 :: le_bytes 2 n
  ++ flat_map (le_bytes 2) (offsets_from (2 + 2 * n) (map (fun p => Z.of_nat (length p)) parts))
  ++ concat parts.

Lemma produce_multi rs :
  produce (RMulti rs) = match produce_all rs with Some parts => Some (bundle_bytes parts) | None => None end.
Proof.
  cbn [produce].
  set (go := fix go (rs0 : list reply) (acc : list (list Z)) {struct rs0} : option (list Z) :=
    match rs0 with
    | [] => _
    | r :: t => match produce r with Some b => go t (b :: acc) | None => None end
    end).
  assert (forall rs acc, go rs acc = match produce_all rs with
                                     | Some parts => Some (bundle_bytes (rev acc ++ parts))
                                     | None => None end) as H.
  { induction rs0 as [|r t IH]; intros acc; simpl.
    - rewrite app_nil_r. reflexivity.
    - destruct (produce r) as [b|]; [|reflexivity]. rewrite IH. simpl.
      destruct (produce_all t); [|reflexivity]. rewrite <- app_assoc. reflexivity. }
  rewrite H. simpl. reflexivity.
Qed.

From CV Require Import Proofs.LogixRefuse.

Lemma pinned_multi_abort :
  let w := WriteTag (PSym 0 (Some 1)) 200 1 [VI 4294967295] in
  let rd := ReadTag (PSym 0 None) 3 in
  snd (exec pinned 488 st_dint (Multiple [w; rd; rd])) = RFail 138 8 [] /\
  length (snd (run_seq pinned 488 st_dint [w; rd; rd])) = 3%nat.
Proof. cbv zeta. split; vm_compute; reflexivity. Qed.

(* non-vacuity: a bundle mixing reads, writes, a refused member and an attribute service *)
Definition C07_example_ok : bool :=
  let st := Store [Attr INT false [VI 1; VI 2; VI 3; VI 4; VI 5]; Attr DINT false [VI 7; VI 8; VI 9]]
                  [((2, 1, 1), 0%nat); ((153, 1, 3), 1%nat)] [(0, (2, 1, 1)); (1, (153, 1, 3))] in
  let rs := [ReadTag (PSym 0 (Some 1)) 2; WriteTag (PSym 0 (Some 1)) 195 1 [VI 50];
             ReadTag (PSym 0 (Some 9)) 1; ReadTag (PSym 0 (Some 1)) 2; GetAttr (PNum 153 1 (Some 3) None)] in
  match produce (snd (exec fixed 488 st (Multiple rs))) with
  | Some bs => (Z.of_nat (length bs) =? 4 + 2 + 10 + 10 + 4 + 6 + 10 + 16) && (nth 6 bs 0 =? 12)
  | None => false
  end.
