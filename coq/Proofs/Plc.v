(* Proofs about Model/Plc.v (property C19). *)
From Coq Require Import ZArith List Bool Lia Sorting.Sorted Sorting.Permutation ZifyBool.
From CV Require Import Model.Plc.
Import ListNotations.
Open Scope Z_scope.
Ltac Zify.zify_post_hook ::= Z.to_euclidean_division_equations.

Definition inr (x : Z) (r : range) : Prop := fst r <= x < fst r + snd r.
Definition covered (rs : list range) (x : Z) : Prop := exists r, In r rs /\ inr x r.

(* [tiles a out e]: consecutive non-empty pieces covering exactly [a, e) *)
Inductive tiles : Z -> list range -> Z -> Prop :=
| tiles_nil a : tiles a [] a
| tiles_cons a k t e : 1 <= k -> tiles (a + k) t e -> tiles a ((a, k) :: t) e.

(* [chain lo out hi]: sorted, pairwise disjoint, non-empty ranges inside [lo, hi) *)
Inductive chain : Z -> list range -> Z -> Prop :=
| chain_nil lo hi : lo <= hi -> chain lo [] hi
| chain_cons lo a k t hi : lo <= a -> 1 <= k -> chain (a + k) t hi -> chain lo ((a, k) :: t) hi.

Lemma tiles_le a out e : tiles a out e -> a <= e.
Proof. induction 1; lia. Qed.

Lemma tiles_chain a out e : tiles a out e -> chain a out e.
Proof. induction 1; constructor; try lia; auto. Qed.

Lemma chain_le lo out hi : chain lo out hi -> lo <= hi.
Proof. induction 1; lia. Qed.

Lemma chain_weaken lo lo' out hi hi' : chain lo out hi -> lo' <= lo -> hi <= hi' -> chain lo' out hi'.
Proof.
  intros H; revert lo' hi'; induction H as [lo hi Hl | lo a k t hi Hlo Hk Hc IH]; intros lo' hi' Ha Hb.
  - constructor; lia.
  - constructor; try lia. apply IH; lia.
Qed.

Lemma chain_app lo o1 mid o2 hi : chain lo o1 mid -> chain mid o2 hi -> chain lo (o1 ++ o2) hi.
Proof.
  induction 1; intros H2; simpl.
  - eapply chain_weaken; eauto; lia.
  - constructor; auto.
Qed.

Lemma tiles_covered a out e x : tiles a out e -> (covered out x <-> a <= x < e).
Proof.
  induction 1 as [a | a k t e Hk Ht IH].
  - split; [intros (r & [] & _) | lia].
  - split.
    + intros (r & [<- | Hin] & Hr).
      * unfold inr in Hr; simpl in Hr. apply tiles_le in Ht. lia.
      * assert (covered t x) as Hc by (exists r; auto). apply IH in Hc. lia.
    + intros Hx. destruct (Z_lt_ge_dec x (a + k)).
      * exists (a, k); split; [left; auto | unfold inr; simpl; lia].
      * destruct IH as [_ IH]. destruct IH as (r & Hin & Hr); [lia|]. exists r; split; [right|]; auto.
Qed.

Lemma tiles_forall a out e : tiles a out e -> Forall (fun r => a <= fst r /\ 1 <= snd r /\ fst r + snd r <= e) out.
Proof.
  induction 1 as [a | a k t e Hk Ht IH]; constructor.
  - simpl. apply tiles_le in Ht. lia.
  - eapply Forall_impl; [|exact IH]. simpl; intros r Hr; lia.
Qed.

Lemma chain_covered_bounds lo out hi x : chain lo out hi -> covered out x -> lo <= x < hi.
Proof.
  induction 1 as [lo hi H | lo a k t hi Hlo Hk Hc IH].
  - intros (r & [] & _).
  - intros (r & [<- | Hin] & Hr).
    + unfold inr in Hr; simpl in Hr. apply chain_le in Hc. lia.
    + assert (covered t x) as Hx by (exists r; auto). apply IH in Hx. lia.
Qed.

Definition before (r s : range) : Prop := fst r + snd r <= fst s.

Lemma chain_sorted lo out hi : chain lo out hi ->
  StronglySorted before out /\ Forall (fun r => lo <= fst r /\ 1 <= snd r /\ fst r + snd r <= hi) out.
Proof.
  induction 1 as [lo hi H | lo a k t hi Hlo Hk Hc [IHs IHf]].
  - split; constructor.
  - apply chain_le in Hc as Hle. split.
    + constructor; auto. eapply Forall_impl; [|exact IHf]. unfold before; simpl; intros r Hr; lia.
    + constructor; [simpl; lia|]. eapply Forall_impl; [|exact IHf]. simpl; intros r Hr; lia.
Qed.

(* ---- shatter ---------------------------------------------------------------------------- *)

Lemma shatter_go_tiles fuel : forall a c l, 1 <= l -> 0 <= c -> c <= Z.of_nat fuel * l ->
  tiles a (shatter_go fuel a c l) (a + c) /\ Forall (fun r => snd r <= l) (shatter_go fuel a c l).
Proof.
  induction fuel as [|f IH]; intros a c l Hl Hc Hf.
  - simpl in *. assert (c = 0) by lia. subst. rewrite Z.add_0_r. split; constructor.
  - cbn [shatter_go]. destruct (c =? 0) eqn:E.
    + assert (c = 0) by lia. subst. rewrite Z.add_0_r. split; constructor.
    + destruct (l =? 0) eqn:El; [lia|].
      destruct (IH (a + Z.min c l) (c - Z.min c l) l) as [IT IF]; try lia.
      split.
      * constructor; [lia|]. replace (a + c) with (a + Z.min c l + (c - Z.min c l)) by lia. exact IT.
      * constructor; [simpl; lia | exact IF].
Qed.

Definition limit_wf (limit : option Z) : Prop := match limit with Some l => 0 <= l | None => True end.

Lemma default_limit_pos a : 1 <= default_limit a.
Proof. unfold default_limit. destruct (_ || _); lia. Qed.

Lemma eff_limit_pos a limit : limit_wf limit -> 1 <= eff_limit a limit.
Proof.
  unfold eff_limit, limit_wf. destruct limit as [l|]; [|intros; apply default_limit_pos].
  intros H. destruct (l =? 0) eqn:E; [apply default_limit_pos | lia].
Qed.

Lemma shatter_tiles a c limit : limit_wf limit -> 0 <= c ->
  tiles a (shatter a c limit) (a + c) /\ Forall (fun r => snd r <= eff_limit a limit) (shatter a c limit).
Proof.
  intros Hw Hc. unfold shatter. pose proof (eff_limit_pos a limit Hw) as Hl.
  apply shatter_go_tiles; [lia | lia |].
  rewrite Z2Nat.id; [|apply Z.div_pos; lia].
  set (l := eff_limit a limit) in *. clearbody l.
  pose proof (Z.div_mod (c + l - 1) l ltac:(lia)) as Hdm.
  pose proof (Z.mod_pos_bound (c + l - 1) l ltac:(lia)) as Hmb. nia.
Qed.

(* ---- sort ------------------------------------------------------------------------------- *)

Definition addr_le (r s : range) : Prop := fst r <= fst s.

Lemma insert_in r l x : In x (insert r l) <-> x = r \/ In x l.
Proof.
  induction l as [|s t IH]; simpl.
  - intuition.
  - destruct (le_range r s); simpl; rewrite ?IH; intuition.
Qed.

Lemma sort_in l x : In x (sort l) <-> In x l.
Proof.
  induction l as [|r t IH]; simpl; [tauto|]. rewrite insert_in, IH. intuition.
Qed.

Lemma insert_sorted r l : StronglySorted addr_le l -> StronglySorted addr_le (insert r l).
Proof.
  induction 1 as [|s t Hs IH Hf]; simpl.
  - constructor; constructor.
  - destruct (le_range r s) eqn:E.
    + unfold le_range in E. constructor; [constructor; auto|].
      constructor; [unfold addr_le; lia|].
      eapply Forall_impl; [|exact Hf]. unfold addr_le; intros q Hq; lia.
    + unfold le_range in E. constructor; auto.
      apply Forall_forall. intros q Hq. apply insert_in in Hq. destruct Hq as [-> | Hq].
      * unfold addr_le; lia.
      * rewrite Forall_forall in Hf; auto.
Qed.

Lemma sort_sorted l : StronglySorted addr_le (sort l).
Proof. induction l; simpl; [constructor | apply insert_sorted; auto]. Qed.

(* ---- merge ------------------------------------------------------------------------------ *)

Definition same_block (a b : Z) : Prop := a / 10000 = b / 10000.
Definition wf_range (r : range) : Prop := 0 <= fst r /\ 1 <= snd r /\ same_block (fst r) (fst r + snd r - 1).

Lemma eff_reach_pos reach : 0 <= reach -> 1 <= eff_reach reach.
Proof. intros H. unfold eff_reach. destruct (reach =? 0) eqn:E; lia. Qed.

Section Merge.
  Variable reach : Z.
  Variable limit : option Z.
  Variable req : Z -> Prop.            (* requested registers *)
  Variable starts : Z -> Prop.         (* start addresses of requested ranges *)
  Hypothesis Hreach : 0 <= reach.
  Hypothesis Hlimit : limit_wf limit.

  Definition near (x : Z) : Prop := exists y, req y /\ Z.abs (x - y) < eff_reach reach.
  Definition cov_st (st : mstate) (x : Z) : Prop :=
    covered (m_out st) x \/ m_base st <= x < m_base st + m_len st.
  Definition piece_ok (p : range) : Prop :=
    same_block (fst p) (fst p + snd p - 1) /\
    exists b, starts b /\ same_block b (fst p) /\ snd p <= eff_limit b limit.

  Record Inv (st : mstate) : Prop := {
    I_len : 1 <= m_len st;
    I_base : 0 <= m_base st;
    I_chain : exists lo, chain lo (m_out st) (m_base st);
    I_near : forall x, cov_st st x -> near x;
    I_block : same_block (m_base st) (m_base st + m_len st - 1);
    I_pieces : Forall piece_ok (m_out st);
    I_start : starts (m_base st)
  }.


  Lemma emit_pieces st : Inv st ->
    Forall piece_ok (shatter (m_base st) (m_len st) limit).
  Proof.
    intros I. destruct (shatter_tiles (m_base st) (m_len st) limit Hlimit) as [HT HF]; [destruct I; lia|].
    apply tiles_forall in HT. rewrite Forall_forall in *. intros p Hp.
    specialize (HT p Hp). specialize (HF p Hp). simpl in HT.
    pose proof (I_block st I) as Hb. pose proof (I_base st I). pose proof (I_start st I).
    unfold piece_ok, same_block in *. split.
    - lia.
    - exists (m_base st). split; [auto|]. split; [lia | exact HF].
  Qed.

  Lemma step_inv st r : Inv st -> wf_range r -> m_base st <= fst r -> starts (fst r) ->
    (forall x, inr x r -> req x) ->
    Inv (merge_step reach limit st r) /\
    (forall x, cov_st st x \/ inr x r -> cov_st (merge_step reach limit st r) x).
  Proof.
    intros I (Ha & Hc & Hb) Hle Hst Hreq. destruct r as [address count]. simpl in *.
    pose proof (I_len st I) as Hlen. pose proof (I_base st I) as Hbase.
    pose proof (I_block st I) as Hblk. pose proof (eff_reach_pos reach Hreach) as Hr.
    unfold merge_step. destruct (m_len st =? 0) eqn:E0; [lia|]. cbn [negb].
    destruct ((address / 10000 =? m_base st / 10000) && (address <? m_base st + m_len st + eff_reach reach)) eqn:Em.
    - (* merged *)
      apply andb_prop in Em as [Eb Elt]. split.
      + constructor; cbn [m_len m_base m_out].
        * lia.
        * lia.
        * exact (I_chain st I).
        * intros x [Hx | Hx]; [apply (I_near st I); left; exact Hx|]. cbn [m_len m_base m_out] in Hx.
          destruct (Z_lt_ge_dec x (m_base st + m_len st)) as [Hin | Hout].
          -- apply (I_near st I). right. lia.
          -- destruct (Z_lt_ge_dec x address) as [Hgap | Hnew].
             ++ exists address. split; [apply Hreq; unfold inr; simpl; lia | lia].
             ++ exists x. split; [apply Hreq; unfold inr; simpl; lia | lia].
        * unfold same_block in *. lia.
        * exact (I_pieces st I).
        * exact (I_start st I).
      + intros x [[Hx | Hx] | Hx]; unfold cov_st; cbn [m_len m_base m_out].
        * left; exact Hx.
        * right; lia.
        * right. unfold inr in Hx; simpl in Hx. lia.
    - (* emitted *)
      destruct (shatter_tiles (m_base st) (m_len st) limit Hlimit) as [HT HF]; [lia|].
      assert (m_base st + m_len st <= address) as Hsep.
      { apply andb_false_iff in Em as [Eb | Elt]; unfold same_block in *; lia. }
      split.
      + constructor; cbn [m_len m_base m_out].
        * lia.
        * lia.
        * destruct (I_chain st I) as (lo & Hch). exists lo.
          apply chain_app with (mid := m_base st); [exact Hch|].
          eapply chain_weaken; [apply tiles_chain; exact HT | lia | lia].
        * intros x [(p & Hin & Hp) | Hx]; cbn [m_len m_base m_out] in *.
          -- apply in_app_or in Hin as [Hin | Hin].
             ++ apply (I_near st I). left. exists p; auto.
             ++ apply (I_near st I). right. apply (tiles_covered _ _ _ x) in HT.
                apply HT. exists p; auto.
          -- exists x. split; [apply Hreq; unfold inr; simpl; lia | lia].
        * exact Hb.
        * apply Forall_app. split; [exact (I_pieces st I) | apply emit_pieces; exact I].
        * exact Hst.
      + intros x [[(p & Hin & Hp) | Hx] | Hx]; unfold cov_st; cbn [m_len m_base m_out].
        * left. exists p; split; [apply in_or_app; left|]; auto.
        * left. apply (tiles_covered _ _ _ x) in HT. destruct HT as [_ HT].
          destruct HT as (p & Hin & Hp); [lia|]. exists p; split; [apply in_or_app; right|]; auto.
        * right. unfold inr in Hx; simpl in Hx; lia.
  Qed.

  Lemma step_base st r : m_base st <= fst r -> m_base st <= m_base (merge_step reach limit st r).
  Proof.
    destruct r as [a c]; simpl. intros H. unfold merge_step.
    destruct (negb _); [destruct (_ && _)|]; cbn [m_base]; lia.
  Qed.

  Lemma fold_inv rest : forall st, Inv st -> StronglySorted addr_le rest ->
    Forall (fun r => wf_range r /\ m_base st <= fst r /\ starts (fst r) /\ forall x, inr x r -> req x) rest ->
    let st' := fold_left (merge_step reach limit) rest st in
    Inv st' /\ (forall x, cov_st st x \/ covered rest x -> cov_st st' x).
  Proof.
    induction rest as [|r t IH]; intros st I Hs Hf; cbn [fold_left].
    - split; [exact I|]. intros x [Hx | (r & [] & _)]. exact Hx.
    - inversion Hs as [|? ? Hs' Hall]; subst. inversion Hf as [|? ? (Hw & Hle & Hst & Hreq) Hf']; subst.
      destruct (step_inv st r I Hw Hle Hst Hreq) as [I' Hcov].
      destruct (IH (merge_step reach limit st r) I' Hs') as [I'' Hcov'].
      { rewrite Forall_forall in *. intros q Hq. destruct (Hf' q Hq) as (Hw' & Hle' & Hst' & Hreq').
        split; [exact Hw'|]. split; [|split; [exact Hst' | exact Hreq']].
        specialize (Hall q Hq). unfold addr_le in Hall.
        destruct r as [a c]; simpl in *. unfold merge_step.
        destruct (negb _); [destruct (_ && _)|]; cbn [m_base]; lia. }
      split; [exact I''|]. intros x [Hx | (q & [<- | Hin] & Hq)].
      + apply Hcov'. left. apply Hcov. left. exact Hx.
      + apply Hcov'. left. apply Hcov. right. exact Hq.
      + apply Hcov'. right. exists q; auto.
  Qed.
End Merge.

Definition wf_input (rs : list range) : Prop := rs <> [] /\ Forall wf_range rs.

Definition out_piece_ok (rs : list range) (limit : option Z) (p : range) : Prop :=
  exists b c, In (b, c) rs /\ same_block b (fst p) /\ snd p <= eff_limit b limit.

Theorem merge_correct rs reach limit : wf_input rs -> 0 <= reach -> limit_wf limit ->
  exists out, merge rs reach limit = Some out /\
    (exists lo hi, chain lo out hi) /\
    Forall (fun p => same_block (fst p) (fst p + snd p - 1)) out /\
    Forall (out_piece_ok rs limit) out /\
    (forall x, covered rs x -> covered out x) /\
    (forall x, covered out x -> exists y, covered rs y /\ Z.abs (x - y) < eff_reach reach).
Proof.
  intros (Hne & Hwf) Hreach Hlim. unfold merge.
  pose proof (sort_sorted rs) as Hs. pose proof (sort_in rs) as Hin.
  destruct (sort rs) as [|[b l] rest] eqn:Es.
  { destruct rs as [|r t]; [congruence|]. specialize (Hin r). simpl in Hin. tauto. }
  eexists; split; [reflexivity|].
  set (req := fun x => covered rs x). set (starts := fun a => exists c, In (a, c) rs).
  rewrite Forall_forall in Hwf.
  assert (In (b, l) rs) as Hbl by (apply Hin; left; auto).
  assert (Inv reach limit req starts (MS b l [])) as I0.
  { destruct (Hwf _ Hbl) as (H1 & H2 & H3). simpl in *. constructor; cbn [m_len m_base m_out]; auto.
    - exists b. constructor; lia.
    - intros x [(p & [] & _) | Hx]. exists x. split; [exists (b, l); split; auto|].
      pose proof (eff_reach_pos reach Hreach). lia.
    - exists l; auto. }
  inversion Hs as [|? ? Hs' Hall]; subst.
  destruct (fold_inv reach limit req starts Hreach Hlim rest (MS b l []) I0 Hs') as [I Hcov].
  { rewrite Forall_forall in *. intros q Hq. assert (In q rs) as Hq' by (apply Hin; right; auto).
    repeat split; try apply (Hwf q Hq').
    - apply (Hall q Hq).
    - exists (snd q). destruct q; auto.
    - intros x Hx. exists q; auto. }
  set (st := fold_left (merge_step reach limit) rest (MS b l [])) in *. clearbody st.
  destruct (shatter_tiles (m_base st) (m_len st) limit Hlim) as [HT HF]; [destruct I; lia|].
  destruct (I_chain _ _ _ _ _ I) as (lo & Hch).
  assert (Forall (piece_ok limit starts) (m_out st ++ shatter (m_base st) (m_len st) limit)) as Hpieces.
  { apply Forall_app; split; [apply (I_pieces _ _ _ _ _ I) | eapply emit_pieces; eauto]. }
  repeat split.
  - exists lo, (m_base st + m_len st). eapply chain_app; [exact Hch | apply tiles_chain; exact HT].
  - eapply Forall_impl; [|exact Hpieces]. intros p [Hp _]; exact Hp.
  - eapply Forall_impl; [|exact Hpieces]. intros p [_ (b0 & (c0 & Hb0) & Hsb & Hle)].
    exists b0, c0; auto.
  - intros x Hx.
    assert (covered ((b, l) :: rest) x) as Hx'.
    { destruct Hx as (r & Hr & Hxr). exists r; split; auto. apply Hin; auto. }
    assert (cov_st st x) as Hc.
    { apply Hcov. destruct Hx' as (r & [<- | Hr] & Hxr).
      - left. right. exact Hxr.
      - right. exists r; auto. }
    destruct Hc as [(p & Hp & Hxp) | Hc].
    + exists p; split; [apply in_or_app; left|]; auto.
    + apply (tiles_covered _ _ _ x) in HT. destruct HT as [_ HT]. destruct (HT Hc) as (p & Hp & Hxp).
      exists p; split; [apply in_or_app; right|]; auto.
  - intros x (p & Hp & Hxp). apply (I_near _ _ _ _ _ I). apply in_app_or in Hp as [Hp | Hp].
    + left. exists p; auto.
    + right. apply (tiles_covered _ _ _ x) in HT. apply HT. exists p; auto.
Qed.

Lemma merge_old_refuted :
  merge_old [(1, 10); (3, 2)] 1 None = Some [(1, 4)] /\
  covered [(1, 10); (3, 2)] 5 /\ ~ covered [(1, 4)] 5.
Proof.
  split; [vm_compute; reflexivity|]. split.
  - exists (1, 10); split; [left; auto | unfold inr; simpl; lia].
  - intros (r & [<- | []] & Hr). unfold inr in Hr; simpl in Hr; lia.
Qed.

Lemma merge_example :
  wf_input [(1, 10); (3, 2); (3, 2); (12, 1); (9998, 2); (10000, 3); (40001, 200)] /\
  merge [(1, 10); (3, 2); (3, 2); (12, 1); (9998, 2); (10000, 3); (40001, 200)] 2 None
  = Some [(1, 12); (9998, 2); (10000, 3); (40001, 123); (40124, 77)].
Proof.
  split; [|vm_compute; reflexivity]. split; [discriminate|].
  repeat constructor; unfold same_block; simpl; try lia; reflexivity.
Qed.

(* ---- shatter: number of pieces (no piece is smaller than it must be) --------------------- *)

Lemma ceil_step c l : 1 <= l -> 1 <= c -> (c + l - 1) / l = 1 + (c - Z.min c l + l - 1) / l.
Proof.
  intros Hl Hc. destruct (Z.le_gt_cases c l) as [H|H].
  - rewrite Z.min_l by lia. replace (c - c + l - 1) with (l - 1) by lia.
    rewrite (Z.div_small (l - 1) l) by lia.
    assert ((c + l - 1) / l = 1); [|lia].
    replace (c + l - 1) with (1 * l + (c - 1)) by lia. rewrite Z.div_add_l by lia. rewrite Z.div_small; lia.
  - rewrite Z.min_r by lia. replace (c + l - 1) with (1 * l + (c - l + l - 1)) by lia.
    rewrite Z.div_add_l by lia. lia.
Qed.

Lemma shatter_go_count fuel : forall a c l, 1 <= l -> 0 <= c -> c <= Z.of_nat fuel * l ->
  Z.of_nat (length (shatter_go fuel a c l)) = (c + l - 1) / l.
Proof.
  induction fuel as [|f IH]; intros a c l Hl Hc Hf.
  - simpl in *. assert (c = 0) by lia. subst. rewrite Z.div_small; lia.
  - cbn [shatter_go]. destruct (c =? 0) eqn:E.
    + assert (c = 0) by lia. subst. simpl length. rewrite Z.div_small; lia.
    + destruct (l =? 0) eqn:El; [lia|].
      cbn [length]. rewrite Nat2Z.inj_succ. rewrite (IH (a + Z.min c l) (c - Z.min c l) l); try lia.
      rewrite (ceil_step c l); lia.
Qed.

Lemma shatter_count a c limit : limit_wf limit -> 0 <= c ->
  Z.of_nat (length (shatter a c limit)) = (c + eff_limit a limit - 1) / eff_limit a limit.
Proof.
  intros Hw Hc. unfold shatter. pose proof (eff_limit_pos a limit Hw) as Hl.
  apply shatter_go_count; [lia | lia |].
  rewrite Z2Nat.id; [|apply Z.div_pos; lia].
  set (l := eff_limit a limit) in *. clearbody l.
  pose proof (Z.div_mod (c + l - 1) l ltac:(lia)) as Hdm.
  pose proof (Z.mod_pos_bound (c + l - 1) l ltac:(lia)) as Hmb. nia.
Qed.

(* ---- the request list is a set of ranges: its order does not matter -------------------- *)

Lemma le_range_total r s : le_range r s = true \/ le_range s r = true.
Proof. destruct r as [a c], s as [b d]; unfold le_range; simpl; lia. Qed.

Lemma le_range_antisym r s : le_range r s = true -> le_range s r = true -> r = s.
Proof. destruct r as [a c], s as [b d]; unfold le_range; simpl; intros H1 H2.
  assert (a = b /\ c = d) as [-> ->] by lia. reflexivity. Qed.

Lemma le_range_trans r s t : le_range r s = true -> le_range s t = true -> le_range r t = true.
Proof. destruct r as [a c], s as [b d], t as [e f]; unfold le_range; simpl; lia. Qed.

Lemma insert_comm a b : forall l, insert a (insert b l) = insert b (insert a l).
Proof.
  induction l as [|s t IH]; cbn [insert].
  - destruct (le_range a b) eqn:Eab, (le_range b a) eqn:Eba; try reflexivity.
    + rewrite (le_range_antisym a b Eab Eba). reflexivity.
    + destruct (le_range_total a b); congruence.
  - destruct (le_range b s) eqn:Ebs, (le_range a s) eqn:Eas; cbn [insert]; rewrite ?Ebs, ?Eas.
    + destruct (le_range a b) eqn:Eab, (le_range b a) eqn:Eba; rewrite ?Eas, ?Ebs; try reflexivity.
      * rewrite (le_range_antisym a b Eab Eba). reflexivity.
      * destruct (le_range_total a b); congruence.
    + destruct (le_range a b) eqn:Eab.
      * rewrite (le_range_trans a b s Eab Ebs) in Eas. discriminate.
      * reflexivity.
    + destruct (le_range b a) eqn:Eba.
      * rewrite (le_range_trans b a s Eba Eas) in Ebs. discriminate.
      * reflexivity.
    + rewrite IH. reflexivity.
Qed.

Lemma sort_perm l l' : Permutation l l' -> sort l = sort l'.
Proof.
  induction 1 as [|x l l' _ IH|x y l|l l' l'' _ IH1 _ IH2]; cbn [sort].
  - reflexivity.
  - rewrite IH. reflexivity.
  - apply insert_comm.
  - congruence.
Qed.

Lemma merge_perm rs rs' reach limit : Permutation rs rs' -> merge rs reach limit = merge rs' reach limit.
Proof. intros H. unfold merge. rewrite (sort_perm rs rs' H). reflexivity. Qed.
