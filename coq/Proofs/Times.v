(* Proofs about Model/Times.v (property C17). *)
From Coq Require Import ZArith List Bool Lia ZifyBool.
From CV Require Import Model.Times.
Import ListNotations.
Open Scope Z_scope.

(* ---- rounding ---- *)
Lemma rne_bounds N D : 0 < D -> D * (2 * rne N D - 1) <= 2 * N <= D * (2 * rne N D + 1).
Proof.
  intros HD. unfold rne.
  pose proof (Z.div_mod N D ltac:(lia)) as E. pose proof (Z.mod_pos_bound N D HD) as B.
  set (q := N / D) in *. set (r := N mod D) in *. clearbody q r.
  destruct (2 * r <? D) eqn:L1; [nia|].
  destruct (D <? 2 * r) eqn:L2; [nia|].
  destruct (Z.even q); nia.
Qed.

(* comparison never contradicts the millisecond renderings *)
Theorem lt_implies_rendering_lt a b D : 0 < D -> ts_lt a b D = true -> rne (a * 1000) D < rne (b * 1000) D.
Proof.
  intros HD H. unfold ts_lt in H.
  pose proof (rne_bounds (a * 1000) D HD). pose proof (rne_bounds (b * 1000) D HD).
  set (ra := rne (a * 1000) D) in *. set (rb := rne (b * 1000) D) in *. clearbody ra rb. nia.
Qed.

Theorem equal_renderings_compare_equal a b D :
  0 < D -> rne (a * 1000) D = rne (b * 1000) D -> ts_eq a b D = true.
Proof.
  intros HD H. unfold ts_eq, ts_lt.
  pose proof (rne_bounds (a * 1000) D HD). pose proof (rne_bounds (b * 1000) D HD).
  rewrite H in *. set (rb := rne (b * 1000) D) in *. clearbody rb. nia.
Qed.

(* ---- calendar ---- *)
Lemma civil_shift z k :
  civil_of_days (z + 146097 * k) = let '(y, m, d) := civil_of_days z in (y + 400 * k, m, d).
Proof.
  unfold civil_of_days.
  replace (z + 146097 * k + 719468) with (z + 719468 + k * 146097) by ring.
  rewrite Z.div_add by lia. rewrite Z.mod_add by lia.
  set (doe := (z + 719468) mod 146097). set (era := (z + 719468) / 146097).
  cbv zeta. f_equal. f_equal. ring.
Qed.

Lemma days_shift y m d k : days_of_civil (y + 400 * k) m d = days_of_civil y m d + 146097 * k.
Proof.
  unfold days_of_civil.
  replace (y + 400 * k - (if m <=? 2 then 1 else 0)) with (y - (if m <=? 2 then 1 else 0) + k * 400) by ring.
  rewrite Z.div_add by lia. rewrite Z.mod_add by lia. cbv zeta. ring.
Qed.

Fixpoint zrange (n : nat) (start : Z) : list Z :=
  match n with O => [] | S k => start :: zrange k (start + 1) end.

Lemma in_zrange n : forall s x, s <= x < s + Z.of_nat n -> In x (zrange n s).
Proof.
  induction n as [|n IH]; intros s x H; [lia|]. cbn [zrange].
  destruct (Z.eq_dec x s) as [->|Hne]; [left; reflexivity | right; apply IH; lia].
Qed.

Definition era_days : list Z := zrange (Z.to_nat 146097) 0.

Definition era_ok (doe : Z) : bool :=
  let z := doe - 719468 in let '(y, m, d) := civil_of_days z in
  (days_of_civil y m d =? z) && (1 <=? m) && (m <=? 12) && (1 <=? d) && (d <=? 31).

Lemma era_checked : forallb era_ok era_days = true.
Proof. vm_cast_no_check (eq_refl true). Qed.

Lemma in_era x : 0 <= x < 146097 -> In x era_days.
Proof. intros H. unfold era_days. apply in_zrange. lia. Qed.

Lemma era_all x : 0 <= x < 146097 -> era_ok x = true.
Proof. intros H. pose proof era_checked as C. rewrite forallb_forall in C. exact (C x (in_era x H)). Qed.

Strategy opaque [civil_of_days days_of_civil].

(* every day number maps to a date that maps back to it (all of Z: one 400-year era checked by computation,
   the rest by periodicity) *)
Theorem days_civil_days z :
  let '(y, m, d) := civil_of_days z in days_of_civil y m d = z /\ 1 <= m <= 12 /\ 1 <= d <= 31.
Proof.
  pose proof (Z.div_mod (z + 719468) 146097 ltac:(lia)) as E.
  pose proof (Z.mod_pos_bound (z + 719468) 146097 ltac:(lia)) as B.
  set (e := (z + 719468) / 146097) in *. set (doe := (z + 719468) mod 146097) in *. clearbody e doe.
  assert (z = (doe - 719468) + 146097 * e) as -> by lia.
  destruct (civil_of_days (doe - 719468)) as [[y m] d] eqn:Ec.
  assert (civil_of_days (doe - 719468 + 146097 * e) = (y + 400 * e, m, d)) as ->
    by (rewrite civil_shift, Ec; reflexivity).
  pose proof (era_all doe B) as C. unfold era_ok in C. rewrite Ec in C.
  rewrite days_shift. lia.
Qed.

Lemma secs_fields_secs t : secs_of_fields (fields_of_secs t) = t.
Proof.
  unfold fields_of_secs, secs_of_fields.
  pose proof (days_civil_days (t / 86400)) as H.
  destruct (civil_of_days (t / 86400)) as [[y m] d]. simpl. destruct H as [-> _].
  set (sod := t mod 86400). 
  assert (t = t / 86400 * 86400 + sod) as E by (unfold sod; pose proof (Z.div_mod t 86400 ltac:(lia)); lia).
  assert (sod / 3600 * 3600 + sod mod 3600 / 60 * 60 + sod mod 60 = sod) as E2.
  { clearbody sod. clear E.
    pose proof (Z.div_mod sod 3600 ltac:(lia)). pose proof (Z.div_mod (sod mod 3600) 60 ltac:(lia)).
    assert (sod mod 60 = (sod mod 3600) mod 60) as ->.
    { replace 3600 with (60 * 60) by reflexivity. rewrite Z.rem_mul_r by lia.
      rewrite (Z.mul_comm 60), Z.mod_add by lia. rewrite Z.mod_mod by lia. reflexivity. }
    lia. }
  lia.
Qed.

(* ---- zones ---- *)
Fixpoint sorted (z : zone) : Prop :=
  match z with
  | (st, _, _) :: (((st', _, _) :: _) as t) => st < st' /\ sorted t
  | _ => True
  end.

Definition covers (z : zone) (u : Z) : Prop := match z with (st, _, _) :: _ => st <= u | [] => False end.

Lemma own_candidate z : forall u cur, sorted z -> covers z u ->
  In (u, snd (period_of z u cur)) (candidates z (u + fst (period_of z u cur))).
Proof.
  induction z as [|[[st off] dst] t IH]; intros u cur Hs Hc; [destruct Hc|].
  simpl in Hc. cbn [period_of]. assert (st <=? u = true) as -> by lia.
  destruct t as [|[[st' off'] dst'] t'].
  - simpl. replace (u + off - off) with u by ring. assert (st <=? u = true) as -> by lia. simpl. auto.
  - destruct Hs as [Hlt Hs]. cbn [candidates]. apply in_or_app.
    destruct (Z_le_dec st' u) as [L|L].
    + right. apply IH; [exact Hs | exact L].
    + left. cbn [period_of]. assert (st' <=? u = false) as -> by lia. simpl.
      replace (u + off - off) with u by ring.
      assert (st <=? u = true) as -> by lia. assert (u <? st' = true) as -> by lia. simpl. auto.
Qed.

(* a wall-clock reading produced from instant u is never localised to a different instant: with no designation it
   is u or a refusal; with the period's own dst flag it is u or a refusal *)
Theorem localize_never_shifts z u flag u' :
  sorted z -> covers z u ->
  let pr := period_of z u (0, false) in
  (flag = None \/ flag = Some (snd pr)) ->
  localize z (u + fst pr) flag = Some u' -> u' = u.
Proof.
  intros Hs Hc pr Hf. pose proof (own_candidate z u (0, false) Hs Hc) as Hin. fold pr in Hin.
  unfold localize. destruct (candidates z (u + fst pr)) as [|[u1 d1] [|c2 l]] eqn:El.
  - discriminate.
  - intros H; inversion H; subst. destruct Hin as [E|[]]. inversion E; reflexivity.
  - destruct Hf as [-> | ->]; [discriminate|].
    set (ff := fun c : Z * bool => Bool.eqb (snd c) (snd pr)).
    assert (In (u, snd pr) (filter ff ((u1, d1) :: c2 :: l))) as Hf.
    { apply filter_In. split; [exact Hin | unfold ff; simpl; apply eqb_reflx]. }
    destruct (filter ff ((u1, d1) :: c2 :: l)) as [|[u2 d2] [|c3 l3]]; try discriminate.
    intros H; inversion H; subst. destruct Hf as [E|[]]. inversion E; reflexivity.
Qed.

(* an unambiguous reading is accepted *)
Theorem localize_unique z u flag :
  sorted z -> covers z u ->
  let pr := period_of z u (0, false) in
  (exists c, candidates z (u + fst pr) = [c]) -> localize z (u + fst pr) flag = Some u.
Proof.
  intros Hs Hc pr [c E]. pose proof (own_candidate z u (0, false) Hs Hc) as Hin. fold pr in Hin.
  unfold localize. rewrite E in *. destruct Hin as [->|[]]. reflexivity.
Qed.

(* an overlap of a DST and a non-DST period is resolved by the designation *)
Theorem localize_designated z u c1 c2 :
  sorted z -> covers z u ->
  let pr := period_of z u (0, false) in
  candidates z (u + fst pr) = [c1; c2] -> snd c1 <> snd c2 ->
  localize z (u + fst pr) (Some (snd pr)) = Some u /\ localize z (u + fst pr) None = None.
Proof.
  intros Hs Hc pr E Hd. pose proof (own_candidate z u (0, false) Hs Hc) as Hin. fold pr in Hin.
  unfold localize. rewrite E in *. destruct c1 as [u1 d1], c2 as [u2 d2]. simpl in Hd.
  split; [|reflexivity].
  destruct Hin as [H|[H|[]]]; inversion H; subst; simpl.
  - rewrite eqb_reflx. destruct (Bool.eqb d2 (snd pr)) eqn:X; [apply eqb_prop in X; congruence | reflexivity].
  - rewrite eqb_reflx. destruct (Bool.eqb d1 (snd pr)) eqn:X; [apply eqb_prop in X; congruence | reflexivity].
Qed.

(* ---- render / parse round trip ---- *)
Theorem render_parse z p n D f frac dst flag q :
  sorted z -> 0 <= p ->
  covers z (units p n D / 10 ^ p) ->
  render p n D z = (f, frac, dst) ->
  (flag = None \/ flag = Some dst) ->
  parse p f frac z flag = Some q -> q = units p n D.
Proof.
  intros Hs Hp Hc Hr Hf. unfold render in Hr. set (qq := units p n D) in *.
  destruct (period_of z (qq / 10 ^ p) (0, false)) as [off d0] eqn:Ep.
  inversion Hr; subst f frac dst. clear Hr.
  unfold parse. rewrite secs_fields_secs.
  destruct (localize z (qq / 10 ^ p + off) flag) as [u|] eqn:El; [|discriminate].
  intros H; inversion H; subst q.
  assert (u = qq / 10 ^ p) as ->.
  { pose proof (localize_never_shifts z (qq / 10 ^ p) flag u Hs Hc) as L. cbv zeta in L. rewrite Ep in L. simpl in L.
    apply L; auto. }
  assert (0 < 10 ^ p) by (apply Z.pow_pos_nonneg; lia).
  pose proof (Z.div_mod qq (10 ^ p) ltac:(lia)). lia.
Qed.

(* ---- durations ---- *)
Lemma value_of_app l d : value_of (l ++ [d]) = value_of l * 10 + d.
Proof. unfold value_of. rewrite fold_left_app. reflexivity. Qed.

Lemma value_digits k : forall v, 0 <= v -> value_of (digits_of k v) = v mod 10 ^ Z.of_nat k.
Proof.
  induction k as [|k IH]; intros v Hv.
  - simpl. rewrite Z.mod_1_r. reflexivity.
  - cbn [digits_of]. rewrite value_of_app, IH by (apply Z.div_pos; lia).
    rewrite Nat2Z.inj_succ, Z.pow_succ_r by lia.
    rewrite (Z.rem_mul_r v 10 (10 ^ Z.of_nat k)) by (try lia; apply Z.pow_nonzero; lia). ring.
Qed.

Lemma digits_length k : forall v, length (digits_of k v) = k.
Proof. induction k as [|k IH]; intros v; simpl; [reflexivity|]. rewrite app_length, IH. simpl. lia. Qed.

Lemma pad_rstrip l : pad_right (length l) (rstrip l) = l.
Proof.
  induction l as [|x t IH]; [reflexivity|]. cbn [rstrip length].
  destruct ((x =? 0) && is_nil (rstrip t)) eqn:E.
  - apply andb_true_iff in E as [Ex En]. apply Z.eqb_eq in Ex. subst x.
    destruct (rstrip t) eqn:Er; [|discriminate]. simpl. f_equal. exact IH.
  - simpl. f_equal. exact IH.
Qed.

Lemma frac_roundtrip us : 0 <= us < 1000000 -> value_of (pad_right 6 (rstrip (digits_of 6 us))) = us.
Proof.
  intros H. replace 6%nat with (length (digits_of 6 us)) at 1 by apply digits_length.
  rewrite pad_rstrip, value_digits by lia. apply Z.mod_small. simpl. lia.
Qed.

Theorem duration_roundtrip secs us :
  0 <= secs -> 0 <= us < 1000000 -> dur_parse (dur_format secs us) = (secs, us).
Proof.
  intros Hs Hu. unfold dur_parse, dur_format. cbv zeta. cbn [t_y t_w t_d t_h t_m t_sub].
  set (s := secs mod YR mod WK mod DY mod HR mod MN).
  assert (s + MN * (secs mod YR mod WK mod DY mod HR / MN) + HR * (secs mod YR mod WK mod DY / HR) +
          DY * (secs mod YR mod WK / DY) + WK * (secs mod YR / WK) + YR * (secs / YR) = secs) as Hsecs.
  { unfold s, YR, WK, DY, HR, MN.
    pose proof (Z.div_mod secs 31557600 ltac:(lia)).
    pose proof (Z.div_mod (secs mod 31557600) 604800 ltac:(lia)).
    pose proof (Z.div_mod (secs mod 31557600 mod 604800) 86400 ltac:(lia)).
    pose proof (Z.div_mod (secs mod 31557600 mod 604800 mod 86400) 3600 ltac:(lia)).
    pose proof (Z.div_mod (secs mod 31557600 mod 604800 mod 86400 mod 3600) 60 ltac:(lia)). lia. }
  assert (0 <= s) as Hs0 by (unfold s, MN; apply Z.mod_pos_bound; lia).
  pose proof (Z.div_mod us 1000 ltac:(lia)) as Eu. pose proof (Z.mod_pos_bound us 1000 ltac:(lia)) as Bu.
  revert Hsecs. generalize (secs mod YR mod WK mod DY mod HR / MN) (secs mod YR mod WK mod DY / HR)
    (secs mod YR mod WK / DY) (secs mod YR / WK) (secs / YR). intros a1 a2 a3 a4 a5 Hsecs. clearbody s.
  destruct ((0 <? us / 1000) && ((0 <? s) || (0 <? us mod 1000))) eqn:C1.
  - cbv beta iota. f_equal; [exact Hsecs | apply frac_roundtrip; exact Hu].
  - destruct ((0 <? us) || (0 <? s)) eqn:C2.
    + destruct (0 <? s) eqn:X; destruct (0 <? us mod 1000) eqn:X1; destruct (0 <? us / 1000) eqn:X2;
        cbv beta iota delta [opt0]; f_equal; lia.
    + cbv beta iota delta [opt0]. f_equal; lia.
Qed.
