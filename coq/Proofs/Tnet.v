(* Proofs about Model/Tnet.v (property C20). *)
From Coq Require Import ZArith List Bool Lia ZifyBool Arith.
From CV Require Import Base.ListX Model.Tnet.
Import ListNotations.
Open Scope Z_scope.

(* ---- decimal text ----------------------------------------------------------------------------------- *)

Definition digits (ds : list Z) : Prop := Forall (fun c => is_digit c = true) ds.

Lemma undec_go_app ds : digits ds -> forall t a,
  undec_go (ds ++ t) a = undec_go t (fold_left (fun x c => x * 10 + (c - 48)) ds a).
Proof.
  induction 1 as [|c ds Hc Hds IH]; intros t a; simpl; [reflexivity|]. rewrite Hc. apply IH.
Qed.

(* dec_go produces the digits of n in front of acc *)
Lemma dec_go_spec f : forall n acc, 0 <= n < 10 ^ Z.of_nat (S f) ->
  exists ds, dec_go (S f) n acc = ds ++ acc /\ digits ds /\ ds <> [] /\
             forall a, fold_left (fun x c => x * 10 + (c - 48)) ds a = a * 10 ^ Z.of_nat (length ds) + n.
Proof.
  induction f as [|f IH]; intros n acc Hn; cbn [dec_go];
    assert (0 <= n mod 10 < 10) as Hm by (apply Z.mod_pos_bound; lia).
  - change (10 ^ Z.of_nat 1) with 10 in Hn. destruct (n <? 10) eqn:E; [|lia].
    exists [48 + n mod 10]. repeat split.
    + constructor; [unfold is_digit; lia | constructor].
    + discriminate.
    + intros a. cbn [fold_left length]. change (Z.of_nat 1) with 1. rewrite Z.pow_1_r, Z.mod_small by lia. lia.
  - destruct (n <? 10) eqn:E.
    + exists [48 + n mod 10]. repeat split.
      * constructor; [unfold is_digit; lia | constructor].
      * discriminate.
      * intros a. cbn [fold_left length]. change (Z.of_nat 1) with 1. rewrite Z.pow_1_r, Z.mod_small by lia. lia.
    + rewrite Nat2Z.inj_succ, Z.pow_succ_r in Hn by lia.
      destruct (IH (n / 10) ((48 + n mod 10) :: acc)) as (ds & E1 & Hd & Hne & Hf).
      { split; [apply Z.div_pos; lia | apply Z.div_lt_upper_bound; lia]. }
      exists (ds ++ [48 + n mod 10]). repeat split.
      * cbn [dec_go] in E1. rewrite E1, <- app_assoc. reflexivity.
      * apply Forall_app; split; [exact Hd | constructor; [unfold is_digit; lia | constructor]].
      * destruct ds; discriminate.
      * intros a. rewrite fold_left_app, Hf. cbn [fold_left]. rewrite app_length. cbn [length].
        rewrite Nat2Z.inj_add. change (Z.of_nat 1) with 1. rewrite Z.pow_add_r by lia. rewrite Z.pow_1_r.
        pose proof (Z.div_mod n 10 ltac:(lia)). lia.
Qed.

Lemma dec_spec n : 0 <= n ->
  digits (dec n) /\ dec n <> [] /\ undec (dec n) = Some n.
Proof.
  intros Hn. unfold dec.
  assert (0 <= n < 10 ^ Z.of_nat (S (Z.to_nat (Z.log2 n)))) as Hb.
  { split; [lia|]. destruct (Z.eq_dec n 0) as [->|Hnz]; [simpl; lia|].
    pose proof (Z.log2_spec n ltac:(lia)) as [_ Hl]. pose proof (Z.log2_nonneg n).
    rewrite Nat2Z.inj_succ, Z2Nat.id by lia.
    eapply Z.lt_le_trans; [exact Hl|]. apply Z.pow_le_mono_l. lia. }
  destruct (dec_go_spec _ n [] Hb) as (ds & E & Hd & Hne & Hf). rewrite E, app_nil_r.
  split; [exact Hd|]. split; [exact Hne|].
  unfold undec. destruct ds as [|c t]; [congruence|].
  pose proof (undec_go_app (c :: t) Hd [] 0) as Hu. rewrite app_nil_r in Hu. rewrite Hu, Hf.
  cbn [undec_go]. f_equal; try lia.
Qed.

Lemma digit_not_colon c : is_digit c = true -> (c =? c_colon) = false.
Proof. unfold is_digit, c_colon. lia. Qed.

Lemma split_colon_digits ds rest : digits ds -> split_colon (ds ++ c_colon :: rest) = Some (ds, rest).
Proof.
  induction 1 as [|c ds Hc Hds IH]; simpl.
  - reflexivity.
  - rewrite (digit_not_colon c Hc), IH. reflexivity.
Qed.

Lemma print_parse_int z : parse_int (print_int z) = Some z.
Proof.
  unfold print_int. destruct (z <? 0) eqn:E.
  - cbn [parse_int]. rewrite Z.eqb_refl. destruct (dec_spec (- z)) as (_ & _ & H); [lia|]. rewrite H. f_equal. lia.
  - destruct (dec_spec z) as (Hd & Hne & H); [lia|]. unfold parse_int.
    destruct (dec z) as [|c t] eqn:Ed; [congruence|].
    inversion Hd; subst. assert ((c =? c_minus) = false) as -> by (unfold is_digit, c_minus in *; lia).
    exact H.
Qed.

(* ---- framing ---------------------------------------------------------------------------------------- *)

Lemma parse_payload_frame p tag tl : parse_payload (frame p tag ++ tl) = Some (p, tag, tl).
Proof.
  unfold frame, parse_payload.
  destruct (dec_spec (Z.of_nat (length p))) as (Hd & Hne & Hu); [lia|].
  rewrite <- app_assoc. cbn [app]. rewrite split_colon_digits by exact Hd. rewrite Hu.
  rewrite Nat2Z.id. rewrite <- app_assoc. rewrite firstn_app, firstn_all, Nat.sub_diag. cbn [firstn].
  rewrite app_nil_r. rewrite skipn_app, skipn_all, Nat.sub_diag. cbn [skipn app].
  rewrite Z.eqb_refl. reflexivity.
Qed.

Lemma frame_nonempty p tag : frame p tag <> [].
Proof. unfold frame. destruct (dec _); discriminate. Qed.

Lemma dump_nonempty v : dump v <> [].
Proof. destruct v; simpl; apply frame_nonempty. Qed.

(* ---- round trip ------------------------------------------------------------------------------------- *)

Fixpoint weight (v : tval) : nat :=
  match v with
  | TList l => S (fold_right (fun e a => S (weight e) + a)%nat O l)
  | TDict kv => S (fold_right (fun e a => S (S (weight (snd e))) + a)%nat O kv)
  | _ => 1%nat
  end.

Section TvalInd.
  Variable P : tval -> Prop.
  Hypothesis Hint : forall z, P (TInt z).
  Hypothesis Hfloat : forall r, P (TFloat r).
  Hypothesis Hbool : forall b, P (TBool b).
  Hypothesis Hnull : P TNull.
  Hypothesis Hbytes : forall b, P (TBytes b).
  Hypothesis Htext : forall u, P (TText u).
  Hypothesis Hlist : forall l, Forall P l -> P (TList l).
  Hypothesis Hdict : forall kv, Forall (fun e => P (snd e)) kv -> P (TDict kv).

  Fixpoint tval_ind2 (v : tval) : P v :=
    match v with
    | TInt z => Hint z
    | TFloat r => Hfloat r
    | TBool b => Hbool b
    | TNull => Hnull
    | TBytes b => Hbytes b
    | TText u => Htext u
    | TList l => Hlist l ((fix go (l : list tval) : Forall P l :=
                             match l with [] => Forall_nil _ | x :: t => Forall_cons x (tval_ind2 x) (go t) end) l)
    | TDict kv => Hdict kv ((fix go (l : list (list Z * tval)) : Forall (fun e => P (snd e)) l :=
                               match l with [] => Forall_nil _ | x :: t => Forall_cons x (tval_ind2 (snd x)) (go t) end) kv)
    end.
End TvalInd.

Lemma tags_distinct :
  (c_rbrace =? c_hash) = false /\ (c_rbrack =? c_hash) = false /\ (c_rbrack =? c_rbrace) = false.
Proof. repeat split; reflexivity. Qed.

Lemma list_eqb_true_false : list_eqb s_true s_true = true /\ list_eqb s_false s_true = false.
Proof. split; reflexivity. Qed.

Lemma items_list_ok (P : parser) l : forall g,
  (length l <= g)%nat ->
  Forall (fun e => forall tl, P (dump e ++ tl) = Some (e, tl)) l ->
  items_list P g (flat_map dump l) = Some l.
Proof.
  induction l as [|e t IH]; intros g Hg Hall; [destruct g; reflexivity|].
  inversion Hall as [|? ? He Ht]; subst. simpl in Hg. destruct g as [|g]; [lia|].
  cbn [flat_map]. cbn [items_list].
  destruct (dump e ++ flat_map dump t) as [|c r] eqn:E.
  { exfalso. apply app_eq_nil in E as [E _]. exact (dump_nonempty e E). }
  rewrite <- E, He, IH; auto. lia.
Qed.

Lemma items_dict_ok (P : parser) kv : forall g,
  (length kv <= g)%nat ->
  (forall k tl, P (frame k c_comma ++ tl) = Some (TBytes k, tl)) ->
  Forall (fun e => forall tl, P (dump (snd e) ++ tl) = Some (snd e, tl)) kv ->
  items_dict P g (flat_map (fun e => frame (fst e) c_comma ++ dump (snd e)) kv) = Some kv.
Proof.
  induction kv as [|[k v] t IH]; intros g Hg Hk Hall; [destruct g; reflexivity|].
  inversion Hall as [|? ? He Ht]; subst. simpl in Hg, He. destruct g as [|g]; [lia|].
  cbn [flat_map fst snd]. cbn [items_dict].
  rewrite <- !app_assoc.
  destruct (frame k c_comma ++ dump v ++ _) as [|c r] eqn:E.
  { exfalso. apply app_eq_nil in E as [E _]. exact (frame_nonempty _ _ E). }
  rewrite <- E, Hk.
  destruct (dump v ++ _) as [|c2 r2] eqn:E2.
  { exfalso. apply app_eq_nil in E2 as [E2 _]. exact (dump_nonempty v E2). }
  rewrite <- E2, He, IH; auto. lia.
Qed.

Lemma fold_weight_ge l e : In e l -> (weight e < fold_right (fun e a => S (weight e) + a) O l)%nat.
Proof. induction l as [|x t IH]; cbn [fold_right In]; [tauto|]. intros [->|H]; [lia | specialize (IH H); lia]. Qed.

Lemma fold_weight_len l : (length l <= fold_right (fun e a => S (weight e) + a) O l)%nat.
Proof. induction l; cbn [fold_right length]; lia. Qed.

Lemma fold_weightd_ge (kv : list (list Z * tval)) e : In e kv ->
  (S (weight (snd e)) < fold_right (fun e a => S (S (weight (snd e))) + a) O kv)%nat.
Proof. induction kv as [|x t IH]; cbn [fold_right In]; [tauto|]. intros [->|H]; [lia | specialize (IH H); lia]. Qed.

Lemma fold_weightd_len (kv : list (list Z * tval)) :
  (length kv <= fold_right (fun e a => S (S (weight (snd e))) + a) O kv)%nat.
Proof. induction kv; cbn [fold_right length]; lia. Qed.

Theorem parse_dump v : forall tl f, (weight v <= f)%nat -> parse f (dump v ++ tl) = Some (v, tl).
Proof.
  induction v as [z|r|b| |bs|u|l IH|kv IH] using tval_ind2; intros tl f Hf;
    (destruct f as [|f]; [simpl in Hf; lia|]); cbn [dump parse]; rewrite parse_payload_frame.
  - rewrite Z.eqb_refl, print_parse_int. reflexivity.
  - reflexivity.
  - destruct b; reflexivity.
  - reflexivity.
  - reflexivity.
  - reflexivity.
  - change (c_rbrack =? c_hash) with false. change (c_rbrack =? c_rbrace) with false. rewrite Z.eqb_refl.
    cbn [weight] in Hf. rewrite items_list_ok; [reflexivity | pose proof (fold_weight_len l); lia |].
    rewrite Forall_forall in *. intros e He tl'. apply IH; auto. pose proof (fold_weight_ge l e He). lia.
  - change (c_rbrace =? c_hash) with false. rewrite Z.eqb_refl.
    cbn [weight] in Hf. destruct kv as [|e0 kv'].
    { destruct f; reflexivity. }
    set (kv := e0 :: kv') in *.
    assert (2 <= fold_right (fun e a => S (S (weight (snd e))) + a) O kv)%nat as H2 by (subst kv; simpl; lia).
    rewrite items_dict_ok; [reflexivity | pose proof (fold_weightd_len kv); lia | |].
    + intros k tl'. destruct f as [|f']; [lia|]. cbn [parse]. rewrite parse_payload_frame. reflexivity.
    + rewrite Forall_forall in *. intros e He tl'. apply IH; auto. pose proof (fold_weightd_ge kv e He). lia.
Qed.

(* the whole string is consumed and the value recovered: parse( dump( v )) == (v, b'') *)
Corollary parse_dump_all v : parse (weight v) (dump v) = Some (v, []).
Proof. rewrite <- (app_nil_r (dump v)) at 1. apply parse_dump. lia. Qed.

(* ---- the streaming machine -------------------------------------------------------------------------- *)

Lemma srun_app s a : forall b,
  srun s (a ++ b) = match srun s a with (s', []) => srun s' b | (s', r) => (s', r ++ b) end.
Proof.
  revert s; induction a as [|c t IH]; intros s b.
  - simpl. destruct s; simpl; try reflexivity; destruct b; reflexivity.
  - destruct s; cbn [srun app]; try apply IH; reflexivity.
Qed.

Lemma srun_chunks_concat chunks : forall s, srun_chunks s chunks = srun s (concat chunks).
Proof.
  induction chunks as [|c t IH]; intros s; simpl.
  - destruct s; reflexivity.
  - rewrite srun_app. destruct (srun s c) as [s' [|x r]]; [apply IH | reflexivity].
Qed.

Lemma srun_digits ds : digits ds -> forall acc rest,
  srun (SSize acc) (ds ++ rest) = srun (SSize (rev ds ++ acc)) rest.
Proof.
  induction 1 as [|c ds Hc Hds IH]; intros acc rest; [reflexivity|].
  cbn [app srun sstep]. rewrite Hc. rewrite IH. cbn [rev]. rewrite <- (app_assoc (rev ds) [c] acc). reflexivity.
Qed.

Lemma srun_data p : forall need got rest, p <> [] -> need = Z.of_nat (length p) ->
  srun (SData need got) (p ++ rest) = srun (SType (rev got ++ p)) rest.
Proof.
  induction p as [|c t IH]; intros need got rest Hne Hn; [congruence|].
  cbn [app srun sstep]. destruct t as [|c2 t'].
  - simpl in Hn. subst need. cbn [Z.eqb Pos.eqb]. cbn [rev]. reflexivity.
  - destruct (need =? 1) eqn:E; [simpl length in Hn; lia|].
    rewrite IH; [|discriminate | simpl length in *; lia].
    cbn [rev]. rewrite <- app_assoc. reflexivity.
Qed.

Theorem stream_frame p tag tl : mem tag stream_types = true ->
  srun (SSize []) (frame p tag ++ tl) = (SDone p tag, tl).
Proof.
  intros Ht. unfold frame.
  destruct (dec_spec (Z.of_nat (length p))) as (Hd & Hne & Hu); [lia|].
  rewrite <- app_assoc. rewrite srun_digits by exact Hd. rewrite app_nil_r.
  cbn [app srun sstep]. change (is_digit c_colon) with false. cbn iota. rewrite Z.eqb_refl.
  rewrite rev_involutive, Hu. unfold after_colon.
  destruct p as [|c t].
  - cbn [length Z.of_nat Z.eqb app srun sstep]. rewrite Ht. destruct tl; reflexivity.
  - destruct (Z.of_nat (length (c :: t)) =? 0) eqn:E; [simpl length in E; lia|].
    rewrite <- app_assoc. rewrite srun_data; [|discriminate | reflexivity].
    cbn [rev app srun sstep]. rewrite Ht. destruct tl; reflexivity.
Qed.

Definition tag_of (v : tval) : Z :=
  match v with
  | TInt _ => c_hash | TFloat _ => c_caret | TBool _ => c_bang | TNull => c_tilde | TBytes _ => c_comma
  | TText _ => c_dollar | TList _ => c_rbrack | TDict _ => c_rbrace
  end.

Definition payload_of (v : tval) : list Z :=
  match v with
  | TInt z => print_int z | TFloat r => r | TBool b => if b then s_true else s_false | TNull => []
  | TBytes bs => bs | TText u => u | TList l => flat_map dump l
  | TDict kv => flat_map (fun e => frame (fst e) c_comma ++ dump (snd e)) kv
  end.

Lemma dump_frame v : dump v = frame (payload_of v) (tag_of v).
Proof. destruct v; reflexivity. Qed.

(* for every value, in any chunking, followed by anything: the machine stops exactly at the end of the
   message holding the message's payload and type; for the supported types the conversion is the value *)
Theorem stream_dump v chunks tl : concat chunks = dump v ++ tl ->
  srun_chunks (SSize []) chunks = (SDone (payload_of v) (tag_of v), tl).
Proof.
  intros H. rewrite srun_chunks_concat, H, dump_frame. apply stream_frame. destruct v; reflexivity.
Qed.

Definition supported (v : tval) : bool :=
  match v with TInt _ | TNull | TBytes _ | TText _ => true | _ => false end.

Theorem stream_convert v : supported v = true -> sconvert (payload_of v) (tag_of v) = Some v.
Proof.
  destruct v; try discriminate; intros _; unfold sconvert, payload_of, tag_of.
  - rewrite print_parse_int. reflexivity.
  - reflexivity.
  - reflexivity.
  - reflexivity.
Qed.

(* ---- tnet_from -------------------------------------------------------------------------------------- *)

Lemma lrun_concat ign chunks : lrun ign chunks = fold_left (lstep ign) (concat chunks) (SSize [], []).
Proof.
  unfold lrun. generalize (SSize [], @nil (list Z * Z)) as st.
  induction chunks as [|c t IH]; intros st; simpl; [reflexivity|]. rewrite fold_left_app. apply IH.
Qed.

Lemma sstep_not_start s c : sstep s c <> SSize [].
Proof.
  destruct s as [ds|need got|p|p ty|]; cbn [sstep]; try discriminate.
  - destruct (is_digit c); [discriminate|]. destruct (c =? c_colon); [|discriminate].
    destruct (undec (rev ds)); [|discriminate]. unfold after_colon. destruct (_ =? 0); discriminate.
  - destruct (need =? 1); discriminate.
  - destruct (mem c stream_types); discriminate.
Qed.

Lemma lfold_srun ign bs : forall s outs p ty rest,
  s <> SSize [] -> (forall p' t', s <> SDone p' t') -> s <> SFail ->
  srun s bs = (SDone p ty, rest) ->
  fold_left (lstep ign) bs (s, outs) = fold_left (lstep ign) rest (SSize [], outs ++ [(p, ty)]).
Proof.
  induction bs as [|c t IH]; intros s outs p ty rest Hs Hd Hf Hr.
  - destruct s; simpl in Hr; inversion Hr; subst; try congruence; exfalso; eapply Hd; reflexivity.
  - assert (srun s (c :: t) = srun (sstep s c) t) as E.
    { destruct s; try reflexivity; [exfalso; eapply Hd; eauto | congruence]. }
    rewrite E in Hr. cbn [fold_left].
    assert (lstep ign (s, outs) c = lnext (sstep s c) outs) as ->.
    { unfold lstep. destruct s as [[|d ds]| | | |]; try reflexivity; congruence. }
    destruct (sstep s c) as [ds|need got|pp|pp tt|] eqn:Es.
    + unfold lnext. apply IH; auto; try discriminate. rewrite <- Es. apply sstep_not_start.
    + unfold lnext. apply IH; auto; discriminate.
    + unfold lnext. apply IH; auto; discriminate.
    + destruct t; simpl in Hr; inversion Hr; subst; reflexivity.
    + destruct t; simpl in Hr; discriminate.
Qed.

Definition no_digits (ign : list Z) : Prop := forall c, is_digit c = true -> mem c ign = false.

Lemma lfold_skip ign sep st : Forall (fun c => mem c ign = true) sep -> fst st = SSize [] ->
  fold_left (lstep ign) sep st = st.
Proof.
  induction 1 as [|c t Hc Ht IH]; intros Hs; [reflexivity|]. destruct st as [s outs]. simpl in Hs. subst s.
  cbn [fold_left lstep]. rewrite Hc. apply IH. reflexivity.
Qed.

Lemma frame_head p tag : exists c t, frame p tag = c :: t /\ is_digit c = true.
Proof.
  unfold frame. destruct (dec_spec (Z.of_nat (length p))) as (Hd & Hne & _); [lia|].
  destruct (dec _) as [|c t]; [congruence|]. inversion Hd; subst. exists c, (t ++ c_colon :: p ++ [tag]). auto.
Qed.

(* a stream of dumped values, each preceded by ignorable separators, any chunking: the loop yields exactly
   the payload and type of every message, in order, and is back between messages at the end *)
Theorem from_messages ign : no_digits ign -> forall items outs trailing,
  Forall (fun it => Forall (fun c => mem c ign = true) (fst it)) items ->
  Forall (fun c => mem c ign = true) trailing ->
  fold_left (lstep ign) (flat_map (fun it => fst it ++ dump (snd it)) items ++ trailing) (SSize [], outs) =
  (SSize [], outs ++ map (fun it => (payload_of (snd it), tag_of (snd it))) items).
Proof.
  intros Hnd items. induction items as [|[sep v] t IH]; intros outs trailing Hi Ht.
  - simpl. rewrite app_nil_r. apply lfold_skip; auto.
  - inversion Hi as [|? ? Hsep Hi']; subst. cbn [flat_map fst snd map].
    simpl in Hsep. rewrite <- !app_assoc, fold_left_app. rewrite (lfold_skip ign sep); [|exact Hsep|reflexivity].
    rewrite dump_frame. destruct (frame_head (payload_of v) (tag_of v)) as (c & rest & Ef & Hc).
    pose proof (stream_frame (payload_of v) (tag_of v) (flat_map (fun it => fst it ++ dump (snd it)) t ++ trailing)
                             ltac:(destruct v; reflexivity)) as Hs.
    rewrite Ef in *. cbn [app fold_left]. cbn [app srun sstep] in Hs. rewrite Hc in Hs.
    unfold lstep at 2. rewrite (Hnd c Hc). cbn [sstep]. rewrite Hc. cbn [lnext].
    rewrite (lfold_srun ign _ (SSize [c]) outs _ _ _ ltac:(discriminate) ltac:(discriminate) ltac:(discriminate) Hs).
    rewrite IH by auto. rewrite <- app_assoc. reflexivity.
Qed.

(* ---- the encoding is self-delimiting: no value's bytes are a prefix of another's ---------- *)

Lemma dump_prefix_free v w t1 t2 : dump v ++ t1 = dump w ++ t2 -> v = w /\ t1 = t2.
Proof.
  intros H.
  pose proof (parse_dump v t1 (Nat.max (weight v) (weight w)) ltac:(lia)) as Hv.
  pose proof (parse_dump w t2 (Nat.max (weight v) (weight w)) ltac:(lia)) as Hw.
  rewrite H in Hv. rewrite Hv in Hw. injection Hw as -> ->. split; reflexivity.
Qed.

Lemma dump_injective v w : dump v = dump w -> v = w.
Proof.
  intros H. apply (dump_prefix_free v w [] []). rewrite H. reflexivity.
Qed.
