(* Proofs about Model/History.v (property C18). *)
From Coq Require Import ZArith List Bool Lia.
From CV Require Import Model.History.
Import ListNotations.
Open Scope Z_scope.

(* ---- file selection ---- *)
Definition sel_after (target : Z) (strict : bool) (f : file) : bool :=
  if strict then tgt (first_ts f) target else tge (first_ts f) target.
Definition sel_before (target : Z) (strict : bool) (f : file) : bool :=
  if strict then tlt (first_ts f) target else tle (first_ts f) target.

(* open( after=True ): the winner is the last file of the leading run (newest first) of files beginning at/after
   the target; no such file -> HistoryExhausted *)
Lemma select_after files : forall idx target strict best,
  select files idx target true strict best =
    match files with
    | [] => best
    | f :: t => if sel_after target strict f then select t (S idx) target true strict (Some idx) else best
    end.
Proof.
  intros. destruct files as [|f t]; [reflexivity|]. unfold sel_after. cbn [select].
  destruct strict; [destruct (tgt (first_ts f) target) | destruct (tge (first_ts f) target)]; reflexivity.
Qed.

Theorem select_after_spec files : forall idx target strict best r,
  select files idx target true strict best = r ->
  exists k, (k <= length files)%nat /\
    Forall (fun f => sel_after target strict f = true) (firstn k files) /\
    (match nth_error files k with Some f => sel_after target strict f = false | None => True end) /\
    r = (match k with O => best | S j => Some (idx + j)%nat end).
Proof.
  induction files as [|f t IH]; intros idx target strict best r H.
  - exists 0%nat. simpl in *. subst. repeat split; auto.
  - rewrite select_after in H. destruct (sel_after target strict f) eqn:E.
    + destruct (IH _ _ _ _ _ H) as (k & Hk & Hall & Hnext & Hr).
      exists (S k). simpl. repeat split; [lia | constructor; auto | exact Hnext |].
      destruct k; rewrite Hr; apply f_equal; lia.
    + exists 0%nat. simpl. subst. repeat split; auto. lia.
Qed.

(* open( after=False ), the initial open: the first file (newest first) beginning at/before the target, else the oldest *)
Theorem select_before_spec files : forall idx target strict best r,
  select files idx target false strict best = r ->
  (exists k f, nth_error files k = Some f /\ sel_before target strict f = true /\
               Forall (fun g => sel_before target strict g = false) (firstn k files) /\ r = Some (idx + k)%nat) \/
  (Forall (fun g => sel_before target strict g = false) files /\
   r = match files with [] => best | _ => Some (idx + length files - 1)%nat end).
Proof.
  induction files as [|f t IH]; intros idx target strict best r H.
  - right. simpl in *. subst. auto.
  - simpl in H. fold (sel_before target strict f) in H. destruct (sel_before target strict f) eqn:E.
    + left. exists 0%nat, f. simpl. repeat split; auto. subst. apply f_equal. lia.
    + destruct (IH _ _ _ _ _ H) as [(k & g & Hn & Hg & Hall & Hr) | (Hall & Hr)].
      * left. exists (S k), g. simpl. repeat split; auto. rewrite Hr. apply f_equal. lia.
      * right. split; [constructor; auto|]. rewrite Hr. destruct t; simpl; apply f_equal; lia.
Qed.

(* ---- universal invariants of the replay (every history, look-ahead, limit and schedule) ---- *)
Fixpoint chain (E : list event) : Prop :=
  match E with
  | a :: ((b :: _) as t) => tge (fst b) (fst a) = true /\ chain t
  | _ => True
  end.

Definition apply_events (A : list event) (m : list (Z * Z)) : list (Z * Z) :=
  fold_left (fun acc e => vupdate (snd e) acc) A m.

Definition from_history (files : list file) (e : event) : Prop :=
  exists f, In f files /\ In (Rec (fst e) (PRegs (snd e))) f.

Definition gen_ok (files : list file) (g : gen) : Prop :=
  match g with
  | GAt fi r rest _ => exists f pre, nth_error files fi = Some f /\ f = pre ++ r :: rest
  | _ => True
  end.

Record Inv (files : list file) (l : loader) (E : list event) : Prop := {
  inv_ts : match l_ts l with None => E = [] | Some t => exists E0 e, E = E0 ++ [e] /\ fst e = t end;
  inv_chain : chain E;
  inv_fut : exists A, E = A ++ l_future l /\ l_values l = apply_events A [];
  inv_src : Forall (from_history files) E;
  inv_gen : gen_ok files (l_gen l);
  inv_done : l_state l = COMPLETE -> l_future l = []
}.

Lemma inv_init files : Inv files init [].
Proof. constructor; simpl; auto. exists []. auto. Qed.

Lemma chain_snoc E e0 e : chain (E ++ [e0]) -> tge (fst e) (fst e0) = true -> chain ((E ++ [e0]) ++ [e]).
Proof.
  induction E as [|a t IH]; intros Hc Hge; simpl in *.
  - auto.
  - destruct t as [|b t']; simpl in *.
    + destruct Hc as [H1 _]. auto.
    + destruct Hc as [H1 H2]. split; [exact H1 | apply IH; assumption].
Qed.

(* absorbing due events moves them from the queue into the values, in order *)
Lemma absorb_spec now : forall fut unt vals fut' unt' vals',
  absorb now fut unt vals = (fut', unt', vals') ->
  exists A, fut = A ++ fut' /\ vals' = apply_events A vals /\ Forall (fun e => tle (fst e) now = true) A.
Proof.
  induction fut as [|[ts regs] t IH]; intros unt vals fut' unt' vals' H; simpl in H.
  - inversion H; subst. exists []. auto.
  - destruct (tle ts now) eqn:E.
    + destruct (IH _ _ _ _ _ H) as (A & E1 & E2 & E3). exists ((ts, regs) :: A). simpl. subst. auto.
    + inversion H; subst. exists []. auto.
Qed.

Lemma apply_events_app A B m : apply_events (A ++ B) m = apply_events B (apply_events A m).
Proof. unfold apply_events. apply fold_left_app. Qed.

(* a state change that touches neither the delivered timestamp, the queue, the values nor the generator *)
Lemma inv_same files l E st strict unt :
  Inv files l E -> (st = COMPLETE -> l_future l = []) ->
  Inv files (Loader st (l_gen l) (l_ts l) strict (l_future l) unt (l_values l)) E.
Proof. intros [H1 H2 H3 H4 H5 H6] Hd. constructor; simpl; auto. Qed.

Lemma inv_gen_change files l E g :
  Inv files l E -> gen_ok files g ->
  Inv files (Loader (l_state l) g (l_ts l) (l_strict l) (l_future l) (l_until l) (l_values l)) E.
Proof. intros [H1 H2 H3 H4 H5 H6] Hg. constructor; simpl; auto. Qed.

Definition item_ok (files : list file) (now look : Z) (it : item) : Prop :=
  match it with
  | IRec fi ts p => tgt ts (now + look) = false /\ exists f, In f files /\ In (Rec ts p) f
  | _ => True
  end.

Lemma gen_next_ok files now look g it g' :
  gen_ok files g -> gen_next files now look g = GYield it g' -> gen_ok files g' /\ item_ok files now look it.
Proof.
  assert (forall fi r rest pre f, nth_error files fi = Some f -> f = pre ++ r :: rest ->
            forall it g',
            (if tgt (r_ts r) (now + look) then GYield (IWait fi (r_ts r)) (GAt fi r rest false)
             else GYield (IRec fi (r_ts r) (r_pay r)) (GAt fi r rest true)) = GYield it g' ->
            gen_ok files g' /\ item_ok files now look it) as P.
  { intros fi r rest pre f Hn Hf it0 g0 H. destruct (tgt (r_ts r) (now + look)) eqn:E; inversion H; subst it0 g0.
    - split; [exists f, pre; auto | exact I].
    - split; [exists f, pre; auto|]. split; [exact E|]. exists f. split; [eapply nth_error_In; eauto|].
      subst f. apply in_or_app. right. left. destruct r; reflexivity. }
  intros Hg H. destruct g as [target after strict|fi r rest [|]| |]; simpl in H.
  - destruct (select files 0 _ after strict None) as [fi|]; [|discriminate].
    destruct (nth_error files fi) as [[|r rest]|] eqn:En; try discriminate.
    eapply (P fi r rest [] _ En); [reflexivity | exact H].
  - destruct rest as [|r' rest']; [discriminate|]. destruct Hg as (f & pre & Hn & Hf).
    eapply (P fi r' rest' (pre ++ [r]) f Hn); [rewrite <- app_assoc; exact Hf | exact H].
  - destruct Hg as (f & pre & Hn & Hf). eapply (P fi r rest pre f Hn Hf); exact H.
  - inversion H; subst. split; exact I.
  - discriminate.
Qed.

(* one item: the invariant is kept, new events are not early and come from the history *)
Lemma on_item_inv files now look limit nev l it l1 new fl E :
  Inv files l E -> item_ok files now look it ->
  on_item now limit nev l it = (l1, new, fl) ->
  Inv files l1 (E ++ new) /\ Forall (fun e => tgt (fst e) (now + look) = false) new /\ l_gen l1 = l_gen l.
Proof.
  intros HI Hit H. unfold on_item in H.
  assert (forall st strict unt fl0, (st = COMPLETE -> l_future l = []) ->
          (Loader st (l_gen l) (l_ts l) strict (l_future l) unt (l_values l), @nil event, fl0) = (l1, new, fl) ->
          Inv files l1 (E ++ new) /\ Forall (fun e => tgt (fst e) (now + look) = false) new /\ l_gen l1 = l_gen l) as Same.
  { intros st strict unt fl0 Hd Heq. inversion Heq; subst. rewrite app_nil_r. split; [apply inv_same; auto|]. split; [constructor | reflexivity]. }
  destruct it as [fi ts p|fi ts|ts].
  - (* a record *)
    destruct Hit as [Hnot Hsrc].
    set (strict1 := if l_strict l && negb (st_opening (l_state l)) && (match l_ts l with None => true | Some t => tgt ts t end)
                    then false else l_strict l) in *.
    set (st1 := match l_state l with INITIAL | SWITCHING | AWAITING => STREAMING | s => s end) in *.
    assert (st1 = COMPLETE -> l_future l = []) as Hst1.
    { intros Ec. apply (inv_done _ _ _ HI). unfold st1 in Ec. destruct (l_state l); try discriminate; reflexivity. }
    destruct p as [regs| | |].
    + (* register data *)
      assert ((let fresh := match l_ts l with None => true | Some t => tge ts t end in
               let ts1 := if fresh then Some ts else l_ts l in
               let fut1 := if fresh then l_future l ++ [(ts, regs)] else l_future l in
               let evs := if fresh then [(ts, regs)] else [] in
               let '(fut, unt, vals) := absorb now fut1 (l_until l) (l_values l) in
               let l' := Loader STREAMING (l_gen l) ts1 strict1 fut unt vals in
               match limit with
               | Some lim => if lim <=? nev + Z.of_nat (length evs) then (l', evs, FReturn) else (l', evs, FContinue)
               | None => (l', evs, FContinue)
               end) = (l1, new, fl)) as H'.
      { destruct (l_state l); exact H. }
      clear H. cbv zeta in H'.
      set (fresh := match l_ts l with None => true | Some t => tge ts t end) in *.
      destruct (absorb now (if fresh then l_future l ++ [(ts, regs)] else l_future l) (l_until l) (l_values l)) as [[fut unt] vals] eqn:Ea.
      assert (l1 = Loader STREAMING (l_gen l) (if fresh then Some ts else l_ts l) strict1 fut unt vals /\
              new = (if fresh then [(ts, regs)] else [])) as [-> ->].
      { destruct limit as [lim|]; [destruct (lim <=? _)|]; inversion H'; auto. }
      clear H'. destruct (absorb_spec _ _ _ _ _ _ _ Ea) as (A & EA & EV & _).
      destruct HI as [H1 H2 [A0 [H3a H3b]] H4 H5 H6].
      split; [|split; [|reflexivity]].
      * destruct fresh eqn:Ef.
        -- constructor; simpl.
           ++ exists E, (ts, regs). auto.
           ++ unfold fresh in Ef. destruct (l_ts l) as [t|].
              ** destruct H1 as (E0 & e0 & -> & He0). apply chain_snoc; [exact H2 | simpl; rewrite He0; exact Ef].
              ** subst E. simpl. exact I.
           ++ exists (A0 ++ A). split.
              ** rewrite H3a, <- !app_assoc. f_equal. exact EA.
              ** rewrite apply_events_app, <- H3b. exact EV.
           ++ apply Forall_app. split; [exact H4|]. constructor; [|constructor].
              destruct Hsrc as (f & Hf & Hin). exists f. simpl. auto.
           ++ exact H5.
           ++ discriminate.
        -- rewrite app_nil_r. constructor; simpl; auto.
           ++ exists (A0 ++ A). split.
              ** rewrite H3a, <- app_assoc. f_equal. exact EA.
              ** rewrite apply_events_app, <- H3b. exact EV.
           ++ discriminate.
      * destruct fresh; [constructor; [exact Hnot | constructor] | constructor].
    + (* null *)
      assert ((match st1 with
               | EXHAUSTED =>
                   let '(fut, unt, vals) := absorb now (l_future l) (l_until l) (l_values l) in
                   let st2 := match fut with [] => COMPLETE | _ => EXHAUSTED end in
                   (Loader st2 (l_gen l) (l_ts l) strict1 fut unt vals, [], FBreak)
               | _ => (Loader st1 (l_gen l) (l_ts l) strict1 (l_future l) (l_until l) (l_values l), [], FContinue)
               end) = (l1, new, fl)) as H'.
      { destruct (l_state l); exact H. }
      clear H. destruct st1 eqn:Est;
      try (eapply Same; [ | exact H']; first [exact Hst1 | intros; discriminate]).
      destruct (absorb now (l_future l) (l_until l) (l_values l)) as [[fut unt] vals] eqn:Ea.
      inversion H'; subst l1 new fl. clear H'. rewrite app_nil_r.
      destruct (absorb_spec _ _ _ _ _ _ _ Ea) as (A & EA & EV & _).
      destruct HI as [H1 H2 [A0 [H3a H3b]] H4 H5 H6].
      split; [|split; [constructor | reflexivity]]. constructor; simpl; auto.
      * exists (A0 ++ A). split; [rewrite H3a, <- app_assoc; f_equal; exact EA | rewrite apply_events_app, <- H3b; exact EV].
      * destruct fut; [reflexivity | discriminate].
    + (* note *)
      assert ((Loader st1 (l_gen l) (l_ts l) strict1 (l_future l) (l_until l) (l_values l), @nil event, FContinue) = (l1, new, fl)) as H'.
      { destruct (l_state l); exact H. }
      eapply Same; [exact Hst1 | exact H'].
    + (* not JSON *)
      destruct (l_state l) eqn:Es;
        try (assert ((Loader st1 (l_gen l) (l_ts l) strict1 (l_future l) (l_until l) (l_values l), @nil event, FContinue) = (l1, new, fl)) as H' by exact H;
             eapply Same; [exact Hst1 | exact H']).
      eapply Same; [ | exact H]; intros; discriminate.
  - (* next record is in the future *)
    eapply Same; [ | exact H]; intros; discriminate.
  - (* the EXHAUSTED-mode item *)
    set (strict1 := if l_strict l && negb (st_opening (l_state l)) && (match l_ts l with None => true | Some t => tgt ts t end)
                    then false else l_strict l) in *.
    set (st1 := match l_state l with INITIAL | SWITCHING | AWAITING => STREAMING | s => s end) in *.
    assert (st1 = COMPLETE -> l_future l = []) as Hst1.
    { intros Ec. apply (inv_done _ _ _ HI). unfold st1 in Ec. destruct (l_state l); try discriminate; reflexivity. }
    assert ((match st1 with
             | EXHAUSTED =>
                 let '(fut, unt, vals) := absorb now (l_future l) (l_until l) (l_values l) in
                 let st2 := match fut with [] => COMPLETE | _ => EXHAUSTED end in
                 (Loader st2 (l_gen l) (l_ts l) strict1 fut unt vals, [], FBreak)
             | _ => (Loader st1 (l_gen l) (l_ts l) strict1 (l_future l) (l_until l) (l_values l), [], FContinue)
             end) = (l1, new, fl)) as H'.
    { destruct (l_state l); exact H. }
    clear H. destruct st1 eqn:Est;
      try (eapply Same; [ | exact H']; first [exact Hst1 | intros; discriminate]).
    destruct (absorb now (l_future l) (l_until l) (l_values l)) as [[fut unt] vals] eqn:Ea.
    inversion H'; subst l1 new fl. clear H'. rewrite app_nil_r.
    destruct (absorb_spec _ _ _ _ _ _ _ Ea) as (A & EA & EV & _).
    destruct HI as [H1 H2 [A0 [H3a H3b]] H4 H5 H6].
    split; [|split; [constructor | reflexivity]]. constructor; simpl; auto.
    * exists (A0 ++ A). split; [rewrite H3a, <- app_assoc; f_equal; exact EA | rewrite apply_events_app, <- H3b; exact EV].
    * destruct fut; [reflexivity | discriminate].
Qed.

Lemma inv_restate files l E st g strict unt :
  Inv files l E -> gen_ok files g -> (st = COMPLETE -> l_future l = []) ->
  Inv files (Loader st g (l_ts l) strict (l_future l) unt (l_values l)) E.
Proof. intros [H1 H2 H3 H4 H5 H6] Hg Hd. constructor; simpl; auto. Qed.

Definition not_early (now look : Z) (evs : list event) : Prop := Forall (fun e => tgt (fst e) (now + look) = false) evs.

Lemma drain_inv files now look limit : forall fuel l evs E l' evs' fl,
  Inv files l (E ++ evs) -> not_early now look evs ->
  drain fuel files now look limit l evs = (l', evs', fl) ->
  Inv files l' (E ++ evs') /\ not_early now look evs'.
Proof.
  induction fuel as [|f IH]; intros l evs E l' evs' fl HI Hne H; simpl in H.
  - inversion H; subst. split; [apply inv_restate; auto; [exact I | intros; discriminate] | exact Hne].
  - destruct (gen_next files now look (l_gen l)) as [it g'| |] eqn:Eg.
    + destruct (gen_next_ok files now look (l_gen l) it g' (inv_gen _ _ _ HI) Eg) as [Hg' Hit].
      set (l0 := Loader (l_state l) g' (l_ts l) (l_strict l) (l_future l) (l_until l) (l_values l)) in *.
      assert (Inv files l0 (E ++ evs)) as HI0 by (apply inv_restate; auto; apply (inv_done _ _ _ HI)).
      destruct (on_item now limit (Z.of_nat (length evs)) l0 it) as [[l1 new] fl1] eqn:Eo.
      destruct (on_item_inv _ _ _ _ _ _ _ _ _ _ _ HI0 Hit Eo) as (HI1 & Hnew & _).
      rewrite <- app_assoc in HI1.
      assert (not_early now look (evs ++ new)) as Hne1 by (apply Forall_app; split; assumption).
      destruct fl1.
      * eapply IH; eauto.
      * inversion H; subst. auto.
      * inversion H; subst. auto.
    + inversion H; subst. split; [apply inv_restate; auto; [exact I | apply (inv_done _ _ _ HI)] | exact Hne].
    + inversion H; subst. split; [apply inv_restate; auto; [exact I | intros; discriminate] | exact Hne].
Qed.

Lemma load_loop_inv files now look limit : forall fuel first l evs E l' evs' b,
  Inv files l (E ++ evs) -> not_early now look evs ->
  load_loop fuel files now look limit first l evs = (l', evs', b) ->
  Inv files l' (E ++ evs') /\ not_early now look evs'.
Proof.
  induction fuel as [|f IH]; intros first l evs E l' evs' b HI Hne H; cbn [load_loop] in H.
  - inversion H; subst. split; [apply inv_restate; auto; [exact I | intros; discriminate] | exact Hne].
  - destruct (st_le_streaming (l_state l) || first).
    + set (l0 := if st_opening (l_state l)
                 then Loader (l_state l) (GNew (l_ts l) (negb (match l_state l with INITIAL => true | _ => false end)) (l_strict l))
                             (l_ts l) true (l_future l) (l_until l) (l_values l)
                 else l) in *.
      assert (Inv files l0 (E ++ evs)) as HI0.
      { unfold l0. destruct (st_opening (l_state l)); [|exact HI]. apply inv_restate; auto; [exact I | apply (inv_done _ _ _ HI)]. }
      destruct (drain (S f * 4) files now look limit l0 evs) as [[l1 evs1] fl] eqn:Ed.
      destruct (drain_inv _ _ _ _ _ _ _ _ _ _ _ HI0 Hne Ed) as [HI1 Hne1].
      destruct fl.
      * destruct (l_state l1) eqn:Es1; try (inversion H; subst; auto; fail);
          (eapply IH; [ | exact Hne1 | exact H];
           destruct (l_gen l1) eqn:Eg1; rewrite ?Es1; try exact HI1;
           apply inv_restate; auto; try (rewrite <- Eg1; apply (inv_gen _ _ _ HI1)); try exact I; intros; try discriminate;
           apply (inv_done _ _ _ HI1); congruence).
      * destruct (l_state l1) eqn:Es1; try (inversion H; subst; auto; fail);
          (eapply IH; [ | exact Hne1 | exact H];
           destruct (l_gen l1) eqn:Eg1; rewrite ?Es1; try exact HI1;
           apply inv_restate; auto; try (rewrite <- Eg1; apply (inv_gen _ _ _ HI1)); try exact I; intros; try discriminate;
           apply (inv_done _ _ _ HI1); congruence).
      * inversion H; subst. auto.
    + inversion H; subst. auto.
Qed.

Lemma load_inv files look limit now l E l' evs :
  Inv files l E -> load files look limit now l = (l', evs) ->
  Inv files l' (E ++ evs) /\ not_early now look evs.
Proof.
  intros HI H. unfold load in H. destruct (st_alive (l_state l)).
  - destruct (load_loop _ files now look limit true l []) as [[l1 evs1] b] eqn:El. inversion H; subst.
    eapply load_loop_inv; [rewrite app_nil_r; exact HI | constructor | exact El].
  - inversion H; subst. rewrite app_nil_r. split; [exact HI | constructor].
Qed.

Theorem replay_inv files look limit : forall sched l E l' evss,
  Inv files l E -> replay files look limit sched l = (l', evss) ->
  Inv files l' (E ++ concat evss) /\ Forall2 (fun now evs => not_early now look evs) sched evss.
Proof.
  induction sched as [|now t IH]; intros l E l' evss HI H; simpl in H.
  - inversion H; subst. simpl. rewrite app_nil_r. auto.
  - destruct (load files look limit now l) as [l1 evs] eqn:El.
    destruct (replay files look limit t l1) as [l2 rest] eqn:Er. inversion H; subst.
    destruct (load_inv _ _ _ _ _ _ _ _ HI El) as [HI1 Hne].
    destruct (IH _ _ _ _ HI1 Er) as [HI2 Hall]. simpl. rewrite app_assoc. auto.
Qed.

(* ---- the universal guarantees, for every history, look-ahead, limit and schedule of load() calls ---- *)
Theorem replay_guarantees files look limit sched l' evss :
  replay files look limit sched init = (l', evss) ->
  let delivered := concat evss in
  chain delivered /\                                             (* in timestamp order *)
  Forall (from_history files) delivered /\                       (* logged timestamp and values, nothing invented *)
  Forall2 (fun now evs => not_early now look evs) sched evss /\  (* never before clock + look-ahead reaches it *)
  (l_state l' = COMPLETE -> l_values l' = apply_events delivered []).   (* final map = last delivered values *)
Proof.
  intros H. destruct (replay_inv files look limit sched init [] l' evss (inv_init files) H) as [HI Hall].
  simpl in HI. destruct HI as [H1 H2 [A [H3a H3b]] H4 H5 H6].
  repeat split; auto. intros Hc. rewrite (H6 Hc), app_nil_r in H3a. subst A. exact H3b.
Qed.
