(* Proofs about Model/Client.v (property C12). *)
From Coq Require Import ZArith List Bool Lia.
From CV Require Import Model.Client Model.Logix Proofs.Logix Proofs.LogixMulti.
Import ListNotations.
Open Scope Z_scope.

(* ---- the bundling plan ---- *)
Lemma plan_go_concat m ops : forall idx cur paths rq rp,
  concat (plan_go m ops idx cur paths rq rp) = rev cur ++ seq idx (length ops).
Proof.
  induction ops as [|o t IH]; intros idx cur paths rq rp; cbn [plan_go length seq].
  - destruct cur; simpl; rewrite ?app_nil_r; reflexivity.
  - destruct (_ && _).
    + rewrite IH. simpl. rewrite <- app_assoc. reflexivity.
    + cbn [concat]. rewrite IH. reflexivity.
Qed.

(* every operation is issued exactly once, in order, whatever the bundle size limit *)
Theorem plan_partition m ops : concat (plan m ops) = seq 0 (length ops).
Proof.
  unfold plan. destruct (m =? 0).
  - generalize 0%nat. induction (length ops) as [|n IH]; intros s; simpl; [reflexivity | rewrite IH; reflexivity].
  - rewrite plan_go_concat. reflexivity.
Qed.

Definition path_at (all : list opinfo) (i : nat) : option (Z * Z) :=
  match nth_error all i with Some o => Some (o_route o, o_send o) | None => None end.

Definition uniform (all : list opinfo) (g : list nat) : Prop :=
  g <> [] /\ exists p, Forall (fun i => path_at all i = Some p) g.

Lemma skipn_cons_nth {A} (l : list A) : forall i x t, skipn i l = x :: t -> nth_error l i = Some x /\ skipn (S i) l = t.
Proof.
  induction l as [|y l IH]; intros i x t H.
  - destruct i; discriminate.
  - destruct i; simpl in *.
    + inversion H; subst. auto.
    + apply IH. exact H.
Qed.

Lemma same_paths_true p o : same_paths (Some p) o = true -> p = (o_route o, o_send o).
Proof.
  destruct p as [r s]. simpl. intros H. apply andb_true_iff in H as [H1 H2].
  apply Z.eqb_eq in H1. apply Z.eqb_eq in H2. subst. reflexivity.
Qed.

(* no bundle mixes operations with different route or send paths; no bundle is empty *)
Lemma plan_go_uniform all m ops : forall idx cur paths rq rp,
  skipn idx all = ops ->
  (match paths with
   | None => cur = []
   | Some p => cur <> [] /\ Forall (fun i => path_at all i = Some p) cur
   end) ->
  Forall (uniform all) (plan_go m ops idx cur paths rq rp).
Proof.
  induction ops as [|o t IH]; intros idx cur paths rq rp Hsk Hinv; cbn [plan_go].
  - destruct cur as [|c cur']; [constructor|]. constructor; [|constructor].
    destruct paths as [p|]; [|discriminate]. destruct Hinv as [_ Hall].
    split; [intros E; apply (f_equal (@length nat)) in E; rewrite rev_length in E; discriminate|].
    exists p. apply Forall_rev. exact Hall.
  - destruct (skipn_cons_nth all idx o t Hsk) as [Hn Hsk'].
    assert (path_at all idx = Some (o_route o, o_send o)) as Hpa by (unfold path_at; rewrite Hn; reflexivity).
    destruct (_ && same_paths paths o) eqn:Ec.
    + apply IH; [exact Hsk'|]. split; [discriminate|]. constructor; [exact Hpa|].
      apply andb_true_iff in Ec as [_ Es].
      destruct paths as [p|]; [|subst cur; constructor].
      apply same_paths_true in Es. subst p. exact (proj2 Hinv).
    + constructor.
      * destruct paths as [p|].
        -- destruct Hinv as [Hne Hall]. split; [intros E; apply Hne; apply (f_equal (@rev nat)) in E; rewrite rev_involutive in E; exact E|].
           exists p. apply Forall_rev. exact Hall.
        -- subst cur. simpl in Ec. discriminate.
      * apply IH; [exact Hsk'|]. split; [discriminate|]. constructor; [exact Hpa | constructor].
Qed.

Theorem plan_uniform m ops : Forall (uniform ops) (plan m ops).
Proof.
  unfold plan. destruct (m =? 0).
  - apply Forall_forall. intros g Hg. apply in_map_iff in Hg as (i & <- & Hi). apply in_seq in Hi.
    split; [discriminate|]. unfold path_at. destruct (nth_error ops i) as [o|] eqn:E.
    + exists (o_route o, o_send o). constructor; [rewrite E; reflexivity | constructor].
    + apply nth_error_None in E. lia.
  - apply plan_go_uniform; [reflexivity | reflexivity].
Qed.

(* ---- results do not depend on the bundling: executing the groups one after the other (each as a bundle) is
   executing the operations one after the other ---- *)
Fixpoint run_groups (q : quirks) (maxb : Z) (st : store) (gs : list (list req)) : store * list reply :=
  match gs with
  | [] => (st, [])
  | g :: t => let (s1, r1) := run_seq q maxb st g in let (s2, r2) := run_groups q maxb s1 t in (s2, r1 ++ r2)
  end.

Theorem run_groups_concat q maxb gs : forall st, run_groups q maxb st gs = run_seq q maxb st (concat gs).
Proof.
  induction gs as [|g t IH]; intros st; simpl; [reflexivity|].
  rewrite run_seq_app. destruct (run_seq q maxb st g) as [s1 r1]. rewrite IH. reflexivity.
Qed.

(* ---- pipelining: everything issued is harvested, in issue order, whatever the depth ---- *)
Lemma pipe_spec depth : forall fuel todo inflight curr last,
  (2 * length todo + length inflight + 1 <= fuel)%nat ->
  harvested (pipe fuel depth todo inflight curr last) = map fst (inflight ++ todo) /\
  issued_ops (pipe fuel depth todo inflight curr last) = map fst todo.
Proof.
  induction fuel as [|f IH]; intros todo inflight curr last Hf; [lia|].
  cbn [pipe]. destruct todo as [|[op ix] t].
  - destruct inflight as [|[o1 i1] rest]; [simpl; auto|].
    cbn [orb]. rewrite orb_true_r. simpl length in Hf.
    destruct (IH [] rest curr i1 ltac:(simpl; lia)) as [H1 H2].
    simpl. rewrite H1, H2. rewrite app_nil_r. auto.
  - assert (inflight ++ [(op, ix)] <> []) as Hne by (destruct inflight; discriminate).
    destruct ((depth <? ix - last) || false).
    + destruct (inflight ++ [(op, ix)]) as [|[o1 i1] rest] eqn:E; [congruence|].
      assert (length rest = length inflight) as Hl.
      { apply (f_equal (@length _)) in E. rewrite app_length in E. simpl in E. lia. }
      destruct (IH t rest ix i1 ltac:(simpl in Hf; lia)) as [H1 H2].
      simpl. rewrite H1, H2. split; [|reflexivity].
      replace (inflight ++ (op, ix) :: t) with ((inflight ++ [(op, ix)]) ++ t) by (rewrite <- app_assoc; reflexivity).
      rewrite E. reflexivity.
    + destruct (IH t (inflight ++ [(op, ix)]) ix last ltac:(rewrite app_length; simpl in *; lia)) as [H1 H2].
      simpl. rewrite H1, H2. rewrite <- app_assoc. auto.
Qed.

Lemma map_fst_combine_seq {A} (l : list A) : forall s, map fst (combine (seq s (length l)) l) = seq s (length l).
Proof. induction l as [|x t IH]; intros s; simpl; [reflexivity | rewrite IH; reflexivity]. Qed.

Theorem pipeline_complete depth issued :
  harvested (pipeline depth issued) = seq 0 (length issued) /\
  issued_ops (pipeline depth issued) = seq 0 (length issued).
Proof.
  unfold pipeline.
  assert (length (combine (seq 0 (length issued)) issued) = length issued) as Hl by (rewrite combine_length, seq_length; lia).
  destruct (pipe_spec depth (2 * length issued + 2) (combine (seq 0 (length issued)) issued) [] (-1) (-1)
              ltac:(rewrite Hl; simpl; lia)) as [H1 H2].
  rewrite H1, H2. simpl. rewrite map_fst_combine_seq. auto.
Qed.
