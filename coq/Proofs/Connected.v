(* Proofs about Model/Connected.v (property C14). *)
From Coq Require Import ZArith List Bool Lia.
From CV Require Import Base.Fmt Model.Logix Model.Connected.
Import ListNotations.
Open Scope Z_scope.

Fixpoint run_unconnected (maxb : Z) (st : store) (rs : list req) : store * list (option (list Z)) :=
  match rs with
  | [] => (st, [])
  | r :: t => let (st1, rp) := exec fixed maxb st r in
              let (st2, l) := run_unconnected maxb st1 t in (st2, produce rp :: l)
  end.

Fixpoint sent_replies (rs : list crep) : list (option (list Z)) :=
  match rs with
  | [] => []
  | RSent _ b :: t => b :: sent_replies t
  | _ :: t => sent_replies t
  end.

(* requests carried over connections are answered with exactly the CIP replies, and leave exactly the tags, that the
   same requests issued unconnected would - whatever Forward Opens / Closes are interleaved, whatever the ids and
   sequence counts *)
Theorem connected_equals_unconnected maxb qs : forall s,
  let (s', rs) := crun maxb s qs in
  c_store s' = fst (run_unconnected maxb (c_store s) (requests_of qs)) /\
  sent_replies rs = snd (run_unconnected maxb (c_store s) (requests_of qs)).
Proof.
  induction qs as [|q t IH]; intros s; simpl; [auto|].
  destruct q as [id f|id seq r|serial]; cbn [cstep requests_of].
  - destruct (lookup_fwd id (c_fwd s)) as [g|].
    + destruct (_ && _); [|destruct (_ =? _)]; specialize (IH s); destruct (crun maxb s t) as [s2 rs]; simpl; exact IH.
    + specialize (IH (CS (c_store s) ((id, f) :: c_fwd s))). destruct (crun maxb _ t) as [s2 rs]. simpl in *. exact IH.
  - cbn [run_unconnected]. destruct (exec fixed maxb (c_store s) r) as [st' rp].
    specialize (IH (CS st' (c_fwd s))). destruct (crun maxb _ t) as [s2 rs]. simpl in IH.
    destruct (run_unconnected maxb st' (requests_of t)) as [st2 l]. simpl in *. destruct IH as [-> ->]. auto.
  - specialize (IH (CS (c_store s) (filter (fun e => negb (f_serial (snd e) =? serial)) (c_fwd s)))).
    destruct (crun maxb _ t) as [s2 rs]. simpl in *. exact IH.
Qed.

(* every connected reply echoes its request's sequence count, in order *)
Fixpoint seqs_req (qs : list creq) : list Z :=
  match qs with [] => [] | CSend _ n _ :: t => n :: seqs_req t | _ :: t => seqs_req t end.
Fixpoint seqs_rep (rs : list crep) : list Z :=
  match rs with [] => [] | RSent n _ :: t => n :: seqs_rep t | _ :: t => seqs_rep t end.

Theorem sequence_echoed maxb qs : forall s, seqs_rep (snd (crun maxb s qs)) = seqs_req qs.
Proof.
  induction qs as [|q t IH]; intros s; simpl; [reflexivity|].
  destruct (cstep maxb s q) as [s1 r] eqn:E. specialize (IH s1). destruct (crun maxb s1 t) as [s2 rs]. simpl in *.
  destruct q as [id f|id seq r0|serial]; cbn [cstep] in E.
  - destruct (lookup_fwd id (c_fwd s)); [destruct (_ && _); [|destruct (_ =? _)]|]; inversion E; subst; simpl; exact IH.
  - destruct (exec fixed maxb (c_store s) r0). inversion E; subst. simpl. rewrite IH. reflexivity.
  - inversion E; subst. simpl. exact IH.
Qed.

(* ... and the 16-bit sequence count survives the wire for every value 0 .. 65535 (reference codec field) *)
Theorem sequence_count_wire v tl : 0 <= v < 65536 -> dec (uint 2) (enc (uint 2) v ++ tl) = Some (v, tl).
Proof. intros H. apply (rt_enc (uint 2)). simpl. lia. Qed.

(* after a Forward Close the connection is gone; the others stay *)
Theorem close_removes maxb s serial :
  let s' := fst (cstep maxb s (CClose serial)) in
  (forall id f, lookup_fwd id (c_fwd s') = Some f -> f_serial f <> serial) /\ c_store s' = c_store s.
Proof.
  simpl. split; [|reflexivity]. induction (c_fwd s) as [|[k g] t IH]; intros id f H; simpl in H; [discriminate|].
  destruct (f_serial g =? serial) eqn:E; simpl in H.
  - eapply IH; eauto.
  - destruct (k =? id); [inversion H; subst; lia | eapply IH; eauto].
Qed.
