(* C04: fragmented transfers reassemble exactly and every fragment makes progress. *)
From Coq Require Import ZArith List Bool Lia ZifyBool Arith.
From CV Require Import Base.ListX Model.Logix Proofs.Logix.
Import ListNotations.
Open Scope Z_scope.

(* The client loop: re-issue Read Tag Fragmented with the byte offset advanced by the data received,
   while the status is 0x06.  Result: the (status, values) of every fragment. *)
Fixpoint read_walk (fuel : nat) (maxb : Z) (st : store) (p : path) (elm off : Z) : list (Z * list val) :=
  match fuel with
  | O => []
  | S f =>
      match exec_read maxb st (ReadFrag p elm off) p true elm off with
      | RRead _ s ty vals =>
          (s, vals) :: (if s =? 6 then read_walk f maxb st p elm (off + siz ty * Z.of_nat (length vals)) else [])
      | _ => [(-1, [])]
      end
  end.

Section ReadWalk.
  Variables (maxb : Z) (st : store) (p : path) (k : nat) (a : attr) (elm : Z).
  Hypothesis Hl : lookup st p = Some k.
  Hypothesis Ha : attr_at st k = Some a.
  Hypothesis Hlen : alen a = Z.of_nat (length (a_vals a)).
  Hypothesis Hidx : 0 <= path_elem p.
  Hypothesis Helm : path_elem p + elm <= Z.of_nat (length (a_vals a)).

  Let sz := siz (a_ty a).
  Let idx := path_elem p.
  Let B := budget_elems maxb sz.

  Lemma B_pos : 1 <= B.
  Proof. unfold B, budget_elems. lia. Qed.

  Lemma exec_read_at j r : 0 <= j < elm ->
    exec_read maxb st r p true elm (j * sz) =
    RRead (rsvc r) (if idx + j + B <? idx + elm then 6 else 0) (a_ty a)
          (firstn (Z.to_nat (Z.min (elm - j) B)) (skipn (Z.to_nat (idx + j)) (a_vals a))).
  Proof.
    intros Hj. unfold exec_read. rewrite Hl. unfold attr_at in Ha. rewrite Ha.
    pose proof (siz_pos (a_ty a)) as Hsz. pose proof B_pos as HB.
    fold sz. rewrite reply_elements_read_ok by (unfold sz, idx in *; lia).
    fold idx B. cbn [re_end re_beg re_endactual re_offremains].
    destruct (negb (Z.min (idx + elm) (idx + j + B) <=? alen a)) eqn:E1; [lia|].
    cbn [negb Z.eqb].
    f_equal.
    - destruct (Z.min (idx + elm) (idx + j + B) =? idx + elm) eqn:E2, (idx + j + B <? idx + elm) eqn:E3; lia.
    - f_equal. lia.
  Qed.

  Definition nfrag (rem : Z) : Z := (rem + B - 1) / B.

  Lemma nfrag_small rem : 1 <= rem <= B -> nfrag rem = 1.
  Proof.
    intros H. unfold nfrag. pose proof B_pos. symmetry. apply Z.div_unique with (r := rem - 1); lia.
  Qed.

  Lemma nfrag_step rem : B < rem -> nfrag rem = 1 + nfrag (rem - B).
  Proof.
    intros H. unfold nfrag. pose proof B_pos.
    replace (rem + B - 1) with (rem - B + B - 1 + 1 * B) by lia. rewrite Z.div_add by lia. lia.
  Qed.

  Definition good_walk (j : Z) (w : list (Z * list val)) : Prop :=
    concat (map snd w) = firstn (Z.to_nat (elm - j)) (skipn (Z.to_nat (idx + j)) (a_vals a)) /\
    Forall (fun f => 1 <= Z.of_nat (length (snd f)) <= B) w /\
    map fst w = repeat 6 (length w - 1) ++ [0] /\
    Z.of_nat (length w) = nfrag (elm - j).

  Lemma read_walk_from fuel : forall j, 0 <= j < elm -> (Z.to_nat (elm - j) <= fuel)%nat ->
    good_walk j (read_walk fuel maxb st p elm (j * sz)).
  Proof.
    induction fuel as [|f IH]; intros j Hj Hf; [lia|].
    cbn [read_walk]. rewrite exec_read_at by exact Hj.
    pose proof B_pos as HB. pose proof (siz_pos (a_ty a)) as Hsz.
    set (c := Z.min (elm - j) B).
    assert (length (firstn (Z.to_nat c) (skipn (Z.to_nat (idx + j)) (a_vals a))) = Z.to_nat c) as Hfl.
    { rewrite firstn_length, skipn_length. subst c. lia. }
    destruct (idx + j + B <? idx + elm) eqn:E.
    - (* more to come *)
      cbn [Z.eqb Pos.eqb]. rewrite Hfl. fold sz.
      assert (c = B) as Hc by (subst c; lia). rewrite Hc in *.
      replace (j * sz + sz * Z.of_nat (Z.to_nat B)) with ((j + B) * sz) by lia.
      destruct (IH (j + B)) as (I1 & I2 & I3 & I4); [lia | lia |].
      set (w := read_walk f maxb st p elm ((j + B) * sz)) in *. clearbody w.
      unfold good_walk. cbn [map concat snd fst length]. repeat split.
      + rewrite I1. replace (Z.to_nat (elm - j)) with (Z.to_nat B + Z.to_nat (elm - (j + B)))%nat by lia.
        replace (Z.to_nat (idx + (j + B))) with (Z.to_nat (idx + j) + Z.to_nat B)%nat by lia.
        rewrite <- (firstn_skipn (Z.to_nat B) (firstn (Z.to_nat B + Z.to_nat (elm - (j + B))) _)).
        f_equal.
        * rewrite firstn_firstn. f_equal. lia.
        * rewrite skipn_firstn_comm. f_equal; [lia|]. rewrite skipn_skipn. f_equal. lia.
      + constructor; [cbn [snd]; rewrite Hfl; lia | exact I2].
      + rewrite I3. assert (1 <= length w)%nat as Hw.
        { assert (1 <= nfrag (elm - (j + B))) as Hn1; [|lia]. unfold nfrag. apply Z.div_le_lower_bound; [lia|]. clear - E HB Hj. clearbody B idx. lia. }
        replace (S (length w) - 1)%nat with (S (length w - 1)) by lia. reflexivity.
      + rewrite Nat2Z.inj_succ, I4. rewrite (nfrag_step (elm - j)) by (clearbody B idx; lia).
        replace (elm - j - B) with (elm - (j + B)) by lia. lia.
    - (* final fragment *)
      cbn [Z.eqb]. assert (c = elm - j) as Hc by (subst c; lia). rewrite Hc in *.
      unfold good_walk. cbn [map concat snd fst length repeat app]. repeat split.
      + rewrite app_nil_r. reflexivity.
      + constructor; [cbn [snd]; rewrite Hfl; lia | constructor].
      + rewrite nfrag_small by lia. reflexivity.
  Qed.

  (* the whole transfer, from byte offset 0 *)
  Theorem read_walk_complete : 1 <= elm ->
    good_walk 0 (read_walk (Z.to_nat elm) maxb st p elm 0).
  Proof.
    intros H. replace 0 with (0 * sz) at 2 by lia. apply read_walk_from; lia.
  Qed.
End ReadWalk.

(* ---- Write Tag Fragmented: pieces whose offsets tile a range -------------------------------------- *)

Fixpoint write_walk (q : quirks) (st : store) (p : path) (ty elm sz off : Z) (pieces : list (list val))
  : store * list reply :=
  match pieces with
  | [] => (st, [])
  | d :: t =>
      let (st1, rp) := exec_write q st (WriteFrag p ty elm off d) p true ty elm off d in
      let (st2, rps) := write_walk q st1 p ty elm sz (off + sz * Z.of_nat (length d)) t in
      (st2, rp :: rps)
  end.

Lemma exec_write_at q st r p k a ty t elm j d :
  lookup st p = Some k -> attr_at st k = Some a -> a_scalar a = false ->
  ty_of_code ty = Some t -> allowed (a_ty a) t = true ->
  0 <= path_elem p -> 0 <= j -> 1 <= Z.of_nat (length d) -> j + Z.of_nat (length d) <= elm ->
  path_elem p + elm <= Z.of_nat (length (a_vals a)) ->
  (q_fit q = true -> pack_all (a_ty a) d <> None) ->
  exec_write q st r p true ty elm (j * siz (a_ty a)) d =
  (upd_attr st k (Attr (a_ty a) false (splice (a_vals a) (Z.to_nat (path_elem p + j)) d)), RWrite (rsvc r)).
Proof.
  intros Hl Ha Hs Hty Hal Hidx Hj Hd He Hc Hfit. unfold exec_write. rewrite Hl.
  unfold attr_at in Ha. rewrite Ha, Hty, Hal. cbn [negb].
  pose proof (siz_pos (a_ty a)) as Hsz. unfold alen. rewrite Hs.
  rewrite reply_elements_write_ok by lia.
  cbn [re_end re_beg re_endactual re_offremains].
  destruct (q_fit q) eqn:Eq.
  - specialize (Hfit eq_refl). destruct (pack_all (a_ty a) d); [|congruence]. cbn [negb andb].
    destruct (negb (path_elem p + j + Z.of_nat (length d) <=? Z.of_nat (length (a_vals a)))) eqn:E; [lia|].
    reflexivity.
  - cbn [andb]. destruct (negb (path_elem p + j + Z.of_nat (length d) <=? Z.of_nat (length (a_vals a)))) eqn:E; [lia|].
    reflexivity.
Qed.

Fixpoint total (ps : list (list val)) : Z :=
  match ps with [] => 0 | d :: t => Z.of_nat (length d) + total t end.

Lemma total_concat ps : total ps = Z.of_nat (length (concat ps)).
Proof. induction ps as [|d t IH]; simpl; [reflexivity|]. rewrite app_length. lia. Qed.

Theorem write_walk_tiles q p ty t elm pieces : forall st k a j,
  lookup st p = Some k -> attr_at st k = Some a -> a_scalar a = false ->
  ty_of_code ty = Some t -> allowed (a_ty a) t = true ->
  0 <= path_elem p -> 0 <= j ->
  Forall (fun d => 1 <= Z.of_nat (length d)) pieces ->
  j + total pieces <= elm ->
  path_elem p + elm <= Z.of_nat (length (a_vals a)) ->
  (q_fit q = true -> Forall (fun d => pack_all (a_ty a) d <> None) pieces) ->
  write_walk q st p ty elm (siz (a_ty a)) (j * siz (a_ty a)) pieces =
  (match pieces with
   | [] => st
   | _ => upd_attr st k (Attr (a_ty a) false (splice (a_vals a) (Z.to_nat (path_elem p + j)) (concat pieces)))
   end,
   map (fun _ => RWrite 211) pieces).
Proof.
  induction pieces as [|d ps IH]; intros st k a j Hl Ha Hs Hty Hal Hidx Hj Hne Htot Hc Hfit; [reflexivity|].
  cbn [write_walk]. inversion Hne as [|? ? Hd Hne']; subst. cbn [total] in Htot.
  assert (0 <= total ps) as Htp by (rewrite total_concat; lia).
  rewrite (exec_write_at q st _ p k a ty t elm j d); auto; try lia.
  2:{ intros Hq. specialize (Hfit Hq). inversion Hfit; auto. }
  set (a1 := Attr (a_ty a) false (splice (a_vals a) (Z.to_nat (path_elem p + j)) d)).
  set (st1 := upd_attr st k a1).
  pose proof (attr_at_lt _ _ _ Ha) as Hk.
  assert (same_shape st st1) as Hsh.
  { eapply same_shape_upd; eauto. simpl. apply splice_length. lia. }
  assert (attr_at st1 k = Some a1) as Ha1 by (unfold st1; rewrite upd_attr_at by exact Hk; rewrite Nat.eqb_refl; reflexivity).
  assert (length (a_vals a1) = length (a_vals a)) as Hl1 by (simpl; apply splice_length; lia).
  replace (j * siz (a_ty a) + siz (a_ty a) * Z.of_nat (length d)) with ((j + Z.of_nat (length d)) * siz (a_ty a)) by lia.
  change (siz (a_ty a)) with (siz (a_ty a1)).
  assert (lookup st1 p = Some k) as Hl1' by (rewrite (lookup_shape _ _ _ Hsh); exact Hl).
  assert (path_elem p + elm <= Z.of_nat (length (a_vals a1))) as Hc1 by (rewrite Hl1; exact Hc).
  assert (q_fit q = true -> Forall (fun d => pack_all (a_ty a1) d <> None) ps) as Hfit1
    by (intros Hq; specialize (Hfit Hq); inversion Hfit; auto).
  rewrite (IH st1 k a1 (j + Z.of_nat (length d)) Hl1' Ha1 eq_refl Hty Hal Hidx ltac:(lia) Hne' ltac:(lia) Hc1 Hfit1).
  f_equal. cbn [rsvc svc_of map]. destruct ps as [|d2 ps'].
  - cbn [concat]. rewrite app_nil_r. reflexivity.
  - unfold st1, upd_attr; cbn [s_attrs s_dir s_sym a_ty a_vals a1].
    f_equal.
    + apply nth_error_ext_eq. intros i.
      rewrite !set_nth_nth; rewrite ?set_nth_length; try exact Hk.
      destruct (Nat.eqb_spec i k); [|reflexivity]. f_equal. f_equal.
      replace (Z.to_nat (path_elem p + (j + Z.of_nat (length d)))) with (Z.to_nat (path_elem p + j) + length d)%nat by lia.
      rewrite splice_splice; [reflexivity|].
      pose proof (total_concat (d2 :: ps')) as Htc. lia.
Qed.

Lemma budget_bounds maxb t : 1 <= maxb ->
  budget_elems maxb (siz t) * siz t < maxb + siz t /\ maxb <= budget_elems maxb (siz t) * siz t.
Proof.
  intros H. unfold budget_elems. pose proof (siz_pos t) as Hs.
  set (s := siz t) in *. clearbody s.
  assert (1 <= (maxb + s - 1) / s) as Hq by (apply Z.div_le_lower_bound; lia).
  rewrite Z.max_l by lia.
  pose proof (Z.div_mod (maxb + s - 1) s ltac:(lia)) as Hdm.
  pose proof (Z.mod_pos_bound (maxb + s - 1) s ltac:(lia)) as Hmb. nia.
Qed.

Lemma write_walk_from_zero q p ty t elm pieces st k a :
  lookup st p = Some k -> attr_at st k = Some a -> a_scalar a = false ->
  ty_of_code ty = Some t -> allowed (a_ty a) t = true ->
  0 <= path_elem p ->
  Forall (fun d => 1 <= Z.of_nat (length d)) pieces -> pieces <> [] ->
  total pieces <= elm ->
  path_elem p + elm <= Z.of_nat (length (a_vals a)) ->
  (q_fit q = true -> Forall (fun d => pack_all (a_ty a) d <> None) pieces) ->
  write_walk q st p ty elm (siz (a_ty a)) 0 pieces =
  (upd_attr st k (Attr (a_ty a) false (splice (a_vals a) (Z.to_nat (path_elem p)) (concat pieces))),
   map (fun _ => RWrite 211) pieces).
Proof.
  intros Hl Ha Hs Hty Hal Hidx Hne Hnn Htot Hc Hfit.
  pose proof (write_walk_tiles q p ty t elm pieces st k a 0 Hl Ha Hs Hty Hal Hidx ltac:(lia) Hne ltac:(lia) Hc Hfit) as H.
  rewrite Z.mul_0_l, Z.add_0_r in H. rewrite H. destruct pieces; [congruence | reflexivity].
Qed.

(* a concrete transfer used as the non-vacuity witness in Properties/C04.v *)
Definition C04_example_ok : bool :=
  let vals := map (fun i => VI (Z.of_nat i)) (seq 0 1000) in
  let st := Store [Attr INT false vals] [((2, 1, 1), 0%nat)] [(0, (2, 1, 1))] in
  let w := read_walk 201 488 st (PSym 0 (Some 30)) 201 0 in
  (length w =? 1)%nat &&
  match w with
  | [(0, vs)] => (length vs =? 201)%nat
  | _ => false
  end &&
  let w2 := read_walk 201 100 st (PSym 0 (Some 30)) 201 0 in
  (length w2 =? 5)%nat && (Z.of_nat (length (concat (map snd w2))) =? 201).
