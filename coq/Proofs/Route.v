(* Proofs about Model/Route.v (property C15). *)
From Coq Require Import ZArith List Bool Lia ZifyBool Arith.
From CV Require Import Base.ListX Model.Tnet Model.Logix Model.Route Proofs.Tnet.
Import ListNotations.
Open Scope Z_scope.

Lemma link_eqb_eq x y : link_eqb x y = true <-> x = y.
Proof.
  destruct x, y; simpl; split; intros H; try discriminate; try (inversion H; subst).
  - f_equal; lia.
  - lia.
  - f_equal; lia.
  - lia.
  - f_equal; lia.
  - lia.
Qed.

Lemma seg_eqb_eq x y : seg_eqb x y = true <-> x = y.
Proof.
  destruct x as [p l], y as [p' l']. unfold seg_eqb; simpl. rewrite andb_true_iff, link_eqb_eq. split.
  - intros [H1 H2]. f_equal; [lia | auto].
  - intros H; inversion H; subst. split; [lia | auto].
Qed.

Lemma path_eqb_eq x : forall y, path_eqb x y = true <-> x = y.
Proof.
  induction x as [|a x IH]; intros [|b y]; simpl; split; intros H; try discriminate; auto.
  - apply andb_true_iff in H as [H1 H2]. apply seg_eqb_eq in H1. apply IH in H2. congruence.
  - inversion H; subst. apply andb_true_iff. split; [apply seg_eqb_eq | apply IH]; auto.
Qed.

Theorem accept_none rp : accept None rp = true.
Proof. reflexivity. Qed.

Theorem accept_simple rp : accept (Some []) rp = true <-> rp = None \/ rp = Some [].
Proof.
  destruct rp as [[|s r]|]; cbn [accept path_eqb]; split; auto; intros H; try discriminate.
  destruct H as [H|H]; discriminate.
Qed.

Theorem accept_path c rp : c <> [] ->
  (accept (Some c) rp = true <-> rp = None \/ rp = Some [] \/ rp = Some c).
Proof.
  intros Hc. destruct rp as [[|s r]|]; cbn [accept]; split; auto.
  - intros H. apply path_eqb_eq in H. right; right; congruence.
  - intros [H|[H|H]]; try discriminate. inversion H; subst. apply path_eqb_eq. reflexivity.
Qed.

Theorem refused_no_access cfg maxb st rp r : accept cfg rp = false ->
  ucmm_local cfg maxb st rp r = (st, URefused 8).
Proof. intros H. unfold ucmm_local. rewrite H. reflexivity. Qed.

Theorem accepted_executes cfg maxb st rp r : accept cfg rp = true ->
  ucmm_local cfg maxb st rp r = (fst (exec fixed maxb st r), UReply (produce (snd (exec fixed maxb st r)))).
Proof. intros H. unfold ucmm_local. rewrite H. destruct (exec fixed maxb st r); reflexivity. Qed.

(* ---- text ------------------------------------------------------------------------------------------- *)

Definition free_of (sep : Z) (a : list Z) : Prop := Forall (fun c => (c =? sep) = false) a.

Lemma split_on_last sep a : free_of sep a -> forall cur, split_on sep a cur = [rev cur ++ a].
Proof.
  induction 1 as [|c t Hc Ht IH]; intros cur; simpl.
  - rewrite app_nil_r. reflexivity.
  - rewrite Hc, IH. cbn [rev]. rewrite <- app_assoc. reflexivity.
Qed.

Lemma split_on_app sep a : free_of sep a -> forall b cur,
  split_on sep (a ++ sep :: b) cur = (rev cur ++ a) :: split_on sep b [].
Proof.
  induction 1 as [|c t Hc Ht IH]; intros b cur; simpl.
  - rewrite Z.eqb_refl, app_nil_r. reflexivity.
  - rewrite Hc, IH. cbn [rev]. rewrite <- app_assoc. reflexivity.
Qed.

Lemma digits_free sep ds : is_digit sep = false -> digits ds -> free_of sep ds.
Proof.
  intros Hs Hd. unfold free_of, digits in *. eapply Forall_impl; [|exact Hd].
  intros c Hc. simpl in Hc. destruct (c =? sep) eqn:E; [|reflexivity]. assert (c = sep) by lia. subst. congruence.
Qed.

Lemma free_app sep a b : free_of sep a -> free_of sep b -> free_of sep (a ++ b).
Proof. intros; apply Forall_app; auto. Qed.

Lemma dec_free sep n : 0 <= n -> is_digit sep = false -> free_of sep (dec n).
Proof. intros Hn Hs. apply digits_free; auto. apply dec_spec; auto. Qed.

Lemma print_int_free sep n : is_digit sep = false -> (c_minus =? sep) = false -> free_of sep (print_int n).
Proof.
  intros Hs Hm. unfold print_int. destruct (n <? 0) eqn:E.
  - constructor; [exact Hm | apply dec_free; auto; lia].
  - apply dec_free; auto; lia.
Qed.

Definition wf_link (l : link) : Prop :=
  match l with
  | LNum _ => True
  | LIp a b c d => 0 <= a <= 255 /\ 0 <= b <= 255 /\ 0 <= c <= 255 /\ 0 <= d <= 255
  | LText _ => False
  end.
Definition wf_seg (s : seg) : Prop := 0 < fst s /\ wf_link (snd s).

Lemma print_link_free l : wf_link l -> free_of c_slash (print_link l).
Proof.
  destruct l as [n|a b c d|t]; simpl; intros H; [| |contradiction].
  - apply print_int_free; reflexivity.
  - destruct H as (Ha & Hb & Hc & Hd).
    repeat (first [apply free_app | apply Forall_cons; [reflexivity|] | (apply dec_free; [lia | reflexivity])]).
Qed.

Lemma undec_dot_fails ds t : digits ds -> undec (ds ++ c_dot :: t) = None.
Proof.
  intros Hd. unfold undec. destruct (ds ++ c_dot :: t) as [|c r] eqn:E.
  - destruct ds; discriminate.
  - rewrite <- E. rewrite undec_go_app by exact Hd. reflexivity.
Qed.

Lemma parse_int_dec n : 0 <= n -> parse_int (dec n) = Some n.
Proof.
  intros Hn. pose proof (print_parse_int n) as H. unfold print_int in H.
  destruct (n <? 0) eqn:E; [lia | exact H].
Qed.

Lemma parse_print_link l : wf_link l -> parse_link (print_link l) = Some l.
Proof.
  destruct l as [n|a b c d|t]; simpl; intros H; [| |contradiction].
  - unfold parse_link. rewrite print_parse_int. reflexivity.
  - destruct H as (Ha & Hb & Hc & Hd). unfold parse_link.
    destruct (dec_spec a) as (Da & Na & Ua); [lia|].
    destruct (dec_spec b) as (Db & Nb & Ub); [lia|].
    destruct (dec_spec c) as (Dc & Nc & Uc); [lia|].
    destruct (dec_spec d) as (Dd & Nd & Ud); [lia|].
    assert (parse_int (dec a ++ c_dot :: dec b ++ c_dot :: dec c ++ c_dot :: dec d) = None) as ->.
    { unfold parse_int. destruct (dec a) as [|x t] eqn:Ea; [congruence|]. cbn [app].
      inversion Da; subst. assert ((x =? c_minus) = false) as -> by (unfold is_digit, c_minus in *; lia).
      change (x :: t ++ c_dot :: ?r) with ((x :: t) ++ c_dot :: r).
      apply undec_dot_fails. constructor; auto. }
    rewrite split_on_app by (apply digits_free; [reflexivity | exact Da]).
    rewrite split_on_app by (apply digits_free; [reflexivity | exact Db]).
    rewrite split_on_app by (apply digits_free; [reflexivity | exact Dc]).
    rewrite split_on_last by (apply digits_free; [reflexivity | exact Dd]).
    cbn [rev app map]. rewrite Ua, Ub, Uc, Ud.
    destruct ((a <=? 255) && (b <=? 255) && (c <=? 255) && (d <=? 255)) eqn:E; [reflexivity | lia].
Qed.

Lemma parse_print_seg s : wf_seg s -> parse_seg (dec (fst s)) (print_link (snd s)) = Some s.
Proof.
  destruct s as [p l]; intros [Hp Hl]; simpl in *. unfold parse_seg.
  rewrite parse_int_dec by lia. rewrite parse_print_link by exact Hl.
  destruct (0 <? p) eqn:E; [reflexivity | lia].
Qed.

Lemma split_print_route p : Forall wf_seg p -> p <> [] ->
  split_on c_slash (print_route p) [] = flat_map (fun s => [dec (fst s); print_link (snd s)]) p.
Proof.
  induction 1 as [|s t Hs Ht IH]; intros Hne; [congruence|].
  destruct Hs as [Hp Hl]. cbn [flat_map app].
  destruct t as [|s2 t'].
  - cbn [print_route flat_map app]. unfold print_seg.
    rewrite split_on_app by (apply dec_free; [lia | reflexivity]).
    rewrite split_on_last by (apply print_link_free; exact Hl). reflexivity.
  - change (print_route (s :: s2 :: t')) with (print_seg s ++ c_slash :: print_route (s2 :: t')).
    unfold print_seg at 1. rewrite <- app_assoc. cbn [app].
    rewrite split_on_app by (apply dec_free; [lia | reflexivity]).
    rewrite split_on_app by (apply print_link_free; exact Hl).
    rewrite IH by discriminate. reflexivity.
Qed.

Lemma pair_up_print p : Forall wf_seg p ->
  pair_up (flat_map (fun s => [dec (fst s); print_link (snd s)]) p) = Some p.
Proof.
  induction 1 as [|s t Hs Ht IH]; [reflexivity|].
  cbn [flat_map app pair_up]. rewrite parse_print_seg by exact Hs. rewrite IH. reflexivity.
Qed.

Theorem parse_print_route p : Forall wf_seg p -> parse_route (print_route p) = Some p.
Proof.
  intros H. destruct p as [|s t]; [reflexivity|].
  unfold parse_route.
  destruct (print_route (s :: t)) as [|c r] eqn:E.
  - exfalso. destruct t; cbn [print_route] in E; unfold print_seg in E.
    + destruct (dec (fst s)); discriminate.
    + destruct (dec (fst s)); discriminate.
  - rewrite <- E. rewrite split_print_route by (auto; discriminate). apply pair_up_print. exact H.
Qed.

(* the kind of a link is part of it: an address string on the wire never matches a configured numeric link or dotted quad,
   whatever it spells ("0" is not 0) *)
Lemma accept_link_kind p q t l rest : (forall t', l <> LText t') ->
  accept (Some ((p, l) :: rest)) (Some ((q, LText t) :: rest)) = false.
Proof.
  intros Hl. unfold accept. cbn [path_eqb]. unfold seg_eqb; cbn [fst snd].
  destruct l as [n|a b c d|t']; cbn [link_eqb]; [rewrite andb_false_r; reflexivity | rewrite andb_false_r; reflexivity |].
  exfalso. apply (Hl t'). reflexivity.
Qed.
