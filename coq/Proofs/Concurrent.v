(* Proofs about Model/Concurrent.v (property C09). *)
From Coq Require Import ZArith List Bool Lia.
From CV Require Import Model.Concurrent.
Import ListNotations.
Open Scope Z_scope.

(* ---- (A) closures are run by the thread that registered them ---- *)
(* closure ids carry their registrar: owner c = c / 1000 *)
Definition owner (c : Z) : Z := c / 1000.

Inductive wf_ev : ev -> Prop :=
| WReg t c body : owner c = t -> Forall wf_ev body -> wf_ev (Reg t c body)
| WExit t : wf_ev (Exit t).

(* every queued closure sits in its registrar's list, and its body is well-formed *)
Definition wf_pending (p : pending) : Prop :=
  forall t, Forall (fun cb => owner (fst cb) = t /\ Forall wf_ev (snd cb)) (get_q t p).

Lemma get_set_same t q p : get_q t (set_q t q p) = q.
Proof.
  induction p as [|[k q0] r IH]; simpl; [rewrite Z.eqb_refl; reflexivity|].
  destruct (k =? t) eqn:E; simpl; rewrite ?E; [reflexivity | exact IH].
Qed.

Lemma get_set_other t u q p : u <> t -> get_q u (set_q t q p) = get_q u p.
Proof.
  intros Hne. induction p as [|[k q0] r IH]; simpl.
  - assert (t =? u = false) as -> by lia. reflexivity.
  - destruct (k =? t) eqn:E; simpl.
    + assert (k = t) by lia. subst k. assert (t =? u = false) as -> by lia. reflexivity.
    + destruct (k =? u); [reflexivity | exact IH].
Qed.

Lemma wf_set t q p :
  wf_pending p -> Forall (fun cb => owner (fst cb) = t /\ Forall wf_ev (snd cb)) q -> wf_pending (set_q t q p).
Proof.
  intros Hp Hq u. destruct (Z.eq_dec u t) as [->|Hne].
  - rewrite get_set_same. exact Hq.
  - rewrite get_set_other by exact Hne. apply Hp.
Qed.

Definition own_log (l : list (Z * Z)) : Prop := Forall (fun rc => owner (snd rc) = fst rc) l.

Definition good_runner (rec : runner) : Prop :=
  forall e p p' l, wf_ev e -> wf_pending p -> rec e p = (p', l) -> wf_pending p' /\ own_log l.

Lemma run_list_good rec : good_runner rec -> forall es p p' l,
  Forall wf_ev es -> wf_pending p -> run_list rec es p = (p', l) -> wf_pending p' /\ own_log l.
Proof.
  intros Hrec. induction es as [|e t IH]; intros p p' l Hes Hp H; simpl in H.
  - inversion H; subst. split; [exact Hp | constructor].
  - apply Forall_cons_iff in Hes as [He Ht].
    destruct (rec e p) as [pa la] eqn:Ea. destruct (run_list rec t pa) as [pb lb] eqn:Eb. inversion H; subst.
    destruct (Hrec _ _ _ _ He Hp Ea) as [Hpa Hla]. destruct (IH _ _ _ Ht Hpa Eb) as [Hpb Hlb].
    split; [exact Hpb | apply Forall_app; split; assumption].
Qed.

Lemma drain_good rec : good_runner rec -> forall g t p p' l,
  wf_pending p -> drain rec g t p = (p', l) -> wf_pending p' /\ own_log l.
Proof.
  intros Hrec. induction g as [|g IH]; intros t p p' l Hp H; simpl in H.
  - inversion H; subst. split; [exact Hp | constructor].
  - destruct (get_q t p) as [|[c body] rest] eqn:Eq.
    + inversion H; subst. split; [exact Hp | constructor].
    + pose proof (Hp t) as Hq. rewrite Eq in Hq. apply Forall_cons_iff in Hq as [[Hc Hb] Hrest]. simpl in Hc, Hb.
      destruct (run_list rec body (set_q t rest p)) as [p2 l1] eqn:E1.
      destruct (drain rec g t p2) as [p3 l2] eqn:E2. injection H as <- <-.
      destruct (run_list_good rec Hrec _ _ _ _ Hb (wf_set t rest p Hp Hrest) E1) as [Hp2 Hl1].
      destruct (IH _ _ _ _ Hp2 E2) as [Hp3 Hl2].
      split; [exact Hp3|]. constructor; [exact Hc|]. apply Forall_app; split; assumption.
Qed.

Lemma run_ev_good : forall fuel, good_runner (run_ev fuel).
Proof.
  induction fuel as [|f IH]; intros e p p' l He Hp H; simpl in H.
  - inversion H; subst. split; [exact Hp | constructor].
  - destruct e as [t c body|t].
    + injection H as <- <-. split; [|constructor].
      assert (owner c = t /\ Forall wf_ev body) as [Ho Hb] by (inversion He; auto).
      apply wf_set; [exact Hp|]. apply Forall_app. split; [apply Hp|].
      constructor; [|constructor]. split; [exact Ho | exact Hb].
    + eapply drain_good; eauto.
Qed.

(* Whatever the interleaving of registrations and parser exits (including threads acting while another thread's
   closure runs): every closure is run by the thread that registered it - no thread ever runs another's closure -
   and the pending lists stay sorted by owner. *)
Theorem closures_run_by_owner fuel es p p' l :
  Forall wf_ev es -> wf_pending p -> run_evs fuel es p = (p', l) -> wf_pending p' /\ own_log l.
Proof. intros He Hp H. unfold run_evs in H. eapply run_list_good; eauto. apply run_ev_good. Qed.

(* ---- (B) atomic requests on the array ---- *)
(* reads and refused requests never change the array *)
Theorem read_or_refused_changes_nothing a o : snd (astep a o) = None \/ (exists s n, o = ARead s n) -> fst (astep a o) = a.
Proof.
  intros [H|(s & n & ->)]; unfold astep in *.
  - destruct o as [s vs|s n]; [destruct (_ <=? _)%nat; [discriminate | reflexivity] | destruct (_ <=? _)%nat; reflexivity].
  - destruct (_ <=? _)%nat; reflexivity.
Qed.

(* no torn reads: when every write is a whole-range write of one repeated value, every read of that range returns
   one repeated value - under every schedule *)
Definition uniform (l : list Z) : Prop := exists v, l = repeat v (length l).

Lemma splice_whole a vs : length vs = length a -> splice a 0 vs = vs.
Proof. intros H. destruct a; simpl; rewrite H, skipn_all, app_nil_r; reflexivity. Qed.

Theorem no_torn_reads n : forall sched a,
  length a = n -> uniform a ->
  Forall (fun so => match snd so with
                    | AWrite s vs => s = O /\ length vs = n /\ uniform vs
                    | ARead s len => s = O /\ len = n
                    end) sched ->
  Forall (fun r => match r with (_, ARead _ _, Some vals) => uniform vals | _ => True end) (snd (arun a sched)).
Proof.
  induction sched as [|[sid o] t IH]; intros a Hl Hu Hs; simpl; [constructor|].
  apply Forall_cons_iff in Hs as [Ho Ht]. simpl in Ho.
  destruct (astep a o) as [a1 r] eqn:E. destruct (arun a1 t) as [a2 l] eqn:E2. simpl.
  destruct o as [s vs|s len].
  - destruct Ho as (-> & Hlen & Huv). unfold astep in E. simpl in E.
    assert ((length vs <=? length a)%nat = true) as Hle by (apply Nat.leb_le; lia). rewrite Hle in E.
    inversion E; subst. constructor; [exact I|].
    specialize (IH (splice a 0 vs)). rewrite E2 in IH. simpl in IH. apply IH; auto.
    + rewrite splice_whole by lia. lia.
    + rewrite splice_whole by lia. exact Huv.
  - destruct Ho as (-> & ->). unfold astep in E. cbn [Nat.add] in E.
    assert ((n <=? length a)%nat = true) as Hle by (apply Nat.leb_le; lia). rewrite Hle in E.
    injection E as <- <-. constructor.
    + cbn [skipn]. rewrite <- Hl, firstn_all. exact Hu.
    + specialize (IH a). rewrite E2 in IH. simpl in IH. apply IH; auto.
Qed.
