(* Proofs about Model/Concurrent.v (property C09). *)
From Coq Require Import ZArith List Bool Lia.
From CV Require Import Model.Concurrent.
Import ListNotations.
Open Scope Z_scope.

(* ---- (A) closures are run by the thread that registered them ---- *)
(* closure ids carry their registrar: owner c = c / 1000 *)
Definition owner (c : Z) : Z := c / 1000.

Inductive wf_ev : ev -> Prop :=
| WReg t c body : owner c = t -> Forall wf_ev body -> wf_ev (Reg t c body)
| WExit t : wf_ev (Exit t).

(* every queued closure sits in its registrar's list, and its body is well-formed *)
Definition wf_pending (p : pending) : Prop :=
  forall t, Forall (fun cb => owner (fst cb) = t /\ Forall wf_ev (snd cb)) (get_q t p).

Lemma get_set_same t q p : get_q t (set_q t q p) = q.
Proof.
  induction p as [|[k q0] r IH]; simpl; [rewrite Z.eqb_refl; reflexivity|].
  destruct (k =? t) eqn:E; simpl; rewrite ?E; [reflexivity | exact IH].
Qed.

Lemma get_set_other t u q p : u <> t -> get_q u (set_q t q p) = get_q u p.
Proof.
  intros Hne. induction p as [|[k q0] r IH]; simpl.
  - assert (t =? u = false) as -> by lia. reflexivity.
  - destruct (k =? t) eqn:E; simpl.
    + assert (k = t) by lia. subst k. assert (t =? u = false) as -> by lia. reflexivity.
    + destruct (k =? u); [reflexivity | exact IH].
Qed.

Lemma wf_set t q p :
  wf_pending p -> Forall (fun cb => owner (fst cb) = t /\ Forall wf_ev (snd cb)) q -> wf_pending (set_q t q p).
Proof.
  intros Hp Hq u. destruct (Z.eq_dec u t) as [->|Hne].
  - rewrite get_set_same. exact Hq.
  - rewrite get_set_other by exact Hne. apply Hp.
Qed.

Definition own_log (l : list (Z * Z)) : Prop := Forall (fun rc => owner (snd rc) = fst rc) l.

Definition good_runner (rec : runner) : Prop :=
  forall e p p' l, wf_ev e -> wf_pending p -> rec e p = (p', l) -> wf_pending p' /\ own_log l.

Lemma run_list_good rec : good_runner rec -> forall es p p' l,
  Forall wf_ev es -> wf_pending p -> run_list rec es p = (p', l) -> wf_pending p' /\ own_log l.
Proof.
  intros Hrec. induction es as [|e t IH]; intros p p' l Hes Hp H; simpl in H.
  - inversion H; subst. split; [exact Hp | constructor].
  - apply Forall_cons_iff in Hes as [He Ht].
    destruct (rec e p) as [pa la] eqn:Ea. destruct (run_list rec t pa) as [pb lb] eqn:Eb. inversion H; subst.
    destruct (Hrec _ _ _ _ He Hp Ea) as [Hpa Hla]. destruct (IH _ _ _ Ht Hpa Eb) as [Hpb Hlb].
    split; [exact Hpb | apply Forall_app; split; assumption].
Qed.

Lemma drain_good rec : good_runner rec -> forall g t p p' l,
  wf_pending p -> drain rec g t p = (p', l) -> wf_pending p' /\ own_log l.
Proof.
  intros Hrec. induction g as [|g IH]; intros t p p' l Hp H; simpl in H.
  - inversion H; subst. split; [exact Hp | constructor].
  - destruct (get_q t p) as [|[c body] rest] eqn:Eq.
    + inversion H; subst. split; [exact Hp | constructor].
    + pose proof (Hp t) as Hq. rewrite Eq in Hq. apply Forall_cons_iff in Hq as [[Hc Hb] Hrest]. simpl in Hc, Hb.
      destruct (run_list rec body (set_q t rest p)) as [p2 l1] eqn:E1.
      destruct (drain rec g t p2) as [p3 l2] eqn:E2. injection H as <- <-.
      destruct (run_list_good rec Hrec _ _ _ _ Hb (wf_set t rest p Hp Hrest) E1) as [Hp2 Hl1].
      destruct (IH _ _ _ _ Hp2 E2) as [Hp3 Hl2].
      split; [exact Hp3|]. constructor; [exact Hc|]. apply Forall_app; split; assumption.
Qed.

Lemma run_ev_good : forall fuel, good_runner (run_ev fuel).
Proof.
  induction fuel as [|f IH]; intros e p p' l He Hp H; simpl in H.
  - inversion H; subst. split; [exact Hp | constructor].
  - destruct e as [t c body|t].
    + injection H as <- <-. split; [|constructor].
      assert (owner c = t /\ Forall wf_ev body) as [Ho Hb] by (inversion He; auto).
      apply wf_set; [exact Hp|]. apply Forall_app. split; [apply Hp|].
      constructor; [|constructor]. split; [exact Ho | exact Hb].
    + eapply drain_good; eauto.
Qed.

(* Whatever the interleaving of registrations and parser exits (including threads acting while another thread's
   closure runs): every closure is run by the thread that registered it - no thread ever runs another's closure -
   and the pending lists stay sorted by owner. *)
Theorem closures_run_by_owner fuel es p p' l :
  Forall wf_ev es -> wf_pending p -> run_evs fuel es p = (p', l) -> wf_pending p' /\ own_log l.
Proof. intros He Hp H. unfold run_evs in H. eapply run_list_good; eauto. apply run_ev_good. Qed.

(* ---- (B) atomic requests on the array ---- *)
(* reads and refused requests never change the array *)
Theorem read_or_refused_changes_nothing a o : snd (astep a o) = None \/ (exists s n, o = ARead s n) -> fst (astep a o) = a.
Proof.
  intros [H|(s & n & ->)]; unfold astep in *.
  - destruct o as [s vs|s n]; [destruct (_ <=? _)%nat; [discriminate | reflexivity] | destruct (_ <=? _)%nat; reflexivity].
  - destruct (_ <=? _)%nat; reflexivity.
Qed.

(* no torn reads: when every write is a whole-range write of one repeated value, every read of that range returns
   one repeated value - under every schedule *)
Definition uniform (l : list Z) : Prop := exists v, l = repeat v (length l).

Lemma splice_whole a vs : length vs = length a -> splice a 0 vs = vs.
Proof. intros H. destruct a; simpl; rewrite H, skipn_all, app_nil_r; reflexivity. Qed.

Theorem no_torn_reads n : forall sched a,
  length a = n -> uniform a ->
  Forall (fun so => match snd so with
                    | AWrite s vs => s = O /\ length vs = n /\ uniform vs
                    | ARead s len => s = O /\ len = n
                    end) sched ->
  Forall (fun r => match r with (_, ARead _ _, Some vals) => uniform vals | _ => True end) (snd (arun a sched)).
Proof.
  induction sched as [|[sid o] t IH]; intros a Hl Hu Hs; simpl; [constructor|].
  apply Forall_cons_iff in Hs as [Ho Ht]. simpl in Ho.
  destruct (astep a o) as [a1 r] eqn:E. destruct (arun a1 t) as [a2 l] eqn:E2. simpl.
  destruct o as [s vs|s len].
  - destruct Ho as (-> & Hlen & Huv). unfold astep in E. simpl in E.
    assert ((length vs <=? length a)%nat = true) as Hle by (apply Nat.leb_le; lia). rewrite Hle in E.
    inversion E; subst. constructor; [exact I|].
    specialize (IH (splice a 0 vs)). rewrite E2 in IH. simpl in IH. apply IH; auto.
    + rewrite splice_whole by lia. lia.
    + rewrite splice_whole by lia. exact Huv.
  - destruct Ho as (-> & ->). unfold astep in E. cbn [Nat.add] in E.
    assert ((n <=? length a)%nat = true) as Hle by (apply Nat.leb_le; lia). rewrite Hle in E.
    injection E as <- <-. constructor.
    + cbn [skipn]. rewrite <- Hl, firstn_all. exact Hu.
    + specialize (IH a). rewrite E2 in IH. simpl in IH. apply IH; auto.
Qed.

(* ---- no lost writes: an element holds what the last accepted write covering it stored, whatever other sessions wrote to
   other elements in between (a write stores exactly its own range: no read-modify-write of the neighbours) ---- *)
Lemma splice_length : forall a s vs, (s + length vs <= length a)%nat -> length (splice a s vs) = length a.
Proof.
  induction a as [|x a IH]; intros s vs H.
  - destruct s; [|reflexivity]. destruct vs; [reflexivity | cbn [length Nat.add] in H; lia].
  - destruct s.
    + cbn [splice]. rewrite app_length, skipn_length. cbn [Nat.add] in H. lia.
    + cbn [splice length]. f_equal. apply IH. cbn [length Nat.add] in H. lia.
Qed.

Lemma nth_skipn_plus : forall (l : list Z) n i d, nth i (skipn n l) d = nth (n + i) l d.
Proof.
  induction l as [|x l IH]; intros n i d.
  - rewrite skipn_nil. destruct i, n; reflexivity.
  - destruct n; [reflexivity|]. cbn [skipn Nat.add nth]. apply IH.
Qed.

Lemma splice_nth : forall a s vs i d, (s + length vs <= length a)%nat ->
  nth i (splice a s vs) d = if (s <=? i)%nat && (i <? s + length vs)%nat then nth (i - s) vs d else nth i a d.
Proof.
  induction a as [|x a IH]; intros s vs i d H.
  - destruct s; simpl in *.
    + destruct vs; simpl in *; [|lia]. destruct i; reflexivity.
    + lia.
  - destruct s.
    + cbn [splice Nat.add Nat.leb andb]. rewrite Nat.sub_0_r.
      destruct (i <? length vs)%nat eqn:E.
      * apply Nat.ltb_lt in E. apply app_nth1. exact E.
      * apply Nat.ltb_ge in E. rewrite app_nth2 by exact E. rewrite nth_skipn_plus. f_equal. lia.
    + cbn [splice]. destruct i as [|i].
      * reflexivity.
      * cbn [nth]. rewrite IH by (simpl in H; lia).
        replace (S s <=? S i)%nat with (s <=? i)%nat by reflexivity.
        replace (S i <? S s + length vs)%nat with (i <? s + length vs)%nat by reflexivity.
        replace (S i - S s)%nat with (i - s)%nat by reflexivity. reflexivity.
Qed.

Definition covers (o : aop) (i : nat) : bool :=
  match o with AWrite s vs => (s <=? i)%nat && (i <? s + length vs)%nat | ARead _ _ => false end.

Lemma astep_length a o : length (fst (astep a o)) = length a.
Proof.
  destruct o as [s vs|s n]; unfold astep.
  - destruct (s + length vs <=? length a)%nat eqn:E; [|reflexivity]. apply Nat.leb_le in E. apply splice_length. exact E.
  - destruct (_ <=? _)%nat; reflexivity.
Qed.

Lemma astep_keeps a o i d : covers o i = false -> nth i (fst (astep a o)) d = nth i a d.
Proof.
  destruct o as [s vs|s n]; unfold astep, covers; intros H.
  - destruct (s + length vs <=? length a)%nat eqn:E; [|reflexivity]. apply Nat.leb_le in E.
    cbn [fst]. rewrite splice_nth by exact E. rewrite H. reflexivity.
  - destruct (_ <=? _)%nat; reflexivity.
Qed.

Lemma arun_keeps : forall sched a i d, Forall (fun so => covers (snd so) i = false) sched ->
  nth i (fst (arun a sched)) d = nth i a d /\ length (fst (arun a sched)) = length a.
Proof.
  induction sched as [|[sid o] t IH]; intros a i d H; [split; reflexivity|].
  apply Forall_cons_iff in H as [Ho Ht]. cbn [snd] in Ho. cbn [arun].
  destruct (astep a o) as [a1 r] eqn:E. destruct (arun a1 t) as [a2 l] eqn:E2. cbn [fst].
  specialize (IH a1 i d Ht). rewrite E2 in IH. cbn [fst] in IH. destruct IH as [IH1 IH2].
  pose proof (astep_keeps a o i d Ho) as K. pose proof (astep_length a o) as L. rewrite E in K, L. cbn [fst] in K, L.
  split; congruence.
Qed.

Lemma arun_app a s1 s2 : fst (arun a (s1 ++ s2)) = fst (arun (fst (arun a s1)) s2).
Proof.
  revert a. induction s1 as [|[sid o] t IH]; intros a; [reflexivity|].
  cbn [app arun]. destruct (astep a o) as [a1 r] eqn:E.
  specialize (IH a1). destruct (arun a1 (t ++ s2)) as [a2 l] eqn:E2. destruct (arun a1 t) as [a3 l3] eqn:E3.
  cbn [fst] in *. exact IH.
Qed.

Theorem last_write_wins before sid s vs after a i d :
  (s + length vs <= length a)%nat -> (s <= i < s + length vs)%nat ->
  Forall (fun so => covers (snd so) i = false) after ->
  nth i (fst (arun a (before ++ (sid, AWrite s vs) :: after))) d = nth (i - s) vs d.
Proof.
  intros Hfit Hin Hafter.
  rewrite arun_app. set (a0 := fst (arun a before)).
  assert (length a0 = length a) as L0.
  { clear. subst a0. revert a. induction before as [|[sd o] t IH]; intros a; [reflexivity|].
    cbn [arun]. destruct (astep a o) as [a1 r] eqn:E. specialize (IH a1). destruct (arun a1 t) as [a2 l]. cbn [fst] in *.
    pose proof (astep_length a o) as L. rewrite E in L. cbn [fst] in L. congruence. }
  cbn [arun]. unfold astep at 1.
  assert ((s + length vs <=? length a0)%nat = true) as -> by (apply Nat.leb_le; lia).
  destruct (arun (splice a0 s vs) after) as [a2 l] eqn:E2. cbn [fst].
  pose proof (arun_keeps after (splice a0 s vs) i d Hafter) as [K _]. rewrite E2 in K. cbn [fst] in K. rewrite K.
  rewrite splice_nth by lia.
  assert (((s <=? i)%nat && (i <? s + length vs)%nat) = true) as ->
    by (apply andb_true_iff; split; [apply Nat.leb_le | apply Nat.ltb_lt]; lia).
  reflexivity.
Qed.
