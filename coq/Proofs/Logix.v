(* Proofs about Model/Logix.v: store effects of requests (C03, C05), list lemmas. *)
From Coq Require Import ZArith List Bool Lia ZifyBool Arith.
From CV Require Import Base.ListX Model.Logix.
Import ListNotations.
Open Scope Z_scope.

(* ---- list lemmas ------------------------------------------------------------------------------ *)

Lemma splice_length {A} (l : list A) b d : (b + length d <= length l)%nat -> length (splice l b d) = length l.
Proof.
  intros H. unfold splice. rewrite !app_length, firstn_length, skipn_length. lia.
Qed.

Lemma splice_nth {A} (l : list A) b d i : (b + length d <= length l)%nat ->
  nth_error (splice l b d) i =
  if (b <=? i)%nat && (i <? b + length d)%nat then nth_error d (i - b) else nth_error l i.
Proof.
  intros H. unfold splice.
  destruct (Nat.leb_spec b i) as [Hbi | Hbi]; cbn [andb].
  - rewrite nth_error_app2; rewrite firstn_length, Nat.min_l; try lia.
    destruct (Nat.ltb_spec i (b + length d)) as [Hid | Hid].
    + rewrite nth_error_app1; [reflexivity | lia].
    + rewrite nth_error_app2; [|lia]. rewrite nth_error_skipn. f_equal. lia.
  - rewrite nth_error_app1; [|rewrite firstn_length; lia]. apply nth_error_firstn; exact Hbi.
Qed.

Lemma splice_splice {A} (l : list A) b d1 d2 : (b + length d1 + length d2 <= length l)%nat ->
  splice (splice l b d1) (b + length d1) d2 = splice l b (d1 ++ d2).
Proof.
  intros H. apply nth_error_ext_eq. intros i.
  rewrite !splice_nth; rewrite ?splice_length, ?app_length; try lia.
  destruct (Nat.leb_spec b i), (Nat.leb_spec (b + length d1) i), (Nat.ltb_spec i (b + length d1)),
    (Nat.ltb_spec i (b + length d1 + length d2)), (Nat.ltb_spec i (b + (length d1 + length d2))); cbn [andb]; try lia; try reflexivity.
  - rewrite nth_error_app2; [f_equal; lia | lia].
  - rewrite nth_error_app1; [reflexivity | lia].
Qed.

Lemma set_nth_length {A} (l : list A) n x : length (set_nth l n x) = length l.
Proof. revert n; induction l as [|h t IH]; intros [|n]; simpl; auto. Qed.

Lemma set_nth_nth {A} (l : list A) n x j : (n < length l)%nat ->
  nth_error (set_nth l n x) j = if (j =? n)%nat then Some x else nth_error l j.
Proof.
  revert n j; induction l as [|h t IH]; intros [|n] [|j] H; simpl in *; try lia; auto.
  apply IH; lia.
Qed.

(* ---- store accessors -------------------------------------------------------------------------- *)

Definition attr_at (st : store) (k : nat) : option attr := nth_error (s_attrs st) k.

Lemma upd_attr_at st k a j : (k < length (s_attrs st))%nat ->
  attr_at (upd_attr st k a) j = if (j =? k)%nat then Some a else attr_at st j.
Proof. intros H. unfold attr_at, upd_attr; simpl. apply set_nth_nth; exact H. Qed.

Lemma attr_at_lt st k a : attr_at st k = Some a -> (k < length (s_attrs st))%nat.
Proof. unfold attr_at. intros H. apply nth_error_Some. congruence. Qed.

(* ---- reply_elements --------------------------------------------------------------------------- *)

Lemma reply_elements_inv is_read sz cnt idx elm off maxb nd e :
  reply_elements is_read sz cnt idx elm off maxb nd = Some e ->
  re_beg e = idx + off / sz /\
  re_endactual e = idx + elm /\
  re_offremains e = off - off / sz * sz /\
  re_end e = Z.min (idx + elm)
                   (if is_read then re_beg e + Z.max ((re_offremains e + maxb + sz - 1) / sz) 1 else re_beg e + nd) /\
  0 <= re_beg e < cnt /\ elm <= cnt /\ re_beg e < re_end e /\
  (is_read = false -> re_beg e + nd <= idx + elm).
Proof.
  unfold reply_elements.
  set (beg := idx + off / sz). set (offr := off - off / sz * sz).
  set (endmax := if is_read then _ else _).
  destruct (negb is_read && negb (endmax <=? idx + elm)) eqn:E1; [discriminate|].
  destruct (negb ((0 <=? beg) && (beg <? cnt))) eqn:E2; [discriminate|].
  destruct (negb (elm <=? cnt)) eqn:E3; [discriminate|].
  destruct (negb (beg <? Z.min (idx + elm) endmax)) eqn:E4; [discriminate|].
  intros H; inversion H; subst; clear H; cbn [re_beg re_end re_endactual re_offremains].
  subst endmax. repeat split; try lia.
Qed.

(* ---- writes: exact store effect ---------------------------------------------------------------- *)

Definition wf_attr (a : attr) : Prop := a_scalar a = true -> length (a_vals a) = 1%nat.
Definition wf_store (st : store) : Prop := Forall wf_attr (s_attrs st).

Definition fail_code (s : Z) (e : list Z) : Prop :=
  (s = 5 /\ e = [0]) \/ (s = 255 /\ e = [8455]) \/ (s = 255 /\ e = [8453]).

(* the element window a write request addresses: begin index from the path element and byte offset *)
Definition wbeg (a : attr) (p : path) (frag : bool) (off : Z) : Z :=
  path_elem p + (if frag then off else 0) / siz (a_ty a).

Lemma exec_write_cases q st r p frag ty n off data st' rp :
  wf_store st ->
  exec_write q st r p frag ty n off data = (st', rp) ->
  (st' = st /\ exists s e, rp = RFail (rsvc r) s e /\ fail_code s e)
  \/
  (rp = RWrite (rsvc r) /\
   exists k a, lookup st p = Some k /\ attr_at st k = Some a /\
     (exists t, ty_of_code ty = Some t /\ allowed (a_ty a) t = true) /\
     0 <= wbeg a p frag off /\ 1 <= Z.of_nat (length data) /\
     wbeg a p frag off + Z.of_nat (length data) <= Z.of_nat (length (a_vals a)) /\
     wbeg a p frag off + Z.of_nat (length data) <= path_elem p + n /\
     (q_fit q = true -> pack_all (a_ty a) data <> None) /\
     st' = upd_attr st k (Attr (a_ty a) (a_scalar a) (splice (a_vals a) (Z.to_nat (wbeg a p frag off)) data))).
Proof.
  intros Hwf. unfold exec_write.
  destruct (lookup st p) as [k|] eqn:Hl; [|intros H; inversion H; left; split; auto; eexists _, _; split; eauto; left; auto].
  destruct (nth_error (s_attrs st) k) as [a|] eqn:Ha; [|intros H; inversion H; left; split; auto; eexists _, _; split; eauto; left; auto].
  destruct (negb _) eqn:Ety.
  { intros H; inversion H; left; split; auto; eexists _, _; split; eauto; right; left; auto. }
  destruct (reply_elements _ _ _ _ _ _ _ _) as [e|] eqn:Ere.
  2:{ intros H; inversion H; left; split; auto; eexists _, _; split; eauto; right; right; auto. }
  destruct (q_fit q && _) eqn:Efit.
  { intros H; inversion H; left; split; auto; eexists _, _; split; eauto; right; left; auto. }
  destruct (negb (re_end e <=? alen a)) eqn:Een.
  { intros H; inversion H; left; split; auto; eexists _, _; split; eauto; right; right; auto. }
  intros H; inversion H; subst; clear H. right. split; [reflexivity|].
  apply reply_elements_inv in Ere as (Hb & Hea & Hor & He & Hb0 & Helm & Hbe & Hw).
  specialize (Hw eq_refl).
  assert (re_beg e = wbeg a p frag off) as Hwb by (unfold wbeg; exact Hb).
  assert (re_end e = re_beg e + Z.of_nat (length data)) as Hend by lia.
  exists k, a. split; [reflexivity|]. split; [exact Ha|]. split.
  { destruct (ty_of_code ty) as [t|]; [|discriminate]. exists t. split; auto. destruct (allowed _ _); auto; discriminate. }
  assert (Forall wf_attr (s_attrs st)) as Hwf' by exact Hwf.
  rewrite Forall_forall in Hwf'. specialize (Hwf' a (nth_error_In _ _ Ha)). unfold wf_attr in Hwf'.
  unfold alen in *.
  rewrite <- Hwb. repeat split; try lia.
  - intros Hq. rewrite Hq in Efit. simpl in Efit. destruct (pack_all _ _); [discriminate | discriminate].
  - f_equal. f_equal. destruct (a_scalar a) eqn:Es; [|reflexivity].
    specialize (Hwf' eq_refl). destruct (a_vals a) as [|v [|? ?]]; simpl in Hwf'; try discriminate.
    assert (re_beg e = 0) as -> by lia. assert (length data = 1%nat) as Hd by lia.
    destruct data as [|d [|? ?]]; simpl in Hd; try discriminate. reflexivity.
Qed.

(* ---- reads ------------------------------------------------------------------------------------- *)

Definition budget_elems (maxb sz : Z) : Z := Z.max ((maxb + sz - 1) / sz) 1.

Lemma siz_pos t : 1 <= siz t.
Proof. destruct t; simpl; lia. Qed.

Lemma exec_read_cases maxb st r p frag n off rp :
  exec_read maxb st r p frag n off = rp ->
  (exists s e, rp = RFail (rsvc r) s e /\ ((s = 5 /\ e = [0]) \/ (s = 255 /\ e = [8453])))
  \/
  (exists k a cnt, lookup st p = Some k /\ attr_at st k = Some a /\
     let sz := siz (a_ty a) in let o := if frag then off else 0 in
     let beg := path_elem p + o / sz in
     o - o / sz * sz = 0 /\ 0 <= beg /\ 1 <= cnt /\ beg + cnt <= alen a /\ n <= alen a /\
     cnt = Z.min (n - o / sz) (budget_elems maxb sz) /\
     rp = RRead (rsvc r) (if beg + cnt =? path_elem p + n then 0 else 6) (a_ty a)
                (firstn (Z.to_nat cnt) (skipn (Z.to_nat beg) (a_vals a)))).
Proof.
  unfold exec_read. intros <-.
  destruct (lookup st p) as [k|] eqn:Hl; [|left; eexists _, _; split; eauto].
  destruct (nth_error (s_attrs st) k) as [a|] eqn:Ha; [|left; eexists _, _; split; eauto].
  destruct (reply_elements _ _ _ _ _ _ _ _) as [e|] eqn:Ere; [|left; eexists _, _; split; eauto].
  destruct (negb (re_end e <=? alen a)) eqn:Een; [left; eexists _, _; split; eauto|].
  destruct (negb (re_offremains e =? 0)) eqn:Eor; [left; eexists _, _; split; eauto|].
  right. apply reply_elements_inv in Ere as (Hb & Hea & Hor & He & Hb0 & Helm & Hbe & _).
  exists k, a, (re_end e - re_beg e). split; [reflexivity|]. split; [exact Ha|].
  cbv zeta. unfold budget_elems.
  assert (re_offremains e = 0) as Hz by lia. rewrite Hz, Z.add_0_l in He. rewrite <- Hor, Hz, <- Hb.
  set (B := Z.max ((maxb + siz (a_ty a) - 1) / siz (a_ty a)) 1) in *. clearbody B.
  set (q := (if frag then off else 0) / siz (a_ty a)) in *. clearbody q.
  repeat split; try lia.
  rewrite Hea. replace (re_beg e + (re_end e - re_beg e)) with (re_end e) by lia.
  reflexivity.
Qed.

Lemma reply_elements_read_ok sz cnt idx elm j maxb :
  1 <= sz -> 0 <= idx -> 0 <= j < elm -> idx + elm <= cnt ->
  reply_elements true sz cnt idx elm (j * sz) maxb 0 =
  Some (RE (idx + j) (Z.min (idx + elm) (idx + j + budget_elems maxb sz)) (idx + elm) 0).
Proof.
  intros Hsz Hidx Hj Hc. unfold reply_elements, budget_elems.
  rewrite Z.div_mul by lia. replace (j * sz - j * sz) with 0 by lia. rewrite Z.add_0_l.
  cbn [negb andb].
  set (B := Z.max ((maxb + sz - 1) / sz) 1). assert (1 <= B) by (subst B; lia).
  destruct (negb ((0 <=? idx + j) && (idx + j <? cnt))) eqn:E1; [lia|].
  destruct (negb (elm <=? cnt)) eqn:E2; [lia|].
  destruct (negb (idx + j <? Z.min (idx + elm) (idx + j + B))) eqn:E3; [lia|].
  reflexivity.
Qed.

Lemma reply_elements_write_ok sz cnt idx elm j nd :
  1 <= sz -> 0 <= idx -> 0 <= j -> 1 <= nd -> j + nd <= elm -> idx + j < cnt -> elm <= cnt ->
  reply_elements false sz cnt idx elm (j * sz) 0 nd =
  Some (RE (idx + j) (idx + j + nd) (idx + elm) 0).
Proof.
  intros Hsz Hidx Hj Hnd He Hc Hec. unfold reply_elements.
  rewrite Z.div_mul by lia. replace (j * sz - j * sz) with 0 by lia.
  cbn [negb].
  destruct (true && negb (idx + j + nd <=? idx + elm)) eqn:E0; [lia|].
  destruct (negb ((0 <=? idx + j) && (idx + j <? cnt))) eqn:E1; [lia|].
  destruct (negb (elm <=? cnt)) eqn:E2; [lia|].
  destruct (negb (idx + j <? Z.min (idx + elm) (idx + j + nd))) eqn:E3; [lia|].
  f_equal. f_equal. lia.
Qed.

(* ---- invariants: well-formedness and readability ------------------------------------------------ *)

Definition readable_attr (a : attr) : Prop := Forall (fun v => pack (a_ty a) v <> None) (a_vals a).
Definition readable (st : store) : Prop := Forall readable_attr (s_attrs st).

Lemma pack_all_some t vs : pack_all t vs <> None <-> Forall (fun v => pack t v <> None) vs.
Proof.
  induction vs as [|v r IH]; simpl.
  - split; [constructor | discriminate].
  - destruct (pack t v) eqn:E.
    + destruct (pack_all t r) eqn:E'.
      * split; [intros _; constructor; [congruence | apply IH; discriminate] | discriminate].
      * split; [congruence|]. intros H. inversion H; subst. apply IH in H3. congruence.
    + split; [congruence|]. intros H. inversion H; subst. congruence.
Qed.

Lemma Forall_set_nth {A} (P : A -> Prop) l n x : Forall P l -> P x -> Forall P (set_nth l n x).
Proof.
  revert n; induction l as [|h t IH]; intros [|n] Hl Hx; simpl; auto; inversion Hl; subst; constructor; auto.
Qed.

Lemma Forall_splice {A} (P : A -> Prop) l b d : Forall P l -> Forall P d -> Forall P (splice l b d).
Proof.
  intros Hl Hd. unfold splice. rewrite !Forall_app. repeat split; auto.
  - rewrite Forall_forall in *. intros x Hx. apply Hl. eapply In_firstn; exact Hx.
  - rewrite Forall_forall in *. intros x Hx. apply Hl. eapply In_skipn; exact Hx.
Qed.

(* ---- shape preservation -------------------------------------------------------------------------- *)

Definition same_shape (st st' : store) : Prop :=
  s_dir st' = s_dir st /\ s_sym st' = s_sym st /\ length (s_attrs st') = length (s_attrs st) /\
  forall k a, attr_at st k = Some a ->
    exists a', attr_at st' k = Some a' /\ a_ty a' = a_ty a /\ a_scalar a' = a_scalar a /\
               length (a_vals a') = length (a_vals a).

Lemma same_shape_refl st : same_shape st st.
Proof. repeat split; auto. intros k a H; exists a; auto. Qed.

Lemma same_shape_trans a b c : same_shape a b -> same_shape b c -> same_shape a c.
Proof.
  intros (H1 & H2 & H3 & H4) (G1 & G2 & G3 & G4). repeat split; try congruence.
  intros k x Hx. destruct (H4 k x Hx) as (y & Hy & E1 & E2 & E3).
  destruct (G4 k y Hy) as (z & Hz & F1 & F2 & F3). exists z; repeat split; congruence.
Qed.

Lemma same_shape_upd st k a a' : attr_at st k = Some a ->
  a_ty a' = a_ty a -> a_scalar a' = a_scalar a -> length (a_vals a') = length (a_vals a) ->
  same_shape st (upd_attr st k a').
Proof.
  intros Ha E1 E2 E3. pose proof (attr_at_lt _ _ _ Ha) as Hlt. repeat split; auto.
  - simpl. apply set_nth_length.
  - intros j x Hx. rewrite upd_attr_at by exact Hlt. destruct (Nat.eqb_spec j k) as [->|Hne].
    + exists a'. assert (x = a) by congruence. subst. auto.
    + exists x; auto.
Qed.

Lemma lookup_shape st st' p : same_shape st st' -> lookup st' p = lookup st p.
Proof. intros (H1 & H2 & _). unfold lookup, resolve. rewrite H1, H2. reflexivity. Qed.

Lemma wf_upd st k a' : wf_store st -> wf_attr a' -> wf_store (upd_attr st k a').
Proof. intros H Ha. unfold wf_store, upd_attr; simpl. apply Forall_set_nth; auto. Qed.

Lemma readable_upd st k a' : readable st -> readable_attr a' -> readable (upd_attr st k a').
Proof. intros H Ha. unfold readable, upd_attr; simpl. apply Forall_set_nth; auto. Qed.

Lemma wf_attr_of st k a : wf_store st -> attr_at st k = Some a -> wf_attr a.
Proof. intros H Ha. unfold wf_store in H. rewrite Forall_forall in H. apply H. eapply nth_error_In; eauto. Qed.

Lemma readable_attr_of st k a : readable st -> attr_at st k = Some a -> readable_attr a.
Proof. intros H Ha. unfold readable in H. rewrite Forall_forall in H. apply H. eapply nth_error_In; eauto. Qed.

Lemma exec_write_inv q st r p frag ty n off data st' rp :
  wf_store st -> exec_write q st r p frag ty n off data = (st', rp) ->
  same_shape st st' /\ wf_store st' /\ (q_fit q = true -> readable st -> readable st').
Proof.
  intros Hwf H. destruct (exec_write_cases _ _ _ _ _ _ _ _ _ _ _ Hwf H) as [(-> & _) | (_ & k & a & Hl & Ha & _ & Hb0 & Hd1 & Hfit1 & _ & Hfit & ->)].
  - split; [apply same_shape_refl|]. split; auto.
  - assert (length (splice (a_vals a) (Z.to_nat (wbeg a p frag off)) data) = length (a_vals a)) as Hlen
      by (apply splice_length; lia).
    split; [|split].
    + eapply same_shape_upd; eauto.
    + apply wf_upd; auto. unfold wf_attr; simpl. intros Hs. rewrite Hlen. eapply wf_attr_of; eauto.
    + intros Hq Hr. apply readable_upd; auto. unfold readable_attr; simpl.
      apply Forall_splice; [eapply readable_attr_of; eauto | apply pack_all_some; auto].
Qed.

(* ---- Set Attribute Single: bytes -> values ------------------------------------------------------- *)

Definition is_byte (b : Z) : Prop := 0 <= b < 256.

Lemma le_val_bound bs : Forall is_byte bs -> 0 <= le_val bs < 256 ^ Z.of_nat (length bs).
Proof.
  induction 1 as [|b t Hb Ht IH]; [simpl; lia|].
  cbn [le_val length]. rewrite Nat2Z.inj_succ, Z.pow_succ_r by lia. unfold is_byte in Hb. lia.
Qed.

Lemma chunks_length n sz bs : length (chunks n sz bs) = n.
Proof. revert bs; induction n; intros; simpl; auto. Qed.

Lemma chunks_forall n sz bs : (length bs = n * sz)%nat -> Forall is_byte bs ->
  Forall (fun c => length c = sz /\ Forall is_byte c) (chunks n sz bs).
Proof.
  revert bs; induction n as [|n IH]; intros bs Hl Hb; simpl; constructor.
  - split; [rewrite firstn_length; lia|]. rewrite Forall_forall in *. intros x Hx. apply Hb. eapply In_firstn; eauto.
  - apply IH; [rewrite skipn_length; lia|]. rewrite Forall_forall in *. intros x Hx. apply Hb. eapply In_skipn; eauto.
Qed.

Lemma pack_unpack_raw t c : length c = Z.to_nat (siz t) -> Forall is_byte c -> pack t (unpack_raw t c) <> None.
Proof.
  intros Hl Hb. pose proof (le_val_bound c Hb) as Hv. rewrite Hl in Hv.
  destruct t; cbn [siz] in Hv; unfold unpack_raw, unpack1, pack, in_range;
    change (256 ^ Z.of_nat (Z.to_nat 1)) with 256 in Hv;
    change (256 ^ Z.of_nat (Z.to_nat 2)) with 65536 in Hv;
    change (256 ^ Z.of_nat (Z.to_nat 4)) with 4294967296 in Hv;
    change (256 ^ Z.of_nat (Z.to_nat 8)) with 18446744073709551616 in Hv;
    try discriminate.
  all: repeat match goal with |- context [if (?a <? ?b) then _ else _] => destruct (a <? b) eqn:? end.
  all: repeat match goal with |- context [if (?a =? ?b) then _ else _] => destruct (a =? b) eqn:? end.
  all: try (match goal with |- context [if ?c then _ else _] => destruct c eqn:? end); try discriminate; try lia.
Qed.

Definition req_ok (r : req) : Prop :=
  match r with SetAttr _ bytes => Forall is_byte bytes | _ => True end.

Lemma exec_set_cases q st p bytes st' rp :
  exec_set q st p bytes = (st', rp) ->
  (st' = st /\ rp = RFail 144 8 [])
  \/
  (rp = RSet /\ exists c i a k at_, p = PNum c i (Some a) None /\ attr_target q st c i a = Some k /\
     attr_at st k = Some at_ /\ Z.of_nat (length bytes) = siz (a_ty at_) * alen at_ /\
     st' = upd_attr st k (Attr (a_ty at_) (a_scalar at_)
             (map (unpack_raw (a_ty at_)) (chunks (Z.to_nat (alen at_)) (Z.to_nat (siz (a_ty at_))) bytes)))).
Proof.
  unfold exec_set.
  destruct p as [? ?|c i [a|] [e|]]; try (intros H; inversion H; left; auto; fail).
  destruct (attr_target q st c i a) as [k|] eqn:Ht; [|intros H; inversion H; left; auto].
  destruct (nth_error (s_attrs st) k) as [at_|] eqn:Ha; [|intros H; inversion H; left; auto].
  destruct (_ =? _) eqn:El; intros H; inversion H; [|left; auto].
  right. split; auto. exists c, i, a, k, at_. repeat split; auto. lia.
Qed.

Lemma exec_set_inv q st p bytes st' rp :
  wf_store st -> Forall is_byte bytes -> exec_set q st p bytes = (st', rp) ->
  same_shape st st' /\ wf_store st' /\ (readable st -> readable st').
Proof.
  intros Hwf Hb H. destruct (exec_set_cases _ _ _ _ _ _ H) as [(-> & _) | (_ & c & i & a & k & at_ & _ & _ & Ha & Hl & ->)].
  - split; [apply same_shape_refl | auto].
  - pose proof (wf_attr_of _ _ _ Hwf Ha) as Hwa. unfold wf_attr in Hwa.
    assert (length (map (unpack_raw (a_ty at_)) (chunks (Z.to_nat (alen at_)) (Z.to_nat (siz (a_ty at_))) bytes))
            = length (a_vals at_)) as Hlen.
    { rewrite map_length, chunks_length. unfold alen. destruct (a_scalar at_); [rewrite Hwa by auto; reflexivity | lia]. }
    split; [|split].
    + eapply same_shape_upd; eauto.
    + apply wf_upd; auto. unfold wf_attr; simpl. intros Hs. rewrite Hlen. auto.
    + intros Hr. apply readable_upd; auto. unfold readable_attr; simpl.
      rewrite Forall_map. pose proof (siz_pos (a_ty at_)).
      assert (0 <= alen at_) by (unfold alen; destruct (a_scalar at_); lia).
      eapply Forall_impl; [|apply chunks_forall; [|exact Hb]].
      * intros ch (Hcl & Hcb). apply pack_unpack_raw; auto.
      * nia.
Qed.

Definition is_fail (rp : reply) : Prop := match rp with RFail _ _ _ => True | _ => False end.

(* one non-bundled request: shape, invariants, and "a refused request changes nothing" *)
Lemma exec1_inv q maxb st r st' rp :
  wf_store st -> req_ok r -> exec1 q maxb st r = (st', rp) ->
  same_shape st st' /\ wf_store st' /\ (q_fit q = true -> readable st -> readable st') /\
  (is_fail rp -> st' = st).
Proof.
  intros Hwf Hok. destruct r; cbn [exec1]; intros H.
  1,2,5,7: inversion H; subst; split; [apply same_shape_refl | repeat split; auto].
  - destruct (exec_write_inv _ _ _ _ _ _ _ _ _ _ _ Hwf H) as (H1 & H2 & H3). split; [exact H1|]. split; [exact H2|]. split; [auto|].
    intros Hf. destruct (exec_write_cases _ _ _ _ _ _ _ _ _ _ _ Hwf H) as [(-> & _) | (-> & _)]; [auto | destruct Hf].
  - destruct (exec_write_inv _ _ _ _ _ _ _ _ _ _ _ Hwf H) as (H1 & H2 & H3). split; [exact H1|]. split; [exact H2|]. split; [auto|].
    intros Hf. destruct (exec_write_cases _ _ _ _ _ _ _ _ _ _ _ Hwf H) as [(-> & _) | (-> & _)]; [auto | destruct Hf].
  - simpl in Hok. destruct (exec_set_inv _ _ _ _ _ _ Hwf Hok H) as (H1 & H2 & H3). split; [exact H1|]. split; [exact H2|]. split; [auto|].
    intros Hf. destruct (exec_set_cases _ _ _ _ _ _ H) as [(-> & _) | (-> & _)]; [auto | destruct Hf].
Qed.

(* ---- replies of a readable store always produce bytes ------------------------------------------ *)

Lemma Forall_firstn {A} (P : A -> Prop) n l : Forall P l -> Forall P (firstn n l).
Proof. rewrite !Forall_forall. intros H x Hx. apply H. eapply In_firstn; eauto. Qed.
Lemma Forall_skipn {A} (P : A -> Prop) n l : Forall P l -> Forall P (skipn n l).
Proof. rewrite !Forall_forall. intros H x Hx. apply H. eapply In_skipn; eauto. Qed.

Lemma produce_read_total maxb st r p frag n off : readable st ->
  produce (exec_read maxb st r p frag n off) <> None.
Proof.
  intros Hr.
  destruct (exec_read_cases maxb st r p frag n off _ eq_refl)
    as [(s & e & -> & _) | (k & a & cnt & _ & Ha & H)]; [simpl; discriminate|].
  cbv zeta in H. destruct H as (_ & _ & _ & _ & _ & _ & ->). cbn [produce].
  match goal with |- context [pack_all ?t ?v] => assert (pack_all t v <> None) as Hp end.
  { apply pack_all_some. apply Forall_firstn, Forall_skipn. eapply readable_attr_of; eauto. }
  destruct (pack_all _ _); [discriminate | congruence].
Qed.

Lemma produce1_total q maxb st r : readable st -> produce (snd (exec1 q maxb st r)) <> None.
Proof.
  intros Hr. destruct r; cbn [exec1 snd].
  - apply produce_read_total; auto.
  - apply produce_read_total; auto.
  - unfold exec_write. repeat (match goal with |- context [match ?x with _ => _ end] => destruct x eqn:? end); simpl; discriminate.
  - unfold exec_write. repeat (match goal with |- context [match ?x with _ => _ end] => destruct x eqn:? end); simpl; discriminate.
  - unfold exec_get. repeat (match goal with |- context [match ?x with _ => _ end] => destruct x eqn:? end); simpl; discriminate.
  - unfold exec_set. repeat (match goal with |- context [match ?x with _ => _ end] => destruct x eqn:? end); simpl; discriminate.
  - simpl. discriminate.
Qed.
