(* Extraction of the executable models for the correspondence checks.
   Only ExtrOcamlBasic's directives are used; Z, positive, nat stay inductive. *)
Require Extraction.
Require ExtrOcamlBasic.
From Coq Require Import ZArith List.
From CV Require Import Model.RunPlc Model.RunLogix Model.RunTnet Model.RunRoute Model.RunDotdict Model.RunCodec Model.RunEngine Model.RunRegex Model.RunSource Model.RunFraming Model.RunTimes Model.RunHistory Model.RunSession Model.RunClient Model.RunConcurrent Model.RunConnected.
Extraction Language OCaml.
Definition z_ten := 10%Z.
Extraction "model.ml" z_ten Z.add Z.mul Z.opp Z.div_eucl Z.eqb Z.ltb run_plc run_logix run_tnet run_route run_dotdict run_codec run_engine run_regex run_source run_framing run_times run_history run_session run_client run_concurrent run_connected.
