(* Property C14: independent Logix client implementations interoperate with the simulator.
   Statements only; proofs in Proofs/Connected.v (connected sessions), Base/Fmt.v + Model/Codec.v (the reference
   encoder / decoder the raw client of props/c14.py is built from), Proofs/Logix*.v (the array model).
   What "an independent client obtains" is a runtime fact about two programs talking over TCP: props/c14.py runs
   pylogix and a raw client assembled from the reference codec against the live simulator. *)
From Coq Require Import ZArith List Bool.
From CV Require Import Base.Fmt Model.Logix Model.Codec Model.Connected Proofs.Connected.
Import ListNotations.
Open Scope Z_scope.

(* requests carried over Forward Open connections are answered with exactly the CIP replies, and leave exactly the
   tags, of the same requests issued unconnected (i.e. of the array model, C03-C05) *)
Theorem C14_connected_equals_unconnected : forall maxb qs s,
  let (s', rs) := crun maxb s qs in
  c_store s' = fst (run_unconnected maxb (c_store s) (requests_of qs)) /\
  sent_replies rs = snd (run_unconnected maxb (c_store s) (requests_of qs)).
Proof. exact connected_equals_unconnected. Qed.
Print Assumptions C14_connected_equals_unconnected.

(* every connected reply echoes its request's sequence count *)
Theorem C14_sequence_echoed : forall maxb qs s, seqs_rep (snd (crun maxb s qs)) = seqs_req qs.
Proof. exact sequence_echoed. Qed.
Print Assumptions C14_sequence_echoed.

(* the sequence count is an unsigned 16-bit field: every value 0 .. 65535 survives the wire *)
Theorem C14_sequence_count_wire : forall v tl, 0 <= v < 65536 -> dec (uint 2) (enc (uint 2) v ++ tl) = Some (v, tl).
Proof. exact sequence_count_wire. Qed.
Print Assumptions C14_sequence_count_wire.

(* Forward Close removes exactly the connection with that serial and touches no tag *)
Theorem C14_close : forall maxb s serial,
  let s' := fst (cstep maxb s (CClose serial)) in
  (forall id f, lookup_fwd id (c_fwd s') = Some f -> f_serial f <> serial) /\ c_store s' = c_store s.
Proof. exact close_removes. Qed.
Print Assumptions C14_close.

(* the reference codec the raw client is assembled from: Connection Manager services and whole frames (incl. the
   connection_ID / connection_data items of SendUnitData) decode what they encode and only that *)
Theorem C14_reference_cm : forall bs m, edec cm bs = Some m -> bs = eenc cm m /\ eok cm m.
Proof. exact (ert_dec cm). Qed.
Print Assumptions C14_reference_cm.

Theorem C14_reference_frame : forall bs m tl, dec frame bs = Some (m, tl) -> bs = enc frame m ++ tl /\ ok frame m.
Proof. exact (rt_dec frame). Qed.
Print Assumptions C14_reference_frame.

Definition ex_store : store :=
  Store [Attr DINT false [VI 1; VI 2; VI 3]] [((2, 1, 1), 0%nat)] [(1, (2, 1, 1))].
Example C14_nonvacuous :
  let qs := [COpen 77 (Fwd 5 1); CSend 77 65535 (WriteTag (PSym 1 (Some 1)) 196 1 [VI 9]);
             CSend 77 0 (ReadTag (PSym 1 None) 3); CClose 5] in
  snd (crun 488 (CS ex_store []) qs) =
    [ROpened 77; RSent 65535 (Some [205; 0; 0; 0]);
     RSent 0 (Some [204; 0; 0; 0; 196; 0; 1; 0; 0; 0; 9; 0; 0; 0; 3; 0; 0; 0]); RClosed].
Proof. vm_compute. reflexivity. Qed.
Print Assumptions C14_nonvacuous.
