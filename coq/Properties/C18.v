(* Property C18: history replay delivers every logged record exactly once, in order, on time.
   Statements only; proofs in Proofs/History.v over Model/History.v.
   What holds for every history, look-ahead, limit and schedule is proved (order, content, not-early, final map,
   file selection).  "Exactly once" is FALSE of the faithful model - and of the code: three machine-checked
   witnesses below, replayed against cpppo by props/c18.py and recorded in known_findings.json. *)
From Coq Require Import ZArith List Bool.
From CV Require Import Model.History Proofs.History Proofs.HistoryOnce.
Import ListNotations.
Open Scope Z_scope.

(* ---- proved for all histories and schedules ---- *)
Theorem C18_guarantees : forall files look limit sched l' evss,
  replay files look limit sched init = (l', evss) ->
  let delivered := concat evss in
  chain delivered /\
  Forall (from_history files) delivered /\
  Forall2 (fun now evs => not_early now look evs) sched evss /\
  (l_state l' = COMPLETE -> l_values l' = apply_events delivered []).
Proof. exact replay_guarantees. Qed.
Print Assumptions C18_guarantees.

(* the file chosen when switching (after=True): the last of the leading run of files beginning at/after the last
   delivered timestamp (strictly after it while _strict holds); None = history exhausted *)
Theorem C18_select_next : forall files idx target strict best r,
  select files idx target true strict best = r ->
  exists k, (k <= length files)%nat /\
    Forall (fun f => sel_after target strict f = true) (firstn k files) /\
    (match nth_error files k with Some f => sel_after target strict f = false | None => True end) /\
    r = (match k with O => best | S j => Some (idx + j)%nat end).
Proof. exact select_after_spec. Qed.
Print Assumptions C18_select_next.

(* the file chosen initially (after=False): the newest file beginning at/before the start, else the oldest *)
Theorem C18_select_initial : forall files idx target strict best r,
  select files idx target false strict best = r ->
  (exists k f, nth_error files k = Some f /\ sel_before target strict f = true /\
               Forall (fun g => sel_before target strict g = false) (firstn k files) /\ r = Some (idx + k)%nat) \/
  (Forall (fun g => sel_before target strict g = false) files /\
   r = match files with [] => best | _ => Some (idx + length files - 1)%nat end).
Proof. exact select_before_spec. Qed.
Print Assumptions C18_select_initial.

(* ---- exactly once, where it holds ----
   A replay that starts before a well-behaved history begins and then catches up delivers every logged record
   exactly once, in logged order: the delivered sequence IS the log.  Well-behaved = every file holds at least two
   records, all register data, timestamps strictly increasing (>= 2 ms apart), every older file ends strictly
   before every newer one begins - i.e. none of the three recorded shapes.  (Partial: one schedule shape - start
   before the history, then one catching-up load; other schedules are covered by the correspondence and the
   universal guarantees above.) *)
Theorem C18_exactly_once_partial : forall files pre old look t0 T,
  files = pre ++ [old] -> ordered files -> Forall nice_file files -> 0 <= look ->
  tgt (first_ts old) (t0 + look) = true ->
  Forall (Forall (due T look)) files ->
  concat (snd (replay files look None [t0; T] init)) = HistoryOnce.logged files.
Proof. exact exactly_once. Qed.
Print Assumptions C18_exactly_once_partial.

Definition h_nice : list file :=
  [ [Rec 500 (PRegs [(40001, 5)]); Rec 600 (PRegs [(40002, 6)])];
    [Rec 300 (PRegs [(40001, 3)]); Rec 350 (PRegs [(40003, 9)]); Rec 400 (PRegs [(40001, 4)])];
    [Rec 100 (PRegs [(40001, 1); (40002, 1)]); Rec 250 (PRegs [(40002, 2)])] ].
Example C18_exactly_once_premises_hold :
  ordered h_nice /\ Forall nice_file h_nice /\ tgt (first_ts (last h_nice [])) (50 + 20) = true /\
  Forall (Forall (due 1000 20)) h_nice /\
  concat (snd (replay h_nice 20 None [50; 1000] init)) = HistoryOnce.logged h_nice.
Proof.
  split; [|split; [|split; [|split]]].
  - simpl. repeat split; repeat constructor.
  - unfold nice_file, is_regs. repeat econstructor.
  - reflexivity.
  - repeat constructor.
  - vm_compute. reflexivity.
Qed.
Print Assumptions C18_exactly_once_premises_hold.

(* ---- the full statement, and why it is refuted ---- *)
Definition data_of (f : file) : list event :=
  flat_map (fun r => match r_pay r with PRegs l => [(r_ts r, l)] | _ => [] end) f.
Definition logged (files : list file) : list event := flat_map data_of (rev files).      (* oldest file first *)
Definition delivered (files : list file) (look : Z) (limit : option Z) (sched : list Z) : list event :=
  concat (snd (replay files look limit sched init)).
Definition final_state files look limit sched := l_state (fst (replay files look limit sched init)).

Definition exactly_once files look limit sched : Prop := delivered files look limit sched = logged files.

(* it does hold on an ordinary history (three rotated files, increasing timestamps, paced replay with look-ahead) *)
Definition h_ok : list file :=
  [ [Rec 500 (PRegs [(40001, 5)]); Rec 600 (PRegs [(40002, 6)])];
    [Rec 300 (PRegs [(40001, 3)]); Rec 350 PNote; Rec 400 (PRegs [(40001, 4)])];
    [Rec 100 (PRegs [(40001, 1); (40002, 1)]); Rec 200 PBad; Rec 250 (PRegs [(40002, 2)])] ].
Example C18_nonvacuous :
  exactly_once h_ok 20 None [50; 150; 260; 290; 420; 520; 700; 1700] /\
  final_state h_ok 20 None [50; 150; 260; 290; 420; 520; 700; 1700] = COMPLETE /\
  l_values (fst (replay h_ok 20 None [50; 150; 260; 290; 420; 520; 700; 1700] init)) = [(40001, 5); (40002, 6)].
Proof. repeat split; vm_compute; reflexivity. Qed.
Print Assumptions C18_nonvacuous.

(* (a) the newest file holds one record that is still in the future when the file is opened: _strict is released
   on that record (state AWAITING is not excluded by the release rule), the file is opened again: delivered twice *)
Definition h_a : list file := [ [Rec 300 (PRegs [(40001, 7)])]; [Rec 100 (PRegs [(40001, 5)]); Rec 200 (PRegs [(40001, 6)])] ].
Theorem C18_exactly_once_refuted_redelivery :
  delivered h_a 0 None [50; 250; 400; 1400; 2400] = [(100, [(40001, 5)]); (200, [(40001, 6)]); (300, [(40001, 7)]); (300, [(40001, 7)])] /\
  ~ exactly_once h_a 0 None [50; 250; 400; 1400; 2400].
Proof. split; [vm_compute; reflexivity | unfold exactly_once; vm_compute; discriminate]. Qed.
Print Assumptions C18_exactly_once_refuted_redelivery.

(* (b) a file whose records all carry timestamp T (so _strict is never released) followed by a file that starts at
   T: the strict selection skips the newer file altogether; replay completes without its records *)
Definition h_b : list file :=
  [ [Rec 200 (PRegs [(40001, 9)]); Rec 300 (PRegs [(40001, 8)])];
    [Rec 200 (PRegs [(40001, 5)]); Rec 200 (PRegs [(40002, 6)])];
    [Rec 100 (PRegs [(40001, 1)]); Rec 150 (PRegs [(40001, 2)])] ].
Theorem C18_exactly_once_refuted_skip :
  delivered h_b 0 None [50; 1000; 2000; 3000] =
    [(100, [(40001, 1)]); (150, [(40001, 2)]); (200, [(40001, 5)]); (200, [(40002, 6)])] /\
  final_state h_b 0 None [50; 1000; 2000; 3000] = COMPLETE /\
  ~ exactly_once h_b 0 None [50; 1000; 2000; 3000].
Proof. split; [vm_compute; reflexivity | split; [vm_compute; reflexivity | unfold exactly_once; vm_compute; discriminate]]. Qed.
Print Assumptions C18_exactly_once_refuted_skip.

(* (c) a file whose only data record is its first, followed by a corrupt (or note / null) record with a later
   timestamp: that record releases _strict while _ts stays at the file's first timestamp, so the same file is
   selected again - for ever.  With limit=1 every load() re-delivers the record; without a limit load() never
   returns (the model's fuel runs out: FAILED) *)
Definition h_c : list file :=
  [ [Rec 20 (PRegs [(40001, 2)]); Rec 40 (PRegs [(40001, 4)])]; [Rec 10 (PRegs [(40001, 1)]); Rec 20 PBad] ].
Theorem C18_exactly_once_refuted_loop :
  delivered h_c 0 (Some 1) [0; 100; 200; 300; 400] = [(10, [(40001, 1)]); (10, [(40001, 1)]); (10, [(40001, 1)]); (10, [(40001, 1)])] /\
  final_state h_c 0 None [0; 100] = FAILED /\
  ~ exactly_once h_c 0 (Some 1) [0; 100; 200; 300; 400].
Proof. split; [vm_compute; reflexivity | split; [vm_compute; reflexivity | unfold exactly_once; vm_compute; discriminate]]. Qed.
Print Assumptions C18_exactly_once_refuted_loop.
