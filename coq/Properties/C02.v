(* Property C02: message framing ignores stream segmentation; an incomplete frame has no effect.
   Statements only; proofs in Proofs/Framing.v over Model/Framing.v. *)
From Coq Require Import ZArith List Bool.
From CV Require Import Model.Framing Proofs.Framing.
Import ListNotations.
Open Scope Z_scope.

(* however the byte stream is cut into received blocks (any number, any sizes, empty ones included) the frames
   emitted and the unfinished remainder are those of the uncut stream *)
Theorem C02_chunking : forall chunks buf, feed buf chunks = srun buf (concat chunks).
Proof. exact feed_concat. Qed.
Print Assumptions C02_chunking.

(* everything emitted is a frame of exactly 24 + declared bytes, the frames and the remainder tile the stream in
   order, and the remainder is a proper beginning of a frame *)
Theorem C02_frames_tile_the_stream : forall bs fs r,
  nonneg bs -> srun [] bs = (fs, r) -> bs = concat fs ++ r /\ Forall wf_frame fs /\ unfinished r.
Proof. intros bs fs r Hn H. exact (srun_sound bs [] fs r Hn (or_introl eq_refl) H). Qed.
Print Assumptions C02_frames_tile_the_stream.

(* ... and conversely any sequence of well-formed frames, whatever their contents and whatever follows, is divided
   into exactly those frames: each consumes 24 bytes plus its declared length and nothing of what follows *)
Theorem C02_exact : forall fs r,
  nonneg (concat fs ++ r) -> Forall wf_frame fs -> unfinished r -> srun [] (concat fs ++ r) = (fs, r).
Proof. exact framing_exact. Qed.
Print Assumptions C02_exact.

(* hence a byte stream has exactly one division into well-formed frames and an unfinished remainder: the boundaries
   are a function of the bytes alone *)
Theorem C02_unambiguous : forall fs gs r s,
  nonneg (concat fs ++ r) -> Forall wf_frame fs -> unfinished r -> Forall wf_frame gs -> unfinished s ->
  concat fs ++ r = concat gs ++ s -> fs = gs /\ r = s.
Proof. exact framing_unambiguous. Qed.
Print Assumptions C02_unambiguous.

(* a stream that ends after n bytes yields exactly the frames whose final byte was delivered: they are a prefix of
   the frames of the whole stream, and the next frame of the whole stream ends beyond byte n *)
Theorem C02_truncation : forall bs n,
  nonneg bs -> (n <= length bs)%nat ->
  let (f1, p) := srun [] (firstn n bs) in
  let (fall, r) := srun [] bs in
  exists f2, fall = f1 ++ f2 /\
    firstn n bs = concat f1 ++ p /\ unfinished p /\
    (forall g rest, f2 = g :: rest -> Z.of_nat n < len (concat f1) + len g).
Proof. exact truncation. Qed.
Print Assumptions C02_truncation.

(* the session loop, for every request processor: same delivered bytes => same effects and replies *)
Theorem C02_serve_chunking : forall (S : Type) (handle : S -> list Z -> S * list Z) s chunks1 chunks2,
  concat chunks1 = concat chunks2 -> serve S handle s chunks1 = serve S handle s chunks2.
Proof. exact serve_chunking. Qed.
Print Assumptions C02_serve_chunking.

(* a request is acted upon iff its final byte was delivered: whole frames are processed in order, the unfinished
   frame at end-of-stream is never handed to the request processor (no effect on the state, no reply) *)
Theorem C02_serve_complete_only : forall (S : Type) (handle : S -> list Z -> S * list Z) s chunks fs r,
  concat chunks = concat fs ++ r -> nonneg (concat chunks) -> Forall wf_frame fs -> unfinished r ->
  serve S handle s chunks = process S handle s fs.
Proof. exact serve_complete_only. Qed.
Print Assumptions C02_serve_complete_only.

Definition ex_hdr (n : Z) : list Z := [101; 0; n; 0; 0;0;0;0; 0;0;0;0; 1;2;3;4;5;6;7;8; 0;0;0;0].
Example C02_nonvacuous :
  feed [] [ firstn 5 (ex_hdr 2); skipn 5 (ex_hdr 2) ++ [9]; [9] ++ ex_hdr 0 ++ firstn 7 (ex_hdr 4) ] =
    ([ex_hdr 2 ++ [9; 9]; ex_hdr 0], firstn 7 (ex_hdr 4)) /\
  wf_frame (ex_hdr 2 ++ [9; 9]) /\ unfinished (firstn 7 (ex_hdr 4)).
Proof. split; [vm_compute; reflexivity|]. split; [split; vm_compute; congruence | left; vm_compute; reflexivity]. Qed.
Print Assumptions C02_nonvacuous.
