(* Property C03: tags behave as typed arrays; a read returns the most recently written values.
   Statements only; proofs in Proofs/Logix.v, Proofs/LogixHist.v.  Model: Model/Logix.v. *)
From Coq Require Import ZArith List Bool.
From CV Require Import Model.Logix Proofs.Logix Proofs.LogixHist Proofs.LogixPack.
Import ListNotations.
Open Scope Z_scope.

(* (1) One request changes exactly the elements its accepted write window covers, to exactly the
   written values; every other element of every tag is unchanged (reads and refused requests have no
   effect at all).  [effect] is (tag, first index, values) of an accepted Write Tag / Write Tag
   Fragmented / Set Attribute Single. *)
Theorem C03_pointwise : forall q maxb st r, wf_store st ->
  forall j i, elem (fst (exec1 q maxb st r)) j i =
              if covers (effect q st r) j i then written (effect q st r) i else elem st j i.
Proof. exact exec1_pointwise. Qed.
Print Assumptions C03_pointwise.

(* (2) Over any history: an element no accepted write covered keeps its initial value ... *)
Theorem C03_history_untouched : forall q maxb hs st k i,
  wf_store st -> Forall req_ok hs -> untouched q maxb st hs k i ->
  elem (run q maxb st hs) k i = elem st k i.
Proof. exact history_untouched. Qed.
Print Assumptions C03_history_untouched.

(* ... and otherwise holds the value given by the most recent accepted write that covered it. *)
Theorem C03_history_latest : forall q maxb h1 w h2 st k i,
  wf_store st -> Forall req_ok (h1 ++ w :: h2) ->
  let s1 := run q maxb st h1 in
  covers (effect q s1 w) k i = true ->
  untouched q maxb (fst (exec1 q maxb s1 w)) h2 k i ->
  elem (run q maxb st (h1 ++ w :: h2)) k i = written (effect q s1 w) i.
Proof. exact history_latest. Qed.
Print Assumptions C03_history_latest.

(* (3) A successful Read Tag / Read Tag Fragmented returns the current elements of the addressed
   window [beg, beg+len), reports the tag's own CIP type, and status 0 exactly when the window
   reaches the end of the requested range (else 0x06). *)
Theorem C03_read_window : forall maxb st r p (frag : bool) n off svc s ty vals,
  wf_store st ->
  exec_read maxb st r p frag n off = RRead svc s ty vals ->
  exists k a, lookup st p = Some k /\ attr_at st k = Some a /\ ty = a_ty a /\ svc = rsvc r /\
    let beg := Z.to_nat (path_elem p + (if frag then off else 0) / siz (a_ty a)) in
    (forall i, (i < length vals)%nat -> nth_error vals i = elem st k (beg + i)) /\
    1 <= Z.of_nat (length vals) /\
    Z.of_nat beg + Z.of_nat (length vals) <= Z.of_nat (length (a_vals a)) /\
    Z.of_nat (length vals) = Z.min (n - (if frag then off else 0) / siz (a_ty a)) (budget_elems maxb (siz (a_ty a))) /\
    (s = 0 \/ s = 6) /\
    (s = 0 <-> Z.of_nat beg + Z.of_nat (length vals) = path_elem p + n).
Proof. exact read_window. Qed.
Print Assumptions C03_read_window.

(* (4) Requests never change the shape of the store: names, addresses, types, scalar flags and
   lengths of all tags are invariant; well-formedness is preserved. *)
Theorem C03_shape : forall q maxb st r st' rp,
  wf_store st -> req_ok r -> exec1 q maxb st r = (st', rp) ->
  same_shape st st' /\ wf_store st' /\ (q_fit q = true -> readable st -> readable st') /\
  (is_fail rp -> st' = st).
Proof. exact exec1_inv. Qed.
Print Assumptions C03_shape.

(* (5) The symbolic and the numeric view of one attribute are the same tag: any two paths that
   resolve to the same tag number and carry the same element index get the same answer. *)
Theorem C03_views : forall maxb st r p p' frag n off,
  lookup st p = lookup st p' -> path_elem p = path_elem p' ->
  exec_read maxb st r p frag n off = exec_read maxb st r p' frag n off.
Proof. exact read_views. Qed.
Print Assumptions C03_views.

(* (6) What a stored value looks like when read back "converted to the tag's type": every CIP
   integer written in range is returned as its little-endian two's-complement image. *)
Theorem C03_pack_unpack : forall t c,
  length c = Z.to_nat (siz t) -> Forall is_byte c -> t <> BOOL ->
  pack t (unpack1 t c) = Some c.
Proof. exact pack_unpack1. Qed.
Print Assumptions C03_pack_unpack.

Example C03_nonvacuous : C03_example_ok = true.
Proof. vm_compute. reflexivity. Qed.
Print Assumptions C03_nonvacuous.
