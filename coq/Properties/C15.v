(* Property C15: route-path filtering follows the configured device personality.
   Statements only; proofs in Proofs/Route.v.  Model: Model/Route.v (+ Model/Logix.v for the request). *)
From Coq Require Import ZArith List Bool.
From CV Require Import Model.Tnet Model.Logix Model.Route Proofs.Route.
Import ListNotations.
Open Scope Z_scope.

(* no configuration: any route path is accepted *)
Theorem C15_unconfigured : forall rp, accept None rp = true.
Proof. exact accept_none. Qed.
Print Assumptions C15_unconfigured.

(* simple non-routing device: only requests without a route path *)
Theorem C15_simple : forall rp, accept (Some []) rp = true <-> rp = None \/ rp = Some [].
Proof. exact accept_simple. Qed.
Print Assumptions C15_simple.

(* configured route path c: no route path, or exactly c (same length, ports, links and link kinds) *)
Theorem C15_configured : forall c rp, c <> [] ->
  (accept (Some c) rp = true <-> rp = None \/ rp = Some [] \/ rp = Some c).
Proof. exact accept_path. Qed.
Print Assumptions C15_configured.

(* a refused request gets encapsulation status 0x08 and performs no tag access (the store is returned
   untouched, the request is never executed); an accepted one is executed exactly as without filtering *)
Theorem C15_refused : forall cfg maxb st rp r, accept cfg rp = false ->
  ucmm_local cfg maxb st rp r = (st, URefused 8).
Proof. exact refused_no_access. Qed.
Print Assumptions C15_refused.

Theorem C15_accepted : forall cfg maxb st rp r, accept cfg rp = true ->
  ucmm_local cfg maxb st rp r = (fst (exec fixed maxb st r), UReply (produce (snd (exec fixed maxb st r)))).
Proof. exact accepted_executes. Qed.
Print Assumptions C15_accepted.

(* textual route paths "p/l/p/l..." (numeric or dotted-quad links) denote the segments they spell *)
Theorem C15_route_text : forall p, Forall wf_seg p -> parse_route (print_route p) = Some p.
Proof. exact parse_print_route. Qed.
Print Assumptions C15_route_text.

(* the link kind is part of the link: an address-string link never passes for a configured number or dotted quad *)
Theorem C15_link_kind : forall p q t l rest, (forall t', l <> LText t') ->
  accept (Some ((p, l) :: rest)) (Some ((q, LText t) :: rest)) = false.
Proof. exact accept_link_kind. Qed.
Print Assumptions C15_link_kind.

Example C15_nonvacuous :
  parse_route [49; 47; 48; 47; 50; 47; 49; 46; 50; 46; 51; 46; 52] = Some [(1, LNum 0); (2, LIp 1 2 3 4)] /\
  accept (Some [(1, LNum 0)]) (Some [(1, LNum 0); (2, LNum 5)]) = false /\
  accept (Some [(1, LNum 0)]) (Some [(1, LNum 0)]) = true /\
  accept (Some [(2, LIp 1 2 3 4)]) (Some [(2, LNum 1)]) = false.
Proof. repeat split; vm_compute; reflexivity. Qed.
Print Assumptions C15_nonvacuous.
