(* Property C10: a length limit bounds what a nested parser may consume; `sent` counts what was taken; a repeat
   count runs the sub-grammar exactly that many times.  Statements only; proofs in Proofs/Engine.v (the engine
   interpreter Model/Engine.v) and Proofs/Source.v (the input sources Model/Source.v). *)
From Coq Require Import ZArith List Bool.
From CV Require Import Model.Engine Model.Source Proofs.Engine Proofs.Source.
Import ListNotations.
Open Scope Z_scope.

(* ---- limits ---- *)

(* Whatever the machine graph, state, input and data: a state that completes has sent <= every enclosing ending,
   and <= the position at which its own limit (fixed, or a length parsed earlier and read from the data) was
   established plus that limit. *)
Theorem C10_limit : forall fuel m id s d ending s' d' y t,
  run_state fuel m id s d ending = ROk s' d' y t ->
  (forall e, ending = Some e -> Engine.sent s' <= e) /\
  (forall n s1 d1 l dl, nth_error m id = Some n -> process n s d = Some (s1, d1) ->
     resolve_lim (n_limit n) d1 = Some (Some l, dl) -> Engine.sent s' <= Engine.sent s1 + l).
Proof. exact run_state_limit. Qed.
Print Assumptions C10_limit.

(* A limited parser that completes consumed a prefix k of the input with |k| <= limit, counted exactly |k| symbols,
   and left the following symbols, in order, to the enclosing grammar. *)
Theorem C10_limited_parser : forall fuel m id n s d ending l dl s' d' y t,
  nth_error m id = Some n -> n_proc n = PNone -> resolve_lim (n_limit n) d = Some (Some l, dl) ->
  run_state fuel m id s d ending = ROk s' d' y t ->
  exists k, avail s = k ++ avail s' /\ Engine.sent s' = Engine.sent s + Z.of_nat (length k) /\ Z.of_nat (length k) <= l.
Proof. exact limited_parser_bounded. Qed.
Print Assumptions C10_limited_parser.

(* a limit can tighten the enclosing ending, never relax it *)
Theorem C10_ending_only_shrinks : forall ending snt lm e,
  ending = Some e -> exists e1, min_ending ending snt lm = Some e1 /\ e1 <= e.
Proof. exact ending_only_shrinks. Qed.
Print Assumptions C10_ending_only_shrinks.

(* once limited, only the no-input edge is followed: the next symbol is not considered *)
Theorem C10_limited_transition : forall n term s e d,
  e <= Engine.sent s ->
  transition n term s (Some e) d =
    if term && negb (n_greedy n) then (None, d)
    else match lookup_edge NON (n_trans n) with
         | None => (None, d)
         | Some cs => (Some (fst (decide_list cs d)), snd (decide_list cs d))
         end.
Proof. exact limited_transition. Qed.
Print Assumptions C10_limited_transition.

(* ---- accounting in the engine: every run of every state takes a prefix, leaves the rest, counts it ---- *)
Theorem C10_engine_accounting : forall fuel m ending id s d s' d' y t,
  run_state fuel m id s d ending = ROk s' d' y t ->
  exists k, avail s = k ++ avail s' /\ Engine.sent s' = Engine.sent s + Z.of_nat (length k).
Proof. intros fuel m ending id s d s' d' y t H. exact (run_state_ext fuel m ending id s d s' d' y t H). Qed.
Print Assumptions C10_engine_accounting.

(* ---- accounting in the sources: push-back, peek and chained blocks ---- *)
Theorem C10_source_accounting : forall ops taken s total,
  legit taken s ops ->
  rev taken ++ remaining s = total -> s_sent s = Z.of_nat (length taken) ->
  let s' := snd (run_ops s ops) in
  let tk := taken_after taken s ops in
  rev tk ++ remaining s' = total ++ supplied ops /\ s_sent s' = Z.of_nat (length tk).
Proof. exact accounting. Qed.
Print Assumptions C10_source_accounting.

Theorem C10_source_conservation : forall ops s,
  let s' := snd (run_ops s ops) in
  s_sent s' + Z.of_nat (length (remaining s')) =
  s_sent s + Z.of_nat (length (remaining s)) + Z.of_nat (length (supplied ops)).
Proof. exact conservation. Qed.
Print Assumptions C10_source_conservation.

Theorem C10_peek_is_pure : forall s,
  fst (peek s) = hd_error (remaining s) /\ remaining (snd (peek s)) = remaining s /\ s_sent (snd (peek s)) = s_sent s.
Proof. exact peek_spec. Qed.
Print Assumptions C10_peek_is_pure.

(* ---- repeat ---- *)

(* A dfa that completes in a terminal state ran exactly `repeat` initial-->terminal cycles of its sub-machine
   (1 when no repeat is given; a repeat read from the data; 0 cycles for 0 or a negative count), each starting
   where the previous one stopped. *)
Theorem C10_repeat_exact : forall f m id s d ending s' d' y,
  run_state (S f) m id s d ending = ROk s' d' y true ->
  forall n init rep, nth_error m id = Some n -> n_sub n = Some (init, rep) ->
  exists s1 d1 d1' d1'' d2 lm r,
    process n s d = Some (s1, d1) /\ resolve_lim (n_limit n) d1 = Some (lm, d1') /\ resolve_lim rep d1' = Some (r, d1'') /\
    cycles_rel (fun cur s0 d0 => run_state f m cur s0 d0 (min_ending ending (Engine.sent s1) lm)) f init
               (Z.to_nat (match r with None => 1 | Some z => z end)) s1 d1'' s' d2.
Proof. exact repeat_exact. Qed.
Print Assumptions C10_repeat_exact.

(* a cycle whose sub-machine stalls in a non-terminal state is not counted: the parse fails *)
Theorem C10_stalled_cycle_fails : forall rec h cur s d seen s' d' y,
  rec cur s d = ROk s' d' y false -> (y = None \/ y = Some None) ->
  cycle_once rec (S h) cur s d seen = CFail 2.
Proof. exact cycle_stall_fails. Qed.
Print Assumptions C10_stalled_cycle_fails.

(* non-vacuity: a length byte, then `len` octets under that limit, then the enclosing grammar's next byte *)
Definition ex_machine : machine :=
  [ Node PNone true true LNone [] (Some (1%nat, LNone)) None;                          (* 0: outer dfa *)
    Node (PInput (Some 0)) false true LNone [(NON, [TState 2%nat])] None None;           (* 1: one byte into key 0 *)
    Node PNone false true LNone [(NON, [TState 3%nat])] None (Some (0, 1, 1, 0));          (* 2: key 1 := USINT of key 0 *)
    Node PNone false true (LKey 1) [(NON, [TState 5%nat])] (Some (4%nat, LKey 1)) None;    (* 3: dfa limit=len repeat=len *)
    Node (PInput (Some 2)) true true LNone [] None None;                               (* 4: octet *)
    Node (PInput (Some 3)) true true LNone [] None None ].                             (* 5: the byte after *)

Example C10_nonvacuous :
  run 50 ex_machine [2; 65; 66; 67; 68] =
    ROk (Src [68] 4) [(1, DInt 2); (2, DBytes [65; 66]); (3, DBytes [67])] None true.
Proof. vm_compute. reflexivity. Qed.
Print Assumptions C10_nonvacuous.
