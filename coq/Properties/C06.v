(* Property C06: exactly one matching reply per request, delivered in request order.
   Statements only; proofs in Proofs/Session.v over Model/Session.v (with Model/Route.v and Model/Logix.v
   executing the CIP request).  That the frames of a session do not depend on how requests were pipelined or
   chunked is C02 (C02_serve_chunking); the byte layout of each frame is C01. *)
From Coq Require Import ZArith List Bool.
From CV Require Import Model.Logix Model.Route Model.Session Proofs.Logix Proofs.Session.
Import ListNotations.
Open Scope Z_scope.

(* For every sequence of requests of every kind (successful and failing ones mixed), every personality and store:
   the reply frames are aligned one-to-one, in order, with the requests up to the end of the session; each reply
   carries its request's command, sender context and options, the request's session handle (Register: a non-zero new
   one), and for a SendRRData either status 0 with a CIP reply whose service code is the request's with the reply
   bit set, or a non-zero status with no payload after which nothing more is sent; Unregister is answered by
   nothing and ends the session. *)
Theorem C06_replies_aligned : forall handle_of cfg maxb,
  (forall n, handle_of n <> 0) ->
  forall qs s, wf_store (s_store s) -> Forall sreq_ok qs ->
  aligned handle_of cfg maxb s qs (fst (srun handle_of cfg maxb s qs)).
Proof. intros handle_of cfg maxb Hnz qs s. apply srun_aligned. exact Hnz. Qed.
Print Assumptions C06_replies_aligned.

Theorem C06_at_most_one_each : forall handle_of cfg maxb s qs rs,
  aligned handle_of cfg maxb s qs rs -> (length rs <= length qs)%nat.
Proof. exact aligned_length. Qed.
Print Assumptions C06_at_most_one_each.

(* while no request ends the session (no Unregister, nothing refused) every request is answered *)
Theorem C06_all_answered : forall handle_of cfg maxb qs s,
  never_ends handle_of cfg maxb s qs -> length (fst (srun handle_of cfg maxb s qs)) = length qs.
Proof. exact all_answered. Qed.
Print Assumptions C06_all_answered.

(* the service code of every CIP reply is the request's with the reply bit set *)
Theorem C06_reply_service : forall q maxb st r st' rp bs,
  wf_store st -> exec q maxb st r = (st', rp) -> produce rp = Some bs -> hd_error bs = Some (svc_of r + 128).
Proof.
  intros q maxb st r st' rp bs Hwf He Hp. rewrite (produce_head _ _ Hp). f_equal.
  exact (exec_reply_service _ _ _ _ _ _ Hwf He).
Qed.
Print Assumptions C06_reply_service.

Definition ex_store : store :=
  Store [Attr DINT false [VI 1; VI 2; VI 3]] [((2, 1, 1), 0%nat)] [(1, (2, 1, 1))].
Definition ex_env (c : Z) : envelope := Env 4660 [c; 0; 0; 0; 0; 0; 0; 0] 0.
Example C06_nonvacuous :
  let qs := [QRegister (ex_env 1); QSend (ex_env 2) None (ReadTag (PSym 1 (Some 1)) 2);
             QList 4 (ex_env 3); QSend (ex_env 4) None (ReadTag (PSym 9 None) 1); QSend (ex_env 5) None (ReadTag (PSym 1 None) 1)] in
  map (fun r => (p_cmd r, p_status r, p_ctx r)) (fst (srun (fun n => Z.of_nat (S n)) None 488 (SS ex_store 0) qs)) =
    [(101, 0, [1;0;0;0;0;0;0;0]); (111, 0, [2;0;0;0;0;0;0;0]); (4, 0, [3;0;0;0;0;0;0;0]);
     (111, 0, [4;0;0;0;0;0;0;0]); (111, 0, [5;0;0;0;0;0;0;0])].
Proof. vm_compute. reflexivity. Qed.
Print Assumptions C06_nonvacuous.

(* "an unsupported or unroutable request is answered by one frame with a non-zero encapsulation status": a single request whose path
   names an Object that does not exist gets exactly one frame - status 8, no payload, its own session handle, context and options -
   the state is untouched and no later request of the session is answered *)
Theorem C06_unroutable : forall handle_of cfg maxb s e rp r t,
  unroutable (s_store s) r = true ->
  srun handle_of cfg maxb s (QSend e rp r :: t) = ([Rep 111 (e_sess e) 8 (e_ctx e) (e_opts e) BNone], s).
Proof. exact unroutable_reply. Qed.
Print Assumptions C06_unroutable.

(* conversely a request that is dispatched, on a route the personality accepts, is executed by the Message Router's dialect and answered
   with status 0 (status 8 only if the reply cannot be rendered) *)
Theorem C06_routable_accepted : forall handle_of cfg maxb s e rp r,
  unroutable (s_store s) r = false -> accept cfg rp = true ->
  respond handle_of cfg maxb s (QSend e rp r) =
    (let (st', rep) := exec fixed maxb (s_store s) r in
     match produce rep with
     | Some bs => (SS st' (s_nreg s), Some (Rep 111 (e_sess e) 0 (e_ctx e) (e_opts e) (BCip bs)), true)
     | None => (SS st' (s_nreg s), Some (Rep 111 (e_sess e) 8 (e_ctx e) (e_opts e) BNone), false)
     end).
Proof. exact routable_accepted. Qed.
Print Assumptions C06_routable_accepted.

Example C06_unroutable_nonvacuous :
  unroutable ex_store (GetAttr (PNum 119 1 (Some 1) None)) = true /\ unroutable ex_store (SetAttr (PNum 2 7 (Some 1) None) [0]) = true /\
  unroutable ex_store (GetAttr (PNum 2 1 (Some 9) None)) = false /\ unroutable ex_store (ReadTag (PSym 9 None) 1) = false /\
  unroutable ex_store (Multiple [GetAttr (PNum 119 1 (Some 1) None)]) = false /\
  map (fun r => (p_cmd r, p_status r)) (fst (srun (fun n => Z.of_nat (S n)) None 488 (SS ex_store 0)
     [QRegister (ex_env 1); QSend (ex_env 2) None (GetAttr (PNum 119 1 (Some 1) None)); QList 4 (ex_env 3)])) = [(101, 0); (111, 8)].
Proof. vm_compute. repeat split; reflexivity. Qed.
Print Assumptions C06_unroutable_nonvacuous.
