(* Property C01: wire codec round-trip over the EtherNet/IP CIP message grammar.
   The reference codec (Model/Codec.v) is assembled from format combinators (Base/Fmt.v) each of which carries
   its two round-trip proofs; the theorems below are the projections for the formats of the grammar.
     dec_enc : every well-formed value, followed by anything, decodes to itself and exactly that remainder
     enc_dec : whatever the (strict) decoder accepts is the canonical encoding of the value it returns
   cpppo is tied to this codec by props/c01.py (produce = enc; parse agrees with dec). *)
From Coq Require Import ZArith List Bool.
From CV Require Import Base.Fmt Model.Codec Proofs.Ncp.
Import ListNotations.
Open Scope Z_scope.

(* the complete encapsulated frame: 24-byte header (length = payload size) + command payload, incl. CPF items,
   the Unconnected Send wrapper and the embedded service request / reply / bundle *)
Theorem C01_frame_dec_enc : forall m tl, ok frame m -> dec frame (enc frame m ++ tl) = Some (m, tl).
Proof. exact (rt_enc frame). Qed.
Print Assumptions C01_frame_dec_enc.

Theorem C01_frame_enc_dec : forall bs m tl, dec frame bs = Some (m, tl) -> bs = enc frame m ++ tl /\ ok frame m.
Proof. exact (rt_dec frame). Qed.
Print Assumptions C01_frame_enc_dec.

(* every CIP service message of the dialect (request, reply, Multiple Service Packet), to the end of its region *)
Theorem C01_cip_dec_enc : forall m, eok cip m -> edec cip (eenc cip m) = Some m.
Proof. exact (ert_enc cip). Qed.
Print Assumptions C01_cip_dec_enc.

Theorem C01_cip_enc_dec : forall bs m, edec cip bs = Some m -> bs = eenc cip m /\ eok cip m.
Proof. exact (ert_dec cip). Qed.
Print Assumptions C01_cip_enc_dec.

(* EPATH / route path (size in words, every segment kind at its narrowest width, pad rules) *)
Theorem C01_epath_dec_enc : forall p tl, ok epath p -> dec epath (enc epath p ++ tl) = Some (p, tl).
Proof. exact (rt_enc epath). Qed.
Print Assumptions C01_epath_dec_enc.

Theorem C01_epath_enc_dec : forall bs p tl, dec epath bs = Some (p, tl) -> bs = enc epath p ++ tl /\ ok epath p.
Proof. exact (rt_dec epath). Qed.
Print Assumptions C01_epath_enc_dec.

Theorem C01_route_path_dec_enc : forall p tl, ok epath_padded p -> dec epath_padded (enc epath_padded p ++ tl) = Some (p, tl).
Proof. exact (rt_enc epath_padded). Qed.
Print Assumptions C01_route_path_dec_enc.

(* every scalar type and the two string types *)
Theorem C01_scalar_dec_enc : forall code v tl, ok (scalar code) v -> dec (scalar code) (enc (scalar code) v ++ tl) = Some (v, tl).
Proof. intros code. exact (rt_enc (scalar code)). Qed.
Print Assumptions C01_scalar_dec_enc.

Theorem C01_string_dec_enc : forall code s tl, ok (strval code) s -> dec (strval code) (enc (strval code) s ++ tl) = Some (s, tl).
Proof. intros code. exact (rt_enc (strval code)). Qed.
Print Assumptions C01_string_dec_enc.

(* typed data to the end of its region, status with extended words, CPF item lists *)
Theorem C01_typed_dec_enc : forall code d, eok (typed_end code) d -> edec (typed_end code) (eenc (typed_end code) d) = Some d.
Proof. intros code. exact (ert_enc (typed_end code)). Qed.
Print Assumptions C01_typed_dec_enc.

Theorem C01_status_dec_enc : forall s tl, ok status_fmt s -> dec status_fmt (enc status_fmt s ++ tl) = Some (s, tl).
Proof. exact (rt_enc status_fmt). Qed.
Print Assumptions C01_status_dec_enc.

Theorem C01_cpf_dec_enc : forall c tl, ok cpf c -> dec cpf (enc cpf c ++ tl) = Some (c, tl).
Proof. exact (rt_enc cpf). Qed.
Print Assumptions C01_cpf_dec_enc.

(* the Multiple Service Packet offset table: first offset 2+2N, each next advanced by the previous member's length *)
Theorem C01_offsets : forall base lens, length (offsets_from base lens) = length lens.
Proof. exact offsets_from_length. Qed.
Print Assumptions C01_offsets.

(* Connection Manager services (Forward Open small/large, Forward Close and their replies) *)
Theorem C01_cm_dec_enc : forall m, eok cm m -> edec cm (eenc cm m) = Some m.
Proof. exact (ert_enc cm). Qed.
Print Assumptions C01_cm_dec_enc.

Theorem C01_cm_enc_dec : forall bs m, edec cm bs = Some m -> bs = eenc cm m /\ eok cm m.
Proof. exact (ert_dec cm). Qed.
Print Assumptions C01_cm_enc_dec.

(* Network Connection Parameters: small (16-bit) and large (32-bit) words decode to the encoded parameters *)
Theorem C01_ncp : forall large p, ncp_ok large p -> ncp_decode large (ncp_encode large p) = p.
Proof. exact ncp_roundtrip. Qed.
Print Assumptions C01_ncp.

(* well-formedness is not vacuous and the encoder picks the documented widths: concrete witnesses *)
(* Unambiguity (a consequence of the round trips, stated for the outer layers): two well-formed messages, each followed by
   anything, never share their bytes unless they are the same message followed by the same bytes; two well-formed CIP /
   Connection Manager messages with the same bytes are the same message. *)
Theorem C01_frame_unambiguous : forall a b t1 t2,
  ok frame a -> ok frame b -> enc frame a ++ t1 = enc frame b ++ t2 -> a = b /\ t1 = t2.
Proof. exact (fmt_unambiguous frame). Qed.
Print Assumptions C01_frame_unambiguous.

Theorem C01_epath_unambiguous : forall a b t1 t2,
  ok epath a -> ok epath b -> enc epath a ++ t1 = enc epath b ++ t2 -> a = b /\ t1 = t2.
Proof. exact (fmt_unambiguous epath). Qed.
Print Assumptions C01_epath_unambiguous.

Theorem C01_cip_injective : forall a b, eok cip a -> eok cip b -> eenc cip a = eenc cip b -> a = b.
Proof. exact (fend_injective cip). Qed.
Print Assumptions C01_cip_injective.

Theorem C01_cm_injective : forall a b, eok cm a -> eok cm b -> eenc cm a = eenc cm b -> a = b.
Proof. exact (fend_injective cm). Qed.
Print Assumptions C01_cm_injective.

Example C01_nonvacuous :
  enc epath [SClass 2; SInst 1; SSym [97; 98; 99]; SElem 70000; SPort 15 3; SPortA 2 [49; 46; 50]]
  = [13; 32; 2; 36; 1; 145; 3; 97; 98; 99; 0; 42; 0; 112; 17; 1; 0; 15; 15; 0; 3; 18; 3; 49; 46; 50; 0]
  /\ dec epath [2; 33; 0; 2; 0] = None                                   (* class 2 in 16-bit form: not canonical *)
  /\ dec frame (enc frame (101, ((0, (0, ([0; 0; 0; 0; 0; 0; 0; 0], 0))), ([1; 0], None))) ++ [7])
     = Some ((101, ((0, (0, ([0; 0; 0; 0; 0; 0; 0; 0], 0))), ([1; 0], None))), [7]).
Proof. repeat split; vm_compute; reflexivity. Qed.
Print Assumptions C01_nonvacuous.
