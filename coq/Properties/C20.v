(* Property C20: tnetstring serialisation round-trips and the streaming parser agrees with it.
   Statements only; proofs in Proofs/Tnet.v.  Model: Model/Tnet.v. *)
From Coq Require Import ZArith List Bool.
From CV Require Import Model.Tnet Proofs.Tnet.
Import ListNotations.
Open Scope Z_scope.

(* (1) for EVERY value (any nesting depth, any payload bytes - including ones that look like length
   prefixes, colons or type tags - empty containers, duplicate-free or not) followed by ANY bytes:
   parse returns the value and exactly the following bytes.  Fuel only has to reach the value's size. *)
Theorem C20_roundtrip : forall v tl f, (weight v <= f)%nat -> parse f (dump v ++ tl) = Some (v, tl).
Proof. exact parse_dump. Qed.
Print Assumptions C20_roundtrip.

Theorem C20_consumes_all : forall v, parse (weight v) (dump v) = Some (v, []).
Proof. exact parse_dump_all. Qed.
Print Assumptions C20_consumes_all.

(* (1b) the encoding is self-delimiting and injective: two values followed by anything give the same bytes only if
   they are the same value followed by the same bytes - so no other value can be read out of a dump. *)
Theorem C20_prefix_free : forall v w t1 t2, dump v ++ t1 = dump w ++ t2 -> v = w /\ t1 = t2.
Proof. exact dump_prefix_free. Qed.
Print Assumptions C20_prefix_free.

Theorem C20_injective : forall v w, dump v = dump w -> v = w.
Proof. exact dump_injective. Qed.
Print Assumptions C20_injective.

(* (2) length prefix: '%d' % n parses back, is all digits and non-empty (so the first ':' ends it) *)
Theorem C20_length_prefix : forall n, 0 <= n ->
  digits (dec n) /\ dec n <> [] /\ undec (dec n) = Some n.
Proof. exact dec_spec. Qed.
Print Assumptions C20_length_prefix.

Theorem C20_payload : forall p tag tl, parse_payload (frame p tag ++ tl) = Some (p, tag, tl).
Proof. exact parse_payload_frame. Qed.
Print Assumptions C20_payload.

(* (3) the streaming machine: feeding chunk after chunk = feeding the concatenation ... *)
Theorem C20_chunking : forall chunks s, srun_chunks s chunks = srun s (concat chunks).
Proof. exact srun_chunks_concat. Qed.
Print Assumptions C20_chunking.

(* ... and on the bytes of any dumped value, in any chunking, followed by anything, it stops exactly at
   the end of the message with that message's payload and type symbol ... *)
Theorem C20_stream : forall v chunks tl, concat chunks = dump v ++ tl ->
  srun_chunks (SSize []) chunks = (SDone (payload_of v) (tag_of v), tl).
Proof. exact stream_dump. Qed.
Print Assumptions C20_stream.

(* ... which for the types the streaming parser supports (, $ # ~) converts to the same value *)
Theorem C20_stream_value : forall v, supported v = true -> sconvert (payload_of v) (tag_of v) = Some v.
Proof. exact stream_convert. Qed.
Print Assumptions C20_stream_value.

(* (4) the receive loop tnet_from (symbols in `ign` skipped between messages): chunking is irrelevant, and a
   stream of dumped values separated by ignorable symbols yields every message's payload and type in order *)
Theorem C20_from_chunking : forall ign chunks,
  lrun ign chunks = fold_left (lstep ign) (concat chunks) (SSize [], []).
Proof. exact lrun_concat. Qed.
Print Assumptions C20_from_chunking.

Theorem C20_from_messages : forall ign, no_digits ign -> forall items outs trailing,
  Forall (fun it => Forall (fun c => mem c ign = true) (fst it)) items ->
  Forall (fun c => mem c ign = true) trailing ->
  fold_left (lstep ign) (flat_map (fun it => fst it ++ dump (snd it)) items ++ trailing) (SSize [], outs) =
  (SSize [], outs ++ map (fun it => (payload_of (snd it), tag_of (snd it))) items).
Proof. exact from_messages. Qed.
Print Assumptions C20_from_messages.

Example C20_nonvacuous :
  let v := TDict [([97], TList [TInt (-12); TBytes [49; 50; 58; 44]; TText [195; 169]; TNull; TBool true; TFloat [49; 46; 53]]);
                  ([98; 99], TDict [])] in
  dump v = [53; 48; 58; 49; 58; 97; 44; 51; 52; 58; 51; 58; 45; 49; 50; 35; 52; 58; 49; 50; 58; 44; 44; 50; 58; 195; 169; 36; 48; 58; 126; 52; 58;
            116; 114; 117; 101; 33; 51; 58; 49; 46; 53; 94; 93; 50; 58; 98; 99; 44; 48; 58; 125; 125]
  /\ parse 50 (dump v ++ [48; 58; 126]) = Some (v, [48; 58; 126]).
Proof. cbv zeta. split; vm_compute; reflexivity. Qed.
Print Assumptions C20_nonvacuous.
