(* Property C09: concurrent sessions are isolated and each request is atomic.
   Statements only; proofs in Proofs/Concurrent.v over Model/Concurrent.v.
   Thread scheduling, the GIL and lock acquisition order are the runtime's: a theorem cannot exhibit a race.  What is
   modelled is the logic that must hold under EVERY schedule - the per-thread closure lists of dfa_post, and the tag
   array under requests that are single atomic steps - and props/c09.py drives the real objects through chosen
   interleavings (thread identity supplied from outside), checks that element ranges are stored / fetched by single
   list operations, and stress-tests a live simulator with several sessions. *)
From Coq Require Import ZArith List Bool.
From CV Require Import Model.Concurrent Proofs.Concurrent.
Import ListNotations.
Open Scope Z_scope.

(* whatever the interleaving of registrations and parser exits - threads acting while another thread's closure
   runs included - every closure is run by the thread that registered it, and the per-thread lists stay separate *)
Theorem C09_closures_run_by_owner : forall fuel es p p' l,
  Forall wf_ev es -> wf_pending p -> run_evs fuel es p = (p', l) -> wf_pending p' /\ own_log l.
Proof. exact closures_run_by_owner. Qed.
Print Assumptions C09_closures_run_by_owner.

(* a refused request and a read never change the array *)
Theorem C09_read_or_refused_changes_nothing : forall a o,
  snd (astep a o) = None \/ (exists s n, o = ARead s n) -> fst (astep a o) = a.
Proof. exact read_or_refused_changes_nothing. Qed.
Print Assumptions C09_read_or_refused_changes_nothing.

(* no torn reads under any schedule of any number of sessions: whole-range writes of one repeated value can only
   be observed whole *)
Theorem C09_no_torn_reads : forall n sched a,
  length a = n -> uniform a ->
  Forall (fun so => match snd so with
                    | AWrite s vs => s = O /\ length vs = n /\ uniform vs
                    | ARead s len => s = O /\ len = n
                    end) sched ->
  Forall (fun r => match r with (_, ARead _ _, Some vals) => uniform vals | _ => True end) (snd (arun a sched)).
Proof. exact no_torn_reads. Qed.
Print Assumptions C09_no_torn_reads.

(* no lost writes: whatever the schedule before and after, an element holds what the last accepted write covering it stored, as
   long as no later request writes that element - writes of other sessions to OTHER elements of the same tag cannot undo it
   (a write stores exactly its own range; there is no read-modify-write of its neighbours) *)
Theorem C09_last_write_wins : forall before sid s vs after a i d,
  (s + length vs <= length a)%nat -> (s <= i < s + length vs)%nat ->
  Forall (fun so => covers (snd so) i = false) after ->
  nth i (fst (arun a (before ++ (sid, AWrite s vs) :: after))) d = nth (i - s) vs d.
Proof. exact last_write_wins. Qed.
Print Assumptions C09_last_write_wins.

Example C09_nonvacuous :
  (* thread 1 registers two closures, thread 2 one; thread 2 leaves the parser while thread 1's first closure runs *)
  snd (run_evs 10 [Reg 1 1001 [Exit 2]; Reg 2 2001 []; Reg 1 1002 []; Exit 1] []) = [(1, 1001); (2, 2001); (1, 1002)] /\
  snd (arun [0; 0; 0] [(1%nat, AWrite 0 [5; 5; 5]); (2%nat, ARead 0 3); (1%nat, AWrite 1 [7; 7; 7]); (2%nat, ARead 1 2)]) =
    [(1%nat, AWrite 0 [5; 5; 5], Some []); (2%nat, ARead 0 3, Some [5; 5; 5]); (1%nat, AWrite 1 [7; 7; 7], None); (2%nat, ARead 1 2, Some [5; 5])].
Proof. split; vm_compute; reflexivity. Qed.
Print Assumptions C09_nonvacuous.
