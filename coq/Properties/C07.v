(* Property C07: a Multiple Service Packet is equivalent to its requests issued one by one.
   Statements only; proofs in Proofs/LogixMulti.v.  Model: Model/Logix.v. *)
From Coq Require Import ZArith List Bool.
From CV Require Import Model.Logix Proofs.Logix Proofs.LogixRefuse Proofs.LogixMulti.
Import ListNotations.
Open Scope Z_scope.

(* run_seq = the members issued individually, in order, on one store (fold of exec1) *)

(* (1) the bundle yields exactly the individual replies, in order, and the same final tags *)
Theorem C07_equiv : forall maxb st rs,
  wf_store st -> readable st -> Forall req_ok rs ->
  exec fixed maxb st (Multiple rs) =
  (fst (run_seq fixed maxb st rs), RMulti (snd (run_seq fixed maxb st rs))).
Proof. exact multi_equiv. Qed.
Print Assumptions C07_equiv.

(* (2) a failing member affects neither its neighbours nor the tags *)
Theorem C07_isolation : forall q maxb st l1 r l2,
  wf_store st -> Forall req_ok (l1 ++ r :: l2) ->
  let s1 := fst (run_seq q maxb st l1) in
  is_fail (snd (exec1 q maxb s1 r)) ->
  fst (run_seq q maxb st (l1 ++ r :: l2)) = fst (run_seq q maxb st (l1 ++ l2)) /\
  snd (run_seq q maxb st (l1 ++ r :: l2)) =
    snd (run_seq q maxb st l1) ++ snd (exec1 q maxb s1 r) :: snd (run_seq q maxb s1 l2) /\
  snd (run_seq q maxb st (l1 ++ l2)) = snd (run_seq q maxb st l1) ++ snd (run_seq q maxb s1 l2).
Proof. exact multi_isolation. Qed.
Print Assumptions C07_isolation.

(* (3) framing of the bundle reply: header, count, offset table, members back to back; the i-th
   offset is 2 + 2N + the lengths of the members before it *)
Theorem C07_bundle_bytes : forall rs,
  produce (RMulti rs) = match produce_all rs with Some parts => Some (bundle_bytes parts) | None => None end.
Proof. exact produce_multi. Qed.
Print Assumptions C07_bundle_bytes.

Theorem C07_offsets : forall lens base i, (i < length lens)%nat ->
  nth_error (offsets_from base lens) i = Some (base + sum (firstn i lens)).
Proof. exact offsets_from_nth. Qed.
Print Assumptions C07_offsets.

(* (4) on the originally pinned tree the equivalence needed the hypothesis `readable`: a member whose
   reply could not be produced aborted the bundle with status 0x08 (witness) *)
Theorem C07_pinned_abort_refuted :
  let w := WriteTag (PSym 0 (Some 1)) 200 1 [VI 4294967295] in
  let rd := ReadTag (PSym 0 None) 3 in
  snd (exec pinned 488 st_dint (Multiple [w; rd; rd])) = RFail 138 8 [] /\
  length (snd (run_seq pinned 488 st_dint [w; rd; rd])) = 3%nat.
Proof. exact pinned_multi_abort. Qed.
Print Assumptions C07_pinned_abort_refuted.

Example C07_nonvacuous : C07_example_ok = true.
Proof. vm_compute. reflexivity. Qed.
Print Assumptions C07_nonvacuous.
