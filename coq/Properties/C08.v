(* Property C08: malformed or hostile input cannot hang, crash or corrupt the simulator.
   Statements only; proofs in Proofs/Hostile.v, Proofs/Logix.v, Proofs/Framing.v, Proofs/Engine.v, Base/Fmt.v.
   What a theorem can carry here is the logic: which inputs may change a tag, that a frame is acted on only when
   complete, that a corrupt inner length cannot run past its limit, that the reference decoder accepts exactly the
   well-formed encodings, and that the engine's no-progress detection bounds a sub-machine cycle.  Wall-clock
   behaviour, exceptions and the liveness of other sessions are runtime facts: props/c08.py observes them. *)
From Coq Require Import ZArith List Bool.
From CV Require Import Base.Fmt Model.Logix Proofs.Logix Model.Engine Proofs.Engine Model.Framing Proofs.Framing
                       Model.Codec Proofs.Hostile.
Import ListNotations.
Open Scope Z_scope.

(* a tag store changes only through a write / set service that is acknowledged; every refusal changes nothing *)
Theorem C08_only_acknowledged_writes_change_tags : forall q maxb st r st' rp,
  wf_store st -> req_ok r -> exec1 q maxb st r = (st', rp) -> st' <> st -> is_write r /\ ~ is_fail rp.
Proof. exact exec1_store_change. Qed.
Print Assumptions C08_only_acknowledged_writes_change_tags.

Theorem C08_bundle_without_write_changes_nothing : forall q maxb st r st' rp,
  exec q maxb st r = (st', rp) -> st' <> st ->
  match r with Multiple rs => ~ Forall (fun m => ~ is_write m) rs | _ => is_write r end.
Proof. exact exec_store_change. Qed.
Print Assumptions C08_bundle_without_write_changes_nothing.

(* a request is handed to the request processor only when its final byte has arrived (any processor, any chunking) *)
Theorem C08_incomplete_frame_not_processed : forall (S : Type) (handle : S -> list Z -> S * list Z) s chunks fs r,
  concat chunks = concat fs ++ r -> nonneg (concat chunks) -> Forall wf_frame fs -> unfinished r ->
  serve S handle s chunks = process S handle s fs.
Proof. exact serve_complete_only. Qed.
Print Assumptions C08_incomplete_frame_not_processed.

(* a corrupt inner length cannot make a nested parser run past its limit: it stops there or fails *)
Theorem C08_inner_length_cannot_escape : forall fuel m id s d ending s' d' y t,
  run_state fuel m id s d ending = ROk s' d' y t ->
  (forall e, ending = Some e -> sent s' <= e) /\
  (forall n s1 d1 l dl, nth_error m id = Some n -> Engine.process n s d = Some (s1, d1) ->
     resolve_lim (n_limit n) d1 = Some (Some l, dl) -> sent s' <= sent s1 + l).
Proof. exact run_state_limit. Qed.
Print Assumptions C08_inner_length_cannot_escape.

(* the reference decoder used as the oracle for "complete, well-formed request" accepts exactly the encodings *)
Theorem C08_reference_decoder_strict : forall bs m tl,
  dec frame bs = Some (m, tl) -> bs = enc frame m ++ tl /\ ok frame m.
Proof. exact (rt_dec frame). Qed.
Print Assumptions C08_reference_decoder_strict.

(* no-progress detection: within one cycle of a sub-machine the (target, next symbol, position) triples visited are
   pairwise distinct, so the cycle ends within |U| + 1 iterations, U being the finite set they range over *)
Theorem C08_cycle_bounded : forall rec (U : list crumb),
  (forall cur s d s' d' tgt t, rec cur s d = ROk s' d' (Some (Some tgt)) t -> In (Some tgt, peek s', sent s') U) ->
  forall h cur s d seen, NoDup seen -> incl seen U ->
  (cycle_steps rec h cur s d seen + length seen <= S (length U))%nat.
Proof. exact cycle_bounded. Qed.
Print Assumptions C08_cycle_bounded.

Theorem C08_cycle_never_spins : forall rec (U : list crumb),
  (forall cur s d s' d' tgt t, rec cur s d = ROk s' d' (Some (Some tgt)) t -> In (Some tgt, peek s', sent s') U) ->
  (forall cur s d, rec cur s d <> RFail 9) ->
  forall h cur s d seen, NoDup seen -> incl seen U -> (S (length U) - length seen < h)%nat ->
  cycle_once rec h cur s d seen <> CFail 9.
Proof. exact cycle_never_out_of_fuel. Qed.
Print Assumptions C08_cycle_never_spins.

Definition ex_store : store :=
  Store [Attr DINT false [VI 1; VI 2; VI 3]] [((2, 1, 1), 0%nat)] [(1, (2, 1, 1))].
Example C08_nonvacuous :
  (* a write with one element too many is refused and changes nothing; a proper one changes the store *)
  fst (exec1 fixed 488 ex_store (WriteTag (PSym 1 (Some 2)) 196 2 [VI 7; VI 8])) = ex_store /\
  fst (exec1 fixed 488 ex_store (WriteTag (PSym 1 (Some 1)) 196 2 [VI 7; VI 8])) <> ex_store.
Proof. split; vm_compute; [reflexivity | discriminate]. Qed.
Print Assumptions C08_nonvacuous.
