(* Property C04: fragmented transfers reassemble exactly and every fragment makes progress.
   Statements only; proofs are `exact` into Proofs/LogixFrag.v.  Model: Model/Logix.v. *)
From Coq Require Import ZArith List Bool.
From CV Require Import Model.Logix Proofs.Logix Proofs.LogixFrag.
Import ListNotations.
Open Scope Z_scope.

(* Reading `elm` elements starting at the path's element index by repeated Read Tag Fragmented, each
   time advancing the byte offset by the bytes received (read_walk), for any tag (any fixed element
   size), any start index, count and reply budget maxb (any integer; budgets < 1 element round up to 1):
     - the fragments concatenate to exactly the requested elements, in order;
     - every fragment carries between 1 and ceil(maxb/size) whole elements;
     - the statuses are 0x06 ... 0x06 0x00;
     - the number of fragments is ceil(elm / ceil(maxb/size)). *)
Theorem C04_read_reassembles :
  forall maxb st p k a elm,
  lookup st p = Some k -> attr_at st k = Some a ->
  alen a = Z.of_nat (length (a_vals a)) ->
  0 <= path_elem p -> path_elem p + elm <= Z.of_nat (length (a_vals a)) -> 1 <= elm ->
  let B := budget_elems maxb (siz (a_ty a)) in
  let w := read_walk (Z.to_nat elm) maxb st p elm 0 in
  concat (map snd w) = firstn (Z.to_nat elm) (skipn (Z.to_nat (path_elem p)) (a_vals a)) /\
  Forall (fun f => 1 <= Z.of_nat (length (snd f)) <= B) w /\
  map fst w = repeat 6 (length w - 1) ++ [0] /\
  Z.of_nat (length w) = (elm + B - 1) / B.
Proof.
  intros maxb st p k a elm Hl Ha Hlen Hi He H1.
  pose proof (read_walk_complete maxb st p k a elm Hl Ha Hlen Hi He H1) as H.
  unfold good_walk, nfrag in H. rewrite !Z.sub_0_r, !Z.add_0_r in H. exact H.
Qed.
Print Assumptions C04_read_reassembles.

(* the budget in elements is the byte budget rounded up to a whole element, and at least one *)
Theorem C04_budget : forall maxb t, 1 <= maxb ->
  budget_elems maxb (siz t) * siz t < maxb + siz t /\ maxb <= budget_elems maxb (siz t) * siz t.
Proof. exact budget_bounds. Qed.
Print Assumptions C04_budget.

(* Writing by a series of Write Tag Fragmented requests whose byte offsets tile a range (each offset
   = bytes already sent) stores exactly the concatenated values at the addressed range, leaves every
   other element and tag as it was, and every piece is acknowledged. *)
Theorem C04_write_tiles :
  forall q p ty t elm pieces st k a,
  lookup st p = Some k -> attr_at st k = Some a -> a_scalar a = false ->
  ty_of_code ty = Some t -> allowed (a_ty a) t = true ->
  0 <= path_elem p ->
  Forall (fun d => 1 <= Z.of_nat (length d)) pieces -> pieces <> [] ->
  total pieces <= elm ->
  path_elem p + elm <= Z.of_nat (length (a_vals a)) ->
  (q_fit q = true -> Forall (fun d => pack_all (a_ty a) d <> None) pieces) ->
  write_walk q st p ty elm (siz (a_ty a)) 0 pieces =
  (upd_attr st k (Attr (a_ty a) false (splice (a_vals a) (Z.to_nat (path_elem p)) (concat pieces))),
   map (fun _ => RWrite 211) pieces).
Proof. exact write_walk_from_zero. Qed.
Print Assumptions C04_write_tiles.

(* non-vacuity: a 1000-element INT tag, 201 elements from index 30, default budget 488 *)
Example C04_nonvacuous : C04_example_ok = true.
Proof. vm_compute. reflexivity. Qed.
Print Assumptions C04_nonvacuous.
