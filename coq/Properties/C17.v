(* Property C17: timestamps and durations survive render/parse; ordering matches the rendering.
   Statements only; proofs in Proofs/Times.v over Model/Times.v (exact arithmetic). *)
From Coq Require Import ZArith List Bool.
From CV Require Import Model.Times Proofs.Times.
Import ListNotations.
Open Scope Z_scope.

(* For every instant n/D, precision p >= 0 and zone table (periods ascending, covering the instant): whatever the
   text's wall-clock fields, fraction and dst designation are parsed back to - without a designation or with the
   rendered one - is the rendered instant (rounded to 10^-p s); the only other outcome is a refusal. *)
Theorem C17_render_parse : forall z p n D f frac dst flag q,
  sorted z -> 0 <= p -> covers z (units p n D / 10 ^ p) ->
  render p n D z = (f, frac, dst) ->
  (flag = None \/ flag = Some dst) ->
  parse p f frac z flag = Some q -> q = units p n D.
Proof. exact render_parse. Qed.
Print Assumptions C17_render_parse.

(* a wall-clock reading is never localised to a different instant *)
Theorem C17_never_shifted : forall z u flag u',
  sorted z -> covers z u ->
  let pr := period_of z u (0, false) in
  (flag = None \/ flag = Some (snd pr)) ->
  localize z (u + fst pr) flag = Some u' -> u' = u.
Proof. exact localize_never_shifts. Qed.
Print Assumptions C17_never_shifted.

(* an unambiguous reading is accepted (so the round trip succeeds) ... *)
Theorem C17_unambiguous_accepted : forall z u flag,
  sorted z -> covers z u ->
  let pr := period_of z u (0, false) in
  (exists c, candidates z (u + fst pr) = [c]) -> localize z (u + fst pr) flag = Some u.
Proof. exact localize_unique. Qed.
Print Assumptions C17_unambiguous_accepted.

(* ... an ambiguous one is refused without a designation and resolved to the right instant with it *)
Theorem C17_ambiguous : forall z u c1 c2,
  sorted z -> covers z u ->
  let pr := period_of z u (0, false) in
  candidates z (u + fst pr) = [c1; c2] -> snd c1 <> snd c2 ->
  localize z (u + fst pr) (Some (snd pr)) = Some u /\ localize z (u + fst pr) None = None.
Proof. exact localize_designated. Qed.
Print Assumptions C17_ambiguous.

(* the calendar: every day number (all of Z) maps to a valid date that maps back to it *)
Theorem C17_calendar : forall z,
  let '(y, m, d) := civil_of_days z in days_of_civil y m d = z /\ 1 <= m <= 12 /\ 1 <= d <= 31.
Proof. exact days_civil_days. Qed.
Print Assumptions C17_calendar.

(* comparison (epsilon = 1 ms) never contradicts the order of the millisecond renderings *)
Theorem C17_lt_consistent : forall a b D, 0 < D -> ts_lt a b D = true -> rne (a * 1000) D < rne (b * 1000) D.
Proof. exact lt_implies_rendering_lt. Qed.
Print Assumptions C17_lt_consistent.

Theorem C17_equal_renderings : forall a b D, 0 < D -> rne (a * 1000) D = rne (b * 1000) D -> ts_eq a b D = true.
Proof. exact equal_renderings_compare_equal. Qed.
Print Assumptions C17_equal_renderings.

(* rounding is to the nearest unit (so a fraction that rounds up carries into the next second, never truncates) *)
Theorem C17_rounding : forall N D, 0 < D -> D * (2 * rne N D - 1) <= 2 * N <= D * (2 * rne N D + 1).
Proof. exact rne_bounds. Qed.
Print Assumptions C17_rounding.

(* durations: every duration (whole seconds >= 0, microseconds) formats to text components that parse back to it *)
Theorem C17_duration : forall secs us,
  0 <= secs -> 0 <= us < 1000000 -> dur_parse (dur_format secs us) = (secs, us).
Proof. exact duration_roundtrip. Qed.
Print Assumptions C17_duration.

Definition ex_zone : zone := [(-100000000000, -25200, false); (1394355600, -21600, true); (1414915200, -25200, false)].
Example C17_nonvacuous :
  (* 2014-11-02 01:30 MDT / MST in a Mountain-like zone; .9996 s rounds into the next second *)
  render 3 1414913400 1 ex_zone = (Fields 2014 11 2 1 30 0, 0, true) /\
  render 3 1414917000 1 ex_zone = (Fields 2014 11 2 1 30 0, 0, false) /\
  parse 3 (Fields 2014 11 2 1 30 0) 0 ex_zone None = None /\
  parse 3 (Fields 2014 11 2 1 30 0) 0 ex_zone (Some true) = Some 1414913400000 /\
  parse 3 (Fields 2014 3 9 2 30 0) 0 ex_zone None = None /\
  render 3 13993261419996 10000 [(-100000000000, 0, false)] = (Fields 2014 5 5 21 42 22, 0, false) /\
  dur_format 3723 4000 = DurText 0 0 0 1 2 (SFrac 3 [0; 0; 4]).
Proof. repeat split; vm_compute; reflexivity. Qed.
Print Assumptions C17_nonvacuous.
