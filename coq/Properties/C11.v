(* Property C11: regular-expression machines accept exactly the expression's language.
   Statements only; proofs in Proofs/Regex.v.  Model/Regex.v is a reference semantics (derivatives and the
   longest-viable-prefix run) that is independent of cpppo and of the regex library it uses. *)
From Coq Require Import ZArith List Bool.
From CV Require Import Model.Regex Proofs.Regex.
Import ListNotations.
Open Scope Z_scope.

(* derivatives compute the standard regular-expression semantics [matches] *)
Theorem C11_nullable : forall r, nullable r = true <-> matches r [].
Proof. exact nullable_spec. Qed.
Print Assumptions C11_nullable.

Theorem C11_derivative : forall r c w, matches (deriv c r) w <-> matches r (c :: w).
Proof. exact deriv_spec. Qed.
Print Assumptions C11_derivative.

Theorem C11_nonempty : forall r, nonempty r = true <-> exists w, matches r w.
Proof. exact nonempty_spec. Qed.
Print Assumptions C11_nonempty.

(* lifted to whole words: the state reached by taking derivatives symbol by symbol decides, for every expression and
   every word, whether the word is a sentence and whether it can still be extended to one *)
Theorem C11_membership_decided : forall r w, nullable (derivs w r) = true <-> matches r w.
Proof. exact derivs_matches. Qed.
Print Assumptions C11_membership_decided.

Theorem C11_viability_decided : forall r w, nonempty (derivs w r) = true <-> viable r w.
Proof. exact derivs_viable. Qed.
Print Assumptions C11_viability_decided.

(* the run: for every expression and every input,
     - the input is split into the consumed (stored) prefix p and the untouched rest;
     - every non-empty prefix of p, p included, can still be extended to a sentence;
     - p is maximal: with the next input symbol it can no longer be extended (that symbol is not absorbed);
     - acceptance <-> p is non-empty and is itself a sentence of the language. *)
Theorem C11_run : forall r input acc p rest,
  rrun r input = (acc, p, rest) ->
  input = p ++ rest /\
  (forall q k, p = q ++ k -> q <> [] -> viable r q) /\
  (forall c t, rest = c :: t -> ~ viable r (p ++ [c])) /\
  (acc = true <-> p <> [] /\ matches r p).
Proof. exact rrun_spec. Qed.
Print Assumptions C11_run.

Example C11_nonvacuous :
  (* (ab)*c? *)
  let r := RCat (RStar (RCat (RSet false [97]) (RSet false [98]))) (ropt (RSet false [99])) in
  rrun r [97; 98; 97; 98; 99; 100] = (true, [97; 98; 97; 98; 99], [100]) /\
  rrun r [97; 97] = (false, [97], [97]) /\
  rrun (RStar (RSet false [97])) [98] = (false, [], [98]).
Proof. cbv zeta. repeat split; vm_compute; reflexivity. Qed.
Print Assumptions C11_nonvacuous.
