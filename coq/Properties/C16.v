(* Property C16: dotdict behaves as a tree of nested mappings addressed by dotted paths.
   Statements only; proofs in Proofs/Dotdict.v.  Model: Model/Dotdict.v (string-level transcription).
   A canonical path is join cs for non-empty components free of '.' and '['. *)
From Coq Require Import ZArith List Bool.
From CV Require Import Model.Dotdict Proofs.Dotdict.
Import ListNotations.
Open Scope Z_scope.

(* path splitting: the first component addresses this level, the rest the level below *)
Theorem C16_split : forall c c2 t, Forall plain (c :: c2 :: t) ->
  split_key (join (c :: c2 :: t)) = Ok (c, Some (join (c2 :: t))).
Proof. exact split_key_join. Qed.
Print Assumptions C16_split.

(* '..' addresses the parent level *)
Theorem C16_dotdot : forall a b c, plain a -> plain b -> plain c ->
  resolve (a ++ DOT :: b ++ DOT :: DOT :: c) = resolve (a ++ DOT :: c).
Proof. exact dotdot_parent. Qed.
Print Assumptions C16_dotdot.

(* after a successful assignment by any canonical path (any depth), lookup by that path returns the value *)
Theorem C16_get_after_set : forall strict cs, Forall plain cs -> cs <> [] ->
  forall fs fg kv v kv', stored_as v -> (length cs <= fg)%nat ->
  set_in strict fs kv (join cs) v = (kv', None) ->
  get fg kv' (join cs) = Ok v.
Proof. exact get_after_set. Qed.
Print Assumptions C16_get_after_set.

(* ... and every path through a different first component is untouched, whether or not the assignment failed *)
Theorem C16_frame : forall strict fs kv k v kv' e c c' rest fg q,
  split_key k = Ok (c, rest) -> has LB c = false ->
  set_in strict (S fs) kv k v = (kv', e) ->
  split_key q = Ok (c', None) \/ (exists r, split_key q = Ok (c', Some r)) ->
  has LB c' = false -> key_eqb c' c = false ->
  get (S fg) kv' q = get (S fg) kv q.
Proof. exact set_frame_first. Qed.
Print Assumptions C16_frame.

(* membership agrees with lookup *)
Theorem C16_contains : forall f kv k, contains f kv k = true <-> exists v, get f kv k = Ok v.
Proof. exact contains_iff_get. Qed.
Print Assumptions C16_contains.

(* key iteration lists canonical leaf paths and every listed key looks up to the listed value *)
Theorem C16_keys_sound : forall f kv, wfb f kv = true ->
  forall k v, In (k, v) (items f kv) ->
  get (S f) kv k = Ok v /\ exists cs, Forall plain cs /\ cs <> [] /\ k = join cs.
Proof. exact items_sound. Qed.
Print Assumptions C16_keys_sound.

(* deleting a non-empty level is refused *)
Theorem C16_del_partial : forall f kv c x sub, plain c -> lookup c kv = Some (VDot (x :: sub)) ->
  del_in (S f) kv c = (kv, Some EKey).
Proof. exact del_nonempty_refused. Qed.
Print Assumptions C16_del_partial.

(* reserved method names are refused as keys: as the final component, and (current tree) for interior levels *)
Theorem C16_reserved_final : forall strict fs kv c v, plain c -> is_invalid c = true -> stored_as v ->
  set_in strict (S fs) kv c v = (kv, Some EKey).
Proof. exact reserved_refused_final. Qed.
Print Assumptions C16_reserved_final.

Theorem C16_reserved_interior : forall fs kv c c2 t v, Forall plain (c :: c2 :: t) -> is_invalid c = true ->
  set_in true (S fs) kv (join (c :: c2 :: t)) v = (kv, Some EKey).
Proof. exact reserved_refused_interior. Qed.
Print Assumptions C16_reserved_interior.

(* the originally pinned tree accepted "m.items.c" (witness); the current tree refuses it *)
Theorem C16_pinned_interior_reserved_refuted :
  let k := [109; 46; 105; 116; 101; 109; 115; 46; 99] in
  set_in false 8 [] k (VInt 1) = ([([109], VDot [([105; 116; 101; 109; 115], VDot [([99], VInt 1)])])], None) /\
  set_in true 8 [] k (VInt 1) = ([([109], VDot [])], Some EKey).
Proof. exact pinned_interior_reserved. Qed.
Print Assumptions C16_pinned_interior_reserved_refuted.
