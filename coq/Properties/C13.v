(* Property C13: under any connection fault the client never pairs a reply with the wrong request.
   Statements only; proofs in Proofs/Harvest.v (reply matching) and Proofs/Framing.v (which reply frames a cut
   stream completes).  Socket errors, timeouts and the proxy's reconnect are runtime behaviour: props/c13.py. *)
From Coq Require Import ZArith List Bool.
From CV Require Import Model.Harvest Proofs.Harvest Model.Framing Proofs.Framing.
Import ListNotations.
Open Scope Z_scope.

(* Whatever replies arrive (any contexts, any services, any number) and however the stream ends: every result the
   client yields pairs an operation with a reply carrying that operation's own sender context and its service with
   the reply bit; the results are the first k operations in order with the first k replies. *)
Theorem C13_results_are_own : forall all ops rs e,
  Forall own (results (harvest all ops rs e [])) /\
  exists k, results (harvest all ops rs e []) = combine (firstn k ops) (firstn k rs) /\
            (k <= length ops)%nat /\ (k <= length rs)%nat.
Proof. exact results_are_own. Qed.
Print Assumptions C13_results_are_own.

(* never silently fewer results than operations (pipeline; synchronous since the fix) *)
Theorem C13_done_is_complete : forall ops rs e l, harvest true ops rs e [] = Done l -> length l = length ops.
Proof. exact done_is_complete. Qed.
Print Assumptions C13_done_is_complete.

(* a stream that ends inside a frame, with replies still owed, raises *)
Theorem C13_partial_frame_raises : forall all ops rs,
  (length rs < length ops)%nat -> exists l, harvest all ops rs InsideFrame [] = Raised l.
Proof. exact partial_frame_raises. Qed.
Print Assumptions C13_partial_frame_raises.

(* success is never reported for a reply that was not completely received: a stream cut after n bytes completes
   exactly the frames whose final byte was delivered (C02) *)
Theorem C13_only_complete_replies : forall bs n,
  nonneg bs -> (n <= length bs)%nat ->
  let (f1, p) := srun [] (firstn n bs) in
  let (fall, r) := srun [] bs in
  exists f2, fall = f1 ++ f2 /\ firstn n bs = concat f1 ++ p /\ unfinished p /\
    (forall g rest, f2 = g :: rest -> Z.of_nat n < len (concat f1) + len g).
Proof. exact truncation. Qed.
Print Assumptions C13_only_complete_replies.

(* the behaviour of connector.synchronous before the fix, kept as a witness: without the final assertion a clean EOF
   between reply frames ends the result stream normally with fewer results than operations *)
Theorem C13_without_the_assertion_results_go_missing :
  harvest false [Iss 1 76; Iss 2 76; Iss 3 76] [Rpl 1 204 10; Rpl 2 204 20] CleanEOF [] =
    Done [(Iss 1 76, Rpl 1 204 10); (Iss 2 76, Rpl 2 204 20)].
Proof. exact without_the_assertion_results_go_missing. Qed.
Print Assumptions C13_without_the_assertion_results_go_missing.

Example C13_nonvacuous :
  harvest true [Iss 1 76; Iss 2 77] [Rpl 1 204 10; Rpl 2 205 1] CleanEOF [] = Done [(Iss 1 76, Rpl 1 204 10); (Iss 2 77, Rpl 2 205 1)] /\
  harvest true [Iss 1 76; Iss 2 77] [Rpl 1 204 10; Rpl 1 204 10] CleanEOF [] = Raised [(Iss 1 76, Rpl 1 204 10)] /\
  harvest true [Iss 1 76; Iss 2 77] [Rpl 1 204 10] CleanEOF [] = Raised [(Iss 1 76, Rpl 1 204 10)].
Proof. repeat split; reflexivity. Qed.
Print Assumptions C13_nonvacuous.
