(* Property C12: client results do not depend on pipelining depth or request bundling; a textual operation
   description denotes exactly the operation it spells.
   Statements only; proofs in Proofs/Client.v, Proofs/OpText.v, Proofs/LogixMulti.v. *)
From Coq Require Import ZArith List Bool.
From CV Require Import Model.Logix Proofs.Logix Proofs.LogixMulti Model.Client Proofs.Client Model.OpText Proofs.OpText.
Import ListNotations.
Open Scope Z_scope.

(* bundling: for every operation list and every bundle size limit, every operation is issued exactly once and in
   operation order ... *)
Theorem C12_every_operation_once_in_order : forall multiple ops, concat (plan multiple ops) = seq 0 (length ops).
Proof. exact plan_partition. Qed.
Print Assumptions C12_every_operation_once_in_order.

(* ... no bundle is empty and no bundle mixes operations with different route or send paths *)
Theorem C12_bundles_never_mix_paths : forall multiple ops, Forall (uniform ops) (plan multiple ops).
Proof. exact plan_uniform. Qed.
Print Assumptions C12_bundles_never_mix_paths.

(* executing the operations group by group (however they were grouped) gives the statuses, values and final tags of
   executing them one by one; and a Multiple Service Packet executes its members exactly like that *)
Theorem C12_grouping_does_not_matter : forall q maxb gs st,
  run_groups q maxb st gs = run_seq q maxb st (concat gs).
Proof. exact run_groups_concat. Qed.
Print Assumptions C12_grouping_does_not_matter.

Theorem C12_bundle_is_sequential : forall maxb st rs,
  wf_store st -> readable st -> Forall req_ok rs ->
  exec fixed maxb st (Multiple rs) = (fst (run_seq fixed maxb st rs), RMulti (snd (run_seq fixed maxb st rs))).
Proof. exact multi_equiv. Qed.
Print Assumptions C12_bundle_is_sequential.

(* pipelining: whatever the depth, every operation issued is harvested, exactly once, in issue order *)
Theorem C12_pipeline_complete : forall depth issued,
  harvested (pipeline depth issued) = seq 0 (length issued) /\
  issued_ops (pipeline depth issued) = seq 0 (length issued).
Proof. exact pipeline_complete. Qed.
Print Assumptions C12_pipeline_complete.

(* operation text: TAG, TAG[i], TAG[a-b], +offset, =(TYPE)values *)
Theorem C12_operation_text : forall o, op_ok o -> parse_op (print_op o) = Some o.
Proof. exact parse_print_op. Qed.
Print Assumptions C12_operation_text.

(* ... so two different well-formed operations are never written the same way *)
Theorem C12_operation_text_injective : forall a b, op_ok a -> op_ok b -> print_op a = print_op b -> a = b.
Proof. exact print_op_injective. Qed.
Print Assumptions C12_operation_text_injective.

Example C12_nonvacuous :
  (* five operations, the 4th on another route: limit 120 -> [0,1] [2] [3] [4]; limit 0 -> singles *)
  let ops := [Op 22 8 1 0; Op 22 8 1 0; Op 40 4 1 0; Op 22 8 2 0; Op 22 8 1 0] in
  plan 120 ops = [[0; 1]; [2]; [3]; [4]]%nat /\ plan 0 ops = [[0]; [1]; [2]; [3]; [4]]%nat /\
  harvested (pipeline 2 [0; 0; 1; 2; 3]) = [0; 1; 2; 3; 4]%nat /\
  (* "Int[0-9]+0=(INT)1,-2" : an explicit offset of zero is kept *)
  parse_op [73;110;116;91;48;45;57;93;43;48;61;40;73;78;84;41;49;44;45;50] =
    Some (OpText [73;110;116] (Some (0, Some 9)) (Some 0) (Some ([73;78;84], [1; -2]))).
Proof. repeat split; vm_compute; reflexivity. Qed.
Print Assumptions C12_nonvacuous.
