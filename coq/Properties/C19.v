(* Property C19: merging register ranges never drops a requested register.
   Only statements; every proof is `exact <lemma>` into Proofs/Plc.v. *)
From Coq Require Import ZArith List Bool Sorting.Sorted Sorting.Permutation.
From CV Require Import Model.Plc Proofs.Plc.
Import ListNotations.
Open Scope Z_scope.

(* Hypotheses = the property's quantifier: a non-empty set of ranges, each with count >= 1 and
   inside one 10000-register bank; reach >= 0; limit absent or >= 0 (0 means "default"). *)

Theorem C19_merge : forall rs reach limit,
  wf_input rs -> 0 <= reach -> limit_wf limit ->
  exists out, merge rs reach limit = Some out /\
    (* sorted, pairwise disjoint, non-empty *)
    (exists lo hi, chain lo out hi) /\
    (* each confined to one bank *)
    Forall (fun p => same_block (fst p) (fst p + snd p - 1)) out /\
    (* each no longer than the applicable limit (explicit, or the bank default of a requested
       range start in the same bank) *)
    Forall (out_piece_ok rs limit) out /\
    (* every requested register is covered *)
    (forall x, covered rs x -> covered out x) /\
    (* nothing beyond the reach distance of a requested register *)
    (forall x, covered out x -> exists y, covered rs y /\ Z.abs (x - y) < eff_reach reach).
Proof. exact merge_correct. Qed.
Print Assumptions C19_merge.

Theorem C19_chain_sorted_disjoint : forall lo out hi, chain lo out hi ->
  StronglySorted (fun r s => fst r + snd r <= fst s) out /\
  Forall (fun r => lo <= fst r /\ 1 <= snd r /\ fst r + snd r <= hi) out.
Proof. exact chain_sorted. Qed.
Print Assumptions C19_chain_sorted_disjoint.

Theorem C19_shatter : forall a c limit, limit_wf limit -> 0 <= c ->
  tiles a (shatter a c limit) (a + c) /\
  Forall (fun r => snd r <= eff_limit a limit) (shatter a c limit).
Proof. exact shatter_tiles. Qed.
Print Assumptions C19_shatter.

(* The ranges are a finite *set* as far as order goes: any reordering of the request list gives the same result. *)
Theorem C19_merge_order_irrelevant : forall rs rs' reach limit,
  Permutation rs rs' -> merge rs reach limit = merge rs' reach limit.
Proof. exact merge_perm. Qed.
Print Assumptions C19_merge_order_irrelevant.

(* Splitting never uses more transfers than the limit forces: ceil(count / limit) pieces. *)
Theorem C19_shatter_count : forall a c limit, limit_wf limit -> 0 <= c ->
  Z.of_nat (length (shatter a c limit)) = (c + eff_limit a limit - 1) / eff_limit a limit.
Proof. exact shatter_count. Qed.
Print Assumptions C19_shatter_count.

Theorem C19_tiles_exact : forall a out e x, tiles a out e -> (covered out x <-> a <= x < e).
Proof. exact tiles_covered. Qed.
Print Assumptions C19_tiles_exact.

(* The behaviour of the pinned tree before the "fix:" commit (length = address+count-base,
   without max) violates coverage: register 5 is requested and not covered. *)
Theorem C19_cover_old_refuted :
  merge_old [(1, 10); (3, 2)] 1 None = Some [(1, 4)] /\
  covered [(1, 10); (3, 2)] 5 /\ ~ covered [(1, 4)] 5.
Proof. exact merge_old_refuted. Qed.
Print Assumptions C19_cover_old_refuted.

(* Non-vacuity: the hypotheses are met by a non-trivial input with nested, overlapping,
   duplicate and cross-bank ranges, and the computed result is the expected one. *)
Example C19_nonvacuous :
  wf_input [(1, 10); (3, 2); (3, 2); (12, 1); (9998, 2); (10000, 3); (40001, 200)] /\
  merge [(1, 10); (3, 2); (3, 2); (12, 1); (9998, 2); (10000, 3); (40001, 200)] 2 None
  = Some [(1, 12); (9998, 2); (10000, 3); (40001, 123); (40124, 77)].
Proof. exact merge_example. Qed.
Print Assumptions C19_nonvacuous.
