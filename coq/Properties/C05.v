(* Property C05: invalid requests are refused without side effects; accepted writes stay readable.
   Statements only; proofs in Proofs/Logix.v, Proofs/LogixRefuse.v.  Model: Model/Logix.v.
   [fixed] = behaviour of the current tree; [pinned] = behaviour before the two "fix:" commits. *)
From Coq Require Import ZArith List Bool.
From CV Require Import Model.Logix Proofs.Logix Proofs.LogixRefuse.
Import ListNotations.
Open Scope Z_scope.

(* (1) every refused (non-bundled) request leaves every tag exactly as it was *)
Theorem C05_refused_no_effect : forall q maxb st r st' rp,
  wf_store st -> req_ok r -> exec1 q maxb st r = (st', rp) -> is_fail rp -> st' = st.
Proof. intros q maxb st r st' rp Hw Hr He. exact (proj2 (proj2 (proj2 (exec1_inv q maxb st r st' rp Hw Hr He)))). Qed.
Print Assumptions C05_refused_no_effect.

(* (2) a write is either refused with one of the three documented codes, nothing changed, or
   acknowledged, in which case its window lies inside the tag and inside the requested range *)
Theorem C05_write_outcomes : forall q st r p frag ty n off data st' rp,
  wf_store st -> exec_write q st r p frag ty n off data = (st', rp) ->
  (st' = st /\ exists s e, rp = RFail (rsvc r) s e /\ fail_code s e)
  \/
  (rp = RWrite (rsvc r) /\
   exists k a, lookup st p = Some k /\ attr_at st k = Some a /\
     (exists t, ty_of_code ty = Some t /\ allowed (a_ty a) t = true) /\
     0 <= wbeg a p frag off /\ 1 <= Z.of_nat (length data) /\
     wbeg a p frag off + Z.of_nat (length data) <= Z.of_nat (length (a_vals a)) /\
     wbeg a p frag off + Z.of_nat (length data) <= path_elem p + n /\
     (q_fit q = true -> pack_all (a_ty a) data <> None) /\
     st' = upd_attr st k (Attr (a_ty a) (a_scalar a) (splice (a_vals a) (Z.to_nat (wbeg a p frag off)) data))).
Proof. exact exec_write_cases. Qed.
Print Assumptions C05_write_outcomes.

(* (3) which code: unknown tag/object -> 0x05 [0]; type the tag cannot hold -> 0xFF [0x2107];
   window outside the tag -> 0xFF [0x2105] *)
Theorem C05_unknown_write : forall q st r p frag ty n off d,
  lookup st p = None -> exec_write q st r p frag ty n off d = (st, RFail (rsvc r) 5 [0]).
Proof. exact refuse_unknown_write. Qed.
Print Assumptions C05_unknown_write.

Theorem C05_unknown_read : forall maxb st r p frag n off,
  lookup st p = None -> exec_read maxb st r p frag n off = RFail (rsvc r) 5 [0].
Proof. exact refuse_unknown_read. Qed.
Print Assumptions C05_unknown_read.

Theorem C05_type_mismatch : forall q st r p k a frag ty n off d,
  lookup st p = Some k -> attr_at st k = Some a ->
  (forall t, ty_of_code ty = Some t -> allowed (a_ty a) t = false) ->
  exec_write q st r p frag ty n off d = (st, RFail (rsvc r) 255 [8455]).
Proof. exact refuse_type. Qed.
Print Assumptions C05_type_mismatch.

Theorem C05_range_write : forall q st r p k a t frag ty n off d,
  lookup st p = Some k -> attr_at st k = Some a ->
  ty_of_code ty = Some t -> allowed (a_ty a) t = true ->
  (q_fit q = true -> pack_all (a_ty a) d <> None) ->
  ~ window_ok (alen a) (path_elem p) n (wbeg a p frag off) (Z.of_nat (length d)) ->
  exec_write q st r p frag ty n off d = (st, RFail (rsvc r) 255 [8453]).
Proof. exact refuse_range_write. Qed.
Print Assumptions C05_range_write.

Theorem C05_range_read : forall maxb st r p k a (frag : bool) n off,
  lookup st p = Some k -> attr_at st k = Some a ->
  let o := if frag then off else 0 in
  let beg := path_elem p + o / siz (a_ty a) in
  ~ (0 <= beg < alen a /\ 1 <= n - o / siz (a_ty a) /\ n <= alen a /\
     Z.min (path_elem p + n) (beg + budget_elems maxb (siz (a_ty a))) <= alen a) ->
  exists e, exec_read maxb st r p frag n off = RFail (rsvc r) 255 e /\ e = [8453].
Proof. exact refuse_range_read. Qed.
Print Assumptions C05_range_read.

(* (4) Get/Set Attribute Single: either the failure reply with nothing changed, or the whole
   attribute replaced by the unpacked values *)
Theorem C05_set_outcomes : forall q st p bytes st' rp,
  exec_set q st p bytes = (st', rp) ->
  (st' = st /\ rp = RFail 144 8 [])
  \/
  (rp = RSet /\ exists c i a k at_, p = PNum c i (Some a) None /\ attr_target q st c i a = Some k /\
     attr_at st k = Some at_ /\ Z.of_nat (length bytes) = siz (a_ty at_) * alen at_ /\
     st' = upd_attr st k (Attr (a_ty at_) (a_scalar at_)
             (map (unpack_raw (a_ty at_)) (chunks (Z.to_nat (alen at_)) (Z.to_nat (siz (a_ty at_))) bytes)))).
Proof. exact exec_set_cases. Qed.
Print Assumptions C05_set_outcomes.

(* (5) accepted writes stay readable: on the current tree every request preserves "every stored
   value packs in its tag's type", and in such a store every reply can be produced *)
Theorem C05_readable_preserved : forall maxb st r st' rp,
  wf_store st -> req_ok r -> readable st -> exec1 fixed maxb st r = (st', rp) -> readable st'.
Proof.
  intros maxb st r st' rp Hw Hr Hrd He.
  exact (proj1 (proj2 (proj2 (exec1_inv fixed maxb st r st' rp Hw Hr He))) eq_refl Hrd).
Qed.
Print Assumptions C05_readable_preserved.

Theorem C05_readable_reads : forall q maxb st r, readable st -> produce (snd (exec1 q maxb st r)) <> None.
Proof. exact produce1_total. Qed.
Print Assumptions C05_readable_reads.

(* (6) the originally pinned tree violated both clauses (witnesses by computation); the same
   requests on the current tree are refused and change nothing *)
Theorem C05_pinned_unreadable_refuted :
  let w := WriteTag (PSym 0 (Some 1)) 200 1 [VI 4294967295] in
  let rd := ReadTag (PSym 0 None) 3 in
  readable st_dint /\
  snd (exec pinned 488 st_dint w) = RWrite 205 /\
  ~ readable (fst (exec pinned 488 st_dint w)) /\
  produce (snd (exec pinned 488 (fst (exec pinned 488 st_dint w)) rd)) = None /\
  exec fixed 488 st_dint w = (st_dint, RFail 205 255 [8455]).
Proof. exact pinned_write_unreadable. Qed.
Print Assumptions C05_pinned_unreadable_refuted.

Theorem C05_pinned_wrong_object_refuted :
  let s := SetAttr (PNum 119 1 (Some 1) None) [9; 0; 0; 0; 9; 0; 0; 0; 9; 0; 0; 0] in
  lookup st_dint (PNum 119 1 (Some 1) None) = None /\
  exec pinned 488 st_dint s = (Store [Attr DINT false [VI 9; VI 9; VI 9]] [((2, 1, 1), 0%nat)] [(0, (2, 1, 1))], RSet) /\
  exec fixed 488 st_dint s = (st_dint, RFail 144 8 []).
Proof. exact pinned_wrong_object. Qed.
Print Assumptions C05_pinned_wrong_object_refuted.
