(* Flat-integer interface to Model/Framing.v for props/c02.py. *)
From Coq Require Import ZArith List Bool.
From CV Require Import Base.Wire Model.Framing.
Import ListNotations.
Open Scope Z_scope.

Fixpoint take_chunks (n : nat) (l : list Z) : list (list Z) :=
  match n with
  | O => []
  | S k => let (c, r) := take_list l in c :: take_chunks k r
  end.

(* case: nchunks, (len, bytes...)*   ->   nframes, (len, bytes...)*, leftover len, leftover bytes *)
Definition run_framing (c : list Z) : list Z :=
  match c with
  | n :: t =>
      let (frames, rest) := feed [] (take_chunks (Z.to_nat n) t) in
      Z.of_nat (length frames) :: flat_map put_list frames ++ put_list rest
  | [] => [-1]
  end.
