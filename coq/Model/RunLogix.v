(* Flat-integer interface to Model/Logix.v for the correspondence harness (props/logix_common.py). *)
From Coq Require Import ZArith List Bool.
From CV Require Import Base.Wire Model.Logix.
Import ListNotations.
Open Scope Z_scope.

Definition P (A : Type) := list Z -> option (A * list Z).

Definition p_z : P Z := fun l => match l with x :: t => Some (x, t) | [] => None end.

Definition p_opt : P (option Z) := fun l =>
  match l with h :: x :: t => Some (if bz h then Some x else None, t) | _ => None end.

Fixpoint p_rep {A} (p : P A) (n : nat) : P (list A) := fun l =>
  match n with
  | O => Some ([], l)
  | S k => match p l with
           | Some (x, r) => match p_rep p k r with Some (xs, r') => Some (x :: xs, r') | None => None end
           | None => None
           end
  end.

Definition p_list {A} (p : P A) : P (list A) := fun l =>
  match l with n :: t => p_rep p (Z.to_nat n) t | [] => None end.

Definition p_val : P val := fun l =>
  match l with
  | k :: x :: t => Some ((if k =? 0 then VI x else if k =? 1 then VR x else VL x), t)
  | _ => None
  end.

Definition p_path : P path := fun l =>
  match l with
  | 0 :: name :: t => match p_opt t with Some (e, r) => Some (PSym name e, r) | None => None end
  | 1 :: c :: i :: t =>
      match p_opt t with
      | Some (a, r) => match p_opt r with Some (e, r') => Some (PNum c i a e, r') | None => None end
      | None => None
      end
  | _ => None
  end.

Definition p_req1 : P req := fun l =>
  match l with
  | 0 :: t => match p_path t with Some (p, n :: r) => Some (ReadTag p n, r) | _ => None end
  | 1 :: t => match p_path t with Some (p, n :: off :: r) => Some (ReadFrag p n off, r) | _ => None end
  | 2 :: t => match p_path t with
              | Some (p, ty :: n :: r) =>
                  match p_list p_val r with Some (d, r') => Some (WriteTag p ty n d, r') | None => None end
              | _ => None end
  | 3 :: t => match p_path t with
              | Some (p, ty :: n :: off :: r) =>
                  match p_list p_val r with Some (d, r') => Some (WriteFrag p ty n off d, r') | None => None end
              | _ => None end
  | 4 :: t => match p_path t with Some (p, r) => Some (GetAttr p, r) | None => None end
  | 5 :: t => match p_path t with
              | Some (p, r) => match p_list p_z r with Some (b, r') => Some (SetAttr p b, r') | None => None end
              | None => None end
  | _ => None
  end.

Definition p_req : P req := fun l =>
  match l with
  | 6 :: t => match p_list p_req1 t with Some (rs, r) => Some (Multiple rs, r) | None => None end
  | _ => p_req1 l
  end.

Definition p_attr : P attr := fun l =>
  match l with
  | tc :: sc :: t =>
      match ty_of_code tc, p_list p_val t with
      | Some ty, Some (vs, r) => Some (Attr ty (bz sc) vs, r)
      | _, _ => None
      end
  | _ => None
  end.

Definition p_dir : P (addr * nat) := fun l =>
  match l with c :: i :: a :: k :: t => Some ((c, i, a, Z.to_nat k), t) | _ => None end.

Definition p_sym : P (Z * addr) := fun l =>
  match l with n :: c :: i :: a :: t => Some ((n, (c, i, a)), t) | _ => None end.

(* store image: per element, 1 :: packed bytes, or 0 :: kind :: raw when it does not pack *)
Definition dump_val (t : cty) (v : val) : list Z :=
  match pack t v with
  | Some bs => 1 :: bs
  | None => match v with VI z => [0; 0; z] | VR b => [0; 1; b] | VL b => [0; 2; b] end
  end.

Definition dump_store (st : store) : list Z :=
  flat_map (fun a => Z.of_nat (length (a_vals a)) :: flat_map (dump_val (a_ty a)) (a_vals a)) (s_attrs st).

Definition hash (l : list Z) : Z :=
  fold_left (fun h x => (h * 1000003 + x + 7) mod 2305843009213693951) l 0.

Fixpoint run_reqs (q : quirks) (maxb : Z) (st : store) (rs : list req) : list Z :=
  match rs with
  | [] => 9999 :: dump_store st
  | r :: t =>
      let (st', rp) := exec q maxb st r in
      (match produce rp with
       | Some bs => Z.of_nat (length bs) :: bs
       | None => [-1]
       end) ++ hash (dump_store st') :: run_reqs q maxb st' t
  end.

(* case: quirks :: maxb :: attrs :: dir :: sym :: reqs   (quirks: 3 = fixed, 0 = pinned) *)
Definition run_logix (c : list Z) : list Z :=
  match c with
  | qz :: maxb :: t =>
      let q := Q (Z.odd qz) (Z.odd (qz / 2)) in
      match p_list p_attr t with
      | Some (attrs, r1) =>
        match p_list p_dir r1 with
        | Some (dir, r2) =>
          match p_list p_sym r2 with
          | Some (sym, r3) =>
            match p_list p_req r3 with
            | Some (reqs, []) => run_reqs q maxb (Store attrs dir sym) reqs
            | _ => [-4]
            end
          | None => [-3]
          end
        | None => [-2]
        end
      | None => [-1; -1]
      end
  | _ => [-1; -1]
  end.
