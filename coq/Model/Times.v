(* Model of cpppo/history/times.py (property C17) in exact arithmetic: rounding an instant to a sub-second
   precision (timestamp.render), the proleptic Gregorian calendar, time zones as tables of (start, offset, dst)
   periods with pytz-style localisation of wall-clock times, timestamp comparison with its millisecond epsilon,
   and duration format / parse.  Instants are exact rationals n / D seconds (a binary float is one of them), so the
   model says what the text must be; the floats of the implementation are tied to it by props/c17.py.
   Hand-written.  Definitions only. *)
From Coq Require Import ZArith List Bool.
Import ListNotations.
Open Scope Z_scope.

(* ---- rounding: round-half-even of N / D (D > 0), as Python's round( float, p ) does on the exact value ---- *)
Definition rne (N D : Z) : Z :=
  let q := N / D in let r := N mod D in
  if 2 * r <? D then q else if D <? 2 * r then q + 1 else if Z.even q then q else q + 1.

(* the instant n / D seconds at sub-second precision p, in units of 10^-p seconds: rounded to 10^-p for p > 0;
   with p = 0 render does not round: datetime.fromtimestamp rounds to the microsecond and strftime drops it *)
Definition units (p : Z) (n D : Z) : Z :=
  if p =? 0 then rne (n * 10 ^ 6) D / 10 ^ 6 else rne (n * 10 ^ p) D.

(* ---- calendar (days since 1970-01-01 <-> year, month, day) ---- *)
Definition civil_of_days (z : Z) : Z * Z * Z :=
  let z := z + 719468 in
  let era := z / 146097 in
  let doe := z mod 146097 in
  let yoe := (doe - doe / 1460 + doe / 36524 - doe / 146096) / 365 in
  let doy := doe - (365 * yoe + yoe / 4 - yoe / 100) in
  let mp := (5 * doy + 2) / 153 in
  let d := doy - (153 * mp + 2) / 5 + 1 in
  let m := if mp <? 10 then mp + 3 else mp - 9 in
  let y := yoe + era * 400 + (if m <=? 2 then 1 else 0) in
  (y, m, d).

Definition days_of_civil (y m d : Z) : Z :=
  let y := y - (if m <=? 2 then 1 else 0) in
  let era := y / 400 in
  let yoe := y mod 400 in
  let doy := (153 * (if 2 <? m then m - 3 else m + 9) + 2) / 5 + d - 1 in
  let doe := yoe * 365 + yoe / 4 - yoe / 100 + doy in
  era * 146097 + doe - 719468.

Record fields := Fields { f_y : Z; f_mo : Z; f_d : Z; f_h : Z; f_mi : Z; f_s : Z }.

Definition fields_of_secs (t : Z) : fields :=
  let days := t / 86400 in let sod := t mod 86400 in
  let '(y, m, d) := civil_of_days days in
  Fields y m d (sod / 3600) (sod mod 3600 / 60) (sod mod 60).

Definition secs_of_fields (f : fields) : Z :=
  days_of_civil (f_y f) (f_mo f) (f_d f) * 86400 + f_h f * 3600 + f_mi f * 60 + f_s f.

(* ---- zones: periods (start instant UTC, offset seconds, is_dst), ascending by start ---- *)
Definition zone := list (Z * Z * bool).

Fixpoint period_of (z : zone) (u : Z) (cur : Z * bool) : Z * bool :=
  match z with
  | [] => cur
  | (st, off, dst) :: t => if st <=? u then period_of t u (off, dst) else cur
  end.

(* the instants whose wall-clock reading in the zone is L *)
Fixpoint candidates (z : zone) (L : Z) : list (Z * bool) :=
  match z with
  | [] => []
  | (st, off, dst) :: t =>
      let u := L - off in
      let below_next := match t with [] => true | (st', _, _) :: _ => u <? st' end in
      (if (st <=? u) && below_next then [(u, dst)] else []) ++ candidates t L
  end.

(* tzinfo.localize( naive, is_dst ): without a designation an ambiguous or nonexistent reading is refused *)
Definition localize (z : zone) (L : Z) (is_dst : option bool) : option Z :=
  match candidates z L with
  | [] => None
  | [(u, _)] => Some u
  | l => match is_dst with
         | None => None
         | Some b => match filter (fun c => Bool.eqb (snd c) b) l with
                     | [(u, _)] => Some u
                     | _ => None
                     end
         end
  end.

(* ---- render / parse ---- *)
(* timestamp.render( zone, ms=p ): the rounded instant q (units of 10^-p s), the wall-clock fields, the fraction
   digits as a number, and the dst flag of the period (which the %Z abbreviation designates) *)
Definition render (p : Z) (n D : Z) (z : zone) : fields * Z * bool :=
  let q := units p n D in
  let secs := q / 10 ^ p in
  let '(off, dst) := period_of z secs (0, false) in
  (fields_of_secs (secs + off), q mod 10 ^ p, dst).

(* timestamp( text ): wall-clock fields + fraction in a zone, with or without a dst designation; the result in
   units of 10^-p s, None = rejected *)
Definition parse (p : Z) (f : fields) (frac : Z) (z : zone) (is_dst : option bool) : option Z :=
  match localize z (secs_of_fields f) is_dst with
  | Some u => Some (u * 10 ^ p + frac)
  | None => None
  end.

(* ---- comparison: __lt__ with _epsilon = 10^-3, on n / D seconds (common denominator) ---- *)
Definition ts_lt (a b D : Z) : bool := a * 1000 + D <? b * 1000.
Definition ts_eq (a b D : Z) : bool := negb (ts_lt a b D) && negb (ts_lt b a D).

(* ---- durations: (seconds >= 0, microseconds in [0, 10^6)) <-> the text's components ---- *)
Inductive subsec :=
| SFrac (s : Z) (digits : list Z)        (* "<s>.<digits>s": fraction digits, trailing zeros stripped *)
| SUnits (s : option Z) (ms : option Z) (us : option Z).   (* "<s>s", "<ms>ms", "<us>us" as present *)

Record dur_text := DurText { t_y : Z; t_w : Z; t_d : Z; t_h : Z; t_m : Z; t_sub : subsec }.

Fixpoint digits_of (width : nat) (v : Z) : list Z :=     (* most significant first, zero padded *)
  match width with
  | O => []
  | S k => digits_of k (v / 10) ++ [v mod 10]
  end.

Definition is_nil (l : list Z) : bool := match l with [] => true | _ => false end.

Fixpoint rstrip (l : list Z) : list Z :=                 (* str.rstrip( '0' ) on the digits *)
  match l with
  | [] => []
  | x :: t => let t' := rstrip t in if (x =? 0) && is_nil t' then [] else x :: t'
  end.

Definition value_of (l : list Z) : Z := fold_left (fun acc d => acc * 10 + d) l 0.

Fixpoint pad_right (width : nat) (l : list Z) : list Z :=
  match width with
  | O => l
  | S k => match l with [] => 0 :: pad_right k [] | x :: t => x :: pad_right k t end
  end.

Definition YR := 31557600. Definition WK := 604800. Definition DY := 86400. Definition HR := 3600. Definition MN := 60.

Definition dur_format (secs us : Z) : dur_text :=
  let y_secs := secs mod YR in let w_secs := y_secs mod WK in let d_secs := w_secs mod DY in let h_secs := d_secs mod HR in
  let s := h_secs mod MN in
  let is_us := 0 <? us mod 1000 in
  let is_ms := 0 <? us / 1000 in
  let sub :=
    if is_ms && ((0 <? s) || is_us) then SFrac s (rstrip (digits_of 6 us))
    else if (0 <? us) || (0 <? s) then
      SUnits (if 0 <? s then Some s else None)
             (if is_us then None else if is_ms then Some (us / 1000) else None)
             (if is_us then Some us else None)
    else SUnits None None None in
  DurText (secs / YR) (y_secs / WK) (w_secs / DY) (d_secs / HR) (h_secs / MN) sub.

Definition opt0 (o : option Z) : Z := match o with Some v => v | None => 0 end.

Definition dur_parse (t : dur_text) : Z * Z :=
  let '(s, us) := match t_sub t with
                  | SFrac s ds => (s, value_of (pad_right 6 ds))
                  | SUnits s ms us => (opt0 s, opt0 ms * 1000 + opt0 us)
                  end in
  (s + MN * t_m t + HR * t_h t + DY * t_d t + WK * t_w t + YR * t_y t, us).
