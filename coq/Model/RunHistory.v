(* Flat-integer interface to Model/History.v for props/c18.py. *)
From Coq Require Import ZArith List Bool.
From CV Require Import Base.Wire Model.History.
Import ListNotations.
Open Scope Z_scope.

Fixpoint dec_pairs (n : nat) (l : list Z) : list (Z * Z) * list Z :=
  match n with
  | O => ([], l)
  | S k => match l with a :: b :: t => let (ps, r) := dec_pairs k t in ((a, b) :: ps, r) | _ => ([], l) end
  end.

Definition dec_rec (l : list Z) : rec * list Z :=
  match l with
  | ts :: 0 :: n :: t => let (ps, r) := dec_pairs (Z.to_nat n) t in (Rec ts (PRegs ps), r)
  | ts :: 1 :: t => (Rec ts PNull, t)
  | ts :: 2 :: t => (Rec ts PNote, t)
  | ts :: _ :: t => (Rec ts PBad, t)
  | _ => (Rec 0 PBad, [])
  end.

Fixpoint dec_recs (n : nat) (l : list Z) : list rec * list Z :=
  match n with
  | O => ([], l)
  | S k => let (r, t) := dec_rec l in let (rs, t') := dec_recs k t in (r :: rs, t')
  end.

Fixpoint dec_files (n : nat) (l : list Z) : list file * list Z :=
  match n with
  | O => ([], l)
  | S k => match l with
           | m :: t => let (f, t') := dec_recs (Z.to_nat m) t in let (fs, t'') := dec_files k t' in (f :: fs, t'')
           | [] => ([], [])
           end
  end.

Definition st_code (s : lstate) : Z :=
  match s with INITIAL => 0 | SWITCHING => 1 | STREAMING => 2 | EXHAUSTED => 3 | AWAITING => 4 | COMPLETE => 5 | FAILED => 6 end.

Definition enc_pairs (l : list (Z * Z)) : list Z := Z.of_nat (length l) :: flat_map (fun p => [fst p; snd p]) l.
Definition enc_event (e : event) : list Z := fst e :: enc_pairs (snd e).

Fixpoint run_sched (files : list file) (look : Z) (limit : option Z) (sched : list Z) (l : loader) : list Z :=
  match sched with
  | [] => enc_pairs (l_values l)
  | now :: t => let (l1, evs) := load files look limit now l in
                st_code (l_state l1) :: Z.of_nat (length evs) :: flat_map enc_event evs ++ run_sched files look limit t l1
  end.

(* case: look, haslimit, limit, nfiles, files..., nsched, sched... *)
Definition run_history (c : list Z) : list Z :=
  match c with
  | look :: hl :: lim :: nf :: t =>
      let (files, r) := dec_files (Z.to_nat nf) t in
      let (sched, _) := take_list r in
      run_sched files look (if hl =? 0 then None else Some lim) sched init
  | _ => [-1]
  end.
