(* Flat-integer interface to Model/Engine.v for props/engine_common.py. *)
From Coq Require Import ZArith List Bool.
From CV Require Import Base.Wire Model.Engine.
Import ListNotations.
Open Scope Z_scope.

Definition p_lim (k v : Z) : lim := if k =? 0 then LNone else if k =? 1 then LInt v else if k =? 2 then LKey v else LCall.

(* a target: 0 None | 1 n state | 2 has n decide *)
Fixpoint p_tgts (n : nat) (l : list Z) : list tgt * list Z :=
  match n with
  | O => ([], l)
  | S k => match l with
           | 0 :: t => let (r, rest) := p_tgts k t in (TNone :: r, rest)
           | 1 :: x :: t => let (r, rest) := p_tgts k t in (TState (Z.to_nat x) :: r, rest)
           | 2 :: h :: x :: t => let (r, rest) := p_tgts k t in (TDecide (if bz h then Some (Z.to_nat x) else None) :: r, rest)
           | _ => ([], l)
           end
  end.

(* an edge: key, ntargets, targets... *)
Fixpoint p_trans (n : nat) (l : list Z) : list (Z * list tgt) * list Z :=
  match n with
  | O => ([], l)
  | S k => match l with
           | key :: nt :: t => let (ts, r1) := p_tgts (Z.to_nat nt) t in
                               let (r, rest) := p_trans k r1 in ((key, ts) :: r, rest)
           | _ => ([], l)
           end
  end.

Definition p_node (l : list Z) : option (node * list Z) :=
  match l with
  | pr :: hs :: sk :: tm :: gr :: lk :: lv :: nt :: t =>
      let (tr, r1) := p_trans (Z.to_nat nt) t in
      match r1 with
      | hsub :: init :: rk :: rv :: hst :: src :: dst :: size :: sg :: r2 =>
          Some (Node (if pr =? 0 then PNone else if pr =? 1 then PInput (if bz hs then Some sk else None) else PDrop)
                     (bz tm) (bz gr) (p_lim lk lv) tr
                     (if bz hsub then Some (Z.to_nat init, p_lim rk rv) else None)
                     (if bz hst then Some (src, dst, size, sg) else None), r2)
      | _ => None
      end
  | _ => None
  end.

Fixpoint p_nodes (n : nat) (l : list Z) : option (machine * list Z) :=
  match n with
  | O => Some ([], l)
  | S k => match p_node l with
           | Some (nd, r) => match p_nodes k r with Some (m, r') => Some (nd :: m, r') | None => None end
           | None => None
           end
  end.

Definition enc_data (d : data) : list Z :=
  Z.of_nat (length d) ::
  flat_map (fun e : Z * dval => match snd e with
                                | DInt z => [fst e; 0; z]
                                | DBytes l => fst e :: 1 :: put_list l end) d.

(* case: nnodes, nodes..., fuel, ninput, input..., ndecides, decides..., nlimits, limits...
   ->  [0; code] | [1; sent; term; data...] (the tapes' leftovers are in the data under keys -1, -2) *)
Definition run_engine (c : list Z) : list Z :=
  match c with
  | nn :: t =>
      match p_nodes (Z.to_nat nn) t with
      | Some (m, fuel :: r) =>
          let (inp, r1) := take_list r in
          let (decs, r2) := take_list r1 in
          let (lims, _) := take_list r2 in
          match run_oracle (Z.to_nat fuel) m inp decs lims with
          | RFail code => [0; code]
          | ROk s d y term => 1 :: sent s :: zb term :: enc_data d
          end
      | _ => [-1]
      end
  | [] => [-1]
  end.
