(* Flat-integer interface to Model/Engine.v for props/engine_common.py. *)
From Coq Require Import ZArith List Bool.
From CV Require Import Base.Wire Model.Engine.
Import ListNotations.
Open Scope Z_scope.

Definition p_lim (k v : Z) : lim := if k =? 0 then LNone else if k =? 1 then LInt v else LKey v.

Fixpoint p_trans (n : nat) (l : list Z) : list (Z * option nat) * list Z :=
  match n with
  | O => ([], l)
  | S k => match l with
           | key :: ht :: tg :: t => let (r, rest) := p_trans k t in
                                     ((key, if bz ht then Some (Z.to_nat tg) else None) :: r, rest)
           | _ => ([], l)
           end
  end.

Definition p_node (l : list Z) : option (node * list Z) :=
  match l with
  | pr :: hs :: sk :: tm :: gr :: lk :: lv :: nt :: t =>
      let (tr, r1) := p_trans (Z.to_nat nt) t in
      match r1 with
      | hsub :: init :: rk :: rv :: hst :: src :: dst :: size :: sg :: r2 =>
          Some (Node (if pr =? 0 then PNone else if pr =? 1 then PInput (if bz hs then Some sk else None) else PDrop)
                     (bz tm) (bz gr) (p_lim lk lv) tr
                     (if bz hsub then Some (Z.to_nat init, p_lim rk rv) else None)
                     (if bz hst then Some (src, dst, size, sg) else None), r2)
      | _ => None
      end
  | _ => None
  end.

Fixpoint p_nodes (n : nat) (l : list Z) : option (machine * list Z) :=
  match n with
  | O => Some ([], l)
  | S k => match p_node l with
           | Some (nd, r) => match p_nodes k r with Some (m, r') => Some (nd :: m, r') | None => None end
           | None => None
           end
  end.

Definition enc_data (d : data) : list Z :=
  Z.of_nat (length d) ::
  flat_map (fun e : Z * dval => match snd e with
                                | DInt z => [fst e; 0; z]
                                | DBytes l => fst e :: 1 :: put_list l end) d.

(* case: nnodes, nodes..., fuel, ninput, input...  ->  [0; code] | [1; sent; term; data...; has_yield; has_target; target] *)
Definition run_engine (c : list Z) : list Z :=
  match c with
  | nn :: t =>
      match p_nodes (Z.to_nat nn) t with
      | Some (m, fuel :: r) =>
          let (inp, _) := take_list r in
          match run (Z.to_nat fuel) m inp with
          | RFail code => [0; code]
          | ROk s d y term => 1 :: sent s :: zb term :: enc_data d
          end
      | _ => [-1]
      end
  | [] => [-1]
  end.
