(* Model of the client's request issue / harvest machinery (property C12): server/enip/client.py
   connector.issue (bundling operations into Multiple Service Packets under a size limit, never across different
   route / send paths) and connector.pipeline (issue ahead up to `depth` requests, harvest in order).
   Hand-written; tied to /repo by props/c12.py.  Definitions only. *)
From Coq Require Import ZArith List Bool.
Import ListNotations.
Open Scope Z_scope.

(* what issue() needs to know about an operation: estimated request / reply sizes, and its route_path / send_path
   (identified by numbers: equal numbers = equal paths) *)
Record opinfo := Op { o_req : Z; o_rpy : Z; o_route : Z; o_send : Z }.

Definition same_paths (p : option (Z * Z)) (o : opinfo) : bool :=
  match p with None => true | Some (r, s) => (r =? o_route o) && (s =? o_send o) end.

(* the loop of connector.issue with multiple > 0: `cur` are the queued operations (indices, most recent first), `paths`
   the route/send path of the bundle being collected, reqsiz / rpysiz its estimated sizes (68 = fixed overhead).
   NB after a flush the sizes restart at 68 WITHOUT the operation that forced the flush (as the code does). *)
Fixpoint plan_go (multiple : Z) (ops : list opinfo) (idx : nat) (cur : list nat) (paths : option (Z * Z))
                 (reqsiz rpysiz : Z) : list (list nat) :=
  match ops with
  | [] => match cur with [] => [] | _ => [rev cur] end
  | o :: t =>
      let fits := match cur with [] => true | _ => Z.max (reqsiz + o_req o) (rpysiz + o_rpy o) <? multiple end in
      if fits && same_paths paths o then
        plan_go multiple t (S idx) (idx :: cur) (Some (o_route o, o_send o)) (reqsiz + o_req o) (rpysiz + o_rpy o)
      else
        rev cur :: plan_go multiple t (S idx) [idx] (Some (o_route o, o_send o)) 68 68
  end.

(* multiple = 0: every operation is its own request *)
Definition plan (multiple : Z) (ops : list opinfo) : list (list nat) :=
  if multiple =? 0 then map (fun i => [i]) (seq 0 (length ops))
  else plan_go multiple ops 0 [] None 68 68.

(* ---- pipeline( depth ): the order of issue / harvest events ----
   `issued` : the request index of every operation in issue order (operations of one bundle share an index);
   an event is the issue or the harvest of one operation. *)
Inductive event := EIssue (op : nat) | EHarvest (op : nat).

(* state: operations still to issue, operations in flight (oldest first), curr / last request indices *)
Fixpoint pipe (fuel : nat) (depth : Z) (todo : list (nat * Z)) (inflight : list (nat * Z)) (curr last : Z) : list event :=
  match fuel with
  | O => []
  | S f =>
    match todo, inflight with
    | [], [] => []
    | _, _ =>
      (* if issuer: issue the next operation *)
      let '(ev1, todo1, inflight1, curr1) :=
        match todo with
        | (op, ix) :: t => ([EIssue op], t, inflight ++ [(op, ix)], ix)
        | [] => ([], [], inflight, curr)
        end in
      (* if curr - last > depth or not issuer: harvest one *)
      let exhausted := match todo with [] => true | _ => false end in
      if (depth <? curr1 - last) || exhausted then
        match inflight1 with
        | (op, ix) :: rest => ev1 ++ EHarvest op :: pipe f depth todo1 rest curr1 ix
        | [] => ev1
        end
      else ev1 ++ pipe f depth todo1 inflight1 curr1 last
    end
  end.

Definition pipeline (depth : Z) (issued : list Z) : list event :=
  let ops := combine (seq 0 (length issued)) issued in
  pipe (2 * length issued + 2) depth ops [] (-1) (-1).

Definition harvested (evs : list event) : list nat :=
  flat_map (fun e => match e with EHarvest o => [o] | _ => [] end) evs.
Definition issued_ops (evs : list event) : list nat :=
  flat_map (fun e => match e with EIssue o => [o] | _ => [] end) evs.
