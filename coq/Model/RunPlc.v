From Coq Require Import ZArith List Bool.
From CV Require Import Base.Wire Model.Plc.
Import ListNotations.
Open Scope Z_scope.

(* case: [kind; reach; has_limit; limit; n; a1; c1; ...]   kind 0 = merge, 1 = shatter (first range) *)
Definition run_plc (c : list Z) : list Z :=
  match c with
  | kind :: reach :: hl :: lim :: n :: rest =>
      let (rs, _) := take_pairs (Z.to_nat n) rest in
      let limit := if bz hl then Some lim else None in
      if kind =? 0 then
        match merge rs reach limit with
        | Some out => 1 :: flat_pairs out
        | None => [0]
        end
      else match rs with
           | (a, cnt) :: _ => 1 :: flat_pairs (shatter a cnt limit)
           | [] => [0]
           end
  | _ => [-1]
  end.
