(* Model of connected (Forward Open) sessions of the simulator (property C14): server/enip/device.py
   Connection_Manager.forward_open / forward_close / request and the `forwards` table, server/enip/ucmm.py
   UCMM.request connected branch (connection_ID + connection_data items of a SendUnitData).
   Requests are typed; their byte layout (Forward Open fields, CPF items 0xA1 / 0xB1, 16-bit sequence count) is the
   reference codec of C01.  Hand-written; tied to /repo by props/c14.py.  Definitions only. *)
From Coq Require Import ZArith List Bool.
From CV Require Import Model.Logix.
Import ListNotations.
Open Scope Z_scope.

Record fwd := Fwd { f_serial : Z; f_params : Z }.     (* connection serial number; the compared connection parameters *)

Inductive creq :=
| COpen (ot_id : Z) (f : fwd)                  (* Forward Open: the O->T connection id the target answers with, the parameters *)
| CSend (ot_id : Z) (seq : Z) (r : req)       (* SendUnitData: connection id item, 16-bit sequence count, the request *)
| CClose (serial : Z).                         (* Forward Close by connection serial *)

Inductive crep :=
| ROpened (ot_id : Z)
| RRefused                                     (* Forward Open with incompatible parameters on an id in use: status 8 *)
| RSent (seq : Z) (bytes : option (list Z))    (* the sequence count echoed, the CIP reply *)
| RClosed.

Record cstate := CS { c_store : store; c_fwd : list (Z * fwd) }.

Fixpoint lookup_fwd (id : Z) (l : list (Z * fwd)) : option fwd :=
  match l with [] => None | (k, f) :: t => if k =? id then Some f else lookup_fwd id t end.

Definition cstep (maxb : Z) (s : cstate) (q : creq) : cstate * crep :=
  match q with
  | COpen id f =>
      match lookup_fwd id (c_fwd s) with
      | Some g => if (f_serial g =? f_serial f) && (f_params g =? f_params f) then (s, ROpened id)
                  else if f_params g =? f_params f then (s, ROpened id) else (s, RRefused)
      | None => (CS (c_store s) ((id, f) :: c_fwd s), ROpened id)
      end
  | CSend id seq r =>
      (* the request is executed by the target object whether or not the id is known (an unknown id falls back to the
         request's own path); the reply travels in a connection_data item that echoes the sequence count *)
      let (st', rp) := exec fixed maxb (c_store s) r in
      (CS st' (c_fwd s), RSent seq (produce rp))
  | CClose serial =>
      (CS (c_store s) (filter (fun e => negb (f_serial (snd e) =? serial)) (c_fwd s)), RClosed)
  end.

Fixpoint crun (maxb : Z) (s : cstate) (qs : list creq) : cstate * list crep :=
  match qs with
  | [] => (s, [])
  | q :: t => let (s1, r) := cstep maxb s q in let (s2, rs) := crun maxb s1 t in (s2, r :: rs)
  end.

(* the unconnected view of the same history: the requests alone, one by one *)
Fixpoint requests_of (qs : list creq) : list req :=
  match qs with
  | [] => []
  | CSend _ _ r :: t => r :: requests_of t
  | _ :: t => requests_of t
  end.
