(* Model of the client's textual operation descriptions (property C12): server/enip/client.py parse_operations and
   server/enip/device.py parse_path_elements / parse_path_component for the spellings
       TAG | TAG[i] | TAG[a-b]   optionally followed by   +<byte offset>   and   =(TYPE)v1,v2,...
   (TAG a symbolic name; numbers decimal; the numeric @class/instance/attribute spelling is Model/Route.v-style
   text and is exercised by the correspondence only).  Hand-written; tied to /repo by props/c12.py. *)
From Coq Require Import ZArith List Bool.
From CV Require Import Model.Tnet Model.Route.
Import ListNotations.
Open Scope Z_scope.

Definition c_eq := 61. Definition c_plus := 43. Definition c_lbr := 91. Definition c_rbr := 93.
Definition c_lpar := 40. Definition c_rpar := 41. Definition c_comma := 44. Definition c_dash := 45.

Record optext := OpText {
  t_name : list Z;                         (* the symbolic tag *)
  t_elem : option (Z * option Z);          (* [first] or [first-last] *)
  t_off : option Z;                        (* +offset : forces the Fragmented service *)
  t_write : option (list Z * list Z)       (* =(TYPE)values *)
}.

Fixpoint join (sep : Z) (parts : list (list Z)) : list Z :=
  match parts with
  | [] => []
  | [p] => p
  | p :: t => p ++ sep :: join sep t
  end.

Definition print_op (o : optext) : list Z :=
  t_name o
  ++ (match t_elem o with
      | None => []
      | Some (a, None) => c_lbr :: dec a ++ [c_rbr]
      | Some (a, Some b) => c_lbr :: dec a ++ c_dash :: dec b ++ [c_rbr]
      end)
  ++ (match t_off o with None => [] | Some f => c_plus :: dec f end)
  ++ (match t_write o with
      | None => []
      | Some (ty, vals) => c_eq :: c_lpar :: ty ++ c_rpar :: join c_comma (map print_int vals)
      end).

(* str.split( sep, 1 ): at the first occurrence *)
Fixpoint break_at (sep : Z) (l : list Z) : option (list Z * list Z) :=
  match l with
  | [] => None
  | c :: t => if c =? sep then Some ([], t)
              else match break_at sep t with Some (a, b) => Some (c :: a, b) | None => None end
  end.

Fixpoint all_some {A} (l : list (option A)) : option (list A) :=
  match l with
  | [] => Some []
  | Some x :: t => match all_some t with Some r => Some (x :: r) | None => None end
  | None :: _ => None
  end.

Definition parse_elem (s : list Z) : option (list Z * option (Z * option Z)) :=
  match break_at c_lbr s with
  | None => Some (s, None)
  | Some (nm, rest) =>
      match break_at c_rbr rest with
      | Some (el, []) =>
          match break_at c_dash el with
          | Some (a, b) => match undec a, undec b with
                           | Some x, Some y => Some (nm, Some (x, Some y))
                           | _, _ => None
                           end
          | None => match undec el with Some x => Some (nm, Some (x, None)) | None => None end
          end
      | _ => None
      end
  end.

Definition parse_op (s : list Z) : option optext :=
  let (lhs, wr) := match break_at c_eq s with Some (a, b) => (a, Some b) | None => (s, None) end in
  let (lhs2, off) := match break_at c_plus lhs with Some (a, b) => (a, Some b) | None => (lhs, None) end in
  match (match off with
         | None | Some [] => Some None
         | Some o => match undec o with Some v => Some (Some v) | None => None end
         end) with
  | None => None
  | Some offv =>
    match parse_elem lhs2 with
    | None => None
    | Some (nm, el) =>
      match wr with
      | None => Some (OpText nm el offv None)
      | Some (c :: r) =>
          if c =? c_lpar then
            match break_at c_rpar r with
            | Some (ty, vs) =>
                match all_some (map parse_int (split_on c_comma vs [])) with
                | Some vals => Some (OpText nm el offv (Some (ty, vals)))
                | None => None
                end
            | None => None
            end
          else None
      | Some [] => Some (OpText nm el offv None)
      end
    end
  end.
