(* Flat-integer interface to Model/Concurrent.v for props/c09.py. *)
From Coq Require Import ZArith List Bool.
From CV Require Import Base.Wire Model.Concurrent.
Import ListNotations.
Open Scope Z_scope.

(* events: 0 t c nbody body... | 1 t *)
Fixpoint dec_evs (fuel : nat) (n : nat) (l : list Z) : list ev * list Z :=
  match fuel with
  | O => ([], l)
  | S f =>
    match n with
    | O => ([], l)
    | S k =>
      match l with
      | 0 :: t :: c :: nb :: r => let (body, r1) := dec_evs f (Z.to_nat nb) r in
                                  let (rest, r2) := dec_evs f k r1 in (Reg t c body :: rest, r2)
      | 1 :: t :: r => let (rest, r2) := dec_evs f k r in (Exit t :: rest, r2)
      | _ => ([], l)
      end
    end
  end.

Fixpoint dec_aops (n : nat) (l : list Z) : list (nat * aop) :=
  match n with
  | O => []
  | S k => match l with
           | sid :: 0 :: s :: t => let (vs, r) := take_list t in (Z.to_nat sid, AWrite (Z.to_nat s) vs) :: dec_aops k r
           | sid :: 1 :: s :: len :: r => (Z.to_nat sid, ARead (Z.to_nat s) (Z.to_nat len)) :: dec_aops k r
           | _ => []
           end
  end.

Definition enc_res (r : nat * aop * option (list Z)) : list Z :=
  match snd r with Some vs => 1 :: put_list vs | None => [0] end.

Definition run_concurrent (c : list Z) : list Z :=
  match c with
  | 0 :: n :: t => let (es, _) := dec_evs (length t) (Z.to_nat n) t in
                   let (_, log) := run_evs (length t + 2) es [] in
                   Z.of_nat (length log) :: flat_map (fun rc => [fst rc; snd rc]) log
  | 1 :: t => let (a, r) := take_list t in
              match r with
              | n :: ops => let (a', res) := arun a (dec_aops (Z.to_nat n) ops) in put_list a' ++ flat_map enc_res res
              | [] => [-1]
              end
  | _ => [-1]
  end.
