(* Flat-integer interface to the reference codec (Model/Codec.v) for props/c01.py, c14.py. *)
From Coq Require Import ZArith List Bool.
From CV Require Import Base.Wire Base.Fmt Model.Codec.
Import ListNotations.
Open Scope Z_scope.

Fixpoint enc_tree (fuel : nat) (t : tree) : list Z :=
  match fuel with
  | O => [-9]
  | S f => match t with
           | TZ z => [0; z]
           | TL l => 1 :: Z.of_nat (length l) :: flat_map (enc_tree f) l
           end
  end.

Fixpoint dec_tree (fuel : nat) (l : list Z) : option (tree * list Z) :=
  match fuel with
  | O => None
  | S f =>
    match l with
    | 0 :: z :: t => Some (TZ z, t)
    | 1 :: n :: t =>
        (fix go (k : nat) (l : list Z) (acc : list tree) : option (tree * list Z) :=
           match k with
           | O => Some (TL (rev acc), l)
           | S k' => match dec_tree f l with Some (x, r) => go k' r (x :: acc) | None => None end
           end) (Z.to_nat n) t []
    | _ => None
    end
  end.

Definition TF := 200%nat.

Fixpoint zlist_eqb (a b : list Z) : bool :=
  match a, b with
  | [], [] => true
  | x :: a', y :: b' => (x =? y) && zlist_eqb a' b'
  | _, _ => false
  end.

Definition run_fmt {A} (f : fmt A) (dir : Z) (rest : list Z) : list Z :=
  if dir =? 0 then
    match dec_tree TF rest with
    | Some (t, _) => match unview f t with
                     | Some a =>
                         (* the value is well-formed exactly when its encoding decodes back to it (rt_dec) *)
                         let bs := enc f a in
                         (match dec f bs with
                          | Some (a', []) => if zlist_eqb (enc_tree TF (view f a')) (enc_tree TF (view f a)) then 1 else 2
                          | _ => 2 end) :: put_list bs
                     | None => [-2]
                     end
    | None => [-3]
    end
  else
    let (bs, _) := take_list rest in
    match dec f bs with
    | Some (a, tl) => 1 :: Z.of_nat (length tl) :: enc_tree TF (view f a)
    | None => [0]
    end.

Definition run_fend {A} (g : fend A) (dir : Z) (rest : list Z) : list Z :=
  if dir =? 0 then
    match dec_tree TF rest with
    | Some (t, _) => match eunview g t with
                     | Some a =>
                         let bs := eenc g a in
                         (match edec g bs with
                          | Some a' => if zlist_eqb (enc_tree TF (eview g a')) (enc_tree TF (eview g a)) then 1 else 2
                          | None => 2 end) :: put_list bs
                     | None => [-2]
                     end
    | None => [-3]
    end
  else
    let (bs, _) := take_list rest in
    match edec g bs with
    | Some a => 1 :: 0 :: enc_tree TF (eview g a)
    | None => [0]
    end.

(* [which; param; dir; ...]   dir 0 = encode a tree, 1 = decode bytes *)
Definition run_codec (c : list Z) : list Z :=
  match c with
  | which :: param :: dir :: rest =>
      if which =? 0 then run_fmt frame dir rest
      else if which =? 1 then run_fend cip dir rest
      else if which =? 2 then run_fmt epath dir rest
      else if which =? 3 then run_fend (typed_end param) dir rest
      else if which =? 4 then run_fmt status_fmt dir rest
      else if which =? 5 then run_fmt (scalar param) dir rest
      else if which =? 6 then run_fmt epath_padded dir rest
      else if which =? 7 then run_fmt (strval param) dir rest
      else if which =? 8 then run_fmt seg_fmt dir rest
      else if which =? 9 then run_fend usend dir rest
      else if which =? 10 then run_fmt cpf dir rest
      else if which =? 11 then run_fend cm dir rest
      else if which =? 12 then
        match rest with
        | sz :: va :: pr :: ty :: re :: _ => [ncp_encode (bz param) (NCP sz va pr ty re)]
        | _ => [-1] end
      else if which =? 13 then
        match rest with
        | v :: _ => let p := ncp_decode (bz param) v in [n_size p; n_variable p; n_priority p; n_type p; n_redundant p]
        | _ => [-1] end
      else [-1]
  | _ => [-1]
  end.
