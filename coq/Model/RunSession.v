(* Flat-integer interface to Model/Session.v for props/c06.py. *)
From Coq Require Import ZArith List Bool.
From CV Require Import Base.Wire Model.Tnet Model.Logix Model.RunLogix Model.Route Model.RunRoute Model.Session.
Import ListNotations.
Open Scope Z_scope.

(* envelope: sess, 8 context bytes, opts *)
Definition p_env : P envelope := fun l =>
  match l with
  | s :: c0 :: c1 :: c2 :: c3 :: c4 :: c5 :: c6 :: c7 :: o :: t => Some (Env s [c0; c1; c2; c3; c4; c5; c6; c7] o, t)
  | _ => None
  end.

Definition p_ereq : P ereq := fun l =>
  match l with
  | 0 :: t => match p_env t with Some (e, r) => Some (QRegister e, r) | None => None end
  | 1 :: t => match p_env t with Some (e, r) => Some (QUnregister e, r) | None => None end
  | 2 :: c :: t => match p_env t with Some (e, r) => Some (QList c e, r) | None => None end
  | 3 :: t => match p_env t with
              | Some (e, r) => match p_opath r with
                               | Some (rp, r1) => match p_req r1 with Some (q, r2) => Some (QSend e rp q, r2) | None => None end
                               | None => None end
              | None => None end
  | _ => None
  end.

Definition enc_body (b : ebody) : list Z :=
  match b with
  | BRegister => [0]
  | BList c => [1; c]
  | BCip bs => 2 :: put_list bs
  | BNone => [3]
  end.

Definition enc_reply (r : ereply) : list Z :=
  [p_cmd r; p_sess r; p_status r] ++ p_ctx r ++ [p_opts r] ++ enc_body (p_body r).

(* case: cfg, maxb, attrs, dir, sym, nreq, requests...  ->  nreplies, replies..., store hash.
   Register replies carry -(allocation index+1) in place of the random session handle. *)
Definition run_session (c : list Z) : list Z :=
  match p_opath c with
  | Some (cfg, maxb :: r1) =>
    match p_list p_attr r1 with
    | Some (attrs, r2) =>
      match p_list p_dir r2 with
      | Some (dir, r3) =>
        match p_list p_sym r3 with
        | Some (sym, r4) =>
          match p_list p_ereq r4 with
          | Some (qs, _) =>
              let (reps, s') := srun (fun n => - Z.of_nat (S n)) cfg maxb (SS (Store attrs dir sym) 0) qs in
              Z.of_nat (length reps) :: flat_map enc_reply reps ++ [hash (dump_store (s_store s'))]
          | None => [-5]
          end
        | None => [-4]
        end
      | None => [-3]
      end
    | None => [-2]
    end
  | _ => [-1]
  end.
