(* Flat-integer interface to Model/Times.v for props/c17.py. *)
From Coq Require Import ZArith List Bool.
From CV Require Import Base.Wire Model.Times.
Import ListNotations.
Open Scope Z_scope.

Fixpoint dec_zone (n : nat) (l : list Z) : zone * list Z :=
  match n with
  | O => ([], l)
  | S k => match l with
           | st :: off :: dst :: t => let (z, r) := dec_zone k t in ((st, off, bz dst) :: z, r)
           | _ => ([], l)
           end
  end.

Definition enc_opt (o : option Z) : list Z := match o with Some v => [1; v] | None => [0; 0] end.

Definition enc_dur (t : dur_text) : list Z :=
  [t_y t; t_w t; t_d t; t_h t; t_m t] ++
  match t_sub t with
  | SFrac s ds => 0 :: s :: put_list ds
  | SUnits s ms us => 1 :: enc_opt s ++ enc_opt ms ++ enc_opt us
  end.

Definition dec_opt (has v : Z) : option Z := if has =? 0 then None else Some v.

Definition run_times (c : list Z) : list Z :=
  match c with
  | 0 :: p :: n :: D :: nz :: t =>                                        (* render *)
      let (z, _) := dec_zone (Z.to_nat nz) t in
      let '(f, frac, dst) := render p n D z in
      [f_y f; f_mo f; f_d f; f_h f; f_mi f; f_s f; frac; zb dst; units p n D]
  | 1 :: p :: y :: mo :: d :: h :: mi :: s :: frac :: flag :: nz :: t =>  (* parse *)
      let (z, _) := dec_zone (Z.to_nat nz) t in
      let fl := if flag =? 0 then None else Some (flag =? 2) in
      match parse p (Fields y mo d h mi s) frac z fl with Some q => [1; q] | None => [0] end
  | 2 :: a :: b :: D :: _ =>                                              (* compare *)
      [zb (ts_lt a b D); zb (ts_lt b a D); zb (ts_eq a b D); rne (a * 1000) D; rne (b * 1000) D]
  | 3 :: secs :: us :: _ => enc_dur (dur_format secs us)                  (* duration -> text components *)
  | 4 :: y :: w :: d :: h :: m :: 0 :: s :: t =>                          (* text components -> duration *)
      let (ds, _) := take_list t in
      let (a, b) := dur_parse (DurText y w d h m (SFrac s ds)) in [a; b]
  | 4 :: y :: w :: d :: h :: m :: 1 :: hs :: s :: hms :: ms :: hus :: us :: _ =>
      let (a, b) := dur_parse (DurText y w d h m (SUnits (dec_opt hs s) (dec_opt hms ms) (dec_opt hus us))) in [a; b]
  | _ => [-1]
  end.
