(* Flat-integer interface to Model/Route.v for props/c15.py. *)
From Coq Require Import ZArith List Bool.
From CV Require Import Base.Wire Model.Tnet Model.Logix Model.RunLogix Model.Route.
Import ListNotations.
Open Scope Z_scope.

(* seg: port kind(0 num/1 ip/2 other address string) a b c d *)
Definition p_seg : P seg := fun l =>
  match l with
  | p :: k :: a :: b :: c :: d :: t => Some ((p, if k =? 0 then LNum a else if k =? 1 then LIp a b c d else LText a), t)
  | _ => None
  end.

(* optional path: 0 = absent, 1 n segs = present *)
Definition p_opath : P (option (list seg)) := fun l =>
  match l with
  | 0 :: t => Some (None, t)
  | 1 :: t => match p_list p_seg t with Some (s, r) => Some (Some s, r) | None => None end
  | _ => None
  end.

Definition enc_seg (s : seg) : list Z :=
  match s with (p, LNum n) => [p; 0; n; 0; 0; 0] | (p, LIp a b c d) => [p; 1; a; b; c; d] | (p, LText t) => [p; 2; t; 0; 0; 0] end.

(* kind 0: [0; cfg; rp]                         -> [accept]
   kind 1: [1; n; text bytes]                   -> [1; n; segs] | [0]
   kind 2: [2; n; segs]                         -> n :: text bytes
   kind 3: [3; cfg; rp; maxb; attrs; dir; sym; req] -> [0; status] | [1; n; reply bytes] | [1; -1]  ++ hash store *)
Definition run_route (c : list Z) : list Z :=
  match c with
  | 0 :: t =>
      match p_opath t with
      | Some (cfg, r) => match p_opath r with Some (rp, _) => [zb (accept cfg rp)] | None => [-1] end
      | None => [-1]
      end
  | 1 :: t => let (bs, _) := take_list t in
              match parse_route bs with
              | Some segs => 1 :: Z.of_nat (length segs) :: flat_map enc_seg segs
              | None => [0]
              end
  | 2 :: t => match p_list p_seg t with
              | Some (segs, _) => put_list (print_route segs)
              | None => [-1]
              end
  | 3 :: t =>
      match p_opath t with
      | Some (cfg, r0) =>
        match p_opath r0 with
        | Some (rp, maxb :: r1) =>
          match p_list p_attr r1 with
          | Some (attrs, r2) =>
            match p_list p_dir r2 with
            | Some (dir, r3) =>
              match p_list p_sym r3 with
              | Some (sym, r4) =>
                match p_req r4 with
                | Some (rq, _) =>
                  let (st', res) := ucmm_local cfg maxb (Store attrs dir sym) rp rq in
                  (match res with
                   | URefused s => [0; s]
                   | UReply (Some bs) => 1 :: put_list bs
                   | UReply None => [1; -1]
                   end) ++ [hash (dump_store st')]
                | None => [-5]
                end
              | None => [-4]
              end
            | None => [-3]
            end
          | None => [-2]
          end
        | _ => [-1]
        end
      | None => [-1]
      end
  | _ => [-1]
  end.
