(* Model of the client's reply matching (property C13): server/enip/client.py connector.collect / harvest /
   pipeline / synchronous.  What arrives is a sequence of complete reply frames (Model/Framing.v decides which frames
   a cut stream completes) followed by how the stream ended; each issued operation expects the sender context of its
   wire request and its service code with the reply bit.  Hand-written; tied to /repo by props/c13.py. *)
From Coq Require Import ZArith List Bool.
Import ListNotations.
Open Scope Z_scope.

Record issued := Iss { i_ctx : Z; i_svc : Z }.                 (* one operation: context of its request, service code *)
Record reply := Rpl { r_ctx : Z; r_svc : Z; r_val : Z }.       (* one operation's reply as collect() yields it *)

Inductive ending := CleanEOF | InsideFrame | Timeout.        (* EOF between frames / EOF or error inside a frame / silence *)

Inductive outcome :=
| Done (results : list (issued * reply))                     (* the result stream ended normally *)
| Raised (results : list (issued * reply)).                  (* results yielded so far, then an exception *)

(* harvest: pair each issued operation with the next collected reply; a reply whose context or service does not match
   its operation raises.  When the replies run out the stream ended: inside a frame the framer raised; otherwise
   all == true (pipeline, and synchronous since the fix) asserts that everything issued was harvested. *)
Fixpoint harvest (all : bool) (ops : list issued) (rs : list reply) (e : ending) (acc : list (issued * reply)) : outcome :=
  match ops with
  | [] => Done (rev acc)
  | i :: it =>
      match rs with
      | r :: rt => if (r_ctx r =? i_ctx i) && (r_svc r =? i_svc i + 128) then harvest all it rt e ((i, r) :: acc)
                   else Raised (rev acc)
      | [] => match e with
              | InsideFrame => Raised (rev acc)
              | _ => if all then Raised (rev acc) else Done (rev acc)
              end
      end
  end.

Definition results (o : outcome) : list (issued * reply) := match o with Done l | Raised l => l end.
