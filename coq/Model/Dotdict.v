(* Model of cpppo/dotdict.py: dotdict_base._resolve, __setitem__, __getitem__, __contains__, __delitem__, pop,
   setdefault, iteritems, copy.  Property C16.  Keys are strings = lists of character codes.
   Hand-written transcription (string-level, including the quirks); tied to /repo by props/c16.py.
   Indexed segments are modelled for the literal form  name[<spaces><digits>]  only. *)
From Coq Require Import ZArith List Bool Arith.
Import ListNotations.
Open Scope Z_scope.

Definition key := list Z.
Definition DOT := 46.  Definition LB := 91.  Definition RB := 93.  Definition SP := 32.

Inductive val :=
| VInt (z : Z)
| VList (l : list val)
| VDot (kv : list (key * val))      (* a dotdict level, insertion ordered *)
| VPlain (kv : list (key * val)).   (* a plain dict (as given by the caller) *)

(* error classes *)
Definition EKey := 1.  Definition EIndex := 2.  Definition EType := 3.  Definition EName := 4.
Definition EValue := 6.  Definition EUnmodelled := 99.

Inductive res (A : Type) := Ok (a : A) | Err (e : Z).
Arguments Ok {A}.  Arguments Err {A}.

Fixpoint key_eqb (a b : key) : bool :=
  match a, b with
  | [], [] => true
  | x :: a', y :: b' => (x =? y) && key_eqb a' b'
  | _, _ => false
  end.

Definition has (c : Z) (k : key) : bool := existsb (Z.eqb c) k.

(* ---- string helpers --------------------------------------------------------------------------------- *)
(* k.split( '.', 1 ) when '.' in k *)
Fixpoint split_dot (k : key) : key * key :=
  match k with
  | [] => ([], [])
  | c :: t => if c =? DOT then ([], t) else let (a, b) := split_dot t in (c :: a, b)
  end.

(* k.split( '..', 1 ): (front, back) at the first ".." *)
Fixpoint split_dd (k : key) : option (key * key) :=
  match k with
  | c :: ((d :: t) as r) =>
      if (c =? DOT) && (d =? DOT) then Some ([], t)
      else match split_dd r with Some (a, b) => Some (c :: a, b) | None => None end
  | _ => None
  end.

(* front[:max(0, front.rfind('.'))] *)
Fixpoint trunc_last_dot (k : key) : key :=
  match k with
  | [] => []
  | c :: t => if has DOT t then c :: trunc_last_dot t else []
  end.

Fixpoint dedot (fuel : nat) (mine : key) : key :=
  match fuel with
  | O => mine
  | S f => match split_dd mine with
           | None => mine
           | Some (front, back) =>
               let trunc := trunc_last_dot front in
               let sep := match trunc, back with [], _ | _, [] => [] | _, _ => [DOT] end in
               dedot f (trunc ++ sep ++ back)
           end
  end.

Definition balance (k : key) : Z :=
  fold_left (fun a c => if c =? LB then a + 1 else if c =? RB then a - 1 else a) k 0.

(* extend `mine` with further '.'-separated pieces of rest until its brackets balance *)
Fixpoint rebalance (fuel : nat) (mine : key) (rest : key) : res (key * key) :=
  if balance mine =? 0 then Ok (mine, rest) else
  match fuel with
  | O => Err EKey
  | S f => match rest with
           | [] => Err EKey                                    (* "unbalance brackets" *)
           | _ => if has DOT rest
                  then let (ext, rest') := split_dot rest in rebalance f (mine ++ DOT :: ext) rest'
                  else Err EValue                              (* ext,rest = rest.split('.',1) cannot unpack *)
           end
  end.

(* the `while '.' in mine:` loop; rest is an option because it may stay None *)
Fixpoint lead (fuel : nat) (mine : key) (rest : option key) : res (key * option key) :=
  match fuel with
  | O => Ok (mine, rest)
  | S f =>
      if has DOT mine then
        let (m, r) := split_dot mine in
        match m with
        | [] => lead f r (Some r)
        | _ => if has LB m
               then match rebalance (length r) m r with
                    | Ok (m', r') => Ok (m', Some r')
                    | Err e => Err e
                    end
               else Ok (m, Some r)
        end
      else Ok (mine, rest)
  end.

(* dotdict_base._resolve( key )  -- only called when '.' in key *)
Definition resolve (k : key) : res (key * option key) :=
  match lead (S (length k)) (dedot (length k) k) None with
  | Ok ([], _) => Err EKey
  | r => r
  end.

Definition split_key (k : key) : res (key * option key) :=
  if has DOT k then resolve k else Ok (k, None).

(* ---- name[ <digits> ] -------------------------------------------------------------------------------- *)
Fixpoint split_lb (k : key) : key * key :=
  match k with
  | [] => ([], [])
  | c :: t => if c =? LB then ([], t) else let (a, b) := split_lb t in (c :: a, b)
  end.

Fixpoint drop_sp (k : key) : key := match k with c :: t => if c =? SP then drop_sp t else k | [] => [] end.

Fixpoint digits_val (k : key) (acc : Z) : option Z :=
  match k with
  | [] => Some acc
  | c :: t => if (48 <=? c) && (c <=? 57) then digits_val t (acc * 10 + (c - 48)) else None
  end.

(* "name[ 12]" -> (name, 12) ; the text after '[' up to the final ']' must be spaces then digits *)
Definition parse_indexed (k : key) : option (key * Z) :=
  let (name, r) := split_lb k in
  match rev r with
  | c :: body_rev =>
      if c =? RB then
        match drop_sp (rev body_rev) with
        | [] => None
        | ds => match name, digits_val ds 0 with
                | _ :: _, Some n => if has RB name || has SP name then None else Some (name, n)
                | _, _ => None
                end
        end
      else None
  | [] => None
  end.

(* ---- association lists ------------------------------------------------------------------------------- *)
Fixpoint lookup (k : key) (kv : list (key * val)) : option val :=
  match kv with [] => None | (k', v) :: t => if key_eqb k k' then Some v else lookup k t end.

Fixpoint store (k : key) (v : val) (kv : list (key * val)) : list (key * val) :=
  match kv with
  | [] => [(k, v)]
  | (k', v') :: t => if key_eqb k k' then (k', v) :: t else (k', v') :: store k v t
  end.

Fixpoint remove (k : key) (kv : list (key * val)) : list (key * val) :=
  match kv with [] => [] | (k', v') :: t => if key_eqb k k' then t else (k', v') :: remove k t end.

Fixpoint set_nth (l : list val) (n : nat) (x : val) : list val :=
  match l, n with
  | [], _ => []
  | _ :: t, O => x :: t
  | h :: t, S m => h :: set_nth t m x
  end.

(* eval( "name[i]", {}, self ) *)
Definition eval_indexed (kv : list (key * val)) (mine : key) : res val :=
  match parse_indexed mine with
  | None => Err EUnmodelled
  | Some (name, i) =>
      match lookup name kv with
      | None => Err EName
      | Some (VList l) => match nth_error l (Z.to_nat i) with Some v => Ok v | None => Err EIndex end
      | Some (VPlain _) => Err EKey       (* dict[i]: KeyError *)
      | Some _ => Err EType               (* int / dotdict are not indexable by an int *)
      end
  end.

Definition mk (c : list Z) : key := c.
Definition invalid_keys : list key :=
  [ [99;108;101;97;114]; [99;111;112;121]; [103;101;116]; [115;101;116]; [105;116;101;109;115];
    [105;116;101;114;105;116;101;109;115]; [105;116;101;114;107;101;121;115]; [105;116;101;114;118;97;108;117;101;115];
    [108;105;115;116;105;116;101;109;115]; [108;105;115;116;107;101;121;115]; [108;105;115;116;118;97;108;117;101;115];
    [107;101;121;115]; [118;97;108;117;101;115]; [112;111;112]; [112;111;112;105;116;101;109];
    [115;101;116;100;101;102;97;117;108;116]; [117;112;100;97;116;101] ].

Definition is_invalid (k : key) : bool :=
  existsb (key_eqb k) invalid_keys || match k with 95 :: 95 :: _ => true | _ => false end.

(* ---- __getitem__ ------------------------------------------------------------------------------------- *)
Fixpoint get (fuel : nat) (kv : list (key * val)) (k : key) : res val :=
  match fuel with
  | O => Err EUnmodelled
  | S f =>
    match split_key k with
    | Err e => Err e
    | Ok (mine, rest) =>
      let target := if has LB mine then eval_indexed kv mine
                    else match lookup mine kv with Some v => Ok v | None => Err EKey end in
      match target, rest with
      | Err e, _ => Err e
      | Ok t, None => Ok t
      | Ok (VDot sub), Some r => get f sub r
      | Ok (VInt _), Some _ => Err EKey              (* not subscriptable *)
      | Ok (VList _), Some _ => Err EType            (* list indices must be integers *)
      | Ok (VPlain sub), Some r => match lookup r sub with Some v => Ok v | None => Err EKey end
      end
    end
  end.

(* [strict] = reserved names are refused for interior levels too (current tree, after the "fix:" commit);
   strict = false is the originally pinned behaviour (only the final component was checked). *)
(* ---- __setitem__ (returns the new level even on error: setdefault() has already inserted levels) ------ *)
Fixpoint convert (strict : bool) (fuel : nat) (v : val) : list (key * val) * option Z (* error *) :=
  match fuel with
  | O => ([], Some EUnmodelled)
  | S f =>
    match v with
    | VPlain items =>
        fold_left (fun acc it =>
                     match acc with
                     | (kv, Some e) => (kv, Some e)
                     | (kv, None) => set_in strict f kv (fst it) (snd it)
                     end) items ([], None)
    | _ => ([], Some EUnmodelled)
    end
  end
with set_in (strict : bool) (fuel : nat) (kv : list (key * val)) (k : key) (v : val) : list (key * val) * option Z :=
  match fuel with
  | O => (kv, Some EUnmodelled)
  | S f =>
    match split_key k with
    | Err e => (kv, Some e)
    | Ok (mine, rest) =>
      match rest with
      | Some ((_ :: _) as r) =>
          if has LB mine then
            match parse_indexed mine with
            | None => (kv, Some EUnmodelled)
            | Some (name, i) =>
              match lookup name kv with
              | None => (kv, Some EName)
              | Some (VList l) =>
                  match nth_error l (Z.to_nat i) with
                  | None => (kv, Some EIndex)
                  | Some (VDot sub) =>
                      let (sub', e) := set_in strict f sub r v in
                      (store name (VList (set_nth l (Z.to_nat i) (VDot sub'))) kv, e)
                  | Some _ => (kv, Some EKey)
                  end
              | Some (VPlain _) => (kv, Some EKey)
              | Some _ => (kv, Some EType)
              end
            end
          else if strict && is_invalid mine then (kv, Some EKey)
          else
            match lookup mine kv with
            | Some (VDot sub) => let (sub', e) := set_in strict f sub r v in (store mine (VDot sub') kv, e)
            | Some _ => (kv, Some EKey)
            | None => let (sub', e) := set_in strict f [] r v in (store mine (VDot sub') kv, e)
            end
      | _ =>
          (* final component *)
          let cv := match v with
                    | VPlain _ => let (c, e) := convert strict f v in (VDot c, e)
                    | _ => (v, None)
                    end in
          match cv with
          | (_, Some e) => (kv, Some e)
          | (v', None) =>
            if has LB mine && match rev mine with c :: _ => c =? RB | [] => false end then
              match parse_indexed mine with
              | None => (kv, Some EUnmodelled)
              | Some (name, i) =>
                match lookup name kv with
                | None => (kv, Some EKey)
                | Some (VList l) =>
                    if (Z.to_nat i <? length l)%nat then (store name (VList (set_nth l (Z.to_nat i) v')) kv, None)
                    else (kv, Some EIndex)
                | Some (VPlain _) => (kv, Some EUnmodelled)
                | Some _ => (kv, Some EType)
                end
              end
            else if is_invalid mine then (kv, Some EKey)
            else (store mine v' kv, None)
          end
      end
    end
  end.

(* ---- __delitem__ -------------------------------------------------------------------------------------- *)
Fixpoint del_in (fuel : nat) (kv : list (key * val)) (k : key) : list (key * val) * option Z :=
  match fuel with
  | O => (kv, Some EUnmodelled)
  | S f =>
    match split_key k with
    | Err e => (kv, Some e)
    | Ok (mine, rest) =>
      match get (S f) kv mine with           (* target = self[mine] *)
      | Err e => (kv, Some e)
      | Ok target =>
        match rest with
        | None =>
            match target with
            | VDot (_ :: _) => (kv, Some EKey)                       (* partial key *)
            | _ => match lookup mine kv with
                   | Some _ => (remove mine kv, None)
                   | None => (kv, Some EKey)
                   end
            end
        | Some r =>
            match target with
            | VDot sub =>
                if has LB mine then (kv, Some EUnmodelled)
                else let (sub', e) := del_in f sub r in (store mine (VDot sub') kv, e)
            | _ => (kv, Some EType)
            end
        end
      end
    end
  end.

(* ---- pop( key [, default] ) ---------------------------------------------------------------------------- *)
Fixpoint pop_in (fuel : nat) (kv : list (key * val)) (k : key) (dflt : option val)
  : list (key * val) * res val :=
  match fuel with
  | O => (kv, Err EUnmodelled)
  | S f =>
    match split_key k with
    | Err e => (kv, Err e)
    | Ok (mine, None) =>
        match lookup mine kv, dflt with
        | Some v, _ => (remove mine kv, Ok v)
        | None, Some d => (kv, Ok d)
        | None, None => (kv, Err EKey)
        end
    | Ok (mine, Some r) =>
        match lookup mine kv with
        | None => (kv, Err EKey)
        | Some (VDot sub) => let (sub', x) := pop_in f sub r dflt in (store mine (VDot sub') kv, x)
        | Some _ => (kv, Err EKey)
        end
    end
  end.

(* ---- iteritems: (key, value) for every leaf ------------------------------------------------------------ *)
Fixpoint dec_digits (fuel : nat) (n : Z) (acc : key) : key :=
  match fuel with
  | O => acc
  | S f => let acc' := (48 + n mod 10) :: acc in if n <? 10 then acc' else dec_digits f (n / 10) acc'
  end.
Definition dec (n : Z) : key := dec_digits 20 n [].

Definition pad_left (w : nat) (k : key) : key := repeat SP (w - length k) ++ k.

Definition all_dots (l : list val) : bool := forallb (fun v => match v with VDot _ => true | _ => false end) l.

Fixpoint items (fuel : nat) (kv : list (key * val)) : list (key * val) :=
  match fuel with
  | O => []
  | S f =>
    flat_map (fun e : key * val =>
      let (k, v) := e in
      match v with
      | VDot ((_ :: _) as sub) => map (fun s : key * val => (k ++ DOT :: fst s, snd s)) (items f sub)
      | VList ((_ :: _) as l) =>
          if all_dots l then
            let w := length (dec (Z.of_nat (length l) - 1)) in
            concat (map (fun iv : nat * val =>
                           match snd iv with
                           | VDot sub => map (fun s : key * val => (k ++ LB :: pad_left w (dec (Z.of_nat (fst iv))) ++ RB :: DOT :: fst s, snd s))
                                             (items f sub)
                           | _ => []
                           end)
                        (combine (seq 0 (length l)) l))
          else [(k, v)]
      | _ => [(k, v)]
      end) kv
  end.
