(* Model of the simulator's tag store and request semantics:
     cpppo/server/enip/logix.py  Logix.reply_elements, Logix.request, Logix.produce (reply side)
     cpppo/server/enip/device.py Attribute, resolve/lookup, Object.request (Get/Set Attribute Single),
                                 Message_Router.request/produce (Multiple Service Packet reply)
   Hand-written; tied to /repo by props/logix_common.py (properties C03 C04 C05 C07).
   Definitions only (proofs in Proofs/Logix*.v). *)
From Coq Require Import ZArith List Bool.
Import ListNotations.
Open Scope Z_scope.

(* ---- CIP scalar types --------------------------------------------------------------------- *)
Inductive cty := BOOL | SINT | INT | DINT | LINT | USINT | UINT | UDINT | ULINT | REAL | LREAL.

Definition tag_type (t : cty) : Z :=
  match t with
  | BOOL => 193 | SINT => 194 | INT => 195 | DINT => 196 | LINT => 197 | USINT => 198
  | UINT => 199 | UDINT => 200 | ULINT => 201 | REAL => 202 | LREAL => 203
  end.

Definition all_types := [BOOL; SINT; INT; DINT; LINT; USINT; UINT; UDINT; ULINT; REAL; LREAL].

Definition ty_of_code (c : Z) : option cty :=
  find (fun t => tag_type t =? c) all_types.

Definition siz (t : cty) : Z :=
  match t with
  | BOOL | SINT | USINT => 1 | INT | UINT => 2 | DINT | UDINT | REAL => 4 | LINT | ULINT | LREAL => 8
  end.

Definition cty_eqb (a b : cty) : bool := tag_type a =? tag_type b.

(* Logix.request: allowed_tag_types[attribute type] = request types accepted *)
Definition allowed (tag req : cty) : bool :=
  match tag with
  | BOOL => match req with BOOL => true | _ => false end
  | LREAL => match req with BOOL | SINT | USINT | INT | UINT | DINT | UDINT | REAL | LREAL => true | _ => false end
  | REAL => match req with BOOL | SINT | USINT | INT | UINT | DINT | UDINT | REAL => true | _ => false end
  | LINT => match req with BOOL | SINT | USINT | INT | UINT | DINT | UDINT | LINT | ULINT => true | _ => false end
  | ULINT => match req with BOOL | USINT | UINT | UDINT | ULINT => true | _ => false end
  | DINT => match req with BOOL | SINT | USINT | INT | UINT | DINT | UDINT => true | _ => false end
  | UDINT => match req with BOOL | USINT | UINT | UDINT => true | _ => false end
  | INT => match req with BOOL | SINT | USINT | INT | UINT => true | _ => false end
  | UINT => match req with BOOL | USINT | UINT => true | _ => false end
  | SINT => match req with BOOL | SINT | USINT => true | _ => false end
  | USINT => match req with BOOL | USINT => true | _ => false end
  end.

(* ---- values and struct.pack ----------------------------------------------------------------- *)
(* A stored element is whatever Python object the last write left there:
   VI z  : an int (or bool) ;  VR b : a float that came from 4 REAL bytes b ;  VL b : from 8 LREAL bytes *)
Inductive val := VI (z : Z) | VR (bits : Z) | VL (bits : Z).

Fixpoint le_bytes (n : nat) (v : Z) : list Z :=
  match n with O => [] | S k => (v mod 256) :: le_bytes k (v / 256) end.

Fixpoint le_val (bs : list Z) : Z :=
  match bs with [] => 0 | b :: t => b + 256 * le_val t end.

(* |int| -> IEEE exponent+mantissa bits (sign added by the caller), round to nearest even;
   None = OverflowError.  (Python converts int -> double -> float32; for |z| < 2^53 the first
   step is exact, so a single rounding is faithful; larger ints cannot reach a REAL tag.) *)
Definition float_of_Z (mbits ebias emax : Z) (z : Z) : option Z :=
  if z =? 0 then Some 0 else
  let m := Z.abs z in
  let e := Z.log2 m in
  let '(q, e') :=
    if e <=? mbits then (Z.shiftl m (mbits - e), e)
    else let sh := e - mbits in
         let q := Z.shiftr m sh in
         let r := m - Z.shiftl q sh in
         let half := Z.shiftl 1 (sh - 1) in
         let up := (half <? r) || ((r =? half) && Z.odd q) in
         let q1 := if up then q + 1 else q in
         if q1 =? Z.shiftl 1 (mbits + 1) then (Z.shiftl 1 mbits, e + 1) else (q1, e) in
  if emax <? e' then None
  else Some (Z.shiftl (e' + ebias) mbits + (q - Z.shiftl 1 mbits)).

(* widen binary32 bits to binary64 bits (exact) *)
Definition f64_of_f32 (b : Z) : Z :=
  let s := Z.shiftr b 31 in
  let e := Z.land (Z.shiftr b 23) 255 in
  let m := Z.land b 8388607 in
  let body :=
    if e =? 0 then
      if m =? 0 then 0
      else let k := Z.log2 m in      (* subnormal: value m * 2^-149 *)
           Z.shiftl (k - 149 + 1023) 52 + Z.shiftl (m - Z.shiftl 1 k) (52 - k)
    else if e =? 255 then Z.shiftl 2047 52 + Z.shiftl m 29
    else Z.shiftl (e - 127 + 1023) 52 + Z.shiftl m 29 in
  Z.shiftl s 63 + body.

Definition in_range (lo hi z : Z) : bool := (lo <=? z) && (z <=? hi).

Definition two_compl (bits : Z) (z : Z) : Z := if z <? 0 then z + Z.shiftl 1 bits else z.

(* TYPE.produce( value ) = struct.pack( fmt, value ); None = struct.error / OverflowError *)
Definition pack (t : cty) (v : val) : option (list Z) :=
  match t, v with
  | BOOL, VI z => if in_range 0 255 z then Some [if z =? 0 then 0 else 255] else None
  | USINT, VI z => if in_range 0 255 z then Some (le_bytes 1 z) else None
  | UINT, VI z => if in_range 0 65535 z then Some (le_bytes 2 z) else None
  | UDINT, VI z => if in_range 0 4294967295 z then Some (le_bytes 4 z) else None
  | ULINT, VI z => if in_range 0 18446744073709551615 z then Some (le_bytes 8 z) else None
  | SINT, VI z => if in_range (-128) 127 z then Some (le_bytes 1 (two_compl 8 z)) else None
  | INT, VI z => if in_range (-32768) 32767 z then Some (le_bytes 2 (two_compl 16 z)) else None
  | DINT, VI z => if in_range (-2147483648) 2147483647 z then Some (le_bytes 4 (two_compl 32 z)) else None
  | LINT, VI z => if in_range (-9223372036854775808) 9223372036854775807 z
                  then Some (le_bytes 8 (two_compl 64 z)) else None
  | REAL, VI z => match float_of_Z 23 127 127 z with
                  | Some b => Some (le_bytes 4 (b + (if z <? 0 then 2147483648 else 0)))
                  | None => None end
  | REAL, VR b => Some (le_bytes 4 b)
  | LREAL, VI z => match float_of_Z 52 1023 1023 z with
                   | Some b => Some (le_bytes 8 (b + (if z <? 0 then 9223372036854775808 else 0)))
                   | None => None end
  | LREAL, VR b => Some (le_bytes 8 (f64_of_f32 b))
  | LREAL, VL b => Some (le_bytes 8 b)
  | _, _ => None
  end.

(* values a request of type t carries, as parsed from its bytes (octets -> Python objects) *)
Definition unpack1 (t : cty) (bs : list Z) : val :=
  let u := le_val bs in
  match t with
  | BOOL => VI (if u =? 0 then 0 else 1)
  | SINT => VI (if u <? 128 then u else u - 256)
  | INT => VI (if u <? 32768 then u else u - 65536)
  | DINT => VI (if u <? 2147483648 then u else u - 4294967296)
  | LINT => VI (if u <? 9223372036854775808 then u else u - 18446744073709551616)
  | USINT | UINT | UDINT | ULINT => VI u
  | REAL => VR u
  | LREAL => VL u
  end.

(* ---- store ---------------------------------------------------------------------------------- *)
Record attr := Attr { a_ty : cty; a_scalar : bool; a_vals : list val }.

Definition addr := (Z * Z * Z)%type.

Record store := Store {
  s_attrs : list attr;               (* indexed by tag number *)
  s_dir : list (addr * nat);         (* class/instance/attribute -> tag number *)
  s_sym : list (Z * addr)            (* canonical tag name (as an id) -> address *)
}.

Definition addr_eqb (a b : addr) : bool :=
  let '(a1, a2, a3) := a in let '(b1, b2, b3) := b in (a1 =? b1) && (a2 =? b2) && (a3 =? b3).

Fixpoint assoc {A B} (eqb : A -> A -> bool) (k : A) (l : list (A * B)) : option B :=
  match l with [] => None | (k', v) :: t => if eqb k k' then Some v else assoc eqb k t end.

Inductive path :=
| PSym (name : Z) (elem : option Z)
| PNum (cls ins : Z) (att : option Z) (elem : option Z).

Definition path_elem (p : path) : Z :=
  match p with PSym _ (Some e) | PNum _ _ _ (Some e) => e | _ => 0 end.

(* resolve( path, attribute=1 ) then lookup *)
Definition resolve (st : store) (p : path) : option addr :=
  match p with
  | PSym n _ => assoc Z.eqb n (s_sym st)
  | PNum c i (Some a) _ => Some (c, i, a)
  | PNum c i None _ => Some (c, i, 1)
  end.

Definition lookup (st : store) (p : path) : option nat :=
  match resolve st p with
  | Some a => assoc addr_eqb a (s_dir st)
  | None => None
  end.

Definition splice {A} (l : list A) (beg : nat) (data : list A) : list A :=
  firstn beg l ++ data ++ skipn (beg + length data) l.

Fixpoint set_nth {A} (l : list A) (n : nat) (x : A) : list A :=
  match l, n with
  | [], _ => []
  | _ :: t, O => x :: t
  | h :: t, S k => h :: set_nth t k x
  end.

(* ---- Logix.reply_elements ------------------------------------------------------------------- *)
Record relm := RE { re_beg : Z; re_end : Z; re_endactual : Z; re_offremains : Z }.

Definition reply_elements (is_read : bool) (sz cnt idx elm off max_size ndata : Z) : option relm :=
  let endactual := idx + elm in
  let begadvance := off / sz in
  let offremains := off - begadvance * sz in
  let beg := idx + begadvance in
  let endmax := if is_read then beg + Z.max ((offremains + max_size + sz - 1) / sz) 1
                else beg + ndata in
  if negb is_read && negb (endmax <=? endactual) then None else
  let en := Z.min endactual endmax in
  if negb ((0 <=? beg) && (beg <? cnt)) then None else
  if negb (elm <=? cnt) then None else
  if negb (beg <? en) then None else
  Some (RE beg en endactual offremains).

(* ---- requests and replies ------------------------------------------------------------------- *)
Inductive req :=
| ReadTag (p : path) (elements : Z)
| ReadFrag (p : path) (elements offset : Z)
| WriteTag (p : path) (ty : Z) (elements : Z) (data : list val)
| WriteFrag (p : path) (ty : Z) (elements offset : Z) (data : list val)
| GetAttr (p : path)
| SetAttr (p : path) (bytes : list Z)
| Multiple (rs : list req).

(* Outcome of the semantic step.  Bytes are produced afterwards (and may fail: PackError). *)
Inductive reply :=
| RRead (svc : Z) (status : Z) (ty : cty) (vals : list val)     (* status 0 or 6 *)
| RWrite (svc : Z)                                               (* status 0 *)
| RFail (svc : Z) (status : Z) (ext : list Z)
| RGet (bytes : list Z)
| RSet
| RMulti (rs : list reply).

Definition MAXB_default := 488.

Definition svc_of (r : req) : Z :=
  match r with
  | ReadTag _ _ => 76 | ReadFrag _ _ _ => 82 | WriteTag _ _ _ _ => 77 | WriteFrag _ _ _ _ _ => 83
  | GetAttr _ => 14 | SetAttr _ _ => 16 | Multiple _ => 10
  end.

Definition rsvc (r : req) : Z := svc_of r + 128.

Definition upd_attr (st : store) (k : nat) (a : attr) : store :=
  Store (set_nth (s_attrs st) k a) (s_dir st) (s_sym st).

Definition alen (a : attr) : Z := if a_scalar a then 1 else Z.of_nat (length (a_vals a)).

Fixpoint pack_all (t : cty) (vs : list val) : option (list Z) :=
  match vs with
  | [] => Some []
  | v :: r => match pack t v, pack_all t r with
              | Some a, Some b => Some (a ++ b)
              | _, _ => None
              end
  end.

(* Behaviour switches.  [fixed] is the current /repo (after the two "fix:" commits recorded in
   known_findings.json); [pinned] is the behaviour of the originally pinned tree, kept so that the
   refutation witnesses stay machine-checked.
     q_fit  : Write Tag values are checked against the tag's own type before being stored
     q_path : Get/Set Attribute requests are refused by an Object the path does not name *)
Record quirks := Q { q_fit : bool; q_path : bool }.
Definition fixed := Q true true.
Definition pinned := Q false false.

(* Read Tag [Fragmented] *)
Definition exec_read (maxb : Z) (st : store) (r : req) (p : path) (frag : bool) (elements offset : Z) : reply :=
  match lookup st p with
  | None => RFail (rsvc r) 5 [0]
  | Some k =>
    match nth_error (s_attrs st) k with
    | None => RFail (rsvc r) 5 [0]
    | Some a =>
      let sz := siz (a_ty a) in
      match reply_elements true sz (alen a) (path_elem p) elements (if frag then offset else 0) maxb 0 with
      | None => RFail (rsvc r) 255 [8453]
      | Some e =>
        if negb (re_end e <=? alen a) then RFail (rsvc r) 255 [8453]        (* Attribute._validate_key *)
        else if negb (re_offremains e =? 0) then RFail (rsvc r) 255 [8453]
        else
          let recs := firstn (Z.to_nat (re_end e - re_beg e)) (skipn (Z.to_nat (re_beg e)) (a_vals a)) in
          RRead (rsvc r) (if re_end e =? re_endactual e then 0 else 6) (a_ty a) recs
      end
    end
  end.

(* Write Tag [Fragmented] *)
Definition exec_write (q : quirks) (st : store) (r : req) (p : path) (frag : bool) (ty elements offset : Z) (data : list val)
  : store * reply :=
  match lookup st p with
  | None => (st, RFail (rsvc r) 5 [0])
  | Some k =>
    match nth_error (s_attrs st) k with
    | None => (st, RFail (rsvc r) 5 [0])
    | Some a =>
      let ok_ty := match ty_of_code ty with
                   | Some t => allowed (a_ty a) t
                   | None => false     (* unknown request type: not in the allowed row *)
                   end in
      if negb ok_ty then (st, RFail (rsvc r) 255 [8455]) else
      let sz := siz (a_ty a) in
      match reply_elements false sz (alen a) (path_elem p) elements (if frag then offset else 0) 0
                           (Z.of_nat (length data)) with
      | None => (st, RFail (rsvc r) 255 [8453])
      | Some e =>
        if q_fit q && negb (match pack_all (a_ty a) data with Some _ => true | None => false end)
        then (st, RFail (rsvc r) 255 [8455])
        else if negb (re_end e <=? alen a) then (st, RFail (rsvc r) 255 [8453])
        else
          let a' := Attr (a_ty a) (a_scalar a)
                         (if a_scalar a then firstn 1 data
                          else splice (a_vals a) (Z.to_nat (re_beg e)) data) in
          (upd_attr st k a', RWrite (rsvc r))
      end
    end
  end.

Fixpoint chunks (n : nat) (sz : nat) (bs : list Z) : list (list Z) :=
  match n with O => [] | S k => firstn sz bs :: chunks k sz (skipn sz bs) end.

(* struct.unpack( fmt, ... ) as used by Set Attribute Single (no bool() post-processing) *)
Definition unpack_raw (t : cty) (bs : list Z) : val :=
  match t with BOOL => VI (le_val bs) | _ => unpack1 t bs end.


Definition obj_exists (st : store) (c i : Z) : bool :=
  ((c =? 2) && (i =? 1)) || existsb (fun e => let '(c', i', _) := fst e in (c =? c') && (i =? i')) (s_dir st).

(* Object.request: Get/Set Attribute Single.  The path must END in an attribute segment.  A path whose
   class/instance does not exist is not routed anywhere (route() returns None): the Message Router
   (2/1) then serves the request from its OWN attribute of that number. *)
Definition attr_target (q : quirks) (st : store) (c i a : Z) : option nat :=
  if q_path q || obj_exists st c i then assoc addr_eqb (c, i, a) (s_dir st)
  else assoc addr_eqb (2, 1, a) (s_dir st).

Definition exec_get (q : quirks) (st : store) (p : path) : reply :=
  match p with
  | PNum c i (Some a) None =>
    match attr_target q st c i a with
    | Some k => match nth_error (s_attrs st) k with
                | Some at_ => match pack_all (a_ty at_) (a_vals at_) with
                              | Some bs => RGet bs
                              | None => RFail 142 8 []       (* produce() raises inside the try *)
                              end
                | None => RFail 142 8 []
                end
    | None => RFail 142 8 []
    end
  | _ => RFail 142 8 []
  end.

Definition exec_set (q : quirks) (st : store) (p : path) (bytes : list Z) : store * reply :=
  match p with
  | PNum c i (Some a) None =>
    match attr_target q st c i a with
    | Some k =>
      match nth_error (s_attrs st) k with
      | Some at_ =>
        let sz := siz (a_ty at_) in
        if Z.of_nat (length bytes) =? sz * alen at_ then
          let vals := map (unpack_raw (a_ty at_)) (chunks (Z.to_nat (alen at_)) (Z.to_nat sz) bytes) in
          (upd_attr st k (Attr (a_ty at_) (a_scalar at_) vals), RSet)
        else (st, RFail 144 8 [])
      | None => (st, RFail 144 8 [])
      end
    | None => (st, RFail 144 8 [])
    end
  | _ => (st, RFail 144 8 [])
  end.

Definition exec1 (q : quirks) (maxb : Z) (st : store) (r : req) : store * reply :=
  match r with
  | ReadTag p n => (st, exec_read maxb st r p false n 0)
  | ReadFrag p n off => (st, exec_read maxb st r p true n off)
  | WriteTag p ty n data => exec_write q st r p false ty n 0 data
  | WriteFrag p ty n off data => exec_write q st r p true ty n off data
  | GetAttr p => (st, exec_get q st p)
  | SetAttr p bytes => exec_set q st p bytes
  | Multiple _ => (st, RFail 138 8 [])       (* nested bundles are not modelled (not generated) *)
  end.

(* ---- reply bytes: Logix.produce / Object.produce / Message_Router.produce ------------------- *)
Definition status_bytes (status : Z) (ext : list Z) : list Z :=
  if status =? 0 then [0; 0]
  else status :: Z.of_nat (length ext) :: flat_map (le_bytes 2) ext.

Fixpoint offsets_from (base : Z) (lens : list Z) : list Z :=
  match lens with [] => [] | l :: t => base :: offsets_from (base + l) t end.

Fixpoint produce (rp : reply) : option (list Z) :=
  match rp with
  | RRead svc status ty vals =>
      match pack_all ty vals with
      | Some d => Some (svc :: 0 :: [status; 0] ++ le_bytes 2 (tag_type ty) ++ d)
      | None => None
      end
  | RWrite svc => Some [svc; 0; 0; 0]
  | RFail svc status ext => Some (svc :: 0 :: status_bytes status ext)
  | RGet d => Some (142 :: 0 :: 0 :: 0 :: d)
  | RSet => Some [144; 0; 0; 0]
  | RMulti rs =>
      (fix go (rs : list reply) (acc : list (list Z)) : option (list Z) :=
         match rs with
         | [] => let parts := rev acc in
                 let n := Z.of_nat (length parts) in
                 Some (138 :: 0 :: 0 :: 0 :: le_bytes 2 n
                       ++ flat_map (le_bytes 2) (offsets_from (2 + 2 * n) (map (fun p => Z.of_nat (length p)) parts))
                       ++ concat parts)
         | r :: t => match produce r with
                     | Some b => go t (b :: acc)
                     | None => None
                     end
         end) rs []
  end.

(* Message_Router.request on a Multiple Service Packet: members in order on the same store.  Each
   member's reply is produced (data.input) right after it is executed; if that raises (a stored value
   no longer packs), the exception aborts the loop and the bundle is answered with status 0x08. *)
Fixpoint exec_seq (q : quirks) (maxb : Z) (st : store) (rs : list req) : store * option (list reply) :=
  match rs with
  | [] => (st, Some [])
  | r :: t => let (st1, rp) := exec1 q maxb st r in
              match produce rp with
              | None => (st1, None)
              | Some _ =>
                let (st2, rps) := exec_seq q maxb st1 t in
                (st2, match rps with Some l => Some (rp :: l) | None => None end)
              end
  end.

Definition exec (q : quirks) (maxb : Z) (st : store) (r : req) : store * reply :=
  match r with
  | Multiple rs => let (st', rps) := exec_seq q maxb st rs in
                   (st', match rps with Some l => RMulti l | None => RFail 138 8 [] end)
  | _ => exec1 q maxb st r
  end.
