(* Model of history replay (property C18): cpppo/history/files.py reader.open (file selection, pacing of the
   yielded records against the advancing historical clock) and loader.load (INITIAL / SWITCHING / STREAMING /
   EXHAUSTED / AWAITING / COMPLETE / FAILED, the _strict release rule, the future queue, limit).
   Timestamps are integer milliseconds and compare as cpppo timestamps do (equal within 1 ms); the clock is constant
   during one load() call (the harness freezes files.timer); factor = 1; no duration, no `upcoming`; default
   on_bad_iframe=FAIL, on_bad_data=SUPPRESS.  Files are lists of records (comment and blank lines are skipped by
   parse_record and do not appear); newest file first, as the natural sort of the extensions presents them.
   Hand-written; tied to /repo by props/c18.py.  Definitions only. *)
From Coq Require Import ZArith List Bool.
Import ListNotations.
Open Scope Z_scope.

(* timestamp.__lt__ / __gt__ / __le__ / __ge__ with _epsilon = 1 ms *)
Definition tlt (a b : Z) : bool := a + 1 <? b.
Definition tgt (a b : Z) : bool := tlt b a.
Definition tle (a b : Z) : bool := negb (tgt a b).
Definition tge (a b : Z) : bool := negb (tlt a b).

Inductive payload :=
| PRegs (l : list (Z * Z))      (* a non-empty JSON object of register values *)
| PNull                         (* null *)
| PNote                         (* a JSON string: a note *)
| PBad.                         (* not JSON (truncated line) *)

Record rec := Rec { r_ts : Z; r_pay : payload }.
Definition file := list rec.            (* at least one record (files without records are not generated) *)

(* ---- reader.open: file selection ---- *)
Definition first_ts (f : file) : Z := match f with r :: _ => r_ts r | [] => 0 end.

(* scan newest -> oldest; the last file pushed wins.  after: push while first >= target (> if strict), stop at the
   first that fails.  before (initial open): push every file, stop after the first whose first <= target (< if strict) *)
Fixpoint select (files : list file) (idx : nat) (target : Z) (after strict : bool) (best : option nat) : option nat :=
  match files with
  | [] => best
  | f :: t =>
      let ts := first_ts f in
      if after && negb (if strict then tgt ts target else tge ts target) then best
      else if negb after && (if strict then tlt ts target else tle ts target) then Some idx
      else select t (S idx) target after strict (Some idx)
  end.

(* ---- the generator reader.open returns ---- *)
Inductive gen :=
| GNew (target : option Z) (after strict : bool)                 (* created, body not started *)
| GAt (fi : nat) (cur : rec) (rest : list rec) (yielded : bool)  (* holding record cur; yielded: it was delivered *)
| GNoop                                                          (* the EXHAUSTED-mode generator *)
| GDone.

Inductive item :=
| IRec (fi : nat) (ts : Z) (p : payload)       (* a record whose time has come (incl. look-ahead) *)
| IWait (fi : nat) (ts : Z)                    (* (ts, None): the next record is still in the future *)
| INoop (now : Z).                             (* (cur, 'null') *)

Inductive gres := GYield (i : item) (g : gen) | GStop | GExhausted.

Definition gen_next (files : list file) (now look : Z) (g : gen) : gres :=
  let pace fi (r : rec) rest :=
    if tgt (r_ts r) (now + look) then GYield (IWait fi (r_ts r)) (GAt fi r rest false)
    else GYield (IRec fi (r_ts r) (r_pay r)) (GAt fi r rest true) in
  match g with
  | GNew target after strict =>
      let tg := match target with Some t => t | None => now end in
      match select files 0 tg after strict None with
      | None => GExhausted
      | Some fi => match nth_error files fi with
                   | Some (r :: rest) => pace fi r rest
                   | _ => GExhausted
                   end
      end
  | GAt fi r rest false => pace fi r rest
  | GAt fi _ rest true => match rest with
                          | [] => GStop
                          | r :: rest' => pace fi r rest'
                          end
  | GNoop => GYield (INoop now) GNoop
  | GDone => GStop
  end.

(* ---- loader ---- *)
Inductive lstate := INITIAL | SWITCHING | STREAMING | EXHAUSTED | AWAITING | COMPLETE | FAILED.

Definition st_le_streaming (s : lstate) : bool :=
  match s with INITIAL | SWITCHING | STREAMING => true | _ => false end.
Definition st_opening (s : lstate) : bool := match s with INITIAL | SWITCHING => true | _ => false end.
Definition st_alive (s : lstate) : bool := match s with COMPLETE | FAILED => false | _ => true end.

Record loader := Loader {
  l_state : lstate;
  l_gen : gen;
  l_ts : option Z;                       (* _ts: last delivered timestamp *)
  l_strict : bool;
  l_future : list (Z * list (Z * Z));    (* delivered events not yet applied to values *)
  l_until : option Z;
  l_values : list (Z * Z)                (* register -> value *)
}.

Definition init : loader := Loader INITIAL GDone None false [] None [].

Fixpoint vset (k v : Z) (m : list (Z * Z)) : list (Z * Z) :=
  match m with
  | [] => [(k, v)]
  | (k', v') :: t => if k =? k' then (k, v) :: t else (k', v') :: vset k v t
  end.
Definition vupdate (regs m : list (Z * Z)) : list (Z * Z) := fold_left (fun acc kv => vset (fst kv) (snd kv) acc) regs m.

(* while len( future ) and future[0][0] <= cur: absorb *)
Fixpoint absorb (now : Z) (fut : list (Z * list (Z * Z))) (until : option Z) (vals : list (Z * Z))
  : list (Z * list (Z * Z)) * option Z * list (Z * Z) :=
  match fut with
  | (ts, regs) :: t => if tle ts now then absorb now t (Some ts) (vupdate regs vals) else (fut, until, vals)
  | [] => ([], until, vals)
  end.

Definition event := (Z * list (Z * Z))%type.

(* the body of `for ... in self._i` for one yielded item.  Result: the loader, the new events (reversed), and
   what happens next: continue the for loop / break out of it / return from load (limit) *)
Inductive flow := FContinue | FBreak | FReturn.

Definition on_item (now : Z) (limit : option Z) (nev : Z) (l : loader) (it : item) : loader * list event * flow :=
  match it with
  | IWait _ _ =>
      (Loader AWAITING (l_gen l) (l_ts l) (l_strict l) (l_future l) (l_until l) (l_values l), [], FBreak)
  | INoop ts | IRec _ ts _ =>
      let p := match it with IRec _ _ p => p | _ => PNull end in
      match p, l_state l with
      | PBad, INITIAL => (Loader FAILED (l_gen l) (l_ts l) (l_strict l) (l_future l) (l_until l) (l_values l), [], FBreak)
      | _, _ =>
        let strict1 := if l_strict l && negb (st_opening (l_state l)) &&
                          (match l_ts l with None => true | Some t => tgt ts t end) then false else l_strict l in
        let st1 := match l_state l with INITIAL | SWITCHING | AWAITING => STREAMING | s => s end in
        match p with
        | PNote | PBad => (Loader st1 (l_gen l) (l_ts l) strict1 (l_future l) (l_until l) (l_values l), [], FContinue)
        | PNull =>
            match st1 with
            | EXHAUSTED =>
                let '(fut, until, vals) := absorb now (l_future l) (l_until l) (l_values l) in
                let st2 := match fut with [] => COMPLETE | _ => EXHAUSTED end in
                (Loader st2 (l_gen l) (l_ts l) strict1 fut until vals, [], FBreak)
            | _ => (Loader st1 (l_gen l) (l_ts l) strict1 (l_future l) (l_until l) (l_values l), [], FContinue)
            end
        | PRegs regs =>
            let fresh := match l_ts l with None => true | Some t => tge ts t end in
            let ts1 := if fresh then Some ts else l_ts l in
            let fut1 := if fresh then l_future l ++ [(ts, regs)] else l_future l in
            let evs := if fresh then [(ts, regs)] else [] in
            let '(fut, until, vals) := absorb now fut1 (l_until l) (l_values l) in
            let l' := Loader STREAMING (l_gen l) ts1 strict1 fut until vals in
            match limit with
            | Some lim => if lim <=? nev + Z.of_nat (length evs) then (l', evs, FReturn) else (l', evs, FContinue)
            | None => (l', evs, FContinue)
            end
        end
      end
  end.

(* for (f,n,cur),(ts,js) in self._i: ... *)
Fixpoint drain (fuel : nat) (files : list file) (now look : Z) (limit : option Z) (l : loader) (evs : list event)
  : loader * list event * flow :=
  match fuel with
  | O => (Loader FAILED GDone (l_ts l) (l_strict l) (l_future l) (l_until l) (l_values l), evs, FBreak)
  | S f =>
    match gen_next files now look (l_gen l) with
    | GStop => (Loader (l_state l) GDone (l_ts l) (l_strict l) (l_future l) (l_until l) (l_values l), evs, FContinue)
    | GExhausted => (Loader EXHAUSTED GNoop (l_ts l) (l_strict l) (l_future l) (l_until l) (l_values l), evs, FContinue)
    | GYield it g' =>
        let l0 := Loader (l_state l) g' (l_ts l) (l_strict l) (l_future l) (l_until l) (l_values l) in
        let '(l1, new, fl) := on_item now limit (Z.of_nat (length evs)) l0 it in
        match fl with
        | FContinue => drain f files now look limit l1 (evs ++ new)
        | _ => (l1, evs ++ new, fl)
        end
    end
  end.

(* while self.state <= STREAMING or first: ...   One load() call at historical clock `now`. *)
Fixpoint load_loop (fuel : nat) (files : list file) (now look : Z) (limit : option Z) (first : bool)
                   (l : loader) (evs : list event) : loader * list event * bool (* returned early by limit *) :=
  match fuel with
  | O => (Loader FAILED GDone (l_ts l) (l_strict l) (l_future l) (l_until l) (l_values l), evs, false)   (* does not return *)
  | S f =>
    if st_le_streaming (l_state l) || first then
      let l0 := if st_opening (l_state l)
                then Loader (l_state l) (GNew (l_ts l) (negb (match l_state l with INITIAL => true | _ => false end)) (l_strict l))
                            (l_ts l) true (l_future l) (l_until l) (l_values l)
                else l in
      let '(l1, evs1, fl) := drain (S f * 4) files now look limit l0 evs in
      match fl with
      | FReturn => (l1, evs1, true)
      | _ =>
          match l_state l1 with
          | FAILED => (l1, evs1, false)
          | _ =>
            (* HistoryExhausted inside the loop is handled by the except clause: state EXHAUSTED, generator noop *)
            let l2 := match l_gen l1, l_state l1 with
                      | GNoop, EXHAUSTED => l1
                      | GNoop, COMPLETE => l1
                      | GNoop, _ => Loader EXHAUSTED GNoop (l_ts l1) (l_strict l1) (l_future l1) (l_until l1) (l_values l1)
                      | _, STREAMING => Loader SWITCHING (l_gen l1) (l_ts l1) (l_strict l1) (l_future l1) (l_until l1) (l_values l1)
                      | _, _ => l1
                      end in
            load_loop f files now look limit false l2 evs1
          end
      end
    else (l, evs, false)
  end.

Definition load (files : list file) (look : Z) (limit : option Z) (now : Z) (l : loader) : loader * list event :=
  if st_alive (l_state l) then
    let n := (length (concat files) + length files + 4)%nat in
    let '(l', evs, _) := load_loop n files now look limit true l [] in (l', evs)
  else (l, []).

(* a whole replay: load() at each clock value of the schedule *)
Fixpoint replay (files : list file) (look : Z) (limit : option Z) (sched : list Z) (l : loader) : loader * list (list event) :=
  match sched with
  | [] => (l, [])
  | now :: t => let (l1, evs) := load files look limit now l in
                let (l2, rest) := replay files look limit t l1 in (l2, evs :: rest)
  end.
