(* Model of the automata engine of cpppo/automata.py (state.run, state.transition, state.__getitem__,
   dfa_base.delegate, state_input/state_drop.process, state_struct.terminate) as a big-step interpreter over
   dumped machine graphs, for inputs that are completely available (end of input = no more symbols).
   Properties C10, C11 (and the parser side of C02, C08).  Machines are dumped from live cpppo objects by
   props/engine_common.py.  `decide` edges (predicates are arbitrary Python) and callable limits are external calls:
   their outcomes come from oracle tapes kept in the data under two reserved keys, recorded by the harness from the
   implementation's own run - every theorem holds for every tape.  Side effects of move_if on the data are not
   modelled (data of such machines is not compared).
   Hand-written; tied to /repo by props/engine_common.py.  Definitions only. *)
From Coq Require Import ZArith List Bool.
Import ListNotations.
Open Scope Z_scope.

Definition ANY := -1.   (* state.ANY : the [True] edge *)
Definition NON := -2.   (* state.NON : the [None] edge *)

Inductive lim := LNone | LInt (n : Z) | LKey (k : Z) | LCall.  (* None / int / data path (missing => 0) / callable (oracle) *)
(* a transition target: None, a state, or a decide( state=... ) whose predicate the oracle answers *)
Inductive tgt := TNone | TState (n : nat) | TDecide (st : option nat).
Inductive proc := PNone | PInput (store : option Z) | PDrop.   (* state / state_input / state_drop *)

Record node := Node {
  n_proc : proc;
  n_term : bool;                                  (* ._terminal *)
  n_greedy : bool;
  n_limit : lim;
  n_trans : list (Z * list tgt);                  (* encoded symbol / ANY / NON -> the choice list of targets *)
  n_sub : option (nat * lim);                     (* dfa: initial state, repeat *)
  n_struct : option (Z * Z * Z * Z)               (* state_struct: source key, destination key, size, signed? *)
}.

Definition machine := list node.

Inductive dval := DInt (z : Z) | DBytes (l : list Z).
Definition data := list (Z * dval).

Fixpoint dget (k : Z) (d : data) : option dval :=
  match d with [] => None | (k', v) :: t => if k =? k' then Some v else dget k t end.

Fixpoint dset (k : Z) (v : dval) (d : data) : data :=
  match d with
  | [] => [(k, v)]
  | (k', v') :: t => if k =? k' then (k', v) :: t else (k', v') :: dset k v t
  end.

Fixpoint dremove (k : Z) (d : data) : data :=
  match d with [] => [] | (k', v) :: t => if k =? k' then t else (k', v) :: dremove k t end.

Definition dappend (k : Z) (c : Z) (d : data) : data :=
  match dget k d with
  | Some (DBytes l) => dset k (DBytes (l ++ [c])) d
  | _ => dset k (DBytes [c]) d
  end.

Record source := Src { avail : list Z; sent : Z }.

Definition peek (s : source) : option Z := match avail s with c :: _ => Some c | [] => None end.

(* failures: 1 AssertionError "no progress", 2 NonTerminal, 3 AssertionError "exceeded limit",
   4 data/struct error (KeyError, struct.error, non-int limit), 9 out of fuel (excluded by the theorems) *)
Inductive result :=
| ROk (s : source) (d : data) (yielded : option (option nat)) (term : bool)
| RFail (code : Z).

(* oracle tapes: outcomes of decide predicates (0 / 1) and values of callable limits, consumed in order *)
Definition TAPE_DECIDE := -1.
Definition TAPE_LIMIT := -2.
Definition pop_tape (k : Z) (d : data) : option (Z * data) :=
  match dget k d with
  | Some (DBytes (x :: t)) => Some (x, dset k (DBytes t) d)
  | _ => None
  end.

Definition resolve_lim (l : lim) (d : data) : option (option Z * data) :=   (* None = bad type; Some (None, _) = no limit *)
  match l with
  | LNone => Some (None, d)
  | LInt n => Some (Some n, d)
  | LKey k => match dget k d with
              | None => Some (Some 0, d)
              | Some (DInt z) => Some (Some z, d)
              | Some (DBytes _) => None
              end
  | LCall => match pop_tape TAPE_LIMIT d with Some (v, d') => Some (Some v, d') | None => None end
  end.

Fixpoint lookup_edge (k : Z) (tr : list (Z * list tgt)) : option (list tgt) :=
  match tr with [] => None | (k', t) :: r => if k =? k' then Some t else lookup_edge k r end.

(* state.__getitem__: exact symbol, then ANY (only with input present), then NON *)
Definition choose (tr : list (Z * list tgt)) (inp : option Z) : option (list tgt) :=
  match inp with
  | Some c => match lookup_edge c tr with
              | Some t => Some t
              | None => match lookup_edge ANY tr with
                        | Some t => Some t
                        | None => lookup_edge NON tr
                        end
              end
  | None => lookup_edge NON tr
  end.

(* evaluating a choice list: the first None / state ends it; a decide is taken when the oracle says so *)
Fixpoint decide_list (cs : list tgt) (d : data) : option nat * data :=
  match cs with
  | [] => (None, d)
  | TNone :: _ => (None, d)
  | TState n :: _ => (Some n, d)
  | TDecide st :: rest =>
      match pop_tape TAPE_DECIDE d with
      | Some (b, d') => if b =? 0 then decide_list rest d'
                        else match st with Some n => (Some n, d') | None => decide_list rest d' end
      | None => (None, d)
      end
  end.

Fixpoint le_val (bs : list Z) : Z := match bs with [] => 0 | b :: t => b + 256 * le_val t end.

(* state_struct.terminate for the integer formats: take `size` bytes from the source key.
   signed: 0 unsigned / 1 signed little-endian, 2 unsigned / 3 signed big-endian (network order) *)
Definition struct_decode (d : data) (st : Z * Z * Z * Z) : option data :=
  let '(src, dst, size, signed) := st in
  match dget src d with
  | Some (DBytes l) =>
      if Z.of_nat (length l) <? size then None else
      let bs := firstn (Z.to_nat size) l in
      let u := le_val (if 2 <=? signed then rev bs else bs) in
      let v := if (signed mod 2 =? 1) && (Z.shiftl 1 (8 * size - 1) <=? u) then u - Z.shiftl 1 (8 * size) else u in
      (* data[ours] = val replaces the level that held ours.input *)
      Some (dset dst (DInt v) (dremove src d))
  | _ => None
  end.

Definition crumb := (option nat * option Z * Z)%type.

Definition crumb_eqb (a b : crumb) : bool :=
  let '(t1, p1, s1) := a in let '(t2, p2, s2) := b in
  (match t1, t2 with Some x, Some y => Nat.eqb x y | None, None => true | _, _ => false end)
  && (match p1, p2 with Some x, Some y => x =? y | None, None => true | _, _ => false end)
  && (s1 =? s2).

Definition seen_in (c : crumb) (l : list crumb) : bool := existsb (crumb_eqb c) l.

Definition min_ending (ending : option Z) (snt : Z) (limit : option Z) : option Z :=
  match limit with
  | None => ending
  | Some l => match ending with
              | None => Some (snt + l)
              | Some e => if snt + l <? e then Some (snt + l) else Some e
              end
  end.

(* state.transition on a completely available input *)
Definition transition (n : node) (term : bool) (s : source) (ending : option Z) (d : data) : option (option nat) * data :=
  if term && negb (n_greedy n) then (None, d) else
  let limited := match ending with Some e => e <=? sent s | None => false end in
  let inp := if limited then None else peek s in
  match choose (n_trans n) inp with
  | None => (None, d)
  | Some cs => let (t, d') := decide_list cs d in (Some t, d')
  end.

(* a way to run one state (by id) of the graph under a fixed `ending`: the recursive call of the interpreter *)
Definition runner := nat -> source -> data -> result.

(* state.accepts + state.process *)
Definition process (n : node) (s : source) (d : data) : option (source * data) :=
  match n_proc n with
  | PNone => Some (s, d)
  | PInput k => match avail s with
                | [] => None
                | c :: r => Some (Src r (sent s + 1), match k with Some key => dappend key c d | None => d end)
                end
  | PDrop => match avail s with [] => None | c :: r => Some (Src r (sent s + 1), d) end
  end.

(* one initial-->terminal cycle of a dfa's sub-machine: follow the yielded targets until the sub-machine yields a
   non-transition (done), or the same (target, next symbol, sent) recurs (stasis) *)
Inductive cyc := CFail (c : Z) | CDone (s : source) (d : data) | CStasis (s : source) (d : data).

Fixpoint cycle_once (rec : runner) (h : nat) (cur : nat) (s : source) (d : data) (seen : list crumb) : cyc :=
  match h with
  | O => CFail 9
  | S h' =>
    match rec cur s d with
    | RFail c => CFail c
    | ROk s' d' y t =>
      match y with
      | Some (Some tgt) =>
          let c := (Some tgt, peek s', sent s') in
          if seen_in c seen then (if t then CStasis s' d' else CFail 2)
          else cycle_once rec h' tgt s' d' (c :: seen)
      | _ => if t then CDone s' d' else CFail 2
      end
    end
  end.

Definition first_crumb (init : nat) (s : source) : list crumb := [(Some init, peek s, sent s)].

(* dfa_base.delegate's while self.loop() and not stasis; the flag of the result is "sub-machine terminal and all
   cycles done" *)
Fixpoint cycles_loop (rec : runner) (h : nat) (init : nat) (final : Z) (g : nat) (cycle : Z)
                     (s : source) (d : data) (cur_term : bool) : result :=
  match g with
  | O => RFail 9
  | S g' =>
    if final <=? cycle then ROk s d None cur_term
    else match cycle_once rec h init s d (first_crumb init s) with
         | CFail c => RFail c
         | CDone s' d' => cycles_loop rec h init final g' (cycle + 1) s' d' true
         | CStasis s' d' => ROk s' d' None (final <=? cycle + 1)
         end
  end.

(* .terminal of the initial state before any cycle has run: a dfa that has not run its own cycles is not terminal
   (freshly constructed machine; cpppo keeps cycle/final from a previous run, see DESIGN.md) *)
Definition init_term (m : machine) (init : nat) : bool :=
  match nth_error m init with
  | Some i => n_term i && match n_sub i with None => true | Some _ => false end
  | None => false
  end.

Definition delegate (rec : runner) (f : nat) (m : machine) (n : node) (s : source) (d : data) : result :=
  match n_sub n with
  | None => ROk s d None (n_term n)
  | Some (init, rep) =>
    match resolve_lim rep d with
    | None => RFail 4
    | Some (r, d) =>
      let final := match r with None => 1 | Some z => z end in
      match cycles_loop rec f init final f 0 s d (init_term m init) with
      | RFail c => RFail c
      | ROk s' d' _ t => ROk s' d' None (n_term n && t)
      end
    end
  end.

(* terminate, our own transition, and the post-run assertion sent <= ending *)
Definition finish (n : node) (ending1 : option Z) (s2 : source) (d2 : data) (term : bool) : result :=
  match (match n_struct n with Some st => struct_decode d2 st | None => Some d2 end) with
  | None => RFail 4
  | Some d3 =>
    let (y, d4) := transition n term s2 ending1 d3 in
    match ending1 with
    | Some e => if e <? sent s2 then RFail 3 else ROk s2 d4 y term
    | None => ROk s2 d4 y term
    end
  end.

Fixpoint run_state (fuel : nat) (m : machine) (id : nat) (s : source) (d : data) (ending : option Z) : result :=
  match fuel with
  | O => RFail 9
  | S f =>
    match nth_error m id with
    | None => RFail 4
    | Some n =>
      match process n s d with
      | None => RFail 1                                   (* no acceptable symbol will ever arrive *)
      | Some (s1, d1) =>
        match resolve_lim (n_limit n) d1 with
        | None => RFail 4
        | Some (lm, d1') =>
          let ending1 := min_ending ending (sent s1) lm in
          match delegate (fun cur s' d' => run_state f m cur s' d' ending1) f m n s1 d1' with
          | RFail c => RFail c
          | ROk s2 d2 _ term => finish n ending1 s2 d2 term
          end
        end
      end
    end
  end.

(* machine.run( source, data ) driven to completion on the whole input *)
Definition run (fuel : nat) (m : machine) (input : list Z) : result :=
  run_state fuel m 0%nat (Src input 0) [] None.

(* ... with the oracle tapes for decide predicates and callable limits *)
Definition run_oracle (fuel : nat) (m : machine) (input decides limits : list Z) : result :=
  run_state fuel m 0%nat (Src input 0) [(TAPE_DECIDE, DBytes decides); (TAPE_LIMIT, DBytes limits)] None.
