(* Reference semantics for regular-expression machines (property C11): Brzozowski derivatives and the
   "longest viable prefix" run.  Independent of cpppo and of the regex library it uses; tied to /repo by
   props/c11.py, which runs cpppo's regex machines on the same expressions and inputs.  Definitions only. *)
From Coq Require Import ZArith List Bool.
Import ListNotations.
Open Scope Z_scope.

Inductive re :=
| REmpty                                   (* no sentence *)
| REps                                     (* the empty sentence *)
| RSet (neg : bool) (cs : list Z)          (* one symbol in (or, negated, not in) the class; '.' = RSet true [] *)
| RCat (a b : re)
| RAlt (a b : re)
| RStar (a : re).

Definition mem (c : Z) (cs : list Z) : bool := existsb (Z.eqb c) cs.
Definition set_match (neg : bool) (cs : list Z) (c : Z) : bool := xorb neg (mem c cs).

Fixpoint nullable (r : re) : bool :=
  match r with
  | REmpty => false | REps => true | RSet _ _ => false
  | RCat a b => nullable a && nullable b
  | RAlt a b => nullable a || nullable b
  | RStar _ => true
  end.

Fixpoint deriv (c : Z) (r : re) : re :=
  match r with
  | REmpty | REps => REmpty
  | RSet neg cs => if set_match neg cs c then REps else REmpty
  | RCat a b => if nullable a then RAlt (RCat (deriv c a) b) (deriv c b) else RCat (deriv c a) b
  | RAlt a b => RAlt (deriv c a) (deriv c b)
  | RStar a => RCat (deriv c a) (RStar a)
  end.

(* is there any sentence at all?  (a negated class always leaves some symbol: the alphabet is unbounded) *)
Fixpoint nonempty (r : re) : bool :=
  match r with
  | REmpty => false | REps => true
  | RSet neg cs => neg || match cs with [] => false | _ => true end
  | RCat a b => nonempty a && nonempty b
  | RAlt a b => nonempty a || nonempty b
  | RStar _ => true
  end.

(* consume while the consumed prefix can still be extended to a sentence *)
Fixpoint lvp (r : re) (input : list Z) (consumed : list Z) : list Z * list Z * re :=
  match input with
  | [] => (rev consumed, [], r)
  | c :: t => let r' := deriv c r in
              if nonempty r' then lvp r' t (c :: consumed) else (rev consumed, input, r)
  end.

(* outcome of a regex machine: (accepted, consumed prefix, remaining input); not accepted = NonTerminal *)
Definition rrun (r : re) (input : list Z) : bool * list Z * list Z :=
  let '(p, rest, r') := lvp r input [] in
  (nullable r' && match p with [] => false | _ => true end, p, rest).

(* derived forms *)
Definition rplus (a : re) : re := RCat a (RStar a).
Definition ropt (a : re) : re := RAlt a REps.
Fixpoint rpow (n : nat) (a : re) : re := match n with O => REps | S k => RCat a (rpow k a) end.
Fixpoint rupto (n : nat) (a : re) : re := match n with O => REps | S k => ropt (RCat a (rupto k a)) end.
Definition rrep (m n : nat) (a : re) : re := RCat (rpow m a) (rupto (n - m) a).
