(* Flat-integer interface to Model/Tnet.v for props/c20.py. *)
From Coq Require Import ZArith List Bool.
From CV Require Import Base.Wire Model.Tnet.
Import ListNotations.
Open Scope Z_scope.

Fixpoint enc_tval (v : tval) : list Z :=
  match v with
  | TInt z => [0; z]
  | TFloat r => 1 :: put_list r
  | TBool b => [2; zb b]
  | TNull => [3]
  | TBytes b => 4 :: put_list b
  | TText u => 5 :: put_list u
  | TList l => 6 :: Z.of_nat (length l) :: flat_map enc_tval l
  | TDict kv => 7 :: Z.of_nat (length kv) :: flat_map (fun e => put_list (fst e) ++ enc_tval (snd e)) kv
  end.

Fixpoint dec_tval (fuel : nat) (l : list Z) : option (tval * list Z) :=
  match fuel with
  | O => None
  | S f =>
    match l with
    | 0 :: z :: t => Some (TInt z, t)
    | 1 :: t => let (b, r) := take_list t in Some (TFloat b, r)
    | 2 :: b :: t => Some (TBool (bz b), t)
    | 3 :: t => Some (TNull, t)
    | 4 :: t => let (b, r) := take_list t in Some (TBytes b, r)
    | 5 :: t => let (b, r) := take_list t in Some (TText b, r)
    | 6 :: n :: t =>
        (fix go (k : nat) (l : list Z) : option (tval * list Z) :=
           match k with
           | O => Some (TList [], l)
           | S k' => match dec_tval f l with
                     | Some (v, r) => match go k' r with
                                      | Some (TList vs, r') => Some (TList (v :: vs), r')
                                      | _ => None end
                     | None => None
                     end
           end) (Z.to_nat n) t
    | 7 :: n :: t =>
        (fix go (k : nat) (l : list Z) : option (tval * list Z) :=
           match k with
           | O => Some (TDict [], l)
           | S k' => let (key, r0) := take_list l in
                     match dec_tval f r0 with
                     | Some (v, r) => match go k' r with
                                      | Some (TDict kv, r') => Some (TDict ((key, v) :: kv), r')
                                      | _ => None end
                     | None => None
                     end
           end) (Z.to_nat n) t
    | _ => None
    end
  end.

Fixpoint take_chunks (n : nat) (l : list Z) : list (list Z) :=
  match n with
  | O => []
  | S k => let (c, r) := take_list l in c :: take_chunks k r
  end.

Definition run_tnet (c : list Z) : list Z :=
  match c with
  | 0 :: t => match dec_tval (length t) t with
              | Some (v, _) => 1 :: put_list (dump v)
              | None => [-1]
              end
  | 1 :: t => let (bs, _) := take_list t in
              match parse (length bs) bs with
              | Some (v, rest) => 1 :: enc_tval v ++ [Z.of_nat (length rest)]
              | None => [0]
              end
  | 2 :: n :: t =>
      let chunks := take_chunks (Z.to_nat n) t in
      match srun_chunks (SSize []) chunks with
      | (SDone p ty, rest) =>
          1 :: ty :: put_list p ++ [Z.of_nat (length rest);
                                   match sconvert p ty with Some _ => 1 | None => 0 end]
      | (SFail, rest) => [2; Z.of_nat (length rest)]
      | (_, _) => [0]
      end
  | 3 :: t =>
      let (ign, r) := take_list t in
      match r with
      | n :: r' =>
        let (s, outs) := lrun ign (take_chunks (Z.to_nat n) r') in
        (match s with SSize [] => 1 | SFail => 2 | _ => 0 end)
        :: Z.of_nat (length outs) :: flat_map (fun o => snd o :: put_list (fst o)) outs
      | [] => [-1]
      end
  | _ => [-1]
  end.
