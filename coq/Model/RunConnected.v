(* Flat-integer interface to Model/Connected.v for props/c14.py. *)
From Coq Require Import ZArith List Bool.
From CV Require Import Base.Wire Model.Tnet Model.Logix Model.RunLogix Model.Connected.
Import ListNotations.
Open Scope Z_scope.

Definition p_creq : P creq := fun l =>
  match l with
  | 0 :: id :: serial :: params :: t => Some (COpen id (Fwd serial params), t)
  | 1 :: id :: seq :: t => match p_req t with Some (r, t') => Some (CSend id seq r, t') | None => None end
  | 2 :: serial :: t => Some (CClose serial, t)
  | _ => None
  end.

Definition enc_crep (r : crep) : list Z :=
  match r with
  | ROpened id => [0; id]
  | RRefused => [1]
  | RSent seq (Some bs) => 2 :: seq :: put_list bs
  | RSent seq None => [3; seq]
  | RClosed => [4]
  end.

(* case: maxb, attrs, dir, sym, nreq, requests...  ->  replies..., store hash *)
Definition run_connected (c : list Z) : list Z :=
  match c with
  | maxb :: r1 =>
    match p_list p_attr r1 with
    | Some (attrs, r2) =>
      match p_list p_dir r2 with
      | Some (dir, r3) =>
        match p_list p_sym r3 with
        | Some (sym, r4) =>
          match p_list p_creq r4 with
          | Some (qs, _) =>
              let (s', reps) := crun maxb (CS (Store attrs dir sym) []) qs in
              flat_map enc_crep reps ++ [hash (dump_store (c_store s'))]
          | None => [-5]
          end
        | None => [-4]
        end
      | None => [-3]
      end
    | None => [-2]
    end
  | [] => [-1]
  end.
