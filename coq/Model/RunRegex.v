(* Flat-integer interface to Model/Regex.v for props/c11.py. *)
From Coq Require Import ZArith List Bool.
From CV Require Import Base.Wire Model.Regex.
Import ListNotations.
Open Scope Z_scope.

Fixpoint dec_re (fuel : nat) (l : list Z) : option (re * list Z) :=
  match fuel with
  | O => None
  | S f =>
    match l with
    | 0 :: t => Some (REmpty, t)
    | 1 :: t => Some (REps, t)
    | 2 :: neg :: t => let (cs, r) := take_list t in Some (RSet (bz neg) cs, r)
    | 3 :: t => match dec_re f t with
                | Some (a, r) => match dec_re f r with Some (b, r') => Some (RCat a b, r') | None => None end
                | None => None end
    | 4 :: t => match dec_re f t with
                | Some (a, r) => match dec_re f r with Some (b, r') => Some (RAlt a b, r') | None => None end
                | None => None end
    | 5 :: t => match dec_re f t with Some (a, r) => Some (RStar a, r) | None => None end
    | _ => None
    end
  end.

(* case: regex ..., then ninput, input...   ->  [accepted; nconsumed; nrest] *)
Definition run_regex (c : list Z) : list Z :=
  match dec_re (length c) c with
  | Some (r, rest) =>
      let (inp, _) := take_list rest in
      let '(acc, p, tl) := rrun r inp in
      [zb acc; Z.of_nat (length p); Z.of_nat (length tl)]
  | None => [-1]
  end.
