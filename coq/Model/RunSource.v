(* Flat-integer interface to Model/Source.v for props/c10.py. *)
From Coq Require Import ZArith List Bool.
From CV Require Import Base.Wire Model.Source.
Import ListNotations.
Open Scope Z_scope.

(* ops: 0 next | 1 x push | 2 peek | 3 n b1..bn chain *)
Fixpoint dec_ops (fuel : nat) (l : list Z) : list op :=
  match fuel with
  | O => []
  | S f =>
    match l with
    | 0 :: t => ONext :: dec_ops f t
    | 1 :: x :: t => OPush x :: dec_ops f t
    | 2 :: t => OPeek :: dec_ops f t
    | 3 :: t => let (b, r) := take_list t in OChain b :: dec_ops f r
    | _ => []
    end
  end.

Definition enc_out (o : option Z) : list Z := match o with Some c => [1; c] | None => [0; 0] end.

(* case: ninput, input..., ops...  ->  per op [has; value], then sent, then the remaining symbols *)
Definition run_source (c : list Z) : list Z :=
  let (inp, rest) := take_list c in
  let ops := dec_ops (length rest) rest in
  let (outs, s) := run_ops (start inp) ops in
  flat_map enc_out outs ++ [s_sent s] ++ put_list (remaining s).
