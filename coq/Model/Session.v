(* Model of one EtherNet/IP session of the simulator (property C06): server/enip/main.py enip_srv_tcp (one parse ->
   one enip_process -> at most one send per frame), server/enip/logix.py process (response = structural copy of the
   request's encapsulation) and server/enip/ucmm.py UCMM.request (Register / Unregister / List* / SendRRData).
   Requests are typed (the byte level is C01/C02); the CIP request inside a SendRRData is executed by
   Model.Route.ucmm_local, i.e. Model.Logix.exec behind the route-path filter.  Hand-written; tied to /repo by
   props/c06.py.  Definitions only. *)
From Coq Require Import ZArith List Bool.
From CV Require Import Model.Logix Model.Route.
Import ListNotations.
Open Scope Z_scope.

Record envelope := Env { e_sess : Z; e_ctx : list Z; e_opts : Z }.     (* session handle, sender context, options *)

Inductive ereq :=
| QRegister (e : envelope)
| QUnregister (e : envelope)
| QList (cmd : Z) (e : envelope)                                   (* 0x04 ListServices, 0x63 ListIdentity, 0x64 ListInterfaces *)
| QSend (e : envelope) (rp : option (list seg)) (r : req).         (* 0x6F SendRRData, unconnected *)

Definition q_env (q : ereq) : envelope :=
  match q with QRegister e | QUnregister e | QList _ e | QSend e _ _ => e end.
Definition q_cmd (q : ereq) : Z :=
  match q with QRegister _ => 101 | QUnregister _ => 102 | QList c _ => c | QSend _ _ _ => 111 end.

Inductive ebody :=
| BRegister                      (* protocol version 1, options 0 *)
| BList (cmd : Z)                (* the CPF list the command returns (contents: C01) *)
| BCip (bytes : list Z)          (* null address item + one unconnected data item carrying these reply bytes *)
| BNone.                         (* no encapsulated payload (length 0) *)

Record ereply := Rep { p_cmd : Z; p_sess : Z; p_status : Z; p_ctx : list Z; p_opts : Z; p_body : ebody }.

Record sstate := SS { s_store : store; s_nreg : nat }.

(* server/enip/device.py Connection_Manager.request: a single request is dispatched to the Object its path names (class, instance);
   one that names no existing Object is not dispatched at all - the UCMM answers with status 8 and the session ends.  Symbolic
   paths (known tag: its Object exists; unknown tag: the Message Router reports it) and bundles (the Message Router's own
   service) are always dispatched.  The Objects: those holding a tag's Attribute, the simulator's standard ones (Identity 1/1,
   Message Router 2/1, Connection Manager 6/1, 0x66/1, TCP/IP 0xF5/1, Logical Segments 0xAC/1), and instance 0 of every such class. *)
Definition std_classes : list Z := [1; 2; 6; 102; 245; 172].
Definition class_known (st : store) (c : Z) : bool :=
  existsb (Z.eqb c) std_classes || existsb (fun e => let '((c', _, _), _) := e in c =? c') (s_dir st).
Definition obj_exists (st : store) (c i : Z) : bool :=
  ((i =? 0) && class_known st c) || ((i =? 1) && existsb (Z.eqb c) std_classes)
  || existsb (fun e => let '((c', i', _), _) := e in (c =? c') && (i =? i')) (s_dir st).
Definition req_target (r : req) : option path :=
  match r with
  | ReadTag p _ | ReadFrag p _ _ | WriteTag p _ _ _ | WriteFrag p _ _ _ _ | GetAttr p | SetAttr p _ => Some p
  | Multiple _ => None
  end.
Definition unroutable (st : store) (r : req) : bool :=
  match req_target r with Some (PNum c i _ _) => negb (obj_exists st c i) | _ => false end.

(* the session handles the simulator allocates (random, never 0): an oracle indexed by allocation count *)
Section Session.
  Variable handle_of : nat -> Z.
  Variable cfg : option (list seg).       (* UCMM route_path personality *)
  Variable maxb : Z.

  (* one request: the reply (if any), whether the session continues, and the new state *)
  Definition respond (s : sstate) (q : ereq) : sstate * option ereply * bool :=
    let e := q_env q in
    match q with
    | QRegister _ =>
        (SS (s_store s) (S (s_nreg s)), Some (Rep 101 (handle_of (s_nreg s)) 0 (e_ctx e) (e_opts e) BRegister), true)
    | QUnregister _ => (s, None, false)
    | QList c _ => (s, Some (Rep c (e_sess e) 0 (e_ctx e) (e_opts e) (BList c)), true)
    | QSend _ rp r =>
        if unroutable (s_store s) r then (s, Some (Rep 111 (e_sess e) 8 (e_ctx e) (e_opts e) BNone), false) else
        match ucmm_local cfg maxb (s_store s) rp r with
        | (st', UReply (Some bs)) => (SS st' (s_nreg s), Some (Rep 111 (e_sess e) 0 (e_ctx e) (e_opts e) (BCip bs)), true)
        | (st', UReply None) => (SS st' (s_nreg s), Some (Rep 111 (e_sess e) 8 (e_ctx e) (e_opts e) BNone), false)
        | (st', URefused code) => (SS st' (s_nreg s), Some (Rep 111 (e_sess e) code (e_ctx e) (e_opts e) BNone), false)
        end
    end.

  (* the frames sent back for a sequence of received requests (however they were pipelined: C02) *)
  Fixpoint srun (s : sstate) (qs : list ereq) : list ereply * sstate :=
    match qs with
    | [] => ([], s)
    | q :: t =>
        let '(s1, rep, go) := respond s q in
        let (rest, s2) := if go then srun s1 t else ([], s1) in
        (match rep with Some r => r :: rest | None => rest end, s2)
    end.
End Session.
