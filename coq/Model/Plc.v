(* Model of cpppo/remote/plc_modbus.py: shatter, merge  (property C19).
   Hand-written transcription; tied to the source by the correspondence check
   props/c19.py (exhaustive small scope + seeded random).  Definitions only. *)
From Coq Require Import ZArith List Bool.
Import ListNotations.
Open Scope Z_scope.

Definition range := (Z * Z)%type.          (* (address, count) *)

(* `if not limit:` -> bank default chosen from the start address *)
Definition default_limit (address : Z) : Z :=
  if ((1 <=? address) && (address <=? 9999))
     || ((10001 <=? address) && (address <=? 19999))
     || ((100001 <=? address) && (address <=? 165536))
  then 1968 else 123.

(* limit: None (or 0, `not limit`) -> default *)
Definition eff_limit (address : Z) (limit : option Z) : Z :=
  match limit with
  | Some l => if l =? 0 then default_limit address else l
  | None => default_limit address
  end.

(* `while count: taken = min(count, limit or count); yield; address += taken; count -= taken`
   Fuel-driven; [shatter] supplies ceil(count/limit) which is exactly the number of
   iterations of the Python loop when count >= 0 and limit >= 1. *)
Fixpoint shatter_go (fuel : nat) (address count limit : Z) : list range :=
  match fuel with
  | O => []
  | S f =>
      if count =? 0 then []
      else let taken := Z.min count (if limit =? 0 then count else limit) in
           (address, taken) :: shatter_go f (address + taken) (count - taken) limit
  end.

Definition shatter (address count : Z) (limit : option Z) : list range :=
  let l := eff_limit address limit in
  shatter_go (Z.to_nat ((count + l - 1) / l)) address count l.

(* sorted( ranges ): lexicographic order on tuples *)
Definition le_range (r s : range) : bool :=
  (fst r <? fst s) || ((fst r =? fst s) && (snd r <=? snd s)).

Fixpoint insert (r : range) (l : list range) : list range :=
  match l with
  | [] => [r]
  | s :: t => if le_range r s then r :: s :: t else s :: insert r t
  end.

Fixpoint sort (l : list range) : list range :=
  match l with [] => [] | r :: t => insert r (sort t) end.

Record mstate := MS { m_base : Z; m_len : Z; m_out : list range }.

Definition eff_reach (reach : Z) : Z := if reach =? 0 then 1 else reach.  (* `reach or 1` *)

(* body of `for address, count in input:` *)
Definition merge_step (reach : Z) (limit : option Z) (st : mstate) (r : range) : mstate :=
  let (address, count) := r in
  if negb (m_len st =? 0) then
    if (address / 10000 =? m_base st / 10000)
       && (address <? m_base st + m_len st + eff_reach reach)
    then MS (m_base st) (Z.max (m_len st) (address + count - m_base st)) (m_out st)
    else MS address count (m_out st ++ shatter (m_base st) (m_len st) limit)
  else MS address count (m_out st).

(* `next(input)` on an empty iterator escapes the generator: modelled as None *)
Definition merge (ranges : list range) (reach : Z) (limit : option Z) : option (list range) :=
  match sort ranges with
  | [] => None
  | (b, l) :: rest =>
      let st := fold_left (merge_step reach limit) rest (MS b l []) in
      Some (m_out st ++ shatter (m_base st) (m_len st) limit)
  end.

(* The pre-fix behaviour (pinned commit before the "fix:" commit), kept so that the
   refutation witness stays machine-checked: `length = address + count - base`. *)
Definition merge_step_old (reach : Z) (limit : option Z) (st : mstate) (r : range) : mstate :=
  let (address, count) := r in
  if negb (m_len st =? 0) then
    if (address / 10000 =? m_base st / 10000)
       && (address <? m_base st + m_len st + eff_reach reach)
    then MS (m_base st) (address + count - m_base st) (m_out st)
    else MS address count (m_out st ++ shatter (m_base st) (m_len st) limit)
  else MS address count (m_out st).

Definition merge_old (ranges : list range) (reach : Z) (limit : option Z) : option (list range) :=
  match sort ranges with
  | [] => None
  | (b, l) :: rest =>
      let st := fold_left (merge_step_old reach limit) rest (MS b l []) in
      Some (m_out st ++ shatter (m_base st) (m_len st) limit)
  end.
