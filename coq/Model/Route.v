(* Model of the route-path filter of cpppo/server/enip/ucmm.py (UCMM.request, local requests) and of the
   textual route paths of cpppo/server/enip/device.py (port_link, parse_route_path).  Property C15.
   Hand-written; tied to /repo by props/c15.py.  Definitions only. *)
From Coq Require Import ZArith List Bool.
From CV Require Import Model.Tnet Model.Logix.
Import ListNotations.
Open Scope Z_scope.

(* a link is a number, an IPv4 address (dotted quad), or - on the wire only - some other address string (LText t, t the
   base-256 number of the string's bytes behind a leading 1, so distinct strings are distinct numbers).  An address string
   that spells a number ("0", "00") is LText, NOT LNum: the port segment carries the kind of its link. *)
Inductive link := LNum (n : Z) | LIp (a b c d : Z) | LText (t : Z).
Definition seg := (Z * link)%type.            (* {"port": p, "link": l} *)

Definition link_eqb (x y : link) : bool :=
  match x, y with
  | LNum a, LNum b => a =? b
  | LIp a b c d, LIp a' b' c' d' => (a =? a') && (b =? b') && (c =? c') && (d =? d')
  | LText t, LText t' => t =? t'
  | _, _ => false
  end.

Definition seg_eqb (x y : seg) : bool := (fst x =? fst y) && link_eqb (snd x) (snd y).

Fixpoint path_eqb (x y : list seg) : bool :=
  match x, y with
  | [], [] => true
  | a :: x', b :: y' => seg_eqb a b && path_eqb x' y'
  | _, _ => false
  end.

(* UCMM.route_path: None = accept anything; Some [] = simple non-routing device (False / 0 / []);
   Some p = the configured path.   Request: None = no route path at all, Some l = the segments. *)
Definition accept (cfg : option (list seg)) (rp : option (list seg)) : bool :=
  match cfg with
  | None => true
  | Some c =>
      match rp with
      | None | Some [] => true                 (* `not route_path` *)
      | Some r => path_eqb r c                  (* `route_path == self.route_path` *)
      end
  end.

(* A local unconnected request: refused => encapsulation status 0x08 and the request is never handed to
   the Connection Manager; accepted => the request is executed (Model.Logix.exec). *)
Inductive uresult := URefused (enip_status : Z) | UReply (bytes : option (list Z)).

Definition ucmm_local (cfg : option (list seg)) (maxb : Z) (st : store) (rp : option (list seg)) (r : req)
  : store * uresult :=
  if accept cfg rp then let (st', rep) := exec fixed maxb st r in (st', UReply (produce rep))
  else (st, URefused 8).

(* ---- textual route paths: "p/l", "p/l/p/l", links numeric or dotted quad ------------------------------ *)
Definition c_slash := 47.  Definition c_dot := 46.

Definition print_link (l : link) : list Z :=
  match l with
  | LNum n => print_int n
  | LIp a b c d => dec a ++ c_dot :: dec b ++ c_dot :: dec c ++ c_dot :: dec d
  | LText _ => []                 (* not part of the textual route-path syntax (wf_link excludes it) *)
  end.

Definition print_seg (s : seg) : list Z := dec (fst s) ++ c_slash :: print_link (snd s).

Fixpoint print_route (p : list seg) : list Z :=
  match p with
  | [] => []
  | [s] => print_seg s
  | s :: t => print_seg s ++ c_slash :: print_route t
  end.

(* str.split( sep ) *)
Fixpoint split_on (sep : Z) (bs : list Z) (cur : list Z) : list (list Z) :=
  match bs with
  | [] => [rev cur]
  | c :: t => if c =? sep then rev cur :: split_on sep t [] else split_on sep t (c :: cur)
  end.

Definition parse_link (bs : list Z) : option link :=
  match parse_int bs with
  | Some n => Some (LNum n)
  | None =>
      match map undec (split_on c_dot bs []) with
      | [Some a; Some b; Some c; Some d] =>
          if (a <=? 255) && (b <=? 255) && (c <=? 255) && (d <=? 255) then Some (LIp a b c d) else None
      | _ => None
      end
  end.

(* port_link: int(port) > 0, link int or address *)
Definition parse_seg (p l : list Z) : option seg :=
  match parse_int p, parse_link l with
  | Some n, Some k => if 0 <? n then Some (n, k) else None
  | _, _ => None
  end.

(* parse_route_path on "p/l/p/l...": pairs of '/'-separated components while they are port/link *)
Fixpoint pair_up (cs : list (list Z)) : option (list seg) :=
  match cs with
  | [] => Some []
  | p :: l :: t => match parse_seg p l, pair_up t with
                   | Some s, Some r => Some (s :: r)
                   | _, _ => None
                   end
  | _ => None
  end.

Definition parse_route (bs : list Z) : option (list seg) :=
  match bs with [] => Some [] | _ => pair_up (split_on c_slash bs []) end.
