(* Model of EtherNet/IP stream framing (property C02): the incremental framer that enip_machine implements over a
   chained source (server/enip/parser.py enip_header + payload octets repeat='.length'), the receive loops built on
   it (server/enip/main.py enip_srv_tcp, server/enip/client.py client.__next__) and the act-on-complete-frames-only
   rule.  Hand-written; tied to /repo by props/c02.py.  Definitions only. *)
From Coq Require Import ZArith List Bool.
Import ListNotations.
Open Scope Z_scope.

Definition len (l : list Z) : Z := Z.of_nat (length l).

(* the encapsulation header's length field: bytes 2,3 little-endian *)
Definition declared (h : list Z) : Z := nth 2 h 0 + 256 * nth 3 h 0.

(* a buffer holds a complete frame: 24 header bytes plus exactly the declared payload *)
Definition complete (buf : list Z) : bool := (24 <=? len buf) && (len buf =? 24 + declared buf).

(* one delivered byte: it either completes the frame being collected or is added to it *)
Definition sstep (buf : list Z) (b : Z) : list Z * option (list Z) :=
  let buf' := buf ++ [b] in
  if complete buf' then ([], Some buf') else (buf', None).

(* a block of delivered bytes: the frames completed by it, and the unfinished frame left over *)
Fixpoint srun (buf : list Z) (bs : list Z) : list (list Z) * list Z :=
  match bs with
  | [] => ([], buf)
  | b :: t => match sstep buf b with
              | (buf', Some f) => let (fs, r) := srun buf' t in (f :: fs, r)
              | (buf', None) => srun buf' t
              end
  end.

(* a receive loop: blocks arrive one recv() at a time *)
Fixpoint feed (buf : list Z) (chunks : list (list Z)) : list (list Z) * list Z :=
  match chunks with
  | [] => ([], buf)
  | c :: t => let (f1, b1) := srun buf c in let (f2, b2) := feed b1 t in (f1 ++ f2, b2)
  end.

(* the session loop: every completed frame is handed to the request processor, in order; what is left unfinished
   at end-of-stream is handed to nobody *)
Section Serve.
  Variable S : Type.
  Variable handle : S -> list Z -> S * list Z.      (* state -> request frame -> state * reply frame *)

  Fixpoint process (s : S) (frames : list (list Z)) : S * list (list Z) :=
    match frames with
    | [] => (s, [])
    | f :: t => let (s1, r) := handle s f in let (s2, rs) := process s1 t in (s2, r :: rs)
    end.

  Definition serve (s : S) (chunks : list (list Z)) : S * list (list Z) :=
    process s (fst (feed [] chunks)).
End Serve.

(* a well-formed frame / a proper beginning of one *)
Definition wf_frame (f : list Z) : Prop := 24 <= len f /\ len f = 24 + declared f.
Definition unfinished (p : list Z) : Prop := len p < 24 \/ len p < 24 + declared p.
