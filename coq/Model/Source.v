(* Model of the input sources of cpppo/automata.py: peeking (push / peek / next with the net `sent` count) and
   chaining (queued input blocks).  Property C10 (symbol accounting).  Hand-written; tied to /repo by
   props/c10.py (random operation sequences on cpppo.peeking / chaining / remembering).  Definitions only. *)
From Coq Require Import ZArith List Bool.
Import ListNotations.
Open Scope Z_scope.

Record src := Source {
  s_iter : list Z;            (* what the current iterator will still deliver *)
  s_back : list Z;            (* pushed-back symbols, most recent first *)
  s_chain : list (list Z);    (* queued blocks, next to be used first *)
  s_sent : Z                  (* ._sent *)
}.

Inductive op := ONext | OPush (x : Z) | OPeek | OChain (blk : list Z).

(* find the next queued block that delivers a symbol; exhausted blocks are dropped *)
Fixpoint advance (ch : list (list Z)) : option (Z * list Z * list (list Z)) :=
  match ch with
  | [] => None
  | [] :: rest => advance rest
  | (c :: r) :: rest => Some (c, r, rest)
  end.

(* chaining.__next__ (peeking.__next__ when nothing is ever chained); None = StopIteration *)
Definition next (s : src) : option Z * src :=
  match s_back s with
  | x :: b => (Some x, Source (s_iter s) b (s_chain s) (s_sent s + 1))
  | [] =>
    match s_iter s with
    | c :: r => (Some c, Source r [] (s_chain s) (s_sent s + 1))
    | [] => match advance (s_chain s) with
            | Some (c, r, rest) => (Some c, Source r [] rest (s_sent s + 1))
            | None => (None, Source [] [] [] (s_sent s))
            end
    end
  end.

Definition push (x : Z) (s : src) : src := Source (s_iter s) (x :: s_back s) (s_chain s) (s_sent s - 1).

(* peeking.peek: next + push when nothing is pushed back *)
Definition peek (s : src) : option Z * src :=
  match s_back s with
  | x :: _ => (Some x, s)
  | [] => match next s with
          | (Some c, s') => (Some c, push c s')
          | (None, s') => (None, s')
          end
  end.

Definition chain (blk : list Z) (s : src) : src := Source (s_iter s) (s_back s) (s_chain s ++ [blk]) (s_sent s).

Definition step (s : src) (o : op) : option Z * src :=
  match o with
  | ONext => next s
  | OPush x => (None, push x s)
  | OPeek => peek s
  | OChain b => (None, chain b s)
  end.

(* everything the source will still deliver, in order *)
Definition remaining (s : src) : list Z := s_back s ++ s_iter s ++ concat (s_chain s).

Definition start (input : list Z) : src := Source input [] [] 0.

Fixpoint run_ops (s : src) (ops : list op) : list (option Z) * src :=
  match ops with
  | [] => ([], s)
  | o :: t => let (r, s1) := step s o in let (rs, s2) := run_ops s1 t in (r :: rs, s2)
  end.
