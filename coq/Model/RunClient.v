(* Flat-integer interface to Model/Client.v and Model/OpText.v for props/c12.py. *)
From Coq Require Import ZArith List Bool.
From CV Require Import Base.Wire Model.Client Model.OpText.
Import ListNotations.
Open Scope Z_scope.

Fixpoint dec_ops (n : nat) (l : list Z) : list opinfo :=
  match n with
  | O => []
  | S k => match l with a :: b :: c :: d :: t => Op a b c d :: dec_ops k t | _ => [] end
  end.

Definition enc_group (g : list nat) : list Z := put_list (map Z.of_nat g).
Definition enc_event (e : event) : list Z := match e with EIssue o => [0; Z.of_nat o] | EHarvest o => [1; Z.of_nat o] end.

Definition enc_optext (o : optext) : list Z :=
  put_list (t_name o)
  ++ (match t_elem o with None => [0; 0; 0] | Some (a, None) => [1; a; 0] | Some (a, Some b) => [2; a; b] end)
  ++ (match t_off o with None => [0; 0] | Some f => [1; f] end)
  ++ (match t_write o with None => [0] | Some (ty, vals) => 1 :: put_list ty ++ put_list vals end).

Definition dec_optext (l : list Z) : optext :=
  let (nm, r) := take_list l in
  match r with
  | ek :: a :: b :: fk :: f :: wk :: r2 =>
      let e := if ek =? 0 then None else if ek =? 1 then Some (a, None) else Some (a, Some b) in
      let off := if fk =? 0 then None else Some f in
      let w := if wk =? 0 then None else let (ty, r3) := take_list r2 in let (vals, _) := take_list r3 in Some (ty, vals) in
      OpText nm e off w
  | _ => OpText nm None None None
  end.

Definition run_client (c : list Z) : list Z :=
  match c with
  | 0 :: m :: n :: t => let gs := plan m (dec_ops (Z.to_nat n) t) in Z.of_nat (length gs) :: flat_map enc_group gs
  | 1 :: depth :: t => let (issued, _) := take_list t in
                       let evs := pipeline depth issued in Z.of_nat (length evs) :: flat_map enc_event evs
  | 2 :: t => put_list (print_op (dec_optext t))
  | 3 :: t => let (txt, _) := take_list t in
              match parse_op txt with Some o => 1 :: enc_optext o | None => [0] end
  | _ => [-1]
  end.
