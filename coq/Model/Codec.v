(* Reference EtherNet/IP CIP codec, written from the layout tables with the combinators of Base/Fmt.v.
   Every [fmt]/[fend] value below carries its encoder, strict decoder and both round-trip proofs, so the
   theorems of property C01 are projections (Properties/C01.v).  It shares no structure with cpppo's state
   machines; it is tied to /repo by props/c01.py (produce = enc, parse agrees with dec).
   This file also serves C14 (reference encoder/decoder) and the frame level of C06. *)
From Coq Require Import ZArith List Bool Lia Arith ZifyBool.
From CV Require Import Base.Fmt.
Import ListNotations.
Open Scope Z_scope.

(* ---- tuple reshuffling helpers -------------------------------------------------------------------------- *)
Definition u8 := uint 1.  Definition u16 := uint 2.  Definition u32 := uint 4.  Definition u64 := uint 8.

(* ---- CIP scalar types by tag type (Vol 1, C-6.1): value carried as Z (REAL/LREAL as IEEE bit patterns) ---- *)
Definition scalar (code : Z) : fmt Z :=
  if code =? 193 then boolb            (* BOOL  0xC1 *)
  else if code =? 194 then sint 1      (* SINT  0xC2 *)
  else if code =? 195 then sint 2      (* INT   0xC3 *)
  else if code =? 196 then sint 4      (* DINT  0xC4 *)
  else if code =? 197 then sint 8      (* LINT  0xC5 *)
  else if code =? 198 then uint 1      (* USINT 0xC6 *)
  else if code =? 199 then uint 2      (* UINT  0xC7 *)
  else if code =? 200 then uint 4      (* UDINT 0xC8 *)
  else if code =? 201 then uint 8      (* ULINT 0xC9 *)
  else if code =? 202 then uint 4      (* REAL  0xCA *)
  else if code =? 203 then uint 8      (* LREAL 0xCB *)
  else failf 0 TZ unview_z (fun _ => eq_refl).

Definition is_string_code (code : Z) : bool := (code =? 218) || (code =? 208).   (* SSTRING 0xDA, STRING 0xD0 *)

Definition sstring : fmt bytes := lbytes u8 false.      (* USINT length, characters *)
Definition string_ : fmt bytes := lbytes u16 true.      (* UINT length, characters, pad to even *)

Definition strval (code : Z) : fmt bytes := if code =? 218 then sstring else string_.

(* typed data to the end of its region: scalars, or strings for the two string types *)
Definition typed_end (code : Z) : fend (list Z + list bytes) :=
  esum_sel (negb (is_string_code code)) (many (scalar code)) (many (strval code)).

(* ---- EPATH segments (Vol 1, C-1.4) ----------------------------------------------------------------------- *)
Inductive seg :=
| SSym (name : bytes)             (* 0x91 ANSI extended symbolic *)
| SClass (n : Z) | SInst (n : Z) | SConn (n : Z) | SAttr (n : Z) | SElem (n : Z)
| SPort (port link : Z)            (* port segment, numeric link address *)
| SPortA (port : Z) (addr : bytes).   (* port segment, link address string *)

(* wire level: tag byte, then (a, b, s) with unused slots empty *)
Definition wseg := (Z * (Z * (Z * bytes)))%type.

Definition slot3 (fa fb : fmt Z) (fs : fmt bytes) : fmt (Z * (Z * bytes)) := pair fa (pair fb fs).

Definition view3 (p : Z * (Z * bytes)) : tree := TL [TZ (fst p); TL [TZ (fst (snd p)); TL (map TZ (snd (snd p)))]].
Definition unview3 (t : tree) : option (Z * (Z * bytes)) :=
  match t with
  | TL [TZ a; TL [TZ b; s]] => match unview_bytes s with Some l => Some (a, (b, l)) | None => None end
  | _ => None end.
Lemma unview_view3 p : unview3 (view3 p) = Some p.
Proof. destruct p as [a [b s]]. unfold view3, unview3. cbn [fst snd]. rewrite unview_bytes_ok. reflexivity. Qed.

Definition seg_fail : fmt (Z * (Z * bytes)) := failf (0, (0, [])) view3 unview3 unview_view3.

(* [1F][SS][PPPP] address [pad]: length first, then extended port, then the characters *)
Definition port_ext_addr : fmt (Z * (Z * bytes)).
Proof.
  refine (iso (guard (bind u8 (fun len => pair u16 (nbytes (Z.to_nat len) true)))
                     (fun _ => true))
              (fun w => match w with (len, (p, s)) => (p, (len, s)) end)
              (fun v => match v with (p, (len, s)) => (len, (p, s)) end) _ _).
  - intros [len [p s]]; reflexivity.
  - intros [p [len s]]; reflexivity.
Defined.

Definition seg_body (tag : Z) : fmt (Z * (Z * bytes)) :=
  if tag =? 145 then slot3 nothing_z nothing_z (lbytes u8 true)                        (* 0x91 len chars [pad] *)
  else if (tag =? 32) || (tag =? 36) || (tag =? 44) || (tag =? 48) || (tag =? 40)
       then slot3 u8 nothing_z nothing_b                                                   (* 8-bit logical *)
  else if (tag =? 33) || (tag =? 37) || (tag =? 45) || (tag =? 49) || (tag =? 41)
       then slot3 (after [0] u16) nothing_z nothing_b                                      (* pad, 16-bit *)
  else if tag =? 42 then slot3 (after [0] u32) nothing_z nothing_b                         (* pad, 32-bit element *)
  else if (1 <=? tag) && (tag <=? 14) then slot3 nothing_z u8 nothing_b                    (* port in tag, link *)
  else if tag =? 15 then slot3 u16 u8 nothing_b                                            (* extended port, link *)
  else if (17 <=? tag) && (tag <=? 30) then slot3 nothing_z nothing_z (lbytes u8 true)     (* len addr [pad] *)
  else if tag =? 31 then port_ext_addr
  else seg_fail.

Definition wseg_fmt : fmt wseg := bind u8 seg_body.

Definition seg_to (w : wseg) : seg :=
  match w with (tag, (a, (b, s))) =>
    if tag =? 145 then SSym s
    else if (tag =? 32) || (tag =? 33) then SClass a
    else if (tag =? 36) || (tag =? 37) then SInst a
    else if (tag =? 44) || (tag =? 45) then SConn a
    else if (tag =? 48) || (tag =? 49) then SAttr a
    else if (tag =? 40) || (tag =? 41) || (tag =? 42) then SElem a
    else if (1 <=? tag) && (tag <=? 14) then SPort tag b
    else if tag =? 15 then SPort a b
    else if (17 <=? tag) && (tag <=? 30) then SPortA (tag - 16) s
    else SPortA a s
  end.

(* the encoder's choices: narrowest logical format; port < 15 inline, otherwise extended *)
Definition logical (base n : Z) (allow32 : bool) : wseg :=
  if n <=? 255 then (base, (n, (0, [])))
  else if n <=? 65535 then (base + 1, (n, (0, [])))
  else if allow32 then (base + 2, (n, (0, []))) else (base + 1, (n, (0, []))).

Definition seg_from (s : seg) : wseg :=
  match s with
  | SSym n => (145, (0, (0, n)))
  | SClass n => logical 32 n false
  | SInst n => logical 36 n false
  | SConn n => logical 44 n false
  | SAttr n => logical 48 n false
  | SElem n => logical 40 n true
  | SPort p l => if p <? 15 then (p, (0, (l, []))) else (15, (p, (l, [])))
  | SPortA p a => if p <? 15 then (16 + p, (0, (0, a))) else (31, (p, (Z.of_nat (length a), a)))
  end.

Fixpoint bytes_eqb (a b : bytes) : bool :=
  match a, b with
  | [], [] => true
  | x :: a', y :: b' => (x =? y) && bytes_eqb a' b'
  | _, _ => false
  end.

Lemma bytes_eqb_eq a : forall b, bytes_eqb a b = true <-> a = b.
Proof.
  induction a as [|x a IH]; intros [|y b]; simpl; split; intros H; try discriminate; auto.
  - apply andb_true_iff in H as [H1 H2]. apply IH in H2. f_equal; [lia | auto].
  - inversion H; subst. rewrite Z.eqb_refl. apply IH. reflexivity.
Qed.

Definition wseg_eqb (x y : wseg) : bool :=
  match x, y with
  | (t, (a, (b, s))), (t', (a', (b', s'))) => (t =? t') && (a =? a') && (b =? b') && bytes_eqb s s'
  end.

Lemma wseg_eqb_eq x y : wseg_eqb x y = true <-> x = y.
Proof.
  destruct x as [t [a [b s]]], y as [t' [a' [b' s']]]. simpl.
  rewrite !andb_true_iff, bytes_eqb_eq. split.
  - intros [[[H1 H2] H3] H4]. subst. repeat f_equal; lia.
  - intros H; inversion H; subst. repeat split; try lia.
Qed.

Definition view_seg (s : seg) : tree :=
  match s with
  | SSym n => TL [TZ 0; TL (map TZ n)]
  | SClass n => TL [TZ 1; TZ n] | SInst n => TL [TZ 2; TZ n] | SConn n => TL [TZ 3; TZ n]
  | SAttr n => TL [TZ 4; TZ n] | SElem n => TL [TZ 5; TZ n]
  | SPort p l => TL [TZ 6; TZ p; TZ l]
  | SPortA p a => TL [TZ 7; TZ p; TL (map TZ a)]
  end.

Definition unview_seg (t : tree) : option seg :=
  match t with
  | TL [TZ 0; n] => match unview_bytes n with Some l => Some (SSym l) | None => None end
  | TL [TZ 1; TZ n] => Some (SClass n) | TL [TZ 2; TZ n] => Some (SInst n) | TL [TZ 3; TZ n] => Some (SConn n)
  | TL [TZ 4; TZ n] => Some (SAttr n) | TL [TZ 5; TZ n] => Some (SElem n)
  | TL [TZ 6; TZ p; TZ l] => Some (SPort p l)
  | TL [TZ 7; TZ p; a] => match unview_bytes a with Some l => Some (SPortA p l) | None => None end
  | _ => None
  end.

Lemma unview_view_seg s : unview_seg (view_seg s) = Some s.
Proof. destruct s; cbn [view_seg unview_seg]; try reflexivity; rewrite unview_bytes_ok; reflexivity. Qed.

(* A semantic segment is well-formed when its canonical wire form is, and it is what that form denotes. *)
Definition seg_ok (s : seg) : Prop := ok wseg_fmt (seg_from s) /\ seg_to (seg_from s) = s.

Definition seg_fmt : fmt seg.
Proof.
  refine (conv wseg_fmt seg_to seg_from (fun w => wseg_eqb (seg_from (seg_to w)) w) seg_ok
               view_seg unview_seg _ _ unview_view_seg).
  - intros w Hw Hc. apply wseg_eqb_eq in Hc. split; [exact Hc|]. unfold seg_ok. rewrite Hc. auto.
  - intros s [Ho Ht]. rewrite Ht. split; [apply wseg_eqb_eq; reflexivity | auto].
Defined.

(* EPATH: size in words, [pad byte for route paths], segments filling exactly that many words *)
Definition epath : fmt (list seg) := sized u8 1 (many seg_fmt).
Definition epath_padded : fmt (list seg) := sized (before u8 [0]) 1 (many seg_fmt).
Definition epath_single : fmt seg := seg_fmt.

(* ---- status: general status, count of extended words, the words; none with status 0 --------------------- *)
Definition status_fmt : fmt (Z * list Z) :=
  guard (pair u8 (counted u8 u16))
        (fun p => negb (fst p =? 0) || match snd p with [] => true | _ => false end).

(* ---- CIP services of the Logix dialect (Message Router object) -------------------------------------------
   A service message is (service code, body); every body has the same shape
       (request path?, (status?, (fixed fields in wire order, typed data to the end)))
   with the parts a given service does not have forced empty. *)
Definition tdata := (list Z + list bytes)%type.
Definition body := (option (list seg) * (option (Z * list Z) * (list Z * tdata)))%type.

Definition enone : fend tdata := esum_sel true (many (scalar 0)) (many sstring).    (* no data: inl [] only *)

Definition data_end (code : option Z) : fend tdata :=
  match code with Some c => typed_end c | None => enone end.

(* request: service, EPATH, fields, data whose type may come from the fields *)
Definition request (ws : list nat) (dcode : list Z -> option Z) : fend body :=
  seq_end (opt true epath) (seq_end (opt false status_fmt) (bind_end (fields ws) (fun nums => data_end (dcode nums)))).

(* reply: service|0x80, reserved 0, status; a payload only for the listed status values *)
Definition reply (good : Z -> bool) (ws : list nat) (dcode : list Z -> option Z) : fend body :=
  seq_end (opt false epath)
          (bind_end (opt true (after [0] status_fmt))
                    (fun st => match st with
                               | Some (s, _) => if good s then bind_end (fields ws) (fun nums => data_end (dcode nums))
                                                else bind_end (fields []) (fun _ => enone)
                               | None => bind_end (fields []) (fun _ => enone)
                               end)).

Definition hd_code (nums : list Z) : option Z := match nums with c :: _ => Some c | [] => None end.
Definition no_data (_ : list Z) : option Z := None.
Definition is0 (s : Z) : bool := s =? 0.
Definition is0or6 (s : Z) : bool := (s =? 0) || (s =? 6).
Definition never (_ : Z) : bool := false.

Definition svc1_body (svc : Z) : fend body :=
  if svc =? 76 then request [2%nat] no_data                               (* 0x4C Read Tag: elements *)
  else if svc =? 82 then request [2%nat; 4%nat] no_data                   (* 0x52 Read Tag Fragmented: elements, offset *)
  else if svc =? 77 then request [2%nat; 2%nat] hd_code                   (* 0x4D Write Tag: type, elements, data *)
  else if svc =? 83 then request [2%nat; 2%nat; 4%nat] hd_code            (* 0x53 Write Tag Fragmented: type, elements, offset, data *)
  else if (svc =? 204) || (svc =? 210) then reply is0or6 [2%nat] hd_code  (* 0xCC / 0xD2: status, type, data *)
  else if (svc =? 205) || (svc =? 211) then reply never [] no_data        (* 0xCD / 0xD3: status *)
  else if (svc =? 1) || (svc =? 14) then request [] no_data               (* 0x01 Get Attributes All, 0x0E Get Attribute Single *)
  else if (svc =? 129) || (svc =? 142) then reply is0 [] (fun _ => Some 198)   (* 0x81 / 0x8E: status, USINT data *)
  else if svc =? 16 then request [] (fun _ => Some 198)                   (* 0x10 Set Attribute Single: USINT data *)
  else if svc =? 144 then reply never [] no_data                          (* 0x90 *)
  else if svc =? 3 then request [] (fun _ => Some 199)                    (* 0x03 Get Attribute List: count + ids, as UINTs *)
  else if svc =? 131 then reply is0 [] (fun _ => Some 198)                (* 0x83: status, opaque USINT data *)
  else eguard (request [] no_data) (fun _ => false).                     (* unknown service: nothing is accepted *)

Definition svc1 : fend (Z * body) := bind_end u8 svc1_body.

(* ---- Multiple Service Packet (0x0A / 0x8A): request path or reply status, then count, offsets, members ---- *)
Definition mbody := (option (list seg) * (option (Z * list Z) * list (Z * body)))%type.

Definition no_members : fend (list (Z * body)).
Proof.
  refine (Fend _ (fun _ => []) (fun bs => match bs with [] => Some [] | _ => None end) (fun l => l = [])
               (fun l => TL (map (eview svc1) l))
               (fun t => match t with TL ts => unview_list (eunview svc1) ts | _ => None end) _ _ _).
  - intros l ->. reflexivity.
  - intros bs l H. destruct bs; [inversion H; auto | discriminate].
  - intros l. apply unview_list_emap.
Defined.

Definition multi_body (svc : Z) : fend mbody :=
  if svc =? 10 then seq_end (opt true epath) (seq_end (opt false status_fmt) (offset_table svc1))
  else seq_end (opt false epath)
               (bind_end (opt true (after [0] status_fmt))
                         (fun st => match st with
                                    | Some (s, _) => if (s =? 0) || (s =? 30) then offset_table svc1 else no_members
                                    | None => no_members end)).

(* any CIP message of the dialect: service code, then a plain body or a bundle body *)
Definition is_multi (svc : Z) : bool := (svc =? 10) || (svc =? 138).
Definition cip_body (svc : Z) : fend (body + mbody) := esum_sel (negb (is_multi svc)) (svc1_body svc) (multi_body svc).
Definition cip : fend (Z * (body + mbody)) := bind_end u8 cip_body.

(* ---- Unconnected Send (0x52) wrapper inside the unconnected data item -------------------------------------
   0x52, path EPATH, priority, timeout ticks, message length, message, [pad], route path (padded EPATH) *)
Definition wrapper := (((list seg * (Z * Z)) * (unit * (Z * (body + mbody)))) * list seg)%type.

Definition usend_wrapper : fend wrapper :=
  bind_end (framed (pair epath (pair u8 u8)) (const []) true (fun _ => cip)) (fun _ => whole epath_padded).

(* the b2 item: 0x52 = Unconnected Send wrapper, anything else a bare CIP message *)
Definition umsg := (Z * (wrapper + (body + mbody)))%type.
Definition usend : fend umsg :=
  bind_end u8 (fun b0 => esum_sel (b0 =? 82) usend_wrapper (cip_body b0)).

(* in connected data (b1) the message is always a bare CIP message (0x52 there is Read Tag Fragmented) *)
Definition cmsg : fend umsg := bind_end u8 (fun b0 => esum_sel false usend_wrapper (cip_body b0)).

(* ---- Common Packet Format items: type id, length, payload ---------------------------------------------- *)
Definition ipay := (Z * (bytes * option umsg))%type.

Definition view_oumsg (o : option umsg) : tree := match o with Some u => TL [eview usend u] | None => TL [] end.
Definition unview_oumsg (t : tree) : option (option umsg) :=
  match t with
  | TL [x] => match eunview usend x with Some u => Some (Some u) | None => None end
  | TL [] => Some None | _ => None end.
Lemma unview_view_oumsg o : unview_oumsg (view_oumsg o) = Some o.
Proof. destruct o as [u|]; cbn [view_oumsg unview_oumsg]; [rewrite (ert_view usend)|]; reflexivity. Qed.

Definition no_umsg : fend (option umsg).
Proof.
  refine (Fend _ (fun _ => []) (fun bs => match bs with [] => Some None | _ => None end) (fun o => o = None)
               view_oumsg unview_oumsg _ _ unview_view_oumsg).
  - intros o ->. reflexivity.
  - intros bs o H. destruct bs; [inversion H; auto | discriminate].
Defined.

Definition some_umsg (g : fend umsg) : fend (option umsg).
Proof.
  refine (Fend _ (fun o => match o with Some u => eenc g u | None => [] end)
               (fun bs => match edec g bs with Some u => Some (Some u) | None => None end)
               (fun o => match o with Some u => eok g u | None => False end)
               view_oumsg unview_oumsg _ _ unview_view_oumsg).
  - intros [u|] H; [|destruct H]. rewrite (ert_enc g) by auto. reflexivity.
  - intros bs o H. destruct (edec g bs) as [u|] eqn:E; [|discriminate]. inversion H; subst. apply (ert_dec g); auto.
Defined.

(* an item of a type this codec does not interpret: opaque bytes *)
Definition opaque_tail : fend (bytes * option umsg).
Proof.
  refine (Fend _ (fun v => fst v) (fun bs => if all_bytesb bs then Some (bs, None) else None)
               (fun v => all_bytes (fst v) /\ snd v = None)
               (fun v => TL [TL (map TZ (fst v)); view_oumsg (snd v)])
               (fun t => match t with
                         | TL [b; o] => match unview_bytes b, unview_oumsg o with
                                        | Some l, Some x => Some (l, x) | _, _ => None end
                         | _ => None end) _ _ _).
  - intros [b o] [Hb Ho]; simpl in *. subst. apply all_bytesb_spec in Hb. rewrite Hb. reflexivity.
  - intros bs [b o] H. destruct (all_bytesb bs) eqn:E; [|discriminate]. inversion H; subst.
    simpl. split; [reflexivity|]. split; [apply all_bytesb_spec; exact E | reflexivity].
  - intros [b o]. cbn [fst snd]. rewrite unview_bytes_ok, unview_view_oumsg. reflexivity.
Defined.

Definition item_body (tid : Z) : fend ipay :=
  if tid =? 0 then seq_end nothing_z (seq_end nothing_b no_umsg)                       (* null address *)
  else if tid =? 178 then seq_end nothing_z (seq_end nothing_b (some_umsg usend))     (* 0xB2 unconnected data *)
  else if tid =? 161 then seq_end u32 (seq_end nothing_b no_umsg)                     (* 0xA1 connection id *)
  else if tid =? 177 then seq_end u16 (seq_end nothing_b (some_umsg cmsg))            (* 0xB1 sequence, connected data *)
  else seq_end nothing_z opaque_tail.                                                  (* other item types: opaque *)

Definition item : fmt (Z * (unit * ipay)) := framed u16 (const []) false item_body.
Definition cpf : fmt (list (Z * (unit * ipay))) := counted u16 item.

(* ---- encapsulation commands ----------------------------------------------------------------------------- *)
Definition cpay := (list Z * option (list (Z * (unit * ipay))))%type.

Definition no_cpf : fend (option (list (Z * (unit * ipay)))).
Proof.
  refine (Fend _ (fun _ => []) (fun bs => match bs with [] => Some None | _ => None end) (fun o => o = None)
               (eview (eopt (whole cpf))) (eunview (eopt (whole cpf))) _ _ (ert_view (eopt (whole cpf)))).
  - intros o ->. reflexivity.
  - intros bs o H. destruct bs; [inversion H; auto | discriminate].
Defined.

Definition command_body (cmd : Z) : fend cpay :=
  if cmd =? 101 then seq_end (fields [2%nat; 2%nat]) no_cpf                       (* 0x65 Register: version, options *)
  else if cmd =? 102 then seq_end (fields []) no_cpf                              (* 0x66 Unregister *)
  else if (cmd =? 111) || (cmd =? 112)
       then seq_end (fields [4%nat; 2%nat]) (eopt (whole cpf))                    (* 0x6F/0x70: interface, timeout, CPF *)
  else seq_end (fields []) (eopt (whole cpf)).                                    (* List* / legacy: optional CPF *)

(* ---- the 24-byte encapsulation header and its payload ---------------------------------------------------
   command, length, session handle, status, sender context (8 bytes), options, payload[length] *)
Definition frame : fmt (Z * ((Z * (Z * (bytes * Z))) * cpay)) :=
  framed u16 (pair u32 (pair u32 (pair (nbytes 8 false) u32))) false command_body.

(* ---- Connection Manager services: Forward Open (small 0x54 / large 0x5B), Forward Close (0x4E) ------------
   body = (request path?, (status?, (fixed fields, (connection path?, trailing bytes)))) *)
Definition cmbody := (option (list seg) * (option (Z * list Z) * (list Z * (option (list seg) * bytes))))%type.

Definition no_tail : fend bytes := eguard rest_bytes (fun b => match b with [] => true | _ => false end).

(* application reply data: size in words, pad byte, the data *)
Definition app_data : fend bytes := whole (sized (before u8 [0]) 1 rest_bytes).

Definition cm_request (ws : list nat) (cp : fmt (list seg)) (chk : list Z -> bool) : fend cmbody :=
  seq_end (opt true epath)
          (seq_end (opt false status_fmt)
                   (seq_end (guard (fields ws) chk) (bind_end (opt true cp) (fun _ => no_tail)))).

Definition cm_reply (ws_ok : list nat) (tail_ok : fend bytes) (ws_fail : list nat) (tail_fail : fend bytes) : fend cmbody :=
  seq_end (opt false epath)
          (bind_end (opt true (after [0] status_fmt))
                    (fun st => match st with
                               | Some (0, _) => seq_end (fields ws_ok) (bind_end (opt false epath) (fun _ => tail_ok))
                               | _ => seq_end (fields ws_fail) (bind_end (opt false epath) (fun _ => tail_fail))
                               end)).

(* priority/tick, ticks, O->T id, T->O id, serial, vendor, originator serial, multiplier, 3 reserved (0),
   O->T RPI, O->T NCP, T->O RPI, T->O NCP, transport class/trigger; then the connection path *)
Definition fo_fields (large : bool) : list nat :=
  let w := if large then 4%nat else 2%nat in
  [1; 1; 4; 4; 2; 2; 4; 1; 1; 1; 1; 4; w; 4; w; 1]%nat.

Definition fo_reserved_zero (nums : list Z) : bool :=
  match nums with
  | _ :: _ :: _ :: _ :: _ :: _ :: _ :: _ :: r1 :: r2 :: r3 :: _ => (r1 =? 0) && (r2 =? 0) && (r3 =? 0)
  | _ => false
  end.

Definition cm_body (svc : Z) : fend cmbody :=
  if svc =? 84 then cm_request (fo_fields false) epath fo_reserved_zero                     (* 0x54 *)
  else if svc =? 91 then cm_request (fo_fields true) epath fo_reserved_zero                 (* 0x5B *)
  else if (svc =? 212) || (svc =? 219)                                                       (* 0xD4 / 0xDB *)
       then cm_reply [4; 4; 2; 2; 4; 4; 4]%nat app_data [2; 2; 4]%nat rest_bytes
  else if svc =? 78 then cm_request [1; 1; 2; 2; 4]%nat epath_padded (fun _ => true)        (* 0x4E *)
  else if svc =? 206 then cm_reply [2; 2; 4]%nat app_data [] rest_bytes                      (* 0xCE *)
  else eguard (cm_request [] epath (fun _ => true)) (fun _ => false).

Definition cm : fend (Z * cmbody) := bind_end u8 cm_body.

(* ---- Network Connection Parameters (Vol 1, 3-5.5.1.1) ---------------------------------------------------- *)
Record ncp_params := NCP { n_size : Z; n_variable : Z; n_priority : Z; n_type : Z; n_redundant : Z }.

Definition ncp_encode (large : bool) (p : ncp_params) : Z :=
  (n_variable p * 512 + n_priority p * 1024 + n_type p * 8192 + n_redundant p * 32768) * (if large then 65536 else 1)
  + n_size p.

Definition ncp_decode (large : bool) (v : Z) : ncp_params :=
  let sh := if large then 65536 else 1 in
  NCP (v mod (if large then 65536 else 512))
      ((v / (512 * sh)) mod 2) ((v / (1024 * sh)) mod 4) ((v / (8192 * sh)) mod 4) ((v / (32768 * sh)) mod 2).

Definition ncp_ok (large : bool) (p : ncp_params) : Prop :=
  0 <= n_size p < (if large then 65536 else 512) /\ 0 <= n_variable p < 2 /\ 0 <= n_priority p < 4 /\
  0 <= n_type p < 4 /\ 0 <= n_redundant p < 2.
