(* Models for property C09 (concurrent sessions):
   (A) automata.py dfa_post: per-thread FIFO lists of post-processing closures, run by the owning thread after it
       releases the parser's lock (Multiple Service Packet members are decoded by such closures);
   (B) the tag array under concurrent sessions, each request one atomic step (Attribute slice read / assignment are
       single list operations).
   Hand-written; tied to /repo by props/c09.py.  Definitions only. *)
From Coq Require Import ZArith List Bool.
Import ListNotations.
Open Scope Z_scope.

(* ---- (A) closures ---- *)
(* a closure: its id, and what it does when run - here: further scheduler events (other threads registering
   closures or leaving the parser while this one runs), which is how interleavings are expressed *)
Inductive ev :=
| Reg (t : Z) (c : Z) (body : list ev)      (* thread t: post_process_closure( c ) *)
| Exit (t : Z).                             (* thread t: __exit__: run its own pending closures, first in first out *)

Definition pending := list (Z * list (Z * list ev)).      (* thread -> its closures (id, body), oldest first *)

Fixpoint get_q (t : Z) (p : pending) : list (Z * list ev) :=
  match p with [] => [] | (k, q) :: r => if k =? t then q else get_q t r end.
Fixpoint set_q (t : Z) (q : list (Z * list ev)) (p : pending) : pending :=
  match p with
  | [] => [(t, q)]
  | (k, q0) :: r => if k =? t then (k, q) :: r else (k, q0) :: set_q t q r
  end.

(* the log: (thread that ran it, closure id) in execution order.  `rec` runs one nested event (one fuel level down). *)
Definition runner := ev -> pending -> pending * list (Z * Z).

Fixpoint run_list (rec : runner) (es : list ev) (p : pending) : pending * list (Z * Z) :=
  match es with
  | [] => (p, [])
  | e :: t => let (pa, la) := rec e p in let (pb, lb) := run_list rec t pa in (pb, la ++ lb)
  end.

(* while this thread's list is not empty: pop the first closure (under the lock), run it (lock released) *)
Fixpoint drain (rec : runner) (g : nat) (t : Z) (p : pending) : pending * list (Z * Z) :=
  match g with
  | O => (p, [])
  | S g' =>
    match get_q t p with
    | [] => (p, [])
    | (c, body) :: rest =>
        let (p2, l1) := run_list rec body (set_q t rest p) in
        let (p3, l2) := drain rec g' t p2 in
        (p3, (t, c) :: l1 ++ l2)
    end
  end.

Fixpoint run_ev (fuel : nat) (e : ev) (p : pending) : pending * list (Z * Z) :=
  match fuel with
  | O => (p, [])
  | S f =>
    match e with
    | Reg t c body => (set_q t (get_q t p ++ [(c, body)]) p, [])
    | Exit t => drain (run_ev f) f t p
    end
  end.

Definition run_evs (fuel : nat) (es : list ev) (p : pending) : pending * list (Z * Z) := run_list (run_ev fuel) es p.

(* ---- (B) the array under atomic requests ---- *)
Inductive aop :=
| AWrite (start : nat) (vals : list Z)
| ARead (start len : nat).

Fixpoint splice (l : list Z) (start : nat) (vals : list Z) : list Z :=
  match start, l with
  | O, _ => vals ++ skipn (length vals) l
  | S k, x :: t => x :: splice t k vals
  | S _, [] => []
  end.

(* one request: in range -> done / answered with the elements; out of range -> refused, nothing changes *)
Definition astep (a : list Z) (o : aop) : list Z * option (list Z) :=
  match o with
  | AWrite s vs => if (s + length vs <=? length a)%nat then (splice a s vs, Some []) else (a, None)
  | ARead s n => if (s + n <=? length a)%nat then (a, Some (firstn n (skipn s a))) else (a, None)
  end.

(* a schedule: which session performs its next request at each step *)
Fixpoint arun (a : list Z) (sched : list (nat * aop)) : list Z * list (nat * aop * option (list Z)) :=
  match sched with
  | [] => (a, [])
  | (sid, o) :: t => let (a1, r) := astep a o in let (a2, l) := arun a1 t in (a2, (sid, o, r) :: l)
  end.
