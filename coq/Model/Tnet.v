(* Model of cpppo/server/tnetstrings.py (dump / parse / parse_payload / parse_list / parse_dict) and of the
   streaming parser cpppo/server/tnet.py tnet_machine (SIZE digits, ':', DATA x size, TYPE).  Property C20.
   Hand-written; tied to /repo by props/c20.py.  Definitions only. *)
From Coq Require Import ZArith List Bool.
Import ListNotations.
Open Scope Z_scope.

(* bytes are Z in 0..255 *)
Definition c_colon := 58.  Definition c_comma := 44.  Definition c_dollar := 36.  Definition c_hash := 35.
Definition c_caret := 94.  Definition c_bang := 33.   Definition c_tilde := 126.  Definition c_rbrace := 125.
Definition c_rbrack := 93. Definition c_minus := 45.  Definition c_quest := 63.

(* A value.  A float is carried as the text CPython's str() gives it (its round trip through float() is an
   oracle assumption tested by the harness); text is carried as its UTF-8 bytes; dictionary keys are ASCII
   byte strings, in insertion order. *)
Inductive tval :=
| TInt (z : Z)
| TFloat (repr : list Z)
| TBool (b : bool)
| TNull
| TBytes (bs : list Z)
| TText (utf8 : list Z)
| TList (l : list tval)
| TDict (kv : list (list Z * tval)).

(* ---- decimal text ---------------------------------------------------------------------------------- *)
Fixpoint dec_go (fuel : nat) (n : Z) (acc : list Z) : list Z :=
  match fuel with
  | O => acc
  | S f => let acc' := (48 + n mod 10) :: acc in
           if n <? 10 then acc' else dec_go f (n / 10) acc'
  end.

(* '%d' % n for n >= 0 *)
Definition dec (n : Z) : list Z := dec_go (S (Z.to_nat (Z.log2 n))) n [].

Definition is_digit (c : Z) : bool := (48 <=? c) && (c <=? 57).

Fixpoint undec_go (bs : list Z) (acc : Z) : option Z :=
  match bs with
  | [] => Some acc
  | c :: t => if is_digit c then undec_go t (acc * 10 + (c - 48)) else None
  end.

(* int( b'ddd' ) for a non-empty string of ASCII digits (other spellings int() accepts are not modelled) *)
Definition undec (bs : list Z) : option Z :=
  match bs with [] => None | _ => undec_go bs 0 end.

Definition print_int (z : Z) : list Z := if z <? 0 then c_minus :: dec (- z) else dec z.

Definition parse_int (bs : list Z) : option Z :=
  match bs with
  | c :: t => if c =? c_minus then match undec t with Some n => Some (- n) | None => None end else undec bs
  | [] => None
  end.

Definition s_true := [116; 114; 117; 101].      (* b'true' *)
Definition s_false := [102; 97; 108; 115; 101]. (* b'false' *)

Fixpoint list_eqb (a b : list Z) : bool :=
  match a, b with
  | [], [] => true
  | x :: a', y :: b' => (x =? y) && list_eqb a' b'
  | _, _ => false
  end.

(* ---- dump ------------------------------------------------------------------------------------------ *)
Definition frame (payload : list Z) (tag : Z) : list Z :=
  dec (Z.of_nat (length payload)) ++ c_colon :: payload ++ [tag].

Fixpoint dump (v : tval) : list Z :=
  match v with
  | TInt z => frame (print_int z) c_hash
  | TFloat r => frame r c_caret
  | TBool b => frame (if b then s_true else s_false) c_bang
  | TNull => frame [] c_tilde
  | TBytes bs => frame bs c_comma
  | TText u => frame u c_dollar
  | TList l => frame (flat_map dump l) c_rbrack
  | TDict kv => frame (flat_map (fun e => frame (fst e) c_comma ++ dump (snd e)) kv) c_rbrace
  end.

(* ---- parse ----------------------------------------------------------------------------------------- *)
(* data.split( b':', 1 ) *)
Fixpoint split_colon (bs : list Z) : option (list Z * list Z) :=
  match bs with
  | [] => None
  | c :: t => if c =? c_colon then Some ([], t)
              else match split_colon t with Some (a, b) => Some (c :: a, b) | None => None end
  end.

(* parse_payload: (payload, type, remain) *)
Definition parse_payload (bs : list Z) : option (list Z * Z * list Z) :=
  match split_colon bs with
  | None => None
  | Some (lenb, extra) =>
    match undec lenb with
    | None => None
    | Some n =>
      let payload := firstn (Z.to_nat n) extra in
      match skipn (Z.to_nat n) extra with
      | [] => None
      | tag :: remain => if Z.of_nat (length payload) =? n then Some (payload, tag, remain) else None
      end
    end
  end.

Definition parser := list Z -> option (tval * list Z).

(* parse_list: `while extra: value, extra = parse( extra )` (g bounds the number of iterations) *)
Fixpoint items_list (P : parser) (g : nat) (bs : list Z) : option (list tval) :=
  match bs with
  | [] => Some []
  | _ => match g with
         | O => None
         | S g' => match P bs with
                   | Some (v, rest) => match items_list P g' rest with Some l => Some (v :: l) | None => None end
                   | None => None
                   end
         end
  end.

(* parse_dict: key must parse to bytes, something must follow it, then the value *)
Fixpoint items_dict (P : parser) (g : nat) (bs : list Z) : option (list (list Z * tval)) :=
  match bs with
  | [] => Some []
  | _ => match g with
         | O => None
         | S g' =>
           match P bs with
           | Some (TBytes k, rest) =>
             match rest with
             | [] => None
             | _ => match P rest with
                    | Some (v, rest') =>
                      match items_dict P g' rest' with Some kv => Some ((k, v) :: kv) | None => None end
                    | None => None
                    end
             end
           | _ => None
           end
         end
  end.

Fixpoint parse (fuel : nat) (bs : list Z) : option (tval * list Z) :=
  match fuel with
  | O => None
  | S f =>
    match parse_payload bs with
    | None => None
    | Some (payload, tag, remain) =>
      if tag =? c_hash then match parse_int payload with Some z => Some (TInt z, remain) | None => None end
      else if tag =? c_rbrace then
        match items_dict (parse f) f payload with Some kv => Some (TDict kv, remain) | None => None end
      else if tag =? c_rbrack then
        match items_list (parse f) f payload with Some l => Some (TList l, remain) | None => None end
      else if tag =? c_bang then Some (TBool (list_eqb payload s_true), remain)
      else if tag =? c_quest then
        match payload with [c] => Some (TBool (c =? 116), remain) | _ => None end
      else if tag =? c_caret then Some (TFloat payload, remain)
      else if tag =? c_tilde then match payload with [] => Some (TNull, remain) | _ => None end
      else if tag =? c_comma then Some (TBytes payload, remain)
      else if tag =? c_dollar then Some (TText payload, remain)
      else None
    end
  end.

(* ---- the streaming machine (tnet.py: tnet_machine), one symbol at a time ----------------------------- *)
Inductive sstate :=
| SSize (digits : list Z)                   (* SIZE: collecting \d+ (reversed) *)
| SData (need : Z) (got : list Z)           (* DATA: `need` more bytes, payload so far (reversed) *)
| SType (payload : list Z)                  (* DATA complete: expecting a type symbol *)
| SDone (payload : list Z) (ty : Z)         (* TYPE consumed: terminal, accepts nothing more *)
| SFail.

Definition stream_types := [c_hash; c_rbrace; c_rbrack; c_comma; c_dollar; c_bang; c_tilde; c_caret].
Definition supported_types := [c_comma; c_dollar; c_hash; c_tilde].

Definition mem (c : Z) (l : list Z) : bool := existsb (Z.eqb c) l.

Definition after_colon (n : Z) : sstate := if n =? 0 then SType [] else SData n [].

Definition sstep (s : sstate) (c : Z) : sstate :=
  match s with
  | SSize ds =>
      if is_digit c then SSize (c :: ds)
      else if c =? c_colon then
        match undec (rev ds) with Some n => after_colon n | None => SFail end
      else SFail
  | SData need got =>
      if need =? 1 then SType (rev (c :: got)) else SData (need - 1) (c :: got)
  | SType p => if mem c stream_types then SDone p c else SFail
  | SDone _ _ => SFail
  | SFail => SFail
  end.

(* feed symbols until the machine is terminal (it stops there, leaving the rest) or fails *)
Fixpoint srun (s : sstate) (bs : list Z) : sstate * list Z :=
  match s with
  | SDone _ _ | SFail => (s, bs)
  | _ => match bs with
         | [] => (s, [])
         | c :: t => srun (sstep s c) t
         end
  end.

(* feeding the input in any chunking = feeding the concatenation *)
Fixpoint srun_chunks (s : sstate) (chunks : list (list Z)) : sstate * list Z :=
  match chunks with
  | [] => (s, [])
  | c :: t => match srun s c with
              | (s', []) => srun_chunks s' t
              | (s', r) => (s', r ++ concat t)
              end
  end.


(* tnet_parser.process: conversion of the collected payload for the supported types *)
Definition sconvert (payload : list Z) (ty : Z) : option tval :=
  if ty =? c_comma then Some (TBytes payload)
  else if ty =? c_dollar then Some (TText payload)
  else if ty =? c_hash then match parse_int payload with Some z => Some (TInt z) | None => None end
  else if ty =? c_tilde then match payload with [] => Some TNull | _ => None end
  else None.

(* ---- tnet_from: the incremental receive loop around the machine ---------------------------------------- *)
(* One symbol at a time: between messages (machine at its initial state, nothing consumed) symbols in
   `ign` are skipped; a completed message is emitted and the machine restarts; a failure is absorbing
   (the generator raises).  Chunks are just consecutive symbols. *)
Definition lstate := (sstate * list (list Z * Z))%type.

Definition lnext (s : sstate) (outs : list (list Z * Z)) : lstate :=
  match s with SDone p ty => (SSize [], outs ++ [(p, ty)]) | _ => (s, outs) end.

Definition lstep (ign : list Z) (st : lstate) (c : Z) : lstate :=
  let (s, outs) := st in
  match s with
  | SFail => st
  | SSize [] => if mem c ign then st else lnext (sstep s c) outs
  | _ => lnext (sstep s c) outs
  end.

Definition lrun (ign : list Z) (chunks : list (list Z)) : lstate :=
  fold_left (fun st ch => fold_left (lstep ign) ch st) chunks (SSize [], []).
