(* Flat-integer interface to Model/Dotdict.v for props/c16.py. *)
From Coq Require Import ZArith List Bool.
From CV Require Import Base.Wire Model.Dotdict.
Import ListNotations.
Open Scope Z_scope.

Fixpoint enc_val (fuel : nat) (v : val) : list Z :=
  match fuel with
  | O => [-9]
  | S f =>
    match v with
    | VInt z => [0; z]
    | VList l => 1 :: Z.of_nat (length l) :: flat_map (enc_val f) l
    | VDot kv => 2 :: Z.of_nat (length kv) :: flat_map (fun e : key * val => put_list (fst e) ++ enc_val f (snd e)) kv
    | VPlain kv => 3 :: Z.of_nat (length kv) :: flat_map (fun e : key * val => put_list (fst e) ++ enc_val f (snd e)) kv
    end
  end.

Fixpoint dec_val (fuel : nat) (l : list Z) : option (val * list Z) :=
  match fuel with
  | O => None
  | S f =>
    match l with
    | 0 :: z :: t => Some (VInt z, t)
    | 1 :: n :: t =>
        (fix go (k : nat) (l : list Z) (acc : list val) : option (val * list Z) :=
           match k with
           | O => Some (VList (rev acc), l)
           | S k' => match dec_val f l with Some (v, r) => go k' r (v :: acc) | None => None end
           end) (Z.to_nat n) t []
    | tag :: n :: t =>
        if (tag =? 2) || (tag =? 3) then
          match (fix go (k : nat) (l : list Z) (acc : list (key * val)) : option (list (key * val) * list Z) :=
             match k with
             | O => Some (rev acc, l)
             | S k' => let (ky, r0) := take_list l in
                       match dec_val f r0 with Some (v, r) => go k' r ((ky, v) :: acc) | None => None end
             end) (Z.to_nat n) t [] with
          | Some (kv, r) => Some ((if tag =? 2 then VDot kv else VPlain kv), r)
          | None => None
          end
        else None
    | _ => None
    end
  end.

Definition F := 64%nat.   (* recursion fuel: deeper than any generated key / value *)

Definition out_res (r : res val) : list Z :=
  match r with Ok v => 0 :: enc_val F v | Err e => [e] end.

Definition out_err (e : option Z) : list Z := match e with None => [0] | Some e => [e] end.

Definition step (kv : list (key * val)) (op : list Z) : list (key * val) * list Z :=
  match op with
  | 0 :: t => let (k, r) := take_list t in
              match dec_val F r with
              | Some (v, _) => let (kv', e) := set_in true F kv k v in (kv', out_err e)
              | None => (kv, [-1])
              end
  | 1 :: t => let (k, _) := take_list t in (kv, out_res (get F kv k))
  | 2 :: t => let (k, _) := take_list t in
              (kv, match get F kv k with Ok _ => [0; 1] | Err e => if e =? EKey then [0; 0] else [e] end)
  | 3 :: t => let (k, _) := take_list t in let (kv', e) := del_in F kv k in (kv', out_err e)
  | 4 :: hd :: t => let (k, r) := take_list t in
              let d := if bz hd then match dec_val F r with Some (v, _) => Some v | None => None end else None in
              let (kv', x) := pop_in F kv k d in (kv', out_res x)
  | 5 :: t => let (k, r) := take_list t in
              match dec_val F r with
              | Some (v, _) =>
                  match get F kv k with
                  | Ok _ => (kv, out_res (get F kv k))
                  | Err e => if e =? EKey
                             then let (kv', e') := set_in true F kv k v in
                                  match e' with None => (kv', out_res (get F kv' k)) | Some x => (kv', [x]) end
                             else (kv, [e])
                  end
              | None => (kv, [-1])
              end
  | 6 :: _ => (kv, 0 :: enc_val F (VDot (items F kv)))
  | _ => (kv, [-1])
  end.

Fixpoint run_ops (kv : list (key * val)) (n : nat) (l : list Z) : list Z :=
  match n with
  | O => 9999 :: enc_val F (VDot kv)
  | S k => let (op, r) := take_list l in
           let (kv', out) := step kv op in
           put_list out ++ run_ops kv' k r
  end.

(* kind 0: [0; nops; (len op)*]  -> per op: len out..., then 9999 and the final tree
   kind 1: [1; n; key]           -> resolve: [0; len mine; mine; has_rest; len rest; rest] | [err] *)
Definition run_dotdict (c : list Z) : list Z :=
  match c with
  | 0 :: n :: t => run_ops [] (Z.to_nat n) t
  | 1 :: t => let (k, _) := take_list t in
              match resolve k with
              | Ok (m, r) => 0 :: put_list m ++ match r with Some x => 1 :: put_list x | None => [0] end
              | Err e => [e]
              end
  | _ => [-1]
  end.
