(* List lemmas missing from the 8.16 standard library. *)
From Coq Require Import List Arith Lia.
Import ListNotations.

Lemma nth_error_skipn {A} (l : list A) n i : nth_error (skipn n l) i = nth_error l (n + i).
Proof.
  revert l; induction n as [|n IH]; intros l; simpl; [reflexivity|].
  destruct l as [|h t]; simpl; [destruct i; reflexivity | apply IH].
Qed.

Lemma nth_error_firstn {A} (l : list A) n i : i < n -> nth_error (firstn n l) i = nth_error l i.
Proof.
  revert l i; induction n as [|n IH]; intros l i H; [lia|].
  destruct l as [|h t]; simpl; [destruct i; reflexivity|].
  destruct i as [|i]; simpl; [reflexivity | apply IH; lia].
Qed.

Lemma nth_error_firstn_ge {A} (l : list A) n i : n <= i -> nth_error (firstn n l) i = None.
Proof. intros H. apply nth_error_None. rewrite firstn_length. lia. Qed.

Lemma nth_error_ext_eq {A} (l l' : list A) : (forall i, nth_error l i = nth_error l' i) -> l = l'.
Proof.
  revert l'; induction l as [|h t IH]; intros [|h' t'] H.
  - reflexivity.
  - specialize (H 0); discriminate.
  - specialize (H 0); discriminate.
  - f_equal; [specialize (H 0); simpl in H; congruence|]. apply IH. intros i. apply (H (S i)).
Qed.

Lemma firstn_skipn_add {A} (l : list A) a b : firstn b (skipn a l) ++ skipn (a + b) l = skipn a l.
Proof.
  replace (skipn (a + b) l) with (skipn b (skipn a l)).
  - apply firstn_skipn.
  - revert l; induction a as [|a IH]; intros l; simpl; [reflexivity|].
    destruct l; simpl; [destruct b; reflexivity | apply IH].
Qed.

Lemma In_firstn {A} (l : list A) n x : In x (firstn n l) -> In x l.
Proof.
  revert l; induction n as [|n IH]; intros [|h t]; simpl; try tauto. intros [->|H]; auto.
Qed.

Lemma In_skipn {A} (l : list A) n x : In x (skipn n l) -> In x l.
Proof.
  revert l; induction n as [|n IH]; intros [|h t]; simpl; try tauto. intros H; right; auto.
Qed.

Lemma skipn_skipn {A} (l : list A) x y : skipn x (skipn y l) = skipn (x + y) l.
Proof.
  revert l; induction y as [|y IH]; intros l; simpl.
  - rewrite Nat.add_0_r. reflexivity.
  - rewrite Nat.add_succ_r. destruct l; simpl; [apply skipn_nil | apply IH].
Qed.
