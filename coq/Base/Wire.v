(* Flat integer encodings for the model <-> harness interface.  Every runnable model
   exposes [run_* : list Z -> list Z]; the harness (Python) encodes a case as integers,
   the generic OCaml driver (ocaml/driver.ml) only converts decimal text <-> Z. *)
From Coq Require Import ZArith List Bool.
Import ListNotations.
Open Scope Z_scope.

Fixpoint take_pairs (n : nat) (l : list Z) : list (Z * Z) * list Z :=
  match n with
  | O => ([], l)
  | S k => match l with
           | a :: c :: t => let (ps, r) := take_pairs k t in ((a, c) :: ps, r)
           | _ => ([], l)
           end
  end.

Fixpoint flat_pairs (l : list (Z * Z)) : list Z :=
  match l with [] => [] | (a, c) :: t => a :: c :: flat_pairs t end.

(* length-prefixed list of Z *)
Definition take_list (l : list Z) : list Z * list Z :=
  match l with
  | n :: t => (firstn (Z.to_nat n) t, skipn (Z.to_nat n) t)
  | [] => ([], [])
  end.

Definition put_list (l : list Z) : list Z := Z.of_nat (length l) :: l.

Definition zb (b : bool) : Z := if b then 1 else 0.
Definition bz (z : Z) : bool := negb (z =? 0).
