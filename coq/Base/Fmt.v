(* Correct-by-construction binary formats: each [fmt A] packages an encoder, a (strict) decoder, a
   well-formedness predicate and the two round-trip proofs; combinators preserve them.  Used to build the
   reference CIP codec (Model/Codec.v) "directly from the layout tables" with the theorems of property C01
   holding by construction.  A second family [fend A] is for formats that extend to the end of their buffer.
   [tree] is a generic view of values used only for harness I/O (flat integers). *)
From Coq Require Import ZArith List Bool Lia Arith ZifyBool.
Import ListNotations.
Open Scope Z_scope.

Definition bytes := list Z.
Definition is_byte (b : Z) : Prop := 0 <= b < 256.
Definition all_bytes (l : bytes) : Prop := Forall is_byte l.

Inductive tree := TZ (z : Z) | TL (l : list tree).

Record fmt (A : Type) := Fmt {
  enc : A -> bytes;
  dec : bytes -> option (A * bytes);
  ok : A -> Prop;
  view : A -> tree;
  unview : tree -> option A;
  rt_enc : forall a tl, ok a -> dec (enc a ++ tl) = Some (a, tl);
  rt_dec : forall bs a tl, dec bs = Some (a, tl) -> bs = enc a ++ tl /\ ok a;
  rt_view : forall a, unview (view a) = Some a
}.
Arguments enc {A}. Arguments dec {A}. Arguments ok {A}. Arguments view {A}. Arguments unview {A}.
Arguments rt_enc {A}. Arguments rt_dec {A}. Arguments rt_view {A}.

(* formats that take the whole remaining buffer *)
Record fend (A : Type) := Fend {
  eenc : A -> bytes;
  edec : bytes -> option A;
  eok : A -> Prop;
  eview : A -> tree;
  eunview : tree -> option A;
  ert_enc : forall a, eok a -> edec (eenc a) = Some a;
  ert_dec : forall bs a, edec bs = Some a -> bs = eenc a /\ eok a;
  ert_view : forall a, eunview (eview a) = Some a
}.
Arguments eenc {A}. Arguments edec {A}. Arguments eok {A}. Arguments eview {A}. Arguments eunview {A}.
Arguments ert_enc {A}. Arguments ert_dec {A}. Arguments ert_view {A}.

(* ---- little-endian unsigned integers -------------------------------------------------------------------- *)
Fixpoint le_enc (n : nat) (v : Z) : bytes :=
  match n with O => [] | S k => (v mod 256) :: le_enc k (v / 256) end.

Fixpoint le_dec (n : nat) (bs : bytes) : option (Z * bytes) :=
  match n with
  | O => Some (0, bs)
  | S k => match bs with
           | [] => None
           | b :: t => if (0 <=? b) && (b <? 256) then
                         match le_dec k t with Some (v, r) => Some (b + 256 * v, r) | None => None end
                       else None
           end
  end.

Lemma le_dec_S n bs : le_dec (S n) bs =
  match bs with
  | [] => None
  | b :: t => if (0 <=? b) && (b <? 256) then
                match le_dec n t with Some (v, r) => Some (b + 256 * v, r) | None => None end
              else None
  end.
Proof. reflexivity. Qed.

Lemma le_enc_S n v : le_enc (S n) v = (v mod 256) :: le_enc n (v / 256).
Proof. reflexivity. Qed.

Lemma le_rt_enc n : forall v tl, 0 <= v < 256 ^ Z.of_nat n -> le_dec n (le_enc n v ++ tl) = Some (v, tl).
Proof.
  induction n as [|n IH]; intros v tl Hv.
  - simpl in *. f_equal. f_equal. lia.
  - rewrite le_enc_S, le_dec_S. cbn [app]. rewrite Nat2Z.inj_succ, Z.pow_succ_r in Hv by lia.
    pose proof (Z.mod_pos_bound v 256 ltac:(lia)) as Hm.
    destruct ((0 <=? v mod 256) && (v mod 256 <? 256)) eqn:E; [|lia].
    rewrite IH.
    + f_equal. f_equal. pose proof (Z.div_mod v 256 ltac:(lia)). lia.
    + split; [apply Z.div_pos; lia | apply Z.div_lt_upper_bound; lia].
Qed.

Lemma le_rt_dec n : forall bs v tl, le_dec n bs = Some (v, tl) ->
  bs = le_enc n v ++ tl /\ 0 <= v < 256 ^ Z.of_nat n.
Proof.
  induction n as [|n IH]; intros bs v tl H.
  - simpl in H. inversion H; subst. simpl. split; [reflexivity | lia].
  - rewrite le_dec_S in H. destruct bs as [|b t]; [discriminate|].
    destruct ((0 <=? b) && (b <? 256)) eqn:E; [|discriminate].
    destruct (le_dec n t) as [[v' r]|] eqn:Ed; [|discriminate].
    assert (v = b + 256 * v' /\ tl = r) as [-> ->] by (split; congruence). clear H.
    destruct (IH _ _ _ Ed) as (-> & Hv').
    rewrite Nat2Z.inj_succ, Z.pow_succ_r by lia. rewrite le_enc_S.
    assert ((b + 256 * v') mod 256 = b) as -> by (symmetry; apply Z.mod_unique with (q := v'); lia).
    assert ((b + 256 * v') / 256 = v') as -> by (symmetry; apply Z.div_unique with (r := b); lia).
    split; [reflexivity | lia].
Qed.

Definition unview_z (t : tree) : option Z := match t with TZ z => Some z | _ => None end.

Definition uint (n : nat) : fmt Z.
Proof.
  refine (Fmt Z (le_enc n) (le_dec n) (fun v => 0 <= v < 256 ^ Z.of_nat n) TZ unview_z _ _ _).
  - intros; apply le_rt_enc; auto.
  - intros; apply le_rt_dec; auto.
  - reflexivity.
Defined.

(* ---- a constant byte string (magic / reserved / pad) ----------------------------------------------------- *)
Fixpoint strip (c : bytes) (bs : bytes) : option bytes :=
  match c, bs with
  | [], _ => Some bs
  | x :: c', y :: bs' => if x =? y then strip c' bs' else None
  | _ :: _, [] => None
  end.

Lemma strip_app c tl : strip c (c ++ tl) = Some tl.
Proof. induction c; simpl; [reflexivity|]. rewrite Z.eqb_refl. auto. Qed.

Lemma strip_inv c : forall bs tl, strip c bs = Some tl -> bs = c ++ tl.
Proof.
  induction c as [|x c IH]; intros bs tl H; simpl in H.
  - inversion H; reflexivity.
  - destruct bs as [|y bs']; [discriminate|]. destruct (x =? y) eqn:E; [|discriminate].
    apply IH in H. subst. simpl. f_equal. lia.
Qed.

Definition const (c : bytes) : fmt unit.
Proof.
  refine (Fmt unit (fun _ => c) (fun bs => match strip c bs with Some r => Some (tt, r) | None => None end)
              (fun _ => True) (fun _ => TL []) (fun _ => Some tt) _ _ _).
  - intros [] tl _. rewrite strip_app. reflexivity.
  - intros bs [] tl H. destruct (strip c bs) eqn:E; [|discriminate]. inversion H; subst.
    apply strip_inv in E. auto.
  - intros []; reflexivity.
Defined.

(* ---- sequencing ------------------------------------------------------------------------------------------ *)
Definition unview_pair {A B} (ua : tree -> option A) (ub : tree -> option B) (t : tree) : option (A * B) :=
  match t with
  | TL [x; y] => match ua x, ub y with Some a, Some b => Some (a, b) | _, _ => None end
  | _ => None
  end.

Definition pair {A B} (f : fmt A) (g : fmt B) : fmt (A * B).
Proof.
  refine (Fmt (A * B)
              (fun p => enc f (fst p) ++ enc g (snd p))
              (fun bs => match dec f bs with
                         | Some (a, r) => match dec g r with Some (b, r') => Some ((a, b), r') | None => None end
                         | None => None end)
              (fun p => ok f (fst p) /\ ok g (snd p))
              (fun p => TL [view f (fst p); view g (snd p)])
              (unview_pair (unview f) (unview g)) _ _ _).
  - intros [a b] tl [Ha Hb]; simpl in *. rewrite <- app_assoc, (rt_enc f) by auto. rewrite (rt_enc g) by auto. reflexivity.
  - intros bs [a b] tl H. destruct (dec f bs) as [[a' r]|] eqn:E1; [|discriminate].
    destruct (dec g r) as [[b' r']|] eqn:E2; [|discriminate]. inversion H; subst.
    destruct (rt_dec f _ _ _ E1) as (-> & Ha). destruct (rt_dec g _ _ _ E2) as (-> & Hb).
    simpl. rewrite app_assoc. auto.
  - intros [a b]; simpl. rewrite (rt_view f), (rt_view g). reflexivity.
Defined.

(* the second format depends on the first value (type tags, counts, service codes) *)
Definition bind {A B} (f : fmt A) (g : A -> fmt B) : fmt (A * B).
Proof.
  refine (Fmt (A * B)
              (fun p => enc f (fst p) ++ enc (g (fst p)) (snd p))
              (fun bs => match dec f bs with
                         | Some (a, r) => match dec (g a) r with Some (b, r') => Some ((a, b), r') | None => None end
                         | None => None end)
              (fun p => ok f (fst p) /\ ok (g (fst p)) (snd p))
              (fun p => TL [view f (fst p); view (g (fst p)) (snd p)])
              (fun t => match t with
                        | TL [x; y] => match unview f x with
                                       | Some a => match unview (g a) y with Some b => Some (a, b) | None => None end
                                       | None => None end
                        | _ => None end) _ _ _).
  - intros [a b] tl [Ha Hb]; simpl in *. rewrite <- app_assoc, (rt_enc f) by auto. rewrite (rt_enc (g a)) by auto. reflexivity.
  - intros bs [a b] tl H. destruct (dec f bs) as [[a' r]|] eqn:E1; [|discriminate].
    destruct (dec (g a') r) as [[b' r']|] eqn:E2; [|discriminate]. inversion H; subst.
    destruct (rt_dec f _ _ _ E1) as (-> & Ha). destruct (rt_dec (g a) _ _ _ E2) as (-> & Hb).
    simpl. rewrite app_assoc. auto.
  - intros [a b]; simpl. rewrite (rt_view f), (rt_view (g a)). reflexivity.
Defined.

(* ---- isomorphic re-presentation, and restriction by a decidable predicate ------------------------------- *)
Definition iso {A B} (f : fmt A) (to : A -> B) (from : B -> A)
  (H1 : forall a, from (to a) = a) (H2 : forall b, to (from b) = b) : fmt B.
Proof.
  refine (Fmt B (fun b => enc f (from b))
              (fun bs => match dec f bs with Some (a, r) => Some (to a, r) | None => None end)
              (fun b => ok f (from b)) (fun b => view f (from b))
              (fun t => match unview f t with Some a => Some (to a) | None => None end) _ _ _).
  - intros b tl Hb. rewrite (rt_enc f) by auto. rewrite H2. reflexivity.
  - intros bs b tl H. destruct (dec f bs) as [[a r]|] eqn:E; [|discriminate]. inversion H; subst.
    rewrite H1. apply (rt_dec f); auto.
  - intros b. rewrite (rt_view f), H2. reflexivity.
Defined.

Definition guard {A} (f : fmt A) (p : A -> bool) : fmt A.
Proof.
  refine (Fmt A (enc f)
              (fun bs => match dec f bs with Some (a, r) => if p a then Some (a, r) else None | None => None end)
              (fun a => ok f a /\ p a = true) (view f) (unview f) _ _ _).
  - intros a tl [Ha Hp]. rewrite (rt_enc f) by auto. rewrite Hp. reflexivity.
  - intros bs a tl H. destruct (dec f bs) as [[a' r]|] eqn:E; [|discriminate].
    destruct (p a') eqn:Ep; [|discriminate]. inversion H; subst.
    destruct (rt_dec f _ _ _ E). auto.
  - apply (rt_view f).
Defined.

(* ---- sums: a value of one of two types, the side known from context (used under [bind]) ---------------- *)
Definition sum_sel {A B} (left : bool) (f : fmt A) (g : fmt B) : fmt (A + B).
Proof.
  refine (Fmt (A + B)
              (fun s => match s with inl a => enc f a | inr b => enc g b end)
              (fun bs => if left then match dec f bs with Some (a, r) => Some (inl a, r) | None => None end
                         else match dec g bs with Some (b, r) => Some (inr b, r) | None => None end)
              (fun s => match s with inl a => left = true /\ ok f a | inr b => left = false /\ ok g b end)
              (fun s => match s with inl a => TL [TZ 0; view f a] | inr b => TL [TZ 1; view g b] end)
              (fun t => match t with
                        | TL [TZ 0; x] => match unview f x with Some a => Some (inl a) | None => None end
                        | TL [TZ 1; x] => match unview g x with Some b => Some (inr b) | None => None end
                        | _ => None end) _ _ _).
  - intros [a|b] tl [Hl H]; subst; [rewrite (rt_enc f) | rewrite (rt_enc g)]; auto.
  - intros bs s tl H. destruct left.
    + destruct (dec f bs) as [[a r]|] eqn:E; [|discriminate]. inversion H; subst.
      destruct (rt_dec f _ _ _ E). auto.
    + destruct (dec g bs) as [[b r]|] eqn:E; [|discriminate]. inversion H; subst.
      destruct (rt_dec g _ _ _ E). auto.
  - intros [a|b]; simpl; [rewrite (rt_view f) | rewrite (rt_view g)]; reflexivity.
Defined.

(* ---- a fixed number of items --------------------------------------------------------------------------- *)
Fixpoint rep_enc {A} (f : fmt A) (l : list A) : bytes :=
  match l with [] => [] | a :: t => enc f a ++ rep_enc f t end.

Fixpoint rep_dec {A} (f : fmt A) (n : nat) (bs : bytes) : option (list A * bytes) :=
  match n with
  | O => Some ([], bs)
  | S k => match dec f bs with
           | Some (a, r) => match rep_dec f k r with Some (l, r') => Some (a :: l, r') | None => None end
           | None => None
           end
  end.

Lemma rep_rt_enc {A} (f : fmt A) l : forall tl, Forall (ok f) l ->
  rep_dec f (length l) (rep_enc f l ++ tl) = Some (l, tl).
Proof.
  induction l as [|a t IH]; intros tl H; [reflexivity|]. inversion H; subst.
  cbn [rep_enc rep_dec length]. rewrite <- app_assoc, (rt_enc f) by auto. rewrite IH by auto. reflexivity.
Qed.

Lemma rep_rt_dec {A} (f : fmt A) n : forall bs l tl, rep_dec f n bs = Some (l, tl) ->
  bs = rep_enc f l ++ tl /\ Forall (ok f) l /\ length l = n.
Proof.
  induction n as [|n IH]; intros bs l tl H; simpl in H.
  - inversion H; subst. simpl. auto.
  - destruct (dec f bs) as [[a r]|] eqn:E; [|discriminate].
    destruct (rep_dec f n r) as [[l' r']|] eqn:E2; [|discriminate]. inversion H; subst.
    destruct (rt_dec f _ _ _ E) as (-> & Ha). destruct (IH _ _ _ E2) as (-> & Hl & Hn).
    simpl. rewrite app_assoc. repeat split; auto.
Qed.

Fixpoint unview_list {A} (u : tree -> option A) (ts : list tree) : option (list A) :=
  match ts with
  | [] => Some []
  | t :: r => match u t, unview_list u r with Some a, Some l => Some (a :: l) | _, _ => None end
  end.

Lemma unview_list_map {A} (f : fmt A) l : unview_list (unview f) (map (view f) l) = Some l.
Proof. induction l as [|a t IH]; simpl; [reflexivity|]. rewrite (rt_view f), IH. reflexivity. Qed.

Definition unview_tl {A} (u : tree -> option A) (t : tree) : option (list A) :=
  match t with TL ts => unview_list u ts | _ => None end.

(* a count field followed by that many items *)
Definition counted {A} (cnt : fmt Z) (f : fmt A) : fmt (list A).
Proof.
  refine (Fmt (list A)
              (fun l => enc cnt (Z.of_nat (length l)) ++ rep_enc f l)
              (fun bs => match dec cnt bs with
                         | Some (n, r) => if n <? 0 then None else rep_dec f (Z.to_nat n) r
                         | None => None end)
              (fun l => ok cnt (Z.of_nat (length l)) /\ Forall (ok f) l)
              (fun l => TL (map (view f) l)) (unview_tl (unview f)) _ _ _).
  - intros l tl [Hc Hl]. rewrite <- app_assoc, (rt_enc cnt) by auto.
    destruct (Z.of_nat (length l) <? 0) eqn:E; [lia|]. rewrite Nat2Z.id. apply rep_rt_enc; auto.
  - intros bs l tl H. destruct (dec cnt bs) as [[n r]|] eqn:E; [|discriminate].
    destruct (n <? 0) eqn:En; [discriminate|].
    destruct (rt_dec cnt _ _ _ E) as (-> & Hn). destruct (rep_rt_dec f _ _ _ _ H) as (-> & Hl & Hlen).
    rewrite Hlen, Z2Nat.id by lia. rewrite app_assoc. auto.
  - intros l. simpl. apply unview_list_map.
Defined.

(* exactly n items, n known from context *)
Definition rep {A} (n : nat) (f : fmt A) : fmt (list A).
Proof.
  refine (Fmt (list A) (rep_enc f) (rep_dec f n) (fun l => length l = n /\ Forall (ok f) l)
              (fun l => TL (map (view f) l)) (unview_tl (unview f)) _ _ _).
  - intros l tl [Hn Hl]. subst. apply rep_rt_enc; auto.
  - intros bs l tl H. destruct (rep_rt_dec f _ _ _ _ H) as (-> & Hl & Hn). auto.
  - intros l. simpl. apply unview_list_map.
Defined.

(* ---- raw bytes ------------------------------------------------------------------------------------------- *)
Definition byte1 : fmt Z := uint 1.

(* ---- formats running to the end of the buffer ----------------------------------------------------------- *)
Definition unview_bytes (t : tree) : option bytes := unview_tl unview_z t.

Lemma unview_bytes_ok l : unview_bytes (TL (map TZ l)) = Some l.
Proof. unfold unview_bytes, unview_tl. induction l as [|a t IH]; simpl; [reflexivity|]. rewrite IH. reflexivity. Qed.

Definition all_bytesb (l : bytes) : bool := forallb (fun b => (0 <=? b) && (b <? 256)) l.

Lemma all_bytesb_spec l : all_bytesb l = true <-> all_bytes l.
Proof.
  unfold all_bytesb, all_bytes, is_byte. rewrite forallb_forall, Forall_forall. split; intros H x Hx; specialize (H x Hx); lia.
Qed.

Definition rest_bytes : fend bytes.
Proof.
  refine (Fend bytes (fun l => l) (fun bs => if all_bytesb bs then Some bs else None) all_bytes
               (fun l => TL (map TZ l)) unview_bytes _ _ _).
  - intros a H. apply all_bytesb_spec in H. rewrite H. reflexivity.
  - intros bs a H. destruct (all_bytesb bs) eqn:E; [|discriminate]. inversion H; subst.
    split; [reflexivity | apply all_bytesb_spec; auto].
  - apply unview_bytes_ok.
Defined.

(* a self-delimiting format that must consume the whole buffer *)
Definition whole {A} (f : fmt A) : fend A.
Proof.
  refine (Fend A (enc f) (fun bs => match dec f bs with Some (a, []) => Some a | _ => None end) (ok f)
               (view f) (unview f) _ _ _).
  - intros a H. rewrite <- (app_nil_r (enc f a)), (rt_enc f) by auto. reflexivity.
  - intros bs a H. destruct (dec f bs) as [[a' [|x r]]|] eqn:E; try discriminate. inversion H; subst.
    destruct (rt_dec f _ _ _ E) as (-> & Ha). rewrite app_nil_r. auto.
  - apply (rt_view f).
Defined.

(* a prefix format followed by an end format, the latter depending on the prefix value *)
Definition bind_end {A B} (f : fmt A) (g : A -> fend B) : fend (A * B).
Proof.
  refine (Fend (A * B)
               (fun p => enc f (fst p) ++ eenc (g (fst p)) (snd p))
               (fun bs => match dec f bs with
                          | Some (a, r) => match edec (g a) r with Some b => Some (a, b) | None => None end
                          | None => None end)
               (fun p => ok f (fst p) /\ eok (g (fst p)) (snd p))
               (fun p => TL [view f (fst p); eview (g (fst p)) (snd p)])
               (fun t => match t with
                         | TL [x; y] => match unview f x with
                                        | Some a => match eunview (g a) y with Some b => Some (a, b) | None => None end
                                        | None => None end
                         | _ => None end) _ _ _).
  - intros [a b] [Ha Hb]; simpl in *. rewrite (rt_enc f) by auto. rewrite (ert_enc (g a)) by auto. reflexivity.
  - intros bs [a b] H. destruct (dec f bs) as [[a' r]|] eqn:E1; [|discriminate].
    destruct (edec (g a') r) as [b'|] eqn:E2; [|discriminate]. inversion H; subst.
    destruct (rt_dec f _ _ _ E1) as (-> & Ha). destruct (ert_dec (g a) _ _ E2) as (-> & Hb). simpl. auto.
  - intros [a b]; simpl. rewrite (rt_view f), (ert_view (g a)). reflexivity.
Defined.

Definition seq_end {A B} (f : fmt A) (g : fend B) : fend (A * B) := bind_end f (fun _ => g).

(* items until the buffer is exhausted; every item must consume at least one byte *)
Fixpoint many_dec {A} (f : fmt A) (fuel : nat) (bs : bytes) : option (list A) :=
  match bs with
  | [] => Some []
  | _ => match fuel with
         | O => None
         | S k => match dec f bs with
                  | Some (a, r) => if (length r <? length bs)%nat
                                   then match many_dec f k r with Some l => Some (a :: l) | None => None end
                                   else None
                  | None => None
                  end
         end
  end.

Lemma many_rt_enc {A} (f : fmt A) l : Forall (fun a => ok f a /\ enc f a <> []) l ->
  forall fuel, (length (rep_enc f l) <= fuel)%nat -> many_dec f fuel (rep_enc f l) = Some l.
Proof.
  induction l as [|a t IH]; intros H fuel Hf; [destruct fuel; reflexivity|].
  inversion H as [|? ? [Ha Hne] Ht]; subst. cbn [rep_enc] in *.
  destruct (enc f a ++ rep_enc f t) as [|x r] eqn:E.
  { apply app_eq_nil in E as [E _]. congruence. }
  rewrite <- E in *. rewrite app_length in Hf.
  assert (1 <= length (enc f a))%nat by (destruct (enc f a); [congruence | simpl; lia]).
  destruct fuel as [|k]; [lia|]. rewrite E. cbn [many_dec]. rewrite <- E.
  rewrite (rt_enc f) by auto.
  destruct (length (rep_enc f t) <? length (enc f a ++ rep_enc f t))%nat eqn:El.
  - rewrite IH; auto. lia.
  - apply Nat.ltb_ge in El. rewrite app_length in El. lia.
Qed.

Lemma many_rt_dec {A} (f : fmt A) fuel : forall bs l, many_dec f fuel bs = Some l ->
  bs = rep_enc f l /\ Forall (fun a => ok f a /\ enc f a <> []) l.
Proof.
  induction fuel as [|k IH]; intros bs l H.
  - destruct bs; simpl in H; [inversion H; subst; simpl; auto | discriminate].
  - destruct bs as [|x r0]; [simpl in H; inversion H; subst; simpl; auto|].
    cbn [many_dec] in H. destruct (dec f (x :: r0)) as [[a r]|] eqn:E; [|discriminate].
    destruct (length r <? length (x :: r0))%nat eqn:El; [|discriminate].
    destruct (many_dec f k r) as [l'|] eqn:E2; [|discriminate]. inversion H; subst.
    destruct (rt_dec f _ _ _ E) as (Hbs & Ha). destruct (IH _ _ E2) as (-> & Hl).
    split; [exact Hbs|]. constructor; auto. split; auto.
    intros Hnil. rewrite Hbs, Hnil in El. simpl in El. apply Nat.ltb_lt in El. lia.
Qed.

Definition many {A} (f : fmt A) : fend (list A).
Proof.
  refine (Fend (list A) (rep_enc f) (fun bs => many_dec f (length bs) bs)
               (fun l => Forall (fun a => ok f a /\ enc f a <> []) l)
               (fun l => TL (map (view f) l)) (unview_tl (unview f)) _ _ _).
  - intros l H. apply many_rt_enc; auto.
  - intros bs l H. apply (many_rt_dec f _ _ _ H).
  - intros l. simpl. apply unview_list_map.
Defined.

(* ---- a length field (in units of S u bytes) and exactly that region ------------------------------------ *)
Definition sized {B} (len : fmt Z) (u : nat) (g : fend B) : fmt B.
Proof.
  pose (unit := Z.of_nat (S u)).
  refine (Fmt B
              (fun b => enc len (Z.of_nat (length (eenc g b)) / unit) ++ eenc g b)
              (fun bs => match dec len bs with
                         | Some (n, r) =>
                             let k := Z.to_nat (n * unit) in
                             if (n <? 0) || (length r <? k)%nat then None
                             else match edec g (firstn k r) with
                                  | Some b => Some (b, skipn k r)
                                  | None => None end
                         | None => None end)
              (fun b => eok g b /\ (Z.of_nat (length (eenc g b))) mod unit = 0 /\
                        ok len (Z.of_nat (length (eenc g b)) / unit))
              (eview g) (eunview g) _ _ _).
  - intros b tl (Hb & Hm & Hl). rewrite <- app_assoc, (rt_enc len) by auto.
    set (L := Z.of_nat (length (eenc g b))) in *.
    assert (0 < unit) as Hu by (unfold unit; lia).
    assert (L / unit * unit = L) as HL by (pose proof (Z.div_mod L unit ltac:(lia)); lia).
    assert (0 <= L / unit) by (apply Z.div_pos; lia).
    cbv zeta. rewrite HL. unfold L. rewrite Nat2Z.id.
    destruct ((Z.of_nat (length (eenc g b)) / unit <? 0) || (length (eenc g b ++ tl) <? length (eenc g b))%nat) eqn:E.
    { apply orb_true_iff in E as [E|E]; [fold L in E; lia|]. apply Nat.ltb_lt in E. rewrite app_length in E. lia. }
    rewrite firstn_app, firstn_all, Nat.sub_diag. cbn [firstn]. rewrite app_nil_r.
    rewrite (ert_enc g) by auto. rewrite skipn_app, skipn_all, Nat.sub_diag. reflexivity.
  - intros bs b tl H. destruct (dec len bs) as [[n r]|] eqn:E; [|discriminate]. cbv zeta in H.
    destruct ((n <? 0) || (length r <? Z.to_nat (n * unit))%nat) eqn:Ec; [discriminate|].
    destruct (edec g (firstn (Z.to_nat (n * unit)) r)) as [b'|] eqn:E2; [|discriminate]. inversion H; subst.
    apply orb_false_iff in Ec as [Hn Hlen]. apply Nat.ltb_ge in Hlen.
    assert (0 < unit) as Hu by (unfold unit; lia).
    destruct (rt_dec len _ _ _ E) as (-> & Hokn). destruct (ert_dec g _ _ E2) as (Hf & Hb).
    assert (Z.of_nat (length (eenc g b)) = n * unit) as HL by (rewrite <- Hf, firstn_length; lia).
    assert (n * unit / unit = n) as Hq by (apply Z.div_mul; lia).
    rewrite HL, Hq. rewrite <- Hf at 1. rewrite <- app_assoc, firstn_skipn.
    repeat split; auto. apply Z.mod_mul; lia.
  - apply (ert_view g).
Defined.

(* ---- constants around a format ----------------------------------------------------------------------------- *)
Definition after {A} (c : bytes) (f : fmt A) : fmt A.
Proof.
  refine (Fmt A (fun a => c ++ enc f a)
              (fun bs => match strip c bs with Some r => dec f r | None => None end)
              (ok f) (view f) (unview f) _ _ _).
  - intros a tl H. rewrite <- app_assoc, strip_app. apply (rt_enc f); auto.
  - intros bs a tl H. destruct (strip c bs) as [r|] eqn:E; [|discriminate]. apply strip_inv in E. subst.
    destruct (rt_dec f _ _ _ H) as (-> & Ha). rewrite app_assoc. auto.
  - apply (rt_view f).
Defined.

Definition before {A} (f : fmt A) (c : bytes) : fmt A.
Proof.
  refine (Fmt A (fun a => enc f a ++ c)
              (fun bs => match dec f bs with
                         | Some (a, r) => match strip c r with Some r' => Some (a, r') | None => None end
                         | None => None end)
              (ok f) (view f) (unview f) _ _ _).
  - intros a tl H. rewrite <- app_assoc, (rt_enc f) by auto. rewrite strip_app. reflexivity.
  - intros bs a tl H. destruct (dec f bs) as [[a' r]|] eqn:E; [|discriminate].
    destruct (strip c r) as [r'|] eqn:E2; [|discriminate]. inversion H; subst. apply strip_inv in E2. subst.
    destruct (rt_dec f _ _ _ E) as (-> & Ha). rewrite app_assoc. auto.
  - apply (rt_view f).
Defined.

(* no bytes at all: the value is fixed by context (unused slots of a uniform payload type) *)
Definition nothing_z : fmt Z.
Proof.
  refine (Fmt Z (fun _ => []) (fun bs => Some (0, bs)) (fun z => z = 0) TZ unview_z _ _ _).
  - intros a tl ->. reflexivity.
  - intros bs a tl H. inversion H; subst. auto.
  - reflexivity.
Defined.

Definition nothing_b : fmt bytes.
Proof.
  refine (Fmt bytes (fun _ => []) (fun bs => Some ([], bs)) (fun b => b = []) (fun l => TL (map TZ l)) unview_bytes _ _ _).
  - intros a tl ->. reflexivity.
  - intros bs a tl H. inversion H; subst. auto.
  - apply unview_bytes_ok.
Defined.

(* ---- signed little-endian integers --------------------------------------------------------------------- *)
Definition sint (n : nat) : fmt Z.
Proof.
  pose (M := 256 ^ Z.of_nat n).
  refine (Fmt Z (fun z => le_enc n (if z <? 0 then z + M else z))
              (fun bs => match le_dec n bs with
                         | Some (u, r) => Some ((if 2 * u <? M then u else u - M), r)
                         | None => None end)
              (fun z => - M <= 2 * z < M) TZ unview_z _ _ _).
  - intros z tl Hz. assert (0 < M) by (unfold M; apply Z.pow_pos_nonneg; lia).
    rewrite le_rt_enc by (fold M; destruct (z <? 0) eqn:E; lia).
    destruct (z <? 0) eqn:E.
    + destruct (2 * (z + M) <? M) eqn:E2; [lia|]. f_equal. f_equal. lia.
    + destruct (2 * z <? M) eqn:E2; [reflexivity | lia].
  - intros bs z tl H. destruct (le_dec n bs) as [[u r]|] eqn:E; [|discriminate].
    destruct (le_rt_dec _ _ _ _ E) as (-> & Hu). fold M in Hu.
    assert (z = (if 2 * u <? M then u else u - M) /\ tl = r) as [-> ->] by (split; congruence).
    destruct (2 * u <? M) eqn:E2.
    + destruct (u <? 0) eqn:E3; [lia|]. split; [reflexivity | lia].
    + destruct (u - M <? 0) eqn:E3; [|lia]. replace (u - M + M) with u by lia. split; [reflexivity | lia].
  - reflexivity.
Defined.

(* ---- CIP BOOL: 0x00 / 0xFF ------------------------------------------------------------------------------- *)
Definition boolb : fmt Z.
Proof.
  refine (Fmt Z (fun z => [if z =? 0 then 0 else 255])
              (fun bs => match bs with
                         | b :: r => if b =? 0 then Some (0, r) else if b =? 255 then Some (1, r) else None
                         | [] => None end)
              (fun z => z = 0 \/ z = 1) TZ unview_z _ _ _).
  - intros z tl [->| ->]; reflexivity.
  - intros bs z tl H. destruct bs as [|b r]; [discriminate|].
    destruct (b =? 0) eqn:E0; [inversion H; subst; assert (b = 0) by lia; subst; auto|].
    destruct (b =? 255) eqn:E1; [|discriminate]. inversion H; subst. assert (b = 255) by lia; subst. auto.
  - reflexivity.
Defined.

(* ---- length-prefixed byte strings, optionally padded to an even length with a 0 byte ------------------- *)
Definition lbytes (len : fmt Z) (pad : bool) : fmt bytes.
Proof.
  refine (Fmt bytes
              (fun b => enc len (Z.of_nat (length b)) ++ b ++ (if pad && Nat.odd (length b) then [0] else []))
              (fun bs => match dec len bs with
                         | Some (n, r) =>
                             let k := Z.to_nat n in
                             if (n <? 0) || (length r <? k)%nat || negb (all_bytesb (firstn k r)) then None
                             else if pad && Nat.odd k then
                                    match skipn k r with 0 :: r' => Some (firstn k r, r') | _ => None end
                                  else Some (firstn k r, skipn k r)
                         | None => None end)
              (fun b => all_bytes b /\ ok len (Z.of_nat (length b)))
              (fun l => TL (map TZ l)) unview_bytes _ _ _).
  - intros b tl [Hb Hl]. rewrite <- app_assoc, (rt_enc len) by auto. rewrite <- app_assoc. cbv zeta. rewrite Nat2Z.id.
    assert ((Z.of_nat (length b) <? 0) = false) as -> by lia.
    assert (Nat.ltb (length (b ++ (if pad && Nat.odd (length b) then [0] else []) ++ tl)) (length b) = false) as ->
      by (apply Nat.ltb_ge; rewrite app_length; lia).
    rewrite firstn_app, firstn_all, Nat.sub_diag. cbn [firstn]. rewrite app_nil_r.
    apply all_bytesb_spec in Hb. rewrite Hb. cbn [orb negb].
    rewrite skipn_app, skipn_all, Nat.sub_diag. cbn [skipn app].
    destruct (pad && Nat.odd (length b)); reflexivity.
  - intros bs b tl H. destruct (dec len bs) as [[n r]|] eqn:E; [|discriminate]. cbv zeta in H.
    destruct ((n <? 0) || (length r <? Z.to_nat n)%nat || negb (all_bytesb (firstn (Z.to_nat n) r))) eqn:Ec; [discriminate|].
    apply orb_false_iff in Ec as [Ec Hab]. apply orb_false_iff in Ec as [Hn Hlen].
    apply Nat.ltb_ge in Hlen. apply negb_false_iff in Hab. apply all_bytesb_spec in Hab.
    destruct (rt_dec len _ _ _ E) as (-> & Hokn).
    assert (length (firstn (Z.to_nat n) r) = Z.to_nat n) as Hfl by (rewrite firstn_length; lia).
    destruct (pad && Nat.odd (Z.to_nat n)) eqn:Ep.
    + destruct (skipn (Z.to_nat n) r) as [|z r'] eqn:Es; [discriminate|]. destruct z; try discriminate.
      inversion H; subst. rewrite Hfl, Z2Nat.id by lia. rewrite Ep.
      rewrite <- !app_assoc. cbn [app]. rewrite <- Es, firstn_skipn. auto.
    + inversion H; subst. rewrite Hfl, Z2Nat.id by lia. rewrite Ep. rewrite app_nil_r, <- app_assoc, firstn_skipn. auto.
  - apply unview_bytes_ok.
Defined.

(* ---- semantic re-presentation of a wire-level format: the independent encoder chooses the canonical wire
   form ([from]); the strict decoder accepts only canonical forms ([canon]) ------------------------------- *)
Definition conv {A B} (f : fmt A) (to : A -> B) (from : B -> A) (canon : A -> bool) (okB : B -> Prop)
  (vb : B -> tree) (ub : tree -> option B)
  (H1 : forall a, ok f a -> canon a = true -> from (to a) = a /\ okB (to a))
  (H2 : forall b, okB b -> canon (from b) = true /\ ok f (from b) /\ to (from b) = b)
  (H3 : forall b, ub (vb b) = Some b) : fmt B.
Proof.
  refine (Fmt B (fun b => enc f (from b))
              (fun bs => match dec f bs with
                         | Some (a, r) => if canon a then Some (to a, r) else None
                         | None => None end)
              okB vb ub _ _ H3).
  - intros b tl Hb. destruct (H2 b Hb) as (Hc & Ho & Ht). rewrite (rt_enc f) by auto. rewrite Hc, Ht. reflexivity.
  - intros bs b tl H. destruct (dec f bs) as [[a r]|] eqn:E; [|discriminate].
    destruct (canon a) eqn:Ec; [|discriminate]. inversion H; subst.
    destruct (rt_dec f _ _ _ E) as (-> & Ha). destruct (H1 a Ha Ec) as (-> & Hb). auto.
Defined.

(* optional part, presence known from context *)
Definition opt {A} (present : bool) (f : fmt A) : fmt (option A).
Proof.
  refine (Fmt (option A)
              (fun o => match o with Some a => enc f a | None => [] end)
              (fun bs => if present then match dec f bs with Some (a, r) => Some (Some a, r) | None => None end
                         else Some (None, bs))
              (fun o => match o with Some a => present = true /\ ok f a | None => present = false end)
              (fun o => match o with Some a => TL [view f a] | None => TL [] end)
              (fun t => match t with
                        | TL [x] => match unview f x with Some a => Some (Some a) | None => None end
                        | TL [] => Some None
                        | _ => None end) _ _ _).
  - intros [a|] tl H; [destruct H as [-> Ha]; rewrite (rt_enc f) by auto | rewrite H]; reflexivity.
  - intros bs o tl H. destruct present.
    + destruct (dec f bs) as [[a r]|] eqn:E; [|discriminate]. inversion H; subst.
      destruct (rt_dec f _ _ _ E). auto.
    + inversion H; subst. auto.
  - intros [a|]; simpl; [rewrite (rt_view f)|]; reflexivity.
Defined.

(* ---- exactly n raw bytes, optionally followed by a 0 pad byte when n is odd ------------------------------ *)
Definition nbytes (n : nat) (pad : bool) : fmt bytes.
Proof.
  refine (Fmt bytes
              (fun b => b ++ (if pad && Nat.odd n then [0] else []))
              (fun bs => if (length bs <? n)%nat || negb (all_bytesb (firstn n bs)) then None
                         else if pad && Nat.odd n then
                                match skipn n bs with 0 :: r' => Some (firstn n bs, r') | _ => None end
                              else Some (firstn n bs, skipn n bs))
              (fun b => all_bytes b /\ length b = n)
              (fun l => TL (map TZ l)) unview_bytes _ _ _).
  - intros b tl [Hb Hn]. subst n. rewrite <- app_assoc.
    assert (Nat.ltb (length (b ++ (if pad && Nat.odd (length b) then [0] else []) ++ tl)) (length b) = false) as ->
      by (apply Nat.ltb_ge; rewrite app_length; lia).
    rewrite firstn_app, firstn_all, Nat.sub_diag. cbn [firstn]. rewrite app_nil_r.
    apply all_bytesb_spec in Hb. rewrite Hb. cbn [orb negb].
    rewrite skipn_app, skipn_all, Nat.sub_diag. cbn [skipn app].
    destruct (pad && Nat.odd (length b)); reflexivity.
  - intros bs b tl H.
    destruct ((length bs <? n)%nat || negb (all_bytesb (firstn n bs))) eqn:Ec; [discriminate|].
    apply orb_false_iff in Ec as [Hlen Hab]. apply Nat.ltb_ge in Hlen.
    apply negb_false_iff in Hab. apply all_bytesb_spec in Hab.
    assert (length (firstn n bs) = n) as Hfl by (rewrite firstn_length; lia).
    destruct (pad && Nat.odd n) eqn:Ep.
    + destruct (skipn n bs) as [|z r'] eqn:Es; [discriminate|]. destruct z; try discriminate.
      inversion H; subst. rewrite <- app_assoc. cbn [app]. rewrite <- Es, firstn_skipn. auto.
    + inversion H; subst. rewrite app_nil_r, firstn_skipn. auto.
  - apply unview_bytes_ok.
Defined.

(* a format that accepts nothing (unknown tags) *)
Definition failf {A} (a0 : A) (v : A -> tree) (u : tree -> option A) (H : forall a, u (v a) = Some a) : fmt A.
Proof.
  refine (Fmt A (fun _ => []) (fun _ => None) (fun _ => False) v u _ _ H).
  - intros a tl [].
  - intros bs a tl E. discriminate.
Defined.

Definition faile {A} (v : A -> tree) (u : tree -> option A) (H : forall a, u (v a) = Some a) : fend A.
Proof.
  refine (Fend A (fun _ => []) (fun _ => None) (fun _ => False) v u _ _ H).
  - intros a [].
  - intros bs a E. discriminate.
Defined.

(* end-format versions of iso / guard / sum_sel / nothing *)
Definition eiso {A B} (g : fend A) (to : A -> B) (from : B -> A)
  (H1 : forall a, from (to a) = a) (H2 : forall b, to (from b) = b) : fend B.
Proof.
  refine (Fend B (fun b => eenc g (from b))
               (fun bs => match edec g bs with Some a => Some (to a) | None => None end)
               (fun b => eok g (from b)) (fun b => eview g (from b))
               (fun t => match eunview g t with Some a => Some (to a) | None => None end) _ _ _).
  - intros b Hb. rewrite (ert_enc g) by auto. rewrite H2. reflexivity.
  - intros bs b H. destruct (edec g bs) as [a|] eqn:E; [|discriminate]. inversion H; subst.
    rewrite H1. apply (ert_dec g); auto.
  - intros b. rewrite (ert_view g), H2. reflexivity.
Defined.

Definition eguard {A} (g : fend A) (p : A -> bool) : fend A.
Proof.
  refine (Fend A (eenc g)
               (fun bs => match edec g bs with Some a => if p a then Some a else None | None => None end)
               (fun a => eok g a /\ p a = true) (eview g) (eunview g) _ _ _).
  - intros a [Ha Hp]. rewrite (ert_enc g) by auto. rewrite Hp. reflexivity.
  - intros bs a H. destruct (edec g bs) as [a'|] eqn:E; [|discriminate].
    destruct (p a') eqn:Ep; [|discriminate]. inversion H; subst. destruct (ert_dec g _ _ E). auto.
  - apply (ert_view g).
Defined.

Definition esum_sel {A B} (left : bool) (f : fend A) (g : fend B) : fend (A + B).
Proof.
  refine (Fend (A + B)
               (fun s => match s with inl a => eenc f a | inr b => eenc g b end)
               (fun bs => if left then match edec f bs with Some a => Some (inl a) | None => None end
                          else match edec g bs with Some b => Some (inr b) | None => None end)
               (fun s => match s with inl a => left = true /\ eok f a | inr b => left = false /\ eok g b end)
               (fun s => match s with inl a => TL [TZ 0; eview f a] | inr b => TL [TZ 1; eview g b] end)
               (fun t => match t with
                         | TL [TZ 0; x] => match eunview f x with Some a => Some (inl a) | None => None end
                         | TL [TZ 1; x] => match eunview g x with Some b => Some (inr b) | None => None end
                         | _ => None end) _ _ _).
  - intros [a|b] [Hl H]; subst; [rewrite (ert_enc f) | rewrite (ert_enc g)]; auto.
  - intros bs s H. destruct left.
    + destruct (edec f bs) as [a|] eqn:E; [|discriminate]. inversion H; subst. destruct (ert_dec f _ _ E). auto.
    + destruct (edec g bs) as [b|] eqn:E; [|discriminate]. inversion H; subst. destruct (ert_dec g _ _ E). auto.
  - intros [a|b]; simpl; [rewrite (ert_view f) | rewrite (ert_view g)]; reflexivity.
Defined.

(* the buffer must be empty *)
Definition eempty : fend unit.
Proof.
  refine (Fend unit (fun _ => []) (fun bs => match bs with [] => Some tt | _ => None end) (fun _ => True)
               (fun _ => TL []) (fun _ => Some tt) _ _ _).
  - intros [] _. reflexivity.
  - intros bs [] H. destruct bs; [auto | discriminate].
  - intros []. reflexivity.
Defined.

(* a fixed schedule of unsigned little-endian fields (widths in bytes) *)
Fixpoint fields_enc (ws : list nat) (vs : list Z) : bytes :=
  match ws, vs with
  | w :: ws', v :: vs' => le_enc w v ++ fields_enc ws' vs'
  | _, _ => []
  end.

Fixpoint fields_dec (ws : list nat) (bs : bytes) : option (list Z * bytes) :=
  match ws with
  | [] => Some ([], bs)
  | w :: ws' => match le_dec w bs with
                | Some (v, r) => match fields_dec ws' r with Some (vs, r') => Some (v :: vs, r') | None => None end
                | None => None
                end
  end.

Fixpoint fields_ok (ws : list nat) (vs : list Z) : Prop :=
  match ws, vs with
  | [], [] => True
  | w :: ws', v :: vs' => 0 <= v < 256 ^ Z.of_nat w /\ fields_ok ws' vs'
  | _, _ => False
  end.

Definition fields (ws : list nat) : fmt (list Z).
Proof.
  refine (Fmt (list Z) (fields_enc ws) (fields_dec ws) (fields_ok ws) (fun l => TL (map TZ l)) unview_bytes _ _ unview_bytes_ok).
  - induction ws as [|w ws IH]; intros [|v vs] tl H; simpl in H; try contradiction; [reflexivity|].
    destruct H as [Hv Hvs]. cbn [fields_enc fields_dec]. rewrite <- app_assoc, le_rt_enc by auto.
    rewrite IH by auto. reflexivity.
  - induction ws as [|w ws IH]; intros bs vs tl H; cbn [fields_dec] in H.
    + inversion H; subst. simpl. auto.
    + destruct (le_dec w bs) as [[v r]|] eqn:E; [|discriminate].
      destruct (fields_dec ws r) as [[vs' r']|] eqn:E2; [|discriminate].
      assert (vs = v :: vs' /\ tl = r') as [-> ->] by (split; congruence).
      destruct (le_rt_dec _ _ _ _ E) as (-> & Hv). destruct (IH _ _ _ E2) as (-> & Hvs).
      cbn [fields_enc fields_ok]. rewrite app_assoc. auto.
Defined.

(* ---- Multiple Service Packet payload: count, offset table, members back to back ------------------------- *)
Fixpoint offsets_from (base : Z) (lens : list Z) : list Z :=
  match lens with [] => [] | l :: t => base :: offsets_from (base + l) t end.

Definition ot_enc {A} (g : fend A) (l : list A) : bytes :=
  let parts := map (eenc g) l in
  let n := Z.of_nat (length l) in
  le_enc 2 n ++ flat_map (le_enc 2) (offsets_from (2 + 2 * n) (map (fun p => Z.of_nat (length p)) parts))
  ++ concat parts.

(* cut `rest` at the given offsets (relative to `base`), the last slice running to the end *)
Fixpoint slices (offs : list Z) (base : Z) (rest : bytes) : option (list bytes) :=
  match offs with
  | [] => match rest with [] => Some [] | _ => None end
  | o :: t =>
      if negb (o =? base) then None else
      match t with
      | [] => Some [rest]
      | o2 :: _ =>
          let k := Z.to_nat (o2 - o) in
          if (o2 <? o) || (length rest <? k)%nat then None
          else match slices t o2 (skipn k rest) with
               | Some l => Some (firstn k rest :: l)
               | None => None end
      end
  end.

Fixpoint dec_all {A} (g : fend A) (ss : list bytes) : option (list A) :=
  match ss with
  | [] => Some []
  | s :: t => match edec g s, dec_all g t with Some a, Some l => Some (a :: l) | _, _ => None end
  end.

Fixpoint list_eqb (a b : bytes) : bool :=
  match a, b with
  | [], [] => true
  | x :: a', y :: b' => (x =? y) && list_eqb a' b'
  | _, _ => false
  end.

Lemma list_eqb_eq a : forall b, list_eqb a b = true <-> a = b.
Proof.
  induction a as [|x a IH]; intros [|y b]; simpl; split; intros H; try discriminate; auto.
  - apply andb_true_iff in H as [H1 H2]. apply IH in H2. f_equal; [lia | auto].
  - inversion H; subst. rewrite Z.eqb_refl. apply IH. reflexivity.
Qed.

Definition ot_dec {A} (g : fend A) (bs : bytes) : option (list A) :=
  match le_dec 2 bs with
  | None => None
  | Some (n, r) =>
      match rep_dec (uint 2) (Z.to_nat n) r with
      | None => None
      | Some (offs, rest) =>
          match slices offs (2 + 2 * n) rest with
          | None => None
          | Some ss => match dec_all g ss with
                       | Some l => if list_eqb (ot_enc g l) bs then Some l else None   (* strict: canonical table *)
                       | None => None end
          end
      end
  end.

Lemma dec_all_ok {A} (g : fend A) ss : forall l, dec_all g ss = Some l -> Forall (eok g) l.
Proof.
  induction ss as [|s t IH]; intros l H; simpl in H.
  - inversion H; constructor.
  - destruct (edec g s) as [a|] eqn:E; [|discriminate]. destruct (dec_all g t) as [l'|] eqn:E2; [|discriminate].
    inversion H; subst. constructor; [apply (ert_dec g _ _ E) | apply IH; reflexivity].
Qed.

Lemma dec_all_enc {A} (g : fend A) l : Forall (eok g) l -> dec_all g (map (eenc g) l) = Some l.
Proof.
  induction 1 as [|a t Ha Ht IH]; [reflexivity|]. simpl. rewrite (ert_enc g) by auto. rewrite IH. reflexivity.
Qed.

Lemma slices_offsets parts : forall base,
  slices (offsets_from base (map (fun p => Z.of_nat (length p)) parts)) base (concat parts) = Some parts.
Proof.
  induction parts as [|p t IH]; intros base; [reflexivity|].
  cbn [map offsets_from slices concat]. rewrite Z.eqb_refl. cbn [negb].
  destruct t as [|p2 t'].
  - simpl. rewrite app_nil_r. reflexivity.
  - cbn [map offsets_from]. replace (base + Z.of_nat (length p) - base) with (Z.of_nat (length p)) by lia.
    rewrite Nat2Z.id.
    destruct ((base + Z.of_nat (length p) <? base) || (length (p ++ concat (p2 :: t')) <? length p)%nat) eqn:E.
    { apply orb_true_iff in E as [E|E]; [lia|]. apply Nat.ltb_lt in E. rewrite app_length in E. lia. }
    rewrite skipn_app, skipn_all, Nat.sub_diag. cbn [skipn app].
    change (base + Z.of_nat (length p) :: offsets_from (base + Z.of_nat (length p) + Z.of_nat (length p2)) (map (fun p0 => Z.of_nat (length p0)) t'))
      with (offsets_from (base + Z.of_nat (length p)) (map (fun p0 => Z.of_nat (length p0)) (p2 :: t'))).
    rewrite IH. rewrite firstn_app, firstn_all, Nat.sub_diag. cbn [firstn]. rewrite app_nil_r. reflexivity.
Qed.

Lemma offsets_from_length base lens : length (offsets_from base lens) = length lens.
Proof. revert base; induction lens; intros; simpl; auto. Qed.

Lemma rep_enc_u16 l : rep_enc (uint 2) l = flat_map (le_enc 2) l.
Proof. induction l; simpl; [reflexivity|]. rewrite IHl. reflexivity. Qed.

Definition u16_ok (o : Z) : Prop := 0 <= o < 256 ^ Z.of_nat 2.

(* the member count and every offset must fit 16 bits (the last member may be of any length) *)
Definition ot_ok {A} (g : fend A) (l : list A) : Prop :=
  Forall (eok g) l /\ u16_ok (Z.of_nat (length l)) /\
  Forall u16_ok (offsets_from (2 + 2 * Z.of_nat (length l)) (map (fun a => Z.of_nat (length (eenc g a))) l)).

Lemma slices_length offs : forall base rest ss, slices offs base rest = Some ss -> length ss = length offs.
Proof.
  induction offs as [|o t IH]; intros base rest ss H; cbn [slices] in H.
  - destruct rest; [inversion H; reflexivity | discriminate].
  - destruct (negb (o =? base)); [discriminate|]. destruct t as [|o2 t'].
    + inversion H; reflexivity.
    + destruct ((o2 <? o) || (length rest <? Z.to_nat (o2 - o))%nat); [discriminate|].
      destruct (slices (o2 :: t') o2 (skipn (Z.to_nat (o2 - o)) rest)) as [l|] eqn:E; [|discriminate].
      inversion H; subst. simpl. f_equal. apply (IH _ _ _ E).
Qed.

Lemma slices_inv offs : forall base rest ss, slices offs base rest = Some ss ->
  offs = offsets_from base (map (fun p => Z.of_nat (length p)) ss) /\ rest = concat ss.
Proof.
  induction offs as [|o t IH]; intros base rest ss H; cbn [slices] in H.
  - destruct rest; [inversion H; subst; auto | discriminate].
  - destruct (o =? base) eqn:Eo; [|discriminate]. cbn [negb] in H. assert (o = base) by lia. subst o.
    destruct t as [|o2 t'].
    + inversion H; subst. simpl. rewrite app_nil_r. auto.
    + destruct ((o2 <? base) || (length rest <? Z.to_nat (o2 - base))%nat) eqn:Ec; [discriminate|].
      apply orb_false_iff in Ec as [H1 H2]. apply Nat.ltb_ge in H2.
      destruct (slices (o2 :: t') o2 (skipn (Z.to_nat (o2 - base)) rest)) as [l|] eqn:E; [|discriminate].
      inversion H; subst. destruct (IH _ _ _ E) as (Ho & Hr).
      cbn [map offsets_from concat]. rewrite firstn_length, Nat.min_l by lia. rewrite Z2Nat.id by lia.
      replace (base + (o2 - base)) with o2 by lia. rewrite <- Ho. split; [reflexivity|].
      rewrite <- Hr. symmetry. apply firstn_skipn.
Qed.

Lemma dec_all_inv {A} (g : fend A) ss : forall l, dec_all g ss = Some l -> ss = map (eenc g) l /\ Forall (eok g) l.
Proof.
  induction ss as [|s t IH]; intros l H; simpl in H.
  - inversion H; subst. split; [reflexivity | constructor].
  - destruct (edec g s) as [a|] eqn:E; [|discriminate]. destruct (dec_all g t) as [l'|] eqn:E2; [|discriminate].
    inversion H; subst. destruct (ert_dec g _ _ E) as (-> & Ha). destruct (IH _ eq_refl) as (-> & Hl).
    split; [reflexivity | constructor; auto].
Qed.

Definition offset_table {A} (g : fend A) : fend (list A).
Proof.
  refine (Fend (list A) (ot_enc g) (ot_dec g) (ot_ok g)
               (fun l => TL (map (eview g) l))
               (fun t => match t with TL ts => unview_list (eunview g) ts | _ => None end) _ _ _).
  - intros l (Hok & Hn & Hoffs). unfold ot_dec. remember (ot_enc g l) as bs eqn:Ebs.
    assert (bs = le_enc 2 (Z.of_nat (length l)) ++
                 rep_enc (uint 2) (offsets_from (2 + 2 * Z.of_nat (length l)) (map (fun p => Z.of_nat (length p)) (map (eenc g) l)))
                 ++ concat (map (eenc g) l)) as Hbs
      by (rewrite Ebs; unfold ot_enc; cbv zeta; rewrite rep_enc_u16; reflexivity).
    rewrite Hbs at 1. rewrite le_rt_enc by exact Hn.
    set (offs := offsets_from (2 + 2 * Z.of_nat (length l)) (map (fun p => Z.of_nat (length p)) (map (eenc g) l))).
    assert (length offs = Z.to_nat (Z.of_nat (length l))) as Hlo
      by (unfold offs; rewrite offsets_from_length, !map_length, Nat2Z.id; reflexivity).
    rewrite <- Hlo. rewrite (rep_rt_enc (uint 2)).
    2:{ unfold offs. rewrite map_map. exact Hoffs. }
    unfold offs. rewrite slices_offsets. rewrite dec_all_enc by exact Hok.
    rewrite <- Ebs. assert (list_eqb bs bs = true) as -> by (apply list_eqb_eq; reflexivity). reflexivity.
  - intros bs l H. unfold ot_dec in H.
    destruct (le_dec 2 bs) as [[n r]|] eqn:E1; [|discriminate].
    destruct (rep_dec (uint 2) (Z.to_nat n) r) as [[offs rest]|] eqn:E2; [|discriminate].
    destruct (slices offs (2 + 2 * n) rest) as [ss|] eqn:E3; [|discriminate].
    destruct (dec_all g ss) as [l'|] eqn:E4; [|discriminate].
    destruct (list_eqb (ot_enc g l') bs) eqn:E5; [|discriminate]. inversion H; subst.
    apply list_eqb_eq in E5. split; [symmetry; exact E5|].
    destruct (le_rt_dec _ _ _ _ E1) as (_ & Hn). destruct (rep_rt_dec _ _ _ _ _ E2) as (_ & Hoffs & Hlen).
    pose proof (slices_length _ _ _ _ E3) as Hsl. destruct (slices_inv _ _ _ _ E3) as (Ho & _).
    destruct (dec_all_inv g _ _ E4) as (Hss & Hok).
    assert (Z.of_nat (length l) = n) as Hnl by (subst ss; rewrite map_length in Hsl; lia).
    unfold ot_ok. rewrite Hnl. split; [exact Hok|]. split; [exact Hn|].
    subst ss. rewrite map_map in Ho. rewrite <- Ho. exact Hoffs.
  - intros l. simpl. induction l as [|a t IH]; simpl; [reflexivity|]. rewrite (ert_view g), IH. reflexivity.
Defined.

(* ---- a prefix, a 16-bit byte length, further fixed fields, then exactly that many bytes (optionally followed by a
   0 pad byte when the length is odd) parsed by a format chosen from the prefix ----------------------------- *)
Definition framed_enc {P M B} (pre : fmt P) (mid : fmt M) (pad : bool) (g : P -> fend B) (v : P * (M * B)) : bytes :=
  let region := eenc (g (fst v)) (snd (snd v)) in
  enc pre (fst v) ++ le_enc 2 (Z.of_nat (length region)) ++ enc mid (fst (snd v)) ++ region
  ++ (if pad && Nat.odd (length region) then [0] else []).

Definition framed_dec {P M B} (pre : fmt P) (mid : fmt M) (pad : bool) (g : P -> fend B) (bs : bytes)
  : option ((P * (M * B)) * bytes) :=
  match dec pre bs with
  | None => None
  | Some (p, r1) =>
    match le_dec 2 r1 with
    | None => None
    | Some (n, r2) =>
      match dec mid r2 with
      | None => None
      | Some (m, r3) =>
        let k := Z.to_nat n in
        if (length r3 <? k)%nat then None
        else match edec (g p) (firstn k r3) with
             | None => None
             | Some b =>
               if pad && Nat.odd k then
                 match skipn k r3 with 0 :: r4 => Some ((p, (m, b)), r4) | _ => None end
               else Some ((p, (m, b)), skipn k r3)
             end
      end
    end
  end.

Definition framed {P M B} (pre : fmt P) (mid : fmt M) (pad : bool) (g : P -> fend B) : fmt (P * (M * B)).
Proof.
  refine (Fmt (P * (M * B)) (framed_enc pre mid pad g) (framed_dec pre mid pad g)
              (fun v => ok pre (fst v) /\ ok mid (fst (snd v)) /\ eok (g (fst v)) (snd (snd v)) /\
                        Z.of_nat (length (eenc (g (fst v)) (snd (snd v)))) < 65536)
              (fun v => TL [view pre (fst v); view mid (fst (snd v)); eview (g (fst v)) (snd (snd v))])
              (fun t => match t with
                        | TL [x; y; z] =>
                            match unview pre x, unview mid y with
                            | Some p, Some m => match eunview (g p) z with Some b => Some (p, (m, b)) | None => None end
                            | _, _ => None end
                        | _ => None end) _ _ _).
  - intros [p [m b]] tl (Hp & Hm & Hb & Hl). cbn [fst snd] in *. unfold framed_enc, framed_dec. cbn [fst snd]. cbv zeta.
    rewrite <- app_assoc, (rt_enc pre) by auto.
    rewrite <- app_assoc, le_rt_enc by (change (256 ^ Z.of_nat 2) with 65536; lia).
    rewrite <- app_assoc, (rt_enc mid) by auto. rewrite Nat2Z.id. rewrite <- app_assoc.
    set (region := eenc (g p) b) in *.
    assert (Nat.ltb (length (region ++ (if pad && Nat.odd (length region) then [0] else []) ++ tl)) (length region) = false) as ->
      by (apply Nat.ltb_ge; rewrite app_length; lia).
    rewrite firstn_app, firstn_all, Nat.sub_diag. cbn [firstn]. rewrite app_nil_r.
    unfold region at 1. rewrite (ert_enc (g p)) by auto.
    rewrite skipn_app, skipn_all, Nat.sub_diag. cbn [skipn app].
    destruct (pad && Nat.odd (length region)); reflexivity.
  - intros bs [p [m b]] tl H. unfold framed_dec in H.
    destruct (dec pre bs) as [[p' r1]|] eqn:E1; [|discriminate].
    destruct (le_dec 2 r1) as [[n r2]|] eqn:E2; [|discriminate].
    destruct (dec mid r2) as [[m' r3]|] eqn:E3; [|discriminate]. cbv zeta in H.
    destruct (length r3 <? Z.to_nat n)%nat eqn:El; [discriminate|]. apply Nat.ltb_ge in El.
    destruct (edec (g p') (firstn (Z.to_nat n) r3)) as [b'|] eqn:E4; [|discriminate].
    destruct (rt_dec pre _ _ _ E1) as (-> & Hp). destruct (le_rt_dec _ _ _ _ E2) as (-> & Hn).
    destruct (rt_dec mid _ _ _ E3) as (-> & Hm). destruct (ert_dec (g p') _ _ E4) as (Hf & Hb).
    assert (length (eenc (g p') b') = Z.to_nat n) as HL by (rewrite <- Hf, firstn_length; lia).
    change (256 ^ Z.of_nat 2) with 65536 in Hn.
    destruct (pad && Nat.odd (Z.to_nat n)) eqn:Ep.
    + destruct (skipn (Z.to_nat n) r3) as [|z r4] eqn:Es; [discriminate|]. destruct z; try discriminate.
      inversion H; subst. cbn [fst snd]. unfold framed_enc. cbn [fst snd]. cbv zeta. rewrite HL, Z2Nat.id, Ep by lia.
      split; [|repeat split; auto; lia].
      rewrite <- !app_assoc. do 3 f_equal. rewrite <- Hf. cbn [app]. rewrite <- Es. symmetry. apply firstn_skipn.
    + inversion H; subst. cbn [fst snd]. unfold framed_enc. cbn [fst snd]. cbv zeta. rewrite HL, Z2Nat.id, Ep by lia.
      split; [|repeat split; auto; lia].
      rewrite <- !app_assoc. do 3 f_equal. rewrite <- Hf. cbn [app]. symmetry. apply firstn_skipn.
  - intros [p [m b]]. cbn [fst snd]. rewrite (rt_view pre), (rt_view mid), (ert_view (g p)). reflexivity.
Defined.

(* an optional end format: an empty buffer means absent (the format itself never encodes to nothing) *)
Definition eopt {A} (g : fend A) : fend (option A).
Proof.
  refine (Fend (option A)
               (fun o => match o with Some a => eenc g a | None => [] end)
               (fun bs => match bs with [] => Some None
                                      | _ => match edec g bs with Some a => Some (Some a) | None => None end end)
               (fun o => match o with Some a => eok g a /\ eenc g a <> [] | None => True end)
               (fun o => match o with Some a => TL [eview g a] | None => TL [] end)
               (fun t => match t with
                         | TL [x] => match eunview g x with Some a => Some (Some a) | None => None end
                         | TL [] => Some None
                         | _ => None end) _ _ _).
  - intros [a|] H; [|reflexivity]. destruct H as [Ha Hne].
    destruct (eenc g a) as [|x r] eqn:E; [congruence|]. rewrite <- E, (ert_enc g) by auto. reflexivity.
  - intros bs o H. destruct bs as [|x r]; [inversion H; subst; auto|].
    destruct (edec g (x :: r)) as [a|] eqn:E; [|discriminate]. inversion H; subst.
    destruct (ert_dec g _ _ E) as (Hbs & Ha). split; [exact Hbs|]. split; [exact Ha|]. rewrite <- Hbs. discriminate.
  - intros [a|]; simpl; [rewrite (ert_view g)|]; reflexivity.
Defined.

Lemma unview_list_emap {A} (g : fend A) l : unview_list (eunview g) (map (eview g) l) = Some l.
Proof. induction l as [|a t IH]; cbn [map unview_list]; [reflexivity|]. rewrite (ert_view g), IH. reflexivity. Qed.

(* option wrappers for end formats: always present / always absent (views borrowed from g) *)
Definition eoview {A} (g : fend A) (o : option A) : tree := match o with Some a => TL [eview g a] | None => TL [] end.
Definition eounview {A} (g : fend A) (t : tree) : option (option A) :=
  match t with
  | TL [x] => match eunview g x with Some a => Some (Some a) | None => None end
  | TL [] => Some None
  | _ => None end.
Lemma eounview_ok {A} (g : fend A) o : eounview g (eoview g o) = Some o.
Proof. destruct o as [a|]; cbn [eoview eounview]; [rewrite (ert_view g)|]; reflexivity. Qed.

Definition esome {A} (g : fend A) : fend (option A).
Proof.
  refine (Fend _ (fun o => match o with Some a => eenc g a | None => [] end)
               (fun bs => match edec g bs with Some a => Some (Some a) | None => None end)
               (fun o => match o with Some a => eok g a | None => False end)
               (eoview g) (eounview g) _ _ (eounview_ok g)).
  - intros [a|] H; [|destruct H]. rewrite (ert_enc g) by auto. reflexivity.
  - intros bs o H. destruct (edec g bs) as [a|] eqn:E; [|discriminate]. inversion H; subst. apply (ert_dec g); auto.
Defined.

Definition eabsent {A} (g : fend A) : fend (option A).
Proof.
  refine (Fend _ (fun _ => []) (fun bs => match bs with [] => Some None | _ => None end) (fun o => o = None)
               (eoview g) (eounview g) _ _ (eounview_ok g)).
  - intros o ->. reflexivity.
  - intros bs o H. destruct bs; [inversion H; auto | discriminate].
Defined.

(* ---- consequences of the round trip: encodings are unambiguous ------------------------------------------- *)
Lemma fmt_unambiguous {A} (F : fmt A) a b t1 t2 :
  ok F a -> ok F b -> enc F a ++ t1 = enc F b ++ t2 -> a = b /\ t1 = t2.
Proof.
  intros Ha Hb H. pose proof (rt_enc F a t1 Ha) as Da. pose proof (rt_enc F b t2 Hb) as Db.
  rewrite H in Da. rewrite Da in Db. injection Db as -> ->. split; reflexivity.
Qed.

Lemma fend_injective {A} (F : fend A) a b : eok F a -> eok F b -> eenc F a = eenc F b -> a = b.
Proof.
  intros Ha Hb H. pose proof (ert_enc F a Ha) as Da. pose proof (ert_enc F b Hb) as Db.
  rewrite H in Da. rewrite Da in Db. injection Db as ->. reflexivity.
Qed.
