"""C09 — concurrent sessions are isolated and each request is atomic.
Theorems: coq/Properties/C09.v over coq/Model/Concurrent.v (per-thread closure lists of dfa_post; the tag array under atomic
requests: no torn reads under any schedule).
Tie / observation:
  A. the real automata.dfa_post driven through generated interleavings of "thread t registers a closure" / "thread t leaves the
     parser" - also while another thread's closure is running - with the thread identity supplied from outside
     (automata's `threading.current_thread` replaced by a shim); the log of (running thread, closure) must be the extracted
     model's, and no closure may ever be run by a thread that did not register it;
  B. element ranges are stored and fetched by SINGLE list operations: the backing list of an Attribute is replaced by a
     recording list and every Read / Write Tag [Fragmented] through the Logix object must perform exactly one slice access;
     the array results of generated schedules are compared with the extracted array model;
  C. a live simulator with a tiny thread switch interval and several simultaneous sessions issuing bundled and plain requests
     on private and shared ranges: every session gets exactly its own replies, read-your-writes on private elements, no torn
     read of whole-range uniform writes, nothing lost."""
import os, random, socket, struct, subprocess, sys, threading, time
from vlib import core


# ---------------------------------------------------------------- A: dfa_post
def gen_events(rng, depth=0, counter=None):
    counter = counter if counter is not None else [0]
    evs = []
    for _ in range(rng.randrange(1, 5 if depth == 0 else 3)):
        if rng.random() < 0.55 and counter[0] < 14:
            t = rng.randrange(1, 4)
            counter[0] += 1
            c = t * 1000 + counter[0]
            body = gen_events(rng, depth + 1, counter) if depth < 2 and rng.random() < 0.5 else []
            evs.append(('reg', t, c, body))
        else:
            evs.append(('exit', rng.randrange(1, 4)))
    if depth == 0:
        tail = [('exit', 1), ('exit', 2), ('exit', 3)]
        rng.shuffle(tail)
        evs += tail                          # every thread eventually leaves the parser: every closure is due
    return evs


def enc_events(evs):
    out = []
    for e in evs:
        if e[0] == 'reg':
            out += [0, e[1], e[2], len(e[3])] + enc_events(e[3])
        else:
            out += [1, e[1]]
    return out


def run_events_impl(evs):
    from cpppo import automata as A
    real = A.threading
    ident = [0]

    class FakeThread:
        def __init__(self, i):
            self.ident = i; self.name = 'fake-%d' % i

    class Shim:
        def __getattr__(self, n):
            return getattr(real, n)
        def current_thread(self):
            return FakeThread(ident[0])
    log = []
    A.threading = Shim()
    try:
        d = A.dfa_post(name='c09', initial=A.state('s', terminal=True))

        def play(events):
            for e in events:
                if e[0] == 'reg':
                    _, t, c, body = e
                    ident[0] = t

                    def closure(c=c, body=body):
                        runner = ident[0]
                        log.append((runner, c))
                        play(body)
                        ident[0] = runner
                    d.post_process_closure(closure)
                else:
                    ident[0] = e[1]
                    d.lock.acquire()
                    d.__exit__(None, None, None)
        play(evs)
    finally:
        A.threading = real
    return log


# ---------------------------------------------------------------- B: single list operations
class RecList(list):
    """a list that records how it is accessed"""
    log = None
    def __getitem__(self, k):
        self.log.append(('get', 'slice' if isinstance(k, slice) else 'index', k.indices(len(self))[:2] if isinstance(k, slice) else (k, k + 1)))
        return list.__getitem__(self, k)
    def __setitem__(self, k, v):
        self.log.append(('set', 'slice' if isinstance(k, slice) else 'index', k.indices(len(self))[:2] if isinstance(k, slice) else (k, k + 1)))
        return list.__setitem__(self, k, v)


def atomicity_cases(rng, n):
    from props import logix_common as L
    from cpppo.server.enip import logix, device
    tags = [dict(name='T', ty='DINT', scalar=False, n=12, addr=(0x99, 1, 1), init=[('i', 0)] * 12)]
    device.lookup_reset(); logix.setup_reset()
    im = L.Impl(488, tags)
    problems = []
    arr = [0] * 12
    sched = []
    try:
        att = im.attrs[0]
        rec = RecList(att.value); rec.log = []
        att.default = rec
        for i in range(n):
            s = rng.randrange(0, 12); ln = rng.randrange(1, 12 - s + 1)
            k = rng.random()
            if k < 0.12:
                # the generic attribute services on the tag's class/instance/attribute address: the whole array at once
                s, ln = 0, 12
                r = ('get', ('num', 0x99, 1, 1, None))
                sched.append((i % 3, 1, s, ln))
            elif k < 0.24:
                s, ln = 0, 12
                vals = [rng.randrange(-9, 9)] * 12 if rng.random() < 0.6 else [rng.randrange(-99, 99) for _ in range(12)]
                r = ('set', ('num', 0x99, 1, 1, None), list(struct.pack('<12i', *vals)))
                sched.append((i % 3, 0, s, vals))
            elif k < 0.34:
                # a write that must be refused (values the tag's type cannot hold, or a range running off the end): it must not touch the
                # backing list at all - a transient store that is rolled back is visible to the other sessions
                if rng.random() < 0.6:
                    r = ('writef', ('sym', 'T', s), 200, ln, 0, [('i', 7)] * (ln - 1) + [('i', 4000000000)])
                else:
                    r = ('writef', ('sym', 'T', 11), 196, 3, 0, [('i', 1), ('i', 2), ('i', 3)])
                rec.log.clear()
                b, d = im.request(r)
                if b is not None and b[2] == 0:
                    problems.append(dict(request=L.describe_req(r), problem='a write that must be refused was acknowledged'))
                elif any(x[0] == 'set' for x in rec.log):
                    problems.append(dict(request=L.describe_req(r), accesses=rec.log[:12],
                                         problem='a refused write stored into the backing list (and took it back): other sessions can observe the transient values'))
                if len(problems) >= 2:
                    break
                continue
            elif k < 0.6:
                vals = [rng.randrange(-9, 9)] * ln if rng.random() < 0.6 else [rng.randrange(-99, 99) for _ in range(ln)]
                r = ('writef', ('sym', 'T', s), 196, ln, 0, [('i', v) for v in vals])
                sched.append((i % 3, 0, s, vals))
            else:
                r = ('readf', ('sym', 'T', s), ln, 0)
                sched.append((i % 3, 1, s, ln))
            rec.log.clear()
            b, d = im.request(r)
            acc = [x for x in rec.log if x[1] == 'slice' or x[0] == 'set']
            kind = 'set' if r[0] in ('writef', 'set') else 'get'
            data = [x for x in rec.log if x[0] == kind]
            if ln > 1 and (len(data) != 1 or data[0][1] != 'slice'):
                problems.append(dict(request=L.describe_req(r), accesses=rec.log[:12],
                                     problem='a %d-element %s is not one slice operation on the backing list' % (ln, 'write' if kind == 'set' else 'read')))
                if len(problems) >= 2:
                    break
            if kind == 'set' and data and any(x[2] != (s, s + ln) for x in data):
                # a store that covers more than the addressed elements is a read-modify-write of its neighbours: a concurrent
                # write to those neighbours between the read and the store would be lost
                problems.append(dict(request=L.describe_req(r), accesses=rec.log[:12],
                                     problem='a write of elements [%d,%d) stores list range %r: elements it does not address are rewritten' % (s, s + ln, [x[2] for x in data])))
                if len(problems) >= 2:
                    break
        final = list(att.value)
        # request-scoped state must not live on objects that all sessions share (the Message Router / Logix object, the tag's Attribute):
        # whatever a request leaves there can be overwritten by another session's request between two steps of this one
        def snapshot(o):
            return {k: id(v) for k, v in vars(o).items()}
        before = snapshot(im.mr), snapshot(att)
        for r in (('readf', ('sym', 'T', 2), 3, 0), ('writef', ('sym', 'T', 1), 196, 2, 0, [('i', 5), ('i', 6)]), ('get', ('num', 0x99, 1, 1, None)),
                  ('multi', [('read', ('sym', 'T', 0), 2), ('write', ('sym', 'T', 3), 196, 1, [('i', 9)])]), ('read', ('sym', 'nosuch', None), 1)):
            im.request(r)
        after = snapshot(im.mr), snapshot(att)
        for what, b4, af in (('the Message Router / Logix object', before[0], after[0]), ('the tag\'s Attribute', before[1], after[1])):
            changed = sorted(k for k in af if k not in b4 or (b4[k] != af[k] and k not in ('default', 'value', '_value')))
            if changed:
                problems.append(dict(shared_object=what, attributes=changed,
                                     problem='handling requests left request-scoped state (%s) on %s, which every session\'s thread shares' % (', '.join(changed), what)))
    finally:
        im.close()
    return problems, sched, final


# ---------------------------------------------------------------- C: live stress
def start_simulator(switch):
    s = socket.socket(); s.bind(('127.0.0.1', 0)); port = s.getsockname()[1]; s.close()
    code = ("import sys; sys.setswitchinterval(%r); from cpppo.server.enip.main import main; "
            "sys.exit(main(argv=['--no-udp','-a','127.0.0.1:%d','SHARED=INT[40]'] + ['P%%d=DINT[8]' %% i for i in range(6)]))" % (switch, port))
    p = subprocess.Popen([sys.executable, '-c', code], stdout=subprocess.DEVNULL, stderr=subprocess.DEVNULL, cwd='/')
    for _ in range(150):
        try:
            c = socket.create_connection(('127.0.0.1', port), timeout=0.5); c.close(); return p, port
        except OSError:
            time.sleep(0.1)
    p.kill()
    raise core.HarnessError('simulator subprocess did not start listening')


def session(port, sid, rounds, seed, out):
    from cpppo.server.enip import client
    rng = random.Random(seed)
    problems = []
    try:
        with client.connector(host='127.0.0.1', port=port, timeout=10) as conn:
            mine = 'P%d' % sid
            for rnd in range(rounds):
                v = sid * 100000 + rnd
                uni = sid * 100 + (rnd % 90)
                tags = ['%s[0-7]=(DINT)%s' % (mine, ','.join(str(v + k) for k in range(8))),
                        '%s[0-7]' % mine,
                        'SHARED[0-39]=(INT)%s' % ','.join([str(uni)] * 40),
                        'SHARED[0-39]',
                        '%s[3]' % mine]
                ops = list(client.parse_operations(tags))
                multiple = rng.choice([0, 250, 500])
                res = [(sts, list(val) if hasattr(val, '__iter__') else val)
                       for idx, dsc, req, rpy, sts, val in conn.operate(ops, depth=rng.choice([0, 2]), multiple=multiple, timeout=10)]
                if len(res) != 5:
                    problems.append('session %d round %d: %d results for 5 operations' % (sid, rnd, len(res))); break
                if res[0] != (0, True) or res[1] != (0, [v + k for k in range(8)]) or res[4] != (0, [v + 3]):
                    problems.append('session %d round %d: its own private tag reads back %r / %r after writing %d..' % (sid, rnd, res[1], res[4], v)); break
                sh = res[3][1]
                if res[3][0] != 0 or not isinstance(sh, list) or len(set(sh)) != 1:
                    problems.append('session %d round %d: torn read of the shared range: %r' % (sid, rnd, sh)); break
                if sh[0] % 100 >= 90 or not (0 <= sh[0] // 100 < 6):
                    problems.append('session %d round %d: shared range holds a value nobody wrote: %r' % (sid, rnd, sh[0])); break
    except Exception as e:
        problems.append('session %d: %s: %s' % (sid, type(e).__name__, str(e)[:200]))
    out[sid] = problems


def listening(port):
    """is something listening on 127.0.0.1:port?  (read from /proc: connecting would itself be the simulator's first session)"""
    want = '0100007F:%04X' % port
    try:
        for line in open('/proc/net/tcp').read().splitlines()[1:]:
            f = line.split()
            if f[1] == want and f[3] == '0A':
                return True
    except OSError:
        pass
    return False


def cold_start(ntags, delays):
    """A freshly started simulator with many tags: several sessions whose FIRST requests overlap (the tags are created on the first
    request).  Every session must see every configured tag: a 'path destination unknown' for a configured tag is explained by no
    sequential order of the sessions.  -> problems"""
    from cpppo.server.enip import client
    s = socket.socket(); s.bind(('127.0.0.1', 0)); port = s.getsockname()[1]; s.close()
    code = ("import sys; sys.setswitchinterval(1e-4); from cpppo.server.enip.main import main; "
            "sys.exit(main(argv=['--no-udp','-a','127.0.0.1:%d'] + ['T%%d=DINT[2]' %% i for i in range(%d)]))" % (port, ntags))
    proc = subprocess.Popen([sys.executable, '-c', code], stdout=subprocess.DEVNULL, stderr=subprocess.DEVNULL, cwd='/')
    problems, out = [], {}
    try:
        for _ in range(300):
            if listening(port):
                break
            time.sleep(0.05)
        else:
            raise core.HarnessError('simulator subprocess did not start listening')

        def sess(i, delay):
            time.sleep(delay)
            try:
                with client.connector(host='127.0.0.1', port=port, timeout=20) as conn:
                    ops = list(client.parse_operations(['T%d[0-1]' % (ntags - 1), 'T0[1]', 'T%d[0]' % (ntags // 2)]))
                    out[i] = [(sts, list(val) if hasattr(val, '__iter__') else val) for _, _, _, _, sts, val in conn.operate(ops, depth=0, timeout=20)]
            except Exception as e:
                out[i] = '%s: %s' % (type(e).__name__, str(e)[:120])
        ths = [threading.Thread(target=sess, args=(i, d), daemon=True) for i, d in enumerate(delays)]
        for t in ths:
            t.start()
        for t in ths:
            t.join(60)
        for i, d in enumerate(delays):
            if out.get(i) != [(0, [0, 0]), (0, [0]), (0, [0])]:
                problems.append('session %d (first request %d ms after the first session\'s) got %r for reads of three configured tags' % (i, d * 1000, out.get(i)))
    finally:
        proc.terminate()
        try:
            proc.wait(5)
        except Exception:
            proc.kill()
    return problems


def setup_swaps_nothing():
    """Every request re-runs the tag set-up (logix.setup: "always check").  Two tag names bound to one address: re-running the
    set-up must not swap the Attribute object that serves the address - a write another session has acknowledged in between lands in
    one object, reads are then served from the other.  -> problems"""
    from cpppo.server.enip import logix, device, parser
    from cpppo import dotdict
    problems = []
    device.lookup_reset(); logix.setup_reset()
    tg = dotdict()
    a = device.Attribute('A', parser.DINT, default=[0] * 4)
    dict.__setitem__(tg, 'A', dotdict(attribute=a, error=0))
    logix.setup(tags=tg)
    addr = logix.resolve_tag('A') if hasattr(logix, 'resolve_tag') else device.resolve_tag('A')
    b = device.Attribute('B', parser.DINT, default=[0] * 4)
    dict.__setitem__(tg, 'B', dotdict(attribute=b, error=0, path={'segment': [{'class': addr[0]}, {'instance': addr[1]}, {'attribute': addr[2]}]}))
    logix.setup(tags=tg)
    inst = device.lookup(addr[0], addr[1])
    swaps = []

    class Rec(dict):
        def __setitem__(self, k, v):
            if k in self and dict.__getitem__(self, k) is not v:
                swaps.append(k)
            dict.__setitem__(self, k, v)
    inst.attribute = Rec(inst.attribute)
    serving = device.lookup(*addr)
    for _ in range(3):
        logix.setup(tags=tg)
    if swaps or device.lookup(*addr) is not serving:
        problems.append(dict(tags='A=DINT[4] and B@%d/%d/%d=DINT[4] (the address A was given)' % tuple(addr), swaps_of_attribute=swaps,
                             problem='re-running the tag set-up (done for every request) replaces the Attribute object serving an address that two tag names share'))
    device.lookup_reset(); logix.setup_reset()
    return problems


def same_port_peers(port):
    """Sessions from different client addresses that happen to use the SAME source port number are separate sessions: one ending
    (or being refused) must not end the other.  -> problems"""
    import struct
    problems = []

    def frame(cmd, payload=b'', sess=0, cx=b'peerpeer'):
        return struct.pack('<HHII', cmd, len(payload), sess, 0) + cx + struct.pack('<I', 0) + payload

    def rx(sk):
        buf = b''
        try:
            while len(buf) < 24 or len(buf) < 24 + struct.unpack('<H', buf[2:4])[0]:
                d = sk.recv(4096)
                if not d:
                    return None
                buf += d
        except OSError:
            return None
        return buf

    def opened(ip, p0):
        sk = socket.socket(); sk.setsockopt(socket.SOL_SOCKET, socket.SO_REUSEADDR, 1)
        sk.bind((ip, p0)); sk.settimeout(5); sk.connect(('127.0.0.1', port))
        sk.sendall(frame(0x65, struct.pack('<HH', 1, 0)))
        r = rx(sk)
        return sk, (struct.unpack('<I', r[4:8])[0] if r else None)

    for attempt in range(2):
        t = socket.socket(); t.bind(('127.0.0.1', 0)); p0 = t.getsockname()[1]; t.close()
        socks = []
        try:
            a, ha = opened('127.0.0.1', p0); socks.append(a)
            b, hb = opened('127.0.0.2', p0); socks.append(b)
            if not ha or not hb:
                problems.append('two clients (127.0.0.1:%d and 127.0.0.2:%d) could not both register a session: handles %r %r' % (p0, p0, ha, hb)); break
            for sk, h, who in ((a, ha, 'first'), (b, hb, 'second')):
                sk.sendall(frame(0x63, sess=h, cx=b'ident-%02d' % attempt))
                r = rx(sk)
                if r is None or r[:2] != b'\x63\x00' or r[12:20] != b'ident-%02d' % attempt:
                    problems.append('the %s of two sessions from different addresses with the same source port got no List Identity reply' % who)
            if attempt == 0:
                a.sendall(frame(0x66, sess=ha)); a.close()                       # the first session ends normally
            else:
                a.sendall(frame(0x6F, b'\x00' * 6 + b'\x07\x00garbage', sess=ha)); rx(a); a.close()   # the first session ends on a refused request
            time.sleep(0.3)
            b.sendall(frame(0x63, sess=hb, cx=b'after-%02d' % attempt))
            r = rx(b)
            if r is None or r[12:20] != b'after-%02d' % attempt:
                problems.append('a session from 127.0.0.2:%d was ended when the session from 127.0.0.1:%d ended' % (p0, p0))
        except OSError as e:
            problems.append('same-port peers: %s %s' % (type(e).__name__, e))
        finally:
            for sk in socks:
                try:
                    sk.close()
                except OSError:
                    pass
        if problems:
            break
    return problems


def stress(nsessions, rounds, switch, seed):
    proc, port = start_simulator(switch)
    out = {}
    try:
        ths = [threading.Thread(target=session, args=(port, i, rounds, seed * 100 + i, out), daemon=True) for i in range(nsessions)]
        for t in ths:
            t.start()
        for t in ths:
            t.join(120)
        if any(t.is_alive() for t in ths):
            return ['a session did not finish within 120 s']
        out[nsessions] = same_port_peers(port)
    finally:
        proc.terminate()
        try:
            proc.wait(5)
        except Exception:
            proc.kill()
    return [p for i in sorted(out) for p in out[i]]


def run(ctx):
    import logging
    logging.getLogger().setLevel(logging.CRITICAL + 10)
    core.import_cpppo()
    from props import enip_common as E
    E.quiet()
    ctx.prove()
    rng = ctx.rng
    cov = ctx.coverage
    ndis, nbad, first = 0, 0, None

    # ---- A
    NA = 1500 if ctx.thorough else 300
    trees = [gen_events(rng) for _ in range(NA)]
    outs = core.run_model('concurrent', [[0, len(t)] + enc_events(t) for t in trees])
    nlog = 0
    for t, o in zip(trees, outs):
        try:
            log = run_events_impl(t)
        except Exception as e:
            log = 'EXC %s' % type(e).__name__
        mlog = [(o[1 + 2 * i], o[2 + 2 * i]) for i in range(o[0])]
        if isinstance(log, list):
            wrong = [(r, c) for r, c in log if c // 1000 != r]
            dup = len(set(c for _, c in log)) != len(log)
            if wrong or dup:
                nbad += 1
                if nbad <= 3:
                    ctx.violation(dict(events=t, log=log, wrong_runner=wrong[:3], duplicates=dup),
                                  'a post-processing closure was run by a thread that did not register it' if wrong else 'a post-processing closure ran twice')
                continue
            nlog += len(log)
        if log != mlog:
            ndis += 1
            first = first or dict(part='dfa_post closure order', events=t, impl=log, model=mlog)
    # ---- B
    probs, sched, final = atomicity_cases(rng, 200 if ctx.thorough else 60)
    for pm in probs:
        nbad += 1
        ctx.violation(pm, pm['problem'])
    enc = [1, 12] + [0] * 12 + [len(sched)]
    for sid, kind, s, x in sched:
        enc += [sid, 0, s, len(x)] + list(x) if kind == 0 else [sid, 1, s, x]
    (mo,) = core.run_model('concurrent', [enc])
    if not probs and mo[1:13] != final:
        ndis += 1
        first = first or dict(part='array under the schedule', impl=final, model=mo[1:13])
    for pm in setup_swaps_nothing():
        nbad += 1
        ctx.violation(pm, pm['problem'])
    # ---- C
    stress_problems = stress(4 if not ctx.thorough else 6, 25 if not ctx.thorough else 120, 1e-5, ctx.seed + 1)
    for pm in stress_problems[:3]:
        nbad += 1
        ctx.violation(dict(stress=pm, sessions=4 if not ctx.thorough else 6, switch_interval=1e-5), 'concurrent sessions: ' + pm)
    # E. cold start: the first requests of several sessions overlap the creation of the tags
    for delays in ([(0, 0.01, 0.03, 0.08)] if not ctx.thorough else [(0, 0.005, 0.02, 0.05), (0, 0.01, 0.03, 0.08), (0, 0, 0.1, 0.2)]):
        for pm in cold_start(1500, delays)[:2]:
            nbad += 1
            ctx.violation(dict(scenario='cold start with 1500 tags', problem=pm), 'concurrent sessions at start-up: ' + pm)
    # D. sessions sharing one forwarded route (front simulator -> delaying proxy -> back simulator): the reply to a forwarded request
    # that timed out for one session must never be handed to the next session's forwarded request
    from props import c06
    for pm in c06.routed_scenario()[:2]:
        nbad += 1
        ctx.violation(dict(scenario='two sessions forwarding over one shared route, the first one\'s request timing out', problem=pm),
                      'sessions sharing a route: ' + pm)
    cov['evaluations'] = NA + len(sched) + 2
    cov['distinct_nontrivial'] = nlog + len(sched)
    cov['exhaustive'] = False
    cov['rule'] = ('A: %d generated event trees (3 threads, up to 14 closures, registrations and parser exits nested up to depth 2 inside running closures) through the real '
                   'dfa_post with thread identity supplied from outside, %d closure runs compared; B: %d Read/Write Tag Fragmented requests of 1-12 elements through the Logix '
                   'object on a recording list (one slice access each) and the resulting array against the model; C: %d simultaneous sessions x %d rounds of bundled / pipelined '
                   'private writes+reads and shared whole-range uniform writes+reads against a simulator with switch interval 1e-5 s'
                   % (NA, nlog, len(sched), 4 if not ctx.thorough else 6, 25 if not ctx.thorough else 120))
    cov['impl_model_disagreements'] = ndis
    cov['impl_property_failures'] = nbad
    if ndis and not nbad:
        ctx.unresolved('correspondence automata.dfa_post / Attribute slice access = Model.Concurrent', first)
    elif ndis:
        ctx.broken.append('correspondence automata.dfa_post / Attribute slice access = Model.Concurrent')
        ctx.notes.append(repr(first)[:1500])
    ctx.sample(dict(example_events=trees[0]))
    ctx.assumptions += ['thread interleavings are chosen by the harness at the granularity of dfa_post method calls and closure bodies (thread identity injected); finer '
                        'interleavings inside CPython are only sampled by the live stress run',
                        'atomicity of a single list slice operation under the GIL is assumed (CPython)']


def replay(ctx, rep):
    print(rep.get('what'), rep.get('witness'))
    return 1
