"""C11 — regular-expression machines accept exactly the expression's language.
Theorems: coq/Properties/C11.v over coq/Model/Regex.v (derivative semantics, longest viable prefix).
Tie: correspondence — all expressions up to a size bound over a small alphabet x all strings up to a length
bound through cpppo.regex / cpppo.regex_bytes (whole and in chunks) against the extracted reference run; the
dumped machine graphs are also run through the engine model (Model/Engine.v)."""
import json, os
import itertools
from vlib import core
from props import engine_common as G

ALPHA = 'ab'


# AST: ('set', neg, 'chars') | ('cat', a, b) | ('alt', a, b) | ('star', a) | ('plus', a) | ('opt', a) | ('rep', m, n, a)
def show(r, top=True):
    k = r[0]
    if k == 'set':
        neg, cs = r[1], r[2]
        if neg and not cs:
            return '.'
        if not neg and len(cs) == 1:
            return esc(cs)
        return '[' + ('^' if neg else '') + ''.join(esc(c) for c in cs) + ']'
    if k == 'cat':
        return ''.join(show(x, False) if x[0] != 'alt' else '(' + show(x) + ')' for x in r[1:])
    if k == 'alt':
        s = '|'.join(show(x, False) for x in r[1:])
        return s if top else '(' + s + ')'
    inner = show(r[-1], False)
    if r[-1][0] in ('cat', 'star', 'plus', 'opt', 'rep') or (r[-1][0] == 'alt'):
        inner = inner if inner.startswith('(') and r[-1][0] == 'alt' else '(' + show(r[-1]) + ')'
    if k == 'star':
        return inner + '*'
    if k == 'plus':
        return inner + '+'
    if k == 'opt':
        return inner + '?'
    return inner + '{%d,%d}' % (r[1], r[2])


def esc(c):
    return '\\' + c if c in '.[]()*+?{}|\\^$' else c


def core_re(r):
    """AST -> core forms (cat/alt/star/set/eps) as flat ints for the model"""
    k = r[0]
    if k == 'set':
        return [2, 1 if r[1] else 0, len(r[2])] + [ord(c) for c in r[2]]
    if k == 'cat':
        return [3] + core_re(r[1]) + core_re(r[2])
    if k == 'alt':
        return [4] + core_re(r[1]) + core_re(r[2])
    if k == 'star':
        return [5] + core_re(r[1])
    if k == 'plus':
        a = core_re(r[1]); return [3] + a + [5] + a
    if k == 'opt':
        return [4] + core_re(r[1]) + [1]
    m, n, a = r[1], r[2], core_re(r[3])
    def pw(j):
        return [1] if j == 0 else [3] + a + pw(j - 1)
    def upto(j):
        return [1] if j == 0 else [4, 3] + a + upto(j - 1) + [1]
    return [3] + pw(m) + upto(n - m)


def atoms(extra=''):
    out = [('set', False, c) for c in ALPHA + extra]
    out += [('set', True, ''), ('set', False, 'ab'), ('set', True, 'a'), ('set', True, 'ab')]
    return out


def enumerate_res(size, extra=''):
    """all expressions with at most `size` operators"""
    level = {0: atoms(extra)}
    for n in range(1, size + 1):
        cur = []
        for a in level[n - 1]:
            cur += [('star', a), ('plus', a), ('opt', a)]
            if a[0] not in ('star', 'plus', 'opt', 'rep'):
                cur += [('rep', 1, 2, a), ('rep', 0, 2, a), ('rep', 2, 3, a)]
        for i in range(n):
            for a in level[i]:
                for b in level[n - 1 - i]:
                    cur.append(('cat', a, b))
                    if i <= n - 1 - i:
                        cur.append(('alt', a, b))
        level[n] = cur
    out = []
    for n in range(size + 1):
        out += level[n]
    return out


def parse_re(text):
    """regex text (the subset show() prints) -> AST; used for the hand-written corpus of larger expressions"""
    pos = [0]

    def peek():
        return text[pos[0]] if pos[0] < len(text) else None

    def alt():
        a = cat()
        while peek() == '|':
            pos[0] += 1
            a = ('alt', a, cat())
        return a

    def cat():
        items = []
        while peek() is not None and peek() not in '|)':
            items.append(post())
        if not items:
            raise ValueError('empty branch')
        a = items[-1]
        for x in reversed(items[:-1]):
            a = ('cat', x, a)
        return a

    def post():
        a = atom()
        while peek() is not None and peek() in '*+?{':
            c = peek(); pos[0] += 1
            if c == '*':
                a = ('star', a)
            elif c == '+':
                a = ('plus', a)
            elif c == '?':
                a = ('opt', a)
            else:
                j = text.index('}', pos[0]); m, n = text[pos[0]:j].split(','); pos[0] = j + 1
                a = ('rep', int(m), int(n), a)
        return a

    def atom():
        c = peek(); pos[0] += 1
        if c == '(':
            a = alt(); assert peek() == ')'; pos[0] += 1
            return a
        if c == '.':
            return ('set', True, '')
        if c == '[':
            neg = peek() == '^'
            if neg:
                pos[0] += 1
            j = text.index(']', pos[0]); cs = text[pos[0]:j]; pos[0] = j + 1
            return ('set', neg, cs)
        return ('set', False, c)
    a = alt()
    assert pos[0] == len(text)
    return a


# larger classic shapes (loops of several states left at their head or in the middle, nested loops, overlapping branches,
# counted repeats): every tier runs all of them on every string over {a,b,c} up to length 5
CORPUS = ['(ab)*c', 'a(bc)*a', 'a(bc)*b', 'c|(ab)*c', '(ab|ba)*c', '(a(bc)*)+', '((ab)*c)*', '(abc)*', '(ab)+c', 'a*b.*c', '(a|b)*abb',
          '(a*b*)*c', '(ab?c)*', 'a{2,3}b', '(ab){1,2}c', '(a|bc)+', '[ab]*c[ab]*', '(.b)*c', '([^a]b)*a', '(ab*c)+', 'a(b|c)*a',
          '(a|b)*c(a|b)*', '(aa|b)*', '(ab|a)*b', '((a|b)(a|c))*', '(abc|ab|a)+', 'a?b?c?', '(a+b+)+c', '.*abc', '(ab)*(ba)*',
          '(ba)*c', 'b(ca)*b', '(cb)*a', '(bc|a)*c', 'c(ab)*c', '(abc)*b', '(ca)*b|a']


def strings(alpha, maxlen):
    for n in range(maxlen + 1):
        for t in itertools.product(alpha, repeat=n):
            yield ''.join(t)


_MACHINES = {}        # one machine per expression, reused for all inputs (delegate() resets it at the start of every run)


_GREENERY = {}


def greenery_str(rx):
    import greenery.lego
    return str(greenery.lego.parse(rx))


def greenery_wrong(rx):
    """does the third-party regex library's OWN automaton for rx (before cpppo translates it) differ from Python's re on short strings?"""
    if rx not in _GREENERY:
        import greenery.lego, greenery.fsm, re as _re
        f = greenery.lego.parse(rx).fsm()
        bad = False
        for n in range(0, 5):
            for t in itertools.product('abc', repeat=n):
                w = ''.join(t)
                try:
                    # symbols the automaton does not name individually travel on its "anything else" edge
                    g = f.accepts([c if c in f.alphabet else greenery.lego.otherchars for c in w])
                except Exception:
                    g = False
                if g != bool(_re.fullmatch(rx, w)):
                    bad = True; break
            if bad:
                break
        _GREENERY[rx] = bad
    return _GREENERY[rx]


def impl_regex(rx, inp, bytes_mode=False, chunks=None, greedy=None):
    """-> ('ok', consumed, stored) | ('nonterminal',) | ('other', name)"""
    import cpppo
    from cpppo import automata as A, dotdict
    key = (rx, bytes_mode, greedy)
    m = _MACHINES.get(key)
    if m is None:
        try:
            if sum(map(ord, rx)) % 3 == 0:
                # for a third of the expressions a machine that DROPS its input is built first from the very same expression: machines are
                # independent of one another, whatever was built before
                (A.regex_bytes if bytes_mode else A.regex)(initial=rx, context='r', terminal=True, regex_states=A.state_drop)
            m = (A.regex_bytes if bytes_mode else A.regex)(initial=rx, context='r', terminal=True, **({} if greedy is None else {'greedy': greedy}))
        except Exception as e:
            return ('build', type(e).__name__)
        if len(_MACHINES) > 400:
            _MACHINES.clear()
        _MACHINES[key] = m
    data = inp.encode('utf-8') if bytes_mode else inp
    if chunks is None:
        r = G.impl_run(m, data)
    else:
        source = cpppo.chainable()
        d = dotdict()
        pending = list(chunks)
        try:
            with m as mm:
                for mch, sta in mm.run(source=source, data=d):
                    if sta is not None or source.peek() is not None:
                        continue
                    if not pending:
                        break
                    source.chain(pending.pop(0))
                term = mm.terminal
            r = ('ok', source.sent, term, {'r.input': ('b', [G.sym(c) for c in d.get('r.input', [])])} if 'r.input' in d else {})
            if not term:
                r = ('fail', 2)
        except A.NonTerminal:
            r = ('fail', 2)
        except AssertionError:
            r = ('fail', 1)
        except Exception as e:
            r = ('fail', 4)
    if r[0] == 'fail':
        return ('nonterminal',) if r[1] == 2 else ('other', r[1])
    stored = r[3].get('r.input', ('b', []))[1]
    if not r[2]:
        return ('nonterminal',)
    return ('ok', r[1], list(stored))


BYTES_RES = ['\xe9+', '(a|b)*', '\xe9', '.[^\u03c0]', '[^\u03c0]+', '[^\u03c0]*', '\xe9*', '\xff+', '\x80+', '.\xe9+', '\xe9\xe9', '(\xe9\xe9)*',
             '\u03c0+', '\u20ac+', '\u20ac*', '\u20ac', '\u20ac\u20ac', '.\u20ac', '\U0001F600+', 'a+\xe9', '\xe9a*']
BYTES_ALPHA = 'a\xe9\u03c0\u03c1\u20ac\U0001F600'


_SUBM = {}


def impl_regex_sub(rx, enc):
    import cpppo
    from cpppo import automata as A, dotdict
    m = _SUBM.get(rx)
    if m is None:
        m = _SUBM[rx] = A.regex_bytes(initial=rx, context='r', regex_context='sub', terminal=True)
    source = cpppo.chainable(enc); d = dotdict()
    try:
        with m as mm:
            for mch, sta in mm.run(source=source, data=d):
                pass
            term = mm.terminal
    except A.NonTerminal:
        return ('nonterminal',)
    except Exception as e:
        return ('other', type(e).__name__)
    if not term:
        return ('nonterminal',)
    return ('ok', source.sent, list(bytearray(d['r.sub.input'])) if 'r.sub.input' in d else [])


def lowbyte_machines(report):
    return latin1_machines(report, rxs=('[^\x01]+', '.[^\x01]', '\x01+', '(\x01a)*', 'a[^\x01]*\x01', '[\x00\x01\x02][\x01\x02]', '[^\x00]\x00?', '\x02*\x01', '.\x00|\x01'),
                           alpha='\x00\x01\x02a', enc=None, what='the default encoder, over the byte values 0, 1, 2')


def latin1_machines(report, rxs=None, alpha=None, enc=0, what=None):
    """Bytes machines given an encoder of their own (ISO-8859-1, the encoding of tag names): the language over the bytes THAT encoder
    produces, judged by the reference derivative semantics over characters (one character = one byte here).  -> runs"""
    import cpppo
    from cpppo import automata as A, dotdict
    custom = enc == 0
    enc = (lambda s: s.encode('iso-8859-1')) if custom else (lambda s: s.encode('utf-8'))
    what = what or 'an ISO-8859-1 encoder'
    n = 0
    for rx in (rxs or ('\xe9+', 'a*\xe9', 'a+b', '(a\xe9)*a', '\xff+a', '[^\xe9]+\xe9?', '\xe9\xb5*', 'a|\xe9\xe9')):
        try:
            m = A.regex_bytes(initial=rx, context='r', terminal=True, **({'regex_encoder': enc} if custom else {}))
        except Exception as e:
            report(dict(regex=rx, machine=what), 'a bytes machine with %s cannot be built: %s' % (what, type(e).__name__)); continue
        r = parse_re(rx)
        cr = core_re(r)
        inputs = [s for s in strings(alpha or 'a\xe9\xffb\xb5', 3)]
        outs = core.run_model('regex', [cr + [len(s)] + [ord(c) for c in s] for s in inputs])
        for s, o in zip(inputs, outs):
            n += 1
            source = cpppo.chainable(enc(s)); d = dotdict()
            try:
                with m as mm:
                    for _ in mm.run(source=source, data=d):
                        pass
                    term = mm.terminal
                io = ('ok', source.sent, list(bytearray(d.get('r.input', b'')))) if term else ('nonterminal',)
            except A.NonTerminal:
                io = ('nonterminal',)
            except Exception as e:
                io = ('other', type(e).__name__)
            mo = ('ok', o[1], list(enc(s[:o[1]]))) if o[0] == 1 else ('nonterminal',)
            if io != mo:
                report(dict(regex=rx, machine_with=what, input=s, machine=repr(io), standard=repr(mo)),
                       'a bytes machine with %s does not accept the expression\'s language over the bytes that encoder produces' % what)
                break
    return n


def bytes_deviations(thorough, chunk_report=None):
    """every bytes machine of BYTES_RES on every string over BYTES_ALPHA (whole, and at every 2-way chunking where the whole run
    is right) -> (regex, input, machine result, standard semantics) for every run"""
    binputs = list(strings(BYTES_ALPHA, 4 if thorough else 3)) + ['\xff', '\xff\xff', '\x80\x80a', 'a\xff', '\xe9\xff']
    rows = []
    for rx in BYTES_RES:
        r = parse_re(rx)
        if impl_regex(rx, '', bytes_mode=True)[0] == 'build':
            continue                                   # refused at construction (documented: a multi-byte symbol next to other edges)
        cr = core_re(r)
        outs = core.run_model('regex', [cr + [len(s)] + [ord(c) for c in s] for s in binputs])
        for s, o in zip(binputs, outs):
            enc = s.encode('utf-8')
            whole = impl_regex(rx, s, bytes_mode=True)
            if o[0] == 1:
                pre = s[:o[1]].encode('utf-8'); mo = ('ok', len(pre), list(pre))
            else:
                mo = ('nonterminal',)
            rows.append((rx, s, whole, mo))
            if whole == mo and chunk_report is not None and whole[0] == 'ok' and len(s) <= 2:
                # the same expression built with a data context of its own for the symbols (regex_context): the consumed bytes - every
                # byte of every multi-byte symbol - are stored there
                sub = impl_regex_sub(rx, enc)
                if sub != whole:
                    chunk_report(dict(regex=rx, input=s, regex_context='sub', plain=repr(whole), with_regex_context=repr(sub)),
                                 'a bytes machine built with regex_context stores something else than the bytes it consumed')
            if whole == mo and chunk_report is not None:
                for k in range(1, len(enc)):
                    ch = impl_regex(rx, s, bytes_mode=True, chunks=[enc[:k], enc[k:]])
                    if ch != whole:
                        chunk_report(dict(regex=rx, input=s, split_at=k, whole=repr(whole), chunked=repr(ch)),
                                     'regex machine result depends on how the input is chunked')
    return rows


def run(ctx):
    ctx.prove()
    rng = ctx.rng
    size = 2
    maxlen = 5 if ctx.thorough else 4
    res = enumerate_res(size)
    if not ctx.thorough:
        keep = [r for r in res if sum(1 for _ in str(r)) < 60]
        big = enumerate_res(3)
        res = keep[:40] + rng.sample(keep[40:], min(len(keep) - 40, 260)) + rng.sample(big[len(res):], 150)
    else:
        # every expression with <= 2 operators, plus a sample of those with 3
        big = enumerate_res(3)
        res = res + rng.sample(big[len(res):], 1500)
    # the expressions used inside cpppo itself
    lib = [(r'.*', ('star', ('set', True, ''))), (r'\d+', None), (r'[^\x00]*', None)]
    inputs = list(strings(ALPHA + 'c', maxlen))
    ndis, nbad, first = 0, 0, None
    nacc = 0
    ncases = 0
    nontriv = set()
    sample_rows = []
    gseen = set()
    chunk_bad = []
    # always exercised: the shapes of the recorded greenery finding
    res = res + [('opt', ('cat', ('set', False, 'a'), ('plus', ('set', False, 'a')))), ('opt', ('cat', ('plus', ('set', False, 'b')), ('set', False, 'b'))),
                 ('star', ('cat', ('set', False, 'a'), ('plus', ('set', False, 'a'))))]
    CH = 120
    all5 = list(strings(ALPHA + 'c', 5))
    res = [(show(r), r, False) for r in res] + [(t, parse_re(t), True) for t in CORPUS]
    for c0 in range(0, len(res), CH):
        cases, meta = [], []
        for rx, r, full in res[c0:c0 + CH]:
            cr = core_re(r)
            for s in (all5 if full else inputs if ctx.thorough else rng.sample(inputs, min(len(inputs), 60))):
                cases.append(cr + [len(s)] + [ord(c) for c in s]); meta.append((rx, r, s))
        outs = core.run_model('regex', cases)
        ncases += len(cases)
        for (rx, r, s), o in zip(meta, outs):
            io = impl_regex(rx, s)
            if o[0] == 1:
                mo = ('ok', o[1], [ord(c) for c in s[:o[1]]]); nacc += 1
                if len(nontriv) < 200000:
                    nontriv.add((rx, s))
            else:
                mo = ('nonterminal',)
            if io != mo:
                # the reference is the standard semantics (C11_run): a disagreement is a failing input.  Whose fault?  If the
                # regex library's own automaton already differs from the standard language, it is the recorded greenery finding
                if greenery_wrong(rx):
                    if rx not in gseen:
                        gseen.add(rx)
                        ctx.violation(dict(regex=rx, input=s, machine=repr(io), standard_semantics=repr(mo), greenery_reduces_it_to=greenery_str(rx)),
                                      'regex machine accepts a different language (the regex library reduces the expression wrongly)',
                                      known_key='C11/greenery-optional-unbounded-repeat')
                    continue
                ndis += 1
                first = first or dict(regex=rx, input=s, impl=repr(io), reference=repr(mo))
                nbad += 1
                if nbad <= 3:
                    ctx.violation(dict(regex=rx, input=s, machine=repr(io), standard_semantics=repr(mo)),
                                  'regex machine does not consume/accept the longest viable prefix of the input')
        if len(sample_rows) < 4 and meta:
            sample_rows.append((meta[0][0], meta[0][2], outs[0]))
    # machines built non-greedy (the default of the string wrappers): however the input is chunked, the result is that of the whole input
    nng = 0
    for rx in CORPUS + ['a+b*', 'a*', '(ab)+', '[ab]+c?', 'a{1,3}']:
        for s in rng.sample(all5, 25 if not ctx.thorough else 120):
            whole = impl_regex(rx, s, greedy=False)
            for size in (1, 2):
                nng += 1
                ch = impl_regex(rx, s, greedy=False, chunks=[s[i:i + size] for i in range(0, len(s), size)]) if s else whole
                if ch != whole:
                    nbad += 1
                    if nbad <= 3:
                        ctx.violation(dict(regex=rx, greedy=False, input=s, chunk_size=size, whole=repr(whole), chunked=repr(ch)),
                                      'regex machine result depends on how the input is chunked')
                    break
    ctx.coverage['non_greedy_chunked_runs'] = nng
    # bytes machines with multi-byte symbols (2-, 3- and 4-byte UTF-8, Latin-1 range included), and chunked feeding
    nb = 0
    nknown = 0
    known_dev = json.load(open(os.path.join(core.VERIF, 'known', 'c11_bytes.json')))
    for rx, s, whole, mo in bytes_deviations(ctx.thorough, chunk_report=lambda w, what: chunk_bad.append((w, what))):
        nb += 1
        if whole == mo:
            continue
        rec = known_dev.get(rx + '\x00' + s)
        if rec is not None and rec[0] == repr(whole):
            # bytes machines are not faithful on multi-byte *input* symbols: recorded findings, identified input by input
            nknown += 1
            ctx.violation(dict(regex=rx, input=s, machine=repr(whole), standard_semantics=repr(mo)),
                          'bytes regex machine deviates on multi-byte input', known_key=rec[1])
            continue
        ndis += 1
        first = first or dict(regex=rx, input=s, mode='bytes', impl=repr(whole), reference=repr(mo))
        nbad += 1
        if nbad <= 6:
            ctx.violation(dict(regex=rx, input=s, mode='bytes', machine=repr(whole), standard_semantics=repr(mo)),
                          'bytes regex machine does not consume/accept the longest viable prefix of the input')
    ctx.coverage['runs_of_machines_with_an_iso_8859_1_encoder'] = latin1_machines(lambda w, what: chunk_bad.append((w, what)))
    ctx.coverage['runs_of_bytes_machines_over_low_byte_values'] = lowbyte_machines(lambda w, what: chunk_bad.append((w, what)))
    for w, what in chunk_bad[:3]:
        nbad += 1
        ctx.violation(w, what)
    # engine model on the dumped graphs (ties Model/Engine.v to the same machines)
    from cpppo import automata as A
    eng, emeta = [], []
    for rx, r, _ in res[:: max(1, len(res) // (120 if ctx.thorough else 40))]:
        try:
            m = A.regex(initial=rx, context='r', terminal=True)
            d = G.dump_machine(m)
        except Exception:
            continue
        for s in rng.sample(inputs, 12):
            eng.append((m, d, s)); emeta.append((rx, s))
    neng = 0
    for (rx, s), (ir, mr) in zip(emeta, G.run_both(eng)):
        neng += 1
        if not G.same(ir, mr):
            ndis += 1
            first = first or dict(kind='engine model', regex=rx, input=s, impl=repr(ir)[:300], model=repr(mr)[:300])
    cov = ctx.coverage
    cov['evaluations'] = ncases + nb + neng
    cov['distinct_nontrivial'] = len(nontriv)
    cov['exhaustive'] = bool(ctx.thorough)
    cov['rule'] = ('all expressions with <= %d operators (%s; thorough adds 1500 sampled expressions with 3 operators) over atoms {a, b, ., [ab], [^a], [^ab]} with * + ? {m,n} | and concatenation, each on '
                   '%s strings over {a,b,c} up to length %d; 7 expressions with multi-byte symbols as bytes machines on all strings over {a,b,e-acute} '
                   'whole and at every 2-way chunking; a sample of the machine graphs also through the engine model; non-trivial = accepted runs'
                   % (size, 'exhaustive' if ctx.thorough else 'sampled', 'all' if ctx.thorough else '60 sampled', maxlen))
    cov['expressions'] = len(res)
    cov['accepted_runs'] = nacc
    cov['bytes_multibyte_input_deviations_matching_known_findings'] = nknown
    cov['impl_model_disagreements'] = ndis
    cov['impl_property_failures'] = nbad
    if ndis and not nbad:
        ctx.unresolved('correspondence cpppo regex machines = Model.Regex.rrun / Model.Engine.run', first)
    elif ndis:
        ctx.broken.append('correspondence cpppo regex machines = Model.Regex.rrun')
    for rx, s_, o in sample_rows:
        ctx.sample(dict(regex=rx, input=s_, reference=o))
    ctx.assumptions += ['greenery (regex -> DFA) is third-party: exercised, not verified; the reference semantics is independent of it',
                        'a negated class always leaves some symbol (unbounded alphabet)']


def replay(ctx, rep):
    w = rep['witness']
    print(w, impl_regex(w['regex'], w['input']))
    return 1
