"""Shared correspondence harness for the tag-store model (Model/Logix.v): C03 C04 C05 C07.

A *case* = (maxb, tags, reqs):
  tags: list of dict(name, ty, scalar, n, addr=None|(c,i,a), init=[vals])
  reqs: list of request tuples (see enc_req)
Values are ('i', int) | ('r', bits32) | ('l', bits64).
The implementation is driven in-process: a fresh device directory per case (lookup_reset +
logix.setup), requests are dotdicts handed to the Message Router object's .request(), the
observation per request is bytes(data.input) (or 'EXC') plus a hash of the full tag-store image."""
import struct, logging
from vlib import core

TY = dict(BOOL=193, SINT=194, INT=195, DINT=196, LINT=197, USINT=198, UINT=199, UDINT=200, ULINT=201, REAL=202, LREAL=203)
TYN = {v: k for k, v in TY.items()}
SIZ = dict(BOOL=1, SINT=1, USINT=1, INT=2, UINT=2, DINT=4, UDINT=4, REAL=4, LINT=8, ULINT=8, LREAL=8)
RNG = dict(BOOL=(0, 1), SINT=(-128, 127), INT=(-32768, 32767), DINT=(-2**31, 2**31 - 1), LINT=(-2**63, 2**63 - 1),
           USINT=(0, 255), UINT=(0, 65535), UDINT=(0, 2**32 - 1), ULINT=(0, 2**64 - 1))
MOD = 2305843009213693951
SIBLING = dict(SINT='USINT', USINT='SINT', INT='UINT', UINT='INT', DINT='UDINT', UDINT='DINT', LINT='ULINT', ULINT='LINT', REAL='UDINT', LREAL='ULINT', BOOL='USINT')
QUIRKS = 3   # model behaviour switches: 3 = current /repo (both fixes), 0 = originally pinned tree


def _cls():
    from cpppo.server.enip import parser
    return dict(BOOL=parser.BOOL, SINT=parser.SINT, INT=parser.INT, DINT=parser.DINT, LINT=parser.LINT, USINT=parser.USINT,
                UINT=parser.UINT, UDINT=parser.UDINT, ULINT=parser.ULINT, REAL=parser.REAL, LREAL=parser.LREAL)


def py_val(v):
    k, x = v
    if k == 'i':
        return int(x)
    if k == 'r':
        return struct.unpack('<f', struct.pack('<I', x))[0]
    return struct.unpack('<d', struct.pack('<Q', x))[0]


def py_req_val(ty, v):
    """The Python object the parser would hand over for a value of request type ty."""
    if ty == 'BOOL':
        return bool(v[1])
    return py_val(v)


def enc_val(v):
    return [{'i': 0, 'r': 1, 'l': 2}[v[0]], v[1]]


def enc_opt(x):
    return [0, 0] if x is None else [1, x]


def enc_path(p, names):
    if p[0] == 'sym':
        return [0, names.setdefault(p[1].lower(), len(names))] + enc_opt(p[2])
    _, c, i, a, e = p
    return [1, c, i] + enc_opt(a) + enc_opt(e)


def enc_req(r, names):
    k = r[0]
    if k == 'read':
        return [0] + enc_path(r[1], names) + [r[2]]
    if k == 'readf':
        return [1] + enc_path(r[1], names) + [r[2], r[3]]
    if k == 'write':
        return [2] + enc_path(r[1], names) + [r[2], r[3], len(r[4])] + [x for v in r[4] for x in enc_val(v)]
    if k == 'writef':
        return [3] + enc_path(r[1], names) + [r[2], r[3], r[4], len(r[5])] + [x for v in r[5] for x in enc_val(v)]
    if k == 'get':
        return [4] + enc_path(r[1], names)
    if k == 'set':
        return [5] + enc_path(r[1], names) + [len(r[2])] + list(r[2])
    if k == 'multi':
        out = [6, len(r[1])]
        for m in r[1]:
            out += enc_req(m, names)
        return out
    raise ValueError(k)


def layout(tags):
    """Addresses as logix.setup assigns them: auto tags get Message Router (2/1) attributes 1,2,..."""
    nxt = 1
    addrs = []
    for t in tags:
        if t.get('addr'):
            addrs.append(tuple(t['addr']))
        else:
            addrs.append((2, 1, nxt)); nxt += 1
    return addrs


def enc_case(case):
    maxb, tags, reqs = case
    names = {}
    out = [QUIRKS, maxb, len(tags)]
    for t in tags:
        out += [TY[t['ty']], 1 if t['scalar'] else 0, len(t['init'])] + [x for v in t['init'] for x in enc_val(v)]
    addrs = layout(tags)
    out += [len(tags)]
    for k, a in enumerate(addrs):
        out += [a[0], a[1], a[2], k]
    out += [len(tags)]
    for t, a in zip(tags, addrs):
        out += [names.setdefault(t['name'].lower(), len(names)), a[0], a[1], a[2]]
    out += [len(reqs)]
    for r in reqs:
        out += enc_req(r, names)
    return out


def dec_model(out, nreq):
    """-> (list of (bytes|None, hash), final dump list) or raises"""
    i, obs = 0, []
    for _ in range(nreq):
        n = out[i]; i += 1
        if n < 0:
            b = None
        else:
            b = bytes(out[i:i + n]); i += n
        h = out[i]; i += 1
        obs.append((b, h))
    if out[i] != 9999:
        raise core.HarnessError('model output framing')
    return obs, out[i + 1:]


# ---- implementation side -------------------------------------------------------------------------

def py_path(p):
    if p[0] == 'sym':
        seg = [{'symbolic': p[1]}]
        if p[2] is not None:
            seg.append({'element': p[2]})
        return {'segment': seg}
    _, c, i, a, e = p
    seg = [{'class': c}, {'instance': i}]
    if a is not None:
        seg.append({'attribute': a})
    if e is not None:
        seg.append({'element': e})
    return {'segment': seg}


def py_req(r):
    from cpppo import dotdict
    k = r[0]
    d = dotdict()
    if k == 'multi':
        d.service = 0x0A
        d.path = {'segment': [{'class': 2}, {'instance': 1}]}
        d.multiple = dotdict()
        d.multiple.request = [py_req(m) for m in r[1]]
        return d
    d.path = py_path(r[1])
    if k == 'read':
        d.service = 0x4C; d.read_tag = dotdict(elements=r[2])
    elif k == 'readf':
        d.service = 0x52; d.read_frag = dotdict(elements=r[2], offset=r[3])
    elif k == 'write':
        tn = TYN.get(r[2])
        d.service = 0x4D
        d.write_tag = dotdict(type=r[2], elements=r[3], data=[py_req_val(tn, v) for v in r[4]])
    elif k == 'writef':
        tn = TYN.get(r[2])
        d.service = 0x53
        d.write_frag = dotdict(type=r[2], elements=r[3], offset=r[4], data=[py_req_val(tn, v) for v in r[5]])
    elif k == 'get':
        d.service = 0x0E; d.get_attribute_single = True
    elif k == 'set':
        d.service = 0x10; d.set_attribute_single = dotdict(data=list(r[2]))
    return d


def wire_form(r):
    if r[0] == 'multi':
        return all(wire_form(m) for m in r[1])
    if r[0] == 'write':
        return len(r[4]) > 0 and r[2] in TYN      # an undefined type code has no producible / parseable typed data
    if r[0] == 'writef':
        return len(r[5]) > 0 and r[2] in TYN
    if r[0] == 'set':
        return len(r[2]) > 0
    return True


def dump_impl(attrs):
    out = []
    for att in attrs:
        vals = [att.value] if att.scalar else list(att.value)
        out.append(len(vals))
        for v in vals:
            try:
                bs = att.parser.produce(v)
                out += [1] + list(bs)
            except Exception:
                if isinstance(v, float):
                    out += [0, 2, struct.unpack('<Q', struct.pack('<d', v))[0]]
                else:
                    out += [0, 0, int(v)]
    return out


def hash_list(l):
    h = 0
    for x in l:
        h = (h * 1000003 + x + 7) % MOD
    return h


class Impl:
    """One configured simulator (in-process)."""

    def __init__(self, maxb, tags):
        from cpppo.server.enip import logix, device
        from cpppo import dotdict
        self.logix, self.device = logix, device
        logging.getLogger().setLevel(logging.ERROR + 10)
        logging.getLogger('enip.lgx').setLevel(logging.ERROR + 10)
        device.lookup_reset(); logix.setup_reset()
        cls = _cls()
        tg = dotdict()
        self.attrs = []
        # every third configuration is created the way a user does it: `NAME[@c/i/a]=TYPE[n]` on the simulator's command line,
        # through main() itself (the listener stubbed out), then given its initial values by plain element assignment
        self.via_main = (not any(t.get('int_init') for t in tags) and all(t['scalar'] == (t['n'] == 1) for t in tags) and hash_list([len(tags)] + [t['n'] for t in tags]) % 3 == 0
                         and all(ch.isalnum() or ch == '_' for t in tags for ch in t['name'])
                         and len({tuple(t['addr']) for t in tags if t.get('addr')}) == len([t for t in tags if t.get('addr')]))
        made = self._main_tags(tags) if self.via_main else None
        for t in tags:
            init = [py_val(v) for v in t['init']]
            if t['ty'] in ('REAL', 'LREAL') and not t.get('int_init'):
                init = [float(x) for x in init]          # (int_init: a REAL tag an application built from Python ints, [0]*n)
            if made is not None:
                ent = dict.__getitem__(made, t['name'])
                att = ent.attribute
                self.attrs.append(att)
                dict.__setitem__(tg, t['name'], ent)
                continue
            att = device.Attribute(t['name'], cls[t['ty']], default=(init[0] if t['scalar'] else init))
            self.attrs.append(att)
            ent = dotdict(attribute=att, error=0)
            if t.get('addr'):
                c, i, a = t['addr']
                ent.path = {'segment': [{'class': c}, {'instance': i}, {'attribute': a}]}
            dict.__setitem__(tg, t['name'], ent)
        self.saved_max = logix.Logix.MAX_BYTES
        logix.Logix.MAX_BYTES = maxb
        logix.setup(tags=tg)
        self.mr = device.lookup(2, 1)
        self.wired = 0
        if made is not None:
            # main() creates zeroed tags: the initial values arrive the way a user's would, by Write Tag requests on the wire
            for t in tags:
                self.request(('write', ('sym', t['name'], None if t['scalar'] else 0), TY[t['ty']], t['n'], list(t['init'])))

    def _main_tags(self, tags):
        from cpppo.server.enip import main as M
        from cpppo.server import network
        got = {}
        saved = network.server_main
        def stub(**kw):
            got.update(kw)
            kw['kwargs']['server']['control']['done'] = True       # main() serves until told to stop
            return 0
        network.server_main = stub
        lvl = logging.getLogger().level
        try:
            specs = []
            for t in tags:
                at = '@%d/%d/%d' % tuple(t['addr']) if t.get('addr') else ''
                specs.append('%s%s=%s%s' % (t['name'], at, t['ty'], '' if t['scalar'] else '[%d]' % t['n']))
            # main() keeps its tags, options and server control in module globals (one simulator per process): start from a clean slate
            for g in (M.tags, M.options, M.srv_ctl):
                for k in list(dict.keys(g)):
                    dict.__delitem__(g, k)
            try:
                M.main(argv=['--no-udp', '-a', '127.0.0.1:0'] + specs)
            except AssertionError as e:
                import os
                if os.environ.get('LOGIX_DEBUG'):
                    print('main() refused', specs, e)
                return None                  # main() refuses the configuration (eg. two tags naming one attribute with different shapes)
        finally:
            network.server_main = saved
            logging.getLogger().setLevel(lvl)
        if 'kwargs' not in got or 'tags' not in got['kwargs']:
            raise core.HarnessError('main() did not hand its tags to the server')
        return got['kwargs']['tags']

    def close(self):
        self.logix.Logix.MAX_BYTES = self.saved_max

    def request(self, r):
        """The request travels as the simulator receives it: produced to wire bytes, parsed by the Message Router's own
        parser (as enip_srv_tcp / logix.process do), executed; the observation is the produced reply's bytes."""
        import cpppo
        from cpppo import dotdict
        d = py_req(r)
        if not wire_form(r):
            # a write carrying no data at all has no parseable wire form (the session parser rejects it: C06/C08); it can
            # only reach request() as a dict, so that is how it is issued
            try:
                self.mr.request(d)
                return bytes(d.input), d
            except Exception as e:
                self.last_exc = e
                return None, d
        try:
            wire = bytes(self.logix.Logix.produce(d))
            d = dotdict()
            src = cpppo.chainable(wire)
            with self.mr.parser as m:
                for _ in m.run(source=src, data=d):
                    pass
            if src.peek() is not None or not m.terminal:
                raise ValueError('request bytes not parsed completely')
            self.wired += 1
        except Exception as e:
            self.last_exc = e
            return None, d
        try:
            self.mr.request(d)
            b = bytes(d.input)
        except Exception as e:
            b = None
            self.last_exc = e
        return b, d

    def image(self):
        return dump_impl(self.attrs)


def run_impl(case, want_dumps=False):
    maxb, tags, reqs = case
    im = Impl(maxb, tags)
    try:
        obs = []
        for r in reqs:
            b, d = im.request(r)
            obs.append((b, hash_list(im.image())))
        return obs, im.image()
    finally:
        im.close()


def run_model(cases):
    outs = core.run_model('logix', [enc_case(c) for c in cases])
    res = []
    for c, o in zip(cases, outs):
        if o and o[0] < 0 and len(o) <= 2 and o != [-1]:
            raise core.HarnessError('model could not decode case: %r' % (o,))
        res.append(dec_model(o, len(c[2])))
    return res


# ---- generators ----------------------------------------------------------------------------------

def rand_val(rng, ty):
    if ty == 'REAL':
        while True:
            b = rng.choice([0, 0x3f800000, 0xbf800000, 0x7f800000, 0x00000001, 0x42280000, rng.getrandbits(32)])
            if (b >> 23) & 0xff != 0xff or (b & 0x7fffff) == 0:
                return ('r', b)
    if ty == 'LREAL':
        while True:
            b = rng.choice([0, 0x3ff0000000000000, 0xc045000000000000, 0x7ff0000000000000, 1, rng.getrandbits(64)])
            if (b >> 52) & 0x7ff != 0x7ff or (b & ((1 << 52) - 1)) == 0:
                return ('l', b)
    if ty == 'BOOL':
        return ('i', rng.randint(0, 1))
    lo, hi = RNG[ty]
    return ('i', rng.choice([lo, hi, 0, 1, hi - 1, lo + 1 if lo < 0 else 2, rng.randint(lo, hi), rng.randint(max(lo, -300), min(hi, 300)),
                              16777217 if hi > 16777217 else hi // 2, (hi // 3) | 1]))


def init_vals(rng, ty, n):
    if ty in ('REAL', 'LREAL'):
        return [('i', 0)] * n if rng.random() < 0.5 else [rand_val(rng, ty) for _ in range(n)]
    lo, hi = RNG[ty]
    return [('i', rng.randint(max(lo, -99), min(hi, 99))) for _ in range(n)] if rng.random() < 0.7 else [('i', 0)] * n


def gen_tags(rng, types=None, maxlen=40):
    types = types or list(TY)
    n = rng.randint(1, 5) if rng.random() < 0.9 else rng.randint(10, 14)   # >9 auto-allocated attribute ids too
    if n > 5:
        maxlen = 4
    tags, used = [], set()
    # (class 2 is the Message Router's own class: another instance of it is an ordinary home for tag attributes)
    shared_inst = (rng.choice([0x99, 0x9A, 0x401]), rng.randint(1, 3)) if rng.random() < 0.85 else (2, rng.randint(2, 3))
    for k in range(n):
        ty = rng.choice(types)
        scalar = rng.random() < 0.2
        ln = 1 if scalar else min(maxlen, rng.choice([1, 2, 3, 5, 8, 13, rng.randint(1, maxlen)]))
        name = rng.choice(['Tag', 'scada', 'A_b', 'Xy\xe9', 'T']) + str(k)
        addr = None
        if rng.random() < (0.4 if n <= 5 else 0.15):
            c, i = shared_inst if rng.random() < 0.7 else (rng.choice([0x9B, 0x9C]), rng.randint(1, 2))
            a = rng.randint(1, 9)
            if (c, i, a) not in used:
                addr = (c, i, a); used.add(addr)
        tags.append(dict(name=name, ty=ty, scalar=scalar, n=ln, addr=addr, init=init_vals(rng, ty, ln)))
    if n >= 2 and rng.random() < 0.15:
        # two tags whose names differ only in a way lower() keeps apart but looser foldings (casefold, NFKC) would merge
        a, b = rng.choice([('Ma\xdf', 'Mass'), ('stra\xdfe', 'strasse'), ('\xdf', 'ss')])      # tag names are ISO-8859-1
        tags[0]['name'], tags[1]['name'] = a + 'x', b + 'x'
    return tags


def rand_case_name(rng, name):
    return ''.join(ch.upper() if rng.random() < 0.5 else ch.lower() for ch in name)


def gen_path(rng, tags, addrs, k, elem, bad=0.06):
    """Path to tag k (symbolic or numeric view), or now and then something unknown."""
    t = tags[k]
    x = rng.random()
    if x < bad / 2:
        return ('sym', 'NoSuch' + str(rng.randint(0, 3)), elem)
    if x < bad:
        c, i, a = addrs[k]
        return rng.choice([('num', 0x77, 1, 1, elem), ('num', c, i, a + 20, elem), ('num', c, i + 7, a, elem), ('num', c, i, 0, elem)])      # (attribute 0 is never valid)
    if rng.random() < 0.5:
        return ('sym', rand_case_name(rng, t['name']), elem)
    c, i, a = addrs[k]
    if a == 1 and rng.random() < 0.3:
        return ('num', c, i, None, elem)
    return ('num', c, i, a, elem)


def gen_index(rng, n):
    return rng.choice([0, 0, n - 1, n, n + 1, rng.randint(0, max(n - 1, 0)), rng.randint(0, n + 2)])


def gen_req(rng, tags, addrs, kinds=('read', 'readf', 'write', 'writef', 'get', 'set'), valid_bias=0.75):
    k = rng.randrange(len(tags))
    t = tags[k]
    n, ty, sz = t['n'], t['ty'], SIZ[t['ty']]
    kind = rng.choice(kinds)
    if rng.random() < valid_bias:
        idx = rng.randint(0, n - 1)
        cnt = rng.randint(1, n - idx)
    else:
        idx = gen_index(rng, n)
        cnt = rng.choice([0, 1, n, n + 1, max(n - idx, 0), max(n - idx, 0) + 1, rng.randint(0, n + 2)])
    elem = None if (idx == 0 and rng.random() < 0.5) else idx
    p = gen_path(rng, tags, addrs, k, elem)
    if kind == 'read':
        return ('read', p, cnt)
    if kind == 'readf':
        off = rng.choice([0, 0, sz, sz * rng.randint(0, max(cnt, 1)), rng.randint(0, sz * (cnt + 1)), sz * cnt, rng.choice([2 ** 32 - sz, 2 ** 32 - 2 * sz, 2 ** 31, 2 ** 32 - 1])])
        return ('readf', p, cnt, off)
    if kind in ('write', 'writef'):
        if rng.random() < 0.7:
            rty = ty
        elif rng.random() < 0.5:
            # the same-width sibling type: its values fit the wire but not necessarily the tag (UDINT 0xFFFFFFFF into a DINT)
            rty = SIBLING.get(ty, ty)
        else:
            rty = rng.choice(list(TY))
        code = TY[rty] if rng.random() < 0.97 else rng.choice([0xD2, 0xD3, 0xA0, 0])
        nd = cnt if rng.random() < 0.8 else rng.randint(0, cnt + 2)
        data = [rand_val(rng, rty) for _ in range(nd)]
        if kind == 'write':
            return ('write', p, code, cnt, data)
        if rng.random() < 0.6:
            # a proper piece of a fragmented write: `cnt` total elements, this piece at element `o`
            o = rng.randint(0, max(cnt - 1, 0))
            m = rng.randint(1, max(cnt - o, 1))
            return ('writef', p, code, cnt, o * sz, [rand_val(rng, rty) for _ in range(m)])
        # offsets at the edges of the 32-bit field: 2^32 - k elements (which a signed reading would turn into "k elements back"), 2^31
        edge = [2 ** 32 - sz * j for j in range(1, 4)] + [2 ** 31, 2 ** 31 - sz, 2 ** 32 - 1]
        return ('writef', p, code, cnt, rng.choice([0, sz, rng.randint(0, sz * (cnt + 1)), rng.choice(edge)]), data)
    # attribute services need a numeric path ending in the attribute
    c, i, a = addrs[k]
    x = rng.random()
    if x < 0.08:
        ap = ('sym', t['name'], None)
    elif x < 0.16:
        ap = rng.choice([('num', 0x77, 1, a, None), ('num', c, i, a + 20, None), ('num', c, i, a, 0), ('num', c, i, None, None)])
    else:
        ap = ('num', c, i, a, None)
    if kind == 'get':
        return ('get', ap)
    nb = sz * n if rng.random() < 0.8 else rng.choice([0, sz * n - 1, sz * n + 1, sz * n + sz])
    return ('set', ap, [rng.getrandbits(8) if ty not in ('REAL', 'LREAL') else rng.choice([0, 0x3f, 0x80, 0x40, 1]) for _ in range(nb)])


def gen_history(rng, tags, nmax=30, multi=0.15, **kw):
    addrs = layout(tags)
    reqs = []
    for _ in range(rng.randint(1, nmax)):
        if rng.random() < multi:
            reqs.append(('multi', [gen_req(rng, tags, addrs, **kw) for _ in range(rng.randint(1, 6))]))
        else:
            reqs.append(gen_req(rng, tags, addrs, **kw))
    return reqs


def describe_req(r):
    if r[0] == 'multi':
        return ['multi', [describe_req(m) for m in r[1]]]
    return [list(x) if isinstance(x, tuple) else ([list(v) for v in x] if isinstance(x, list) and x and isinstance(x[0], tuple) else x)
            for x in r]


def describe_case(case):
    maxb, tags, reqs = case
    return dict(max_bytes=maxb,
                tags=[dict(name=t['name'], type=t['ty'], scalar=t['scalar'], length=t['n'], address=t.get('addr'),
                           init=[list(v) for v in t['init']]) for t in tags],
                requests=[describe_req(r) for r in reqs])


def case_from_description(d):
    def val(v):
        return (v[0], v[1])
    def path(p):
        return tuple(p)
    def req(r):
        if r[0] == 'multi':
            return ('multi', [req(m) for m in r[1]])
        out = []
        for j, x in enumerate(r):
            if j == 1:
                out.append(tuple(x))
            elif isinstance(x, list) and x and isinstance(x[0], list):
                out.append([val(v) for v in x])
            else:
                out.append(x)
        return tuple(out)
    tags = [dict(name=t['name'], ty=t['type'], scalar=t['scalar'], n=t['length'], addr=tuple(t['address']) if t['address'] else None,
                 init=[val(v) for v in t['init']]) for t in d['tags']]
    return (d['max_bytes'], tags, [req(r) for r in d['requests']])


def compare(cases, ctx, label):
    """Run impl and model on all cases; returns list of (case_index, request_index, impl_obs, model_obs)."""
    models = run_model(cases)
    dis = []
    impls = []
    for ci, (c, (mobs, mdump)) in enumerate(zip(cases, models)):
        iobs, idump = run_impl(c)
        impls.append((iobs, idump))
        for ri, (io, mo) in enumerate(zip(iobs, mobs)):
            if io != mo:
                dis.append((ci, ri, io, mo)); break
        else:
            if idump != mdump:
                dis.append((ci, len(c[2]), ('final-store', idump), ('final-store', mdump)))
    return impls, models, dis


def shrink_case(case, still_fails):
    """Greedy delta-debugging on the request list, then on the tag list."""
    maxb, tags, reqs = case
    changed = True
    while changed:
        changed = False
        for i in range(len(reqs) - 1, -1, -1):
            cand = (maxb, tags, reqs[:i] + reqs[i + 1:])
            if cand[2] and still_fails(cand):
                reqs = cand[2]; changed = True
            elif reqs[i][0] == 'multi' and len(reqs[i][1]) > 1:
                for j in range(len(reqs[i][1]) - 1, -1, -1):
                    m = reqs[i][1][:j] + reqs[i][1][j + 1:]
                    cand = (maxb, tags, reqs[:i] + [('multi', m)] + reqs[i + 1:])
                    if m and still_fails(cand):
                        reqs = cand[2]; changed = True
    return (maxb, tags, reqs)


def fmt_obs(o):
    b, h = o
    if isinstance(b, str):
        return [b, h]
    return ['EXC' if b is None else b.hex(), h]


# ---- property oracles evaluated directly on the implementation ---------------------------------------

def pack_py(ty, v):
    """bytes of a Python value in CIP type ty, or None when it cannot be represented"""
    cls = _cls()[ty]
    try:
        return bytes(cls.produce(v))
    except Exception:
        return None


def parse_reply(b):
    """(service, status, ext words, payload) of a non-bundle reply"""
    svc, status, n = b[0], b[2], b[3]
    ext = [b[4 + 2 * i] | (b[5 + 2 * i] << 8) for i in range(n)]
    return svc, status, ext, b[4 + 2 * n:]


def split_bundle(b):
    svc, status, ext, pay = parse_reply(b)
    if svc != 0x8A or status != 0:
        return None
    n = pay[0] | (pay[1] << 8)
    offs = [pay[2 + 2 * i] | (pay[3 + 2 * i] << 8) for i in range(n)]
    return [pay[offs[i]:(offs[i + 1] if i + 1 < n else len(pay))] for i in range(n)], offs


class ArraySpec:
    """The abstract model of the property text: fixed-length typed arrays (images = packed bytes per element)."""

    def __init__(self, tags):
        self.tags = tags
        self.addrs = layout(tags)
        self.img = [[pack_py(t['ty'], float(py_val(v)) if t['ty'] in ('REAL', 'LREAL') else py_val(v)) for v in t['init']] for t in tags]

    def find(self, p):
        if p[0] == 'sym':
            for k, t in enumerate(self.tags):
                if t['name'].lower() == p[1].lower():
                    return k
            return None
        _, c, i, a, e = p
        a = 1 if a is None else a
        return self.addrs.index((c, i, a)) if (c, i, a) in self.addrs else None


def check_history(case, prop):
    """Run the case on the implementation and judge every step against the array spec.
    Returns None or (request index, description).  prop in {'C03','C05'} selects the clauses."""
    maxb, tags, reqs = case
    spec = ArraySpec(tags)
    im = Impl(maxb, tags)
    try:
        def image():
            return [[(bytes(att.parser.produce(v)) if pack_py(t['ty'], v) is not None else None)
                     for v in ([att.value] if att.scalar else list(att.value))] for att, t in zip(im.attrs, tags)]
        flat = []
        for ri, r in enumerate(reqs):
            members = r[1] if r[0] == 'multi' else [r]
            before = image()
            b, d = im.request(r)
            if b is None:
                return ri, 'request raised %s instead of producing a reply' % type(im.last_exc).__name__
            if r[0] == 'multi':
                sp = split_bundle(b)
                if sp is None:
                    return ri, 'bundle reply not decodable / status %r' % (b[:4].hex(),)
                parts = sp[0]
                if len(parts) != len(members):
                    return ri, 'bundle reply has %d members for %d requests' % (len(parts), len(members))
            else:
                parts = [b]
            # expected effect of the members, in order, on the spec arrays
            for m, pb in zip(members, parts):
                svc, status, ext, pay = parse_reply(pb)
                k = spec.find(m[1])
                t = tags[k] if k is not None else None
                sz = SIZ[t['ty']] if t else None
                idx = (m[1][2] if m[1][0] == 'sym' else m[1][4]) or 0
                if m[0] in ('read', 'readf'):
                    if status in (0, 6):
                        if k is None:
                            return ri, 'read of an unknown tag answered with success'
                        off = m[3] if m[0] == 'readf' else 0
                        beg = idx + off // sz
                        ty = pay[0] | (pay[1] << 8)
                        data = pay[2:]
                        if ty != TY[t['ty']]:
                            return ri, 'read reply reports type 0x%02x, tag type is 0x%02x' % (ty, TY[t['ty']])
                        n = len(data) // sz
                        exp = spec.img[k][beg:beg + n]
                        if len(data) % sz or n < 1 or beg + n > len(spec.img[k]) or b''.join(x or b'?' for x in exp) != bytes(data):
                            return ri, 'read returned %s, most recently written values of elements [%d,%d) are %s' % (
                                bytes(data).hex(), beg, beg + n, b''.join(x or b'?' for x in exp).hex())
                        if (status == 0) != (beg + n == idx + m[2]):
                            return ri, 'read status %d but elements [%d,%d) of requested [%d,%d)' % (status, beg, beg + n, idx, idx + m[2])
                    elif prop == 'C05' and k is not None:
                        pass
                elif m[0] in ('write', 'writef'):
                    if status == 0:
                        if k is None:
                            return ri, 'write to an unknown tag acknowledged'
                        off = m[4] if m[0] == 'writef' else 0
                        data = m[4] if m[0] == 'write' else m[5]
                        beg = idx + off // sz
                        if beg < 0 or beg + len(data) > len(spec.img[k]) or not data:
                            return ri, 'write outside the tag acknowledged'
                        tn = TYN.get(m[2])
                        for j, v in enumerate(data):
                            pv = pack_py(t['ty'], py_req_val(tn, v))
                            spec.img[k][beg + j] = pv
                    else:
                        if prop == 'C05' and k is not None and status != 0xFF:
                            return ri, 'write to an existing tag refused with status 0x%02x (expected 0xFF + 0x2105/0x2107)' % status
                        if prop == 'C05' and k is not None and ext not in ([0x2105], [0x2107]):
                            return ri, 'write refused with extended status %r' % (ext,)
                        if prop == 'C05' and k is None and (status, ext) != (5, [0]):
                            return ri, 'write to unknown tag refused with %r/%r (expected 0x05/[0])' % (status, ext)
                elif m[0] == 'set':
                    if status == 0:
                        p = m[1]
                        kk = spec.addrs.index((p[1], p[2], p[3])) if p[0] == 'num' and (p[1], p[2], p[3]) in spec.addrs and p[4] is None else None
                        if kk is None:
                            return ri, 'Set Attribute Single on a path that names no existing attribute acknowledged'
                        tt = tags[kk]; s2 = SIZ[tt['ty']]
                        if len(m[2]) != s2 * len(spec.img[kk]):
                            return ri, 'Set Attribute Single with %d bytes for %d x %d acknowledged' % (len(m[2]), len(spec.img[kk]), s2)
                        for j in range(len(spec.img[kk])):
                            ch = bytes(m[2][j * s2:(j + 1) * s2])
                            spec.img[kk][j] = (b'\x00' if ch == b'\x00' else b'\xff') if tt['ty'] == 'BOOL' else ch
                elif m[0] == 'get':
                    if status == 0:
                        p = m[1]
                        kk = spec.addrs.index((p[1], p[2], p[3])) if p[0] == 'num' and (p[1], p[2], p[3]) in spec.addrs and p[4] is None else None
                        if kk is None:
                            return ri, 'Get Attribute Single on a path that names no existing attribute answered with data'
                        if bytes(pay) != b''.join(x or b'?' for x in spec.img[kk]):
                            return ri, 'Get Attribute Single returned %s, tag holds %s' % (bytes(pay).hex(), b''.join(x or b'?' for x in spec.img[kk]).hex())
            after = image()
            if after != spec.img:
                for k, (x, y) in enumerate(zip(after, spec.img)):
                    if x != y:
                        j = [a != bb for a, bb in zip(x, y)].index(True) if len(x) == len(y) else -1
                        return ri, 'tag %s element %d holds %r, array model expects %r (only accepted writes may change addressed elements)' % (
                            tags[k]['name'], j, x[j].hex() if j >= 0 and x[j] else None, y[j].hex() if j >= 0 and y[j] else None)
            if any(v is None for row in after for v in row):
                return ri, 'after an acknowledged write the tag holds a value that cannot be produced in its type (tag unreadable)'
        return None
    finally:
        im.close()


# ---- generic check driver for the properties decided on this model -----------------------------------

def logix_check(ctx, prop, cases, extra_oracle=None, rule='', nontrivial=None):
    """cases: list of (maxb, tags, reqs).  Correspondence model vs impl + property oracle on impl."""
    import collections
    impls, models, dis = compare(cases, ctx, prop)
    cov = ctx.coverage
    cov['evaluations'] = sum(len(c[2]) for c in cases)
    cov['histories'] = len(cases)
    kinds = collections.Counter()
    outcomes = collections.Counter()
    seen = set()
    for c, (iobs, _) in zip(cases, impls):
        for r, (b, h) in zip(c[2], iobs):
            kinds[r[0]] += 1
            if r[0] == 'multi':
                for m in r[1]:
                    kinds['member/' + m[0]] += 1
            outcomes['raised' if b is None else 'status 0x%02x' % b[2]] += 1
        key = repr(describe_case(c)['requests'])
        if nontrivial is None or nontrivial(c):
            seen.add(hash(key))
    cov['distinct_nontrivial'] = len(seen)
    cov['rule'] = rule
    cov['input_distribution'] = dict(request_kinds=dict(kinds), reply_outcomes=dict(outcomes))
    cov['impl_model_disagreements'] = len(dis)
    nbad = 0
    for ci, c in enumerate(cases):
        res = check_history(c, prop)
        if res is None and extra_oracle is not None:
            res = extra_oracle(c)
        if res is not None:
            nbad += 1
            if nbad <= 2:
                def fails(cand, prop=prop):
                    r2 = check_history(cand, prop)
                    if r2 is None and extra_oracle is not None:
                        r2 = extra_oracle(cand)
                    return r2 is not None
                sc = shrink_case(c, fails)
                r2 = check_history(sc, prop) or (extra_oracle(sc) if extra_oracle else None) or res
                ctx.violation(dict(case=describe_case(sc), at_request=r2[0]), r2[1])
    cov['impl_property_failures'] = nbad
    if dis:
        ci, ri, io, mo = dis[0]
        def fails(cand):
            (mobs, md), = run_model([cand]); iobs, idump = run_impl(cand)
            return iobs != mobs or idump != md
        sc = shrink_case(cases[ci], fails)
        (mobs, md), = run_model([sc]); iobs, idump = run_impl(sc)
        detail = dict(case=describe_case(sc), impl=[fmt_obs(o) for o in iobs], model=[fmt_obs(o) for o in mobs])
        name = 'correspondence cpppo Logix/Object/Message_Router.request = Model.Logix.exec'
        if nbad:
            ctx.broken.append(name)
        else:
            ctx.unresolved(name, detail)
    for c, (iobs, _) in list(zip(cases, impls))[:: max(1, len(cases) // 3)][:3]:
        d = describe_case(c)
        d['requests'] = d['requests'][:4]
        d['tags'] = [dict(t, init=t['init'][:4]) for t in d['tags']]
        ctx.sample(dict(case=d, impl_replies=[fmt_obs(o)[0] for o in iobs[:4]]))
    ctx.assumptions += ['CIP scalar tags only (BOOL..LREAL); SSTRING/STRING/UDT tags are not modelled',
                        'requests are driven in-process through the Message Router object (dotdict requests), not over TCP',
                        'struct.pack/unpack = little-endian two\'s complement / IEEE as modelled by Model.Logix.pack (differentially tested here)']
    return dis, nbad


# ---------------------------------------------------------------------------------------------------------------------------
# String tags (STRING 0xD0 / SSTRING 0xDA): outside Model/Logix.v; judged on the implementation alone against a list-of-strings model
def string_tags_check(rng, nops):
    """-> None | (history description, what).  Requests travel as wire bytes like every other request of this harness."""
    import cpppo
    from cpppo import dotdict
    from cpppo.server.enip import device, logix, parser
    logging.getLogger().setLevel(logging.ERROR + 10)
    device.lookup_reset(); logix.setup_reset()
    spec = {'S': (0xD0, parser.STRING, ['', 'ab', 'caf\xe9']), 'T': (0xDA, parser.SSTRING, ['x', ''])}
    tg = dotdict(); atts = {}
    for name, (code, cls, init) in spec.items():
        atts[name] = device.Attribute(name, cls, default=list(init))
        dict.__setitem__(tg, name, dotdict(attribute=atts[name], error=0))
    logix.setup(tags=tg)
    mr = device.lookup(2, 1)
    model = {k: list(v[2]) for k, v in spec.items()}
    hist = []

    def send(d):
        wire = bytes(logix.Logix.produce(d))
        q = dotdict(); src = cpppo.chainable(wire)
        with mr.parser as m:
            for _ in m.run(source=src, data=q):
                pass
        mr.request(q)
        return bytes(q.input)

    def decode(code, b):
        out, i = [], 0
        while i < len(b):
            if code == 0xD0:
                n = b[i] | (b[i + 1] << 8); out.append(b[i + 2:i + 2 + n].decode('latin-1')); i += 2 + n + (n % 2)
            else:
                n = b[i]; out.append(b[i + 1:i + 1 + n].decode('latin-1')); i += 1 + n
        return out

    for step in range(nops):
        name = rng.choice(['S', 'T']); code, cls, _ = spec[name]; n = len(model[name])
        i = rng.randrange(0, n)
        if rng.random() < 0.5:
            k = rng.randrange(1, n - i + 1)
            wcode = code if rng.random() < 0.7 else (0xDA if code == 0xD0 else 0xD0)
            vals = [''.join(chr(rng.choice([rng.randrange(32, 127), rng.randrange(0xA0, 0x100)])) for _ in range(rng.choice([0, 1, 2, 3, 5, 8] + ([255, 256, 300] if rng.random() < 0.15 else []))))
                    for _ in range(k)]
            if wcode == 0xDA:
                vals = [v[:255] for v in vals]            # an SSTRING cannot spell more on the wire
            d = dotdict(service=0x4D, path={'segment': [{'symbolic': name}, {'element': i}]}, write_tag=dotdict(type=wcode, elements=k, data=list(vals)))
            hist.append(('write', name, i, '0x%02X' % wcode, [v if len(v) < 20 else '%d chars' % len(v) for v in vals]))
            try:
                b = send(d)
            except Exception as e:
                return hist, 'a Write Tag to a string tag raised %s instead of being answered' % type(e).__name__
            ok = wcode == code and all(len(v) < 256 for v in vals) if code == 0xDA else wcode == code
            if ok:
                if b[2] != 0:
                    return hist, 'a well-formed write of the tag\'s own string type was refused with status 0x%02x' % b[2]
                model[name][i:i + k] = vals
            else:
                if b[2] == 0:
                    return hist, 'a write of a string type the tag cannot hold was acknowledged'
        else:
            k = rng.randrange(1, n - i + 1)
            d = dotdict(service=0x4C, path={'segment': [{'symbolic': name}, {'element': i}]}, read_tag=dotdict(elements=k))
            hist.append(('read', name, i, k))
            try:
                b = send(d)
            except Exception as e:
                return hist, 'a Read Tag of a string tag raised %s: the tag has become unreadable' % type(e).__name__
            if b[2] != 0:
                return hist, 'a Read Tag of %d string elements inside the tag was refused with status 0x%02x' % (k, b[2])
            ty = b[4] | (b[5] << 8)
            try:
                got = decode(code, b[6:])
            except Exception:
                got = None
            if ty != code or got != model[name][i:i + k]:
                return hist, 'Read Tag returns type 0x%02X %r, the most recently written values are 0x%02X %r' % (ty, got, code, model[name][i:i + k])
    return None
