"""C10 — a length limit bounds what a nested parser may consume; sent = symbols taken; repeat runs exactly N times.
Theorems: coq/Properties/C10.v over coq/Model/Engine.v (engine interpreter) and coq/Model/Source.v (sources).
Tie:
  A. random operation sequences on cpppo.peeking / chaining / remembering against the extracted source model;
  B. a generated zoo of parser graphs (library primitives, regex machines, length-prefixed and count-prefixed records,
     dfa wrappers with every limit / repeat value) dumped from the live objects and run through the extracted
     interpreter on every short input, against machine.run(); the property's oracle (sent <= limit, rest untouched,
     exactly N sub-grammar runs) is also applied to the implementation's own results;
  C. the library's own parsers that the interpreter cannot dump (decide edges, callable limits): a monitor observes the
     `ending` each state.run resolves and checks sent <= ending at completion and sent == symbols pulled, on messages
     with consistent, short and long length fields; SSTRING / STRING / enip frame / CPF framing is predicted from the
     raw bytes independently of cpppo."""
import itertools, random, struct
from vlib import core
from props import engine_common as G


# ---------------------------------------------------------------- A: sources
class Counting:
    """an iterable that counts what is pulled out of it"""
    def __init__(self, data, tally):
        self.data, self.tally = list(data), tally
    def __iter__(self):
        for x in self.data:
            self.tally[0] += 1
            yield x


def source_case(rng, kind):
    n = rng.randrange(0, 5)
    inp = [rng.randrange(0, 6) for _ in range(n)]
    ops, taken = [], []
    # generated against a shadow so that "legit" pushes (return the last taken symbol) are frequent
    shadow = list(inp)
    for _ in range(rng.randrange(1, 14)):
        r = rng.random()
        if r < 0.45:
            ops.append(('next',))
            if shadow:
                taken.append(shadow.pop(0))
        elif r < 0.65:
            if taken and rng.random() < 0.8:
                x = taken.pop(); ops.append(('push', x)); shadow.insert(0, x)
            elif kind != 'remembering':
                x = rng.randrange(0, 6); ops.append(('push', x)); shadow.insert(0, x)
        elif r < 0.85:
            ops.append(('peek',))
        elif kind != 'peeking':
            b = [rng.randrange(0, 6) for _ in range(rng.choice([0, 0, 1, 2, 3]))]
            ops.append(('chain', b)); shadow += b
    return inp, ops


def source_encode(inp, ops):
    out = [len(inp)] + inp
    for o in ops:
        if o[0] == 'next':
            out.append(0)
        elif o[0] == 'push':
            out += [1, o[1]]
        elif o[0] == 'peek':
            out.append(2)
        else:
            out += [3, len(o[1])] + o[1]
    return out


def source_impl(kind, inp, ops):
    import cpppo
    from cpppo import automata as A
    tally = [0]
    cls = dict(peeking=A.peeking, chaining=A.chaining, remembering=A.remembering)[kind]
    s = cls(Counting(inp, tally))
    outs = []
    for o in ops:
        if o[0] == 'next':
            try:
                outs += [1, next(s)]
            except StopIteration:
                outs += [0, 0]
        elif o[0] == 'push':
            s.push(o[1]); outs += [0, 0]
        elif o[0] == 'peek':
            v = s.peek()
            outs += [0, 0] if v is None else [1, v]
        else:
            s.chain(Counting(o[1], tally)); outs += [0, 0]
    sent = s.sent
    held = len(s._back)
    rest = []
    while True:
        try:
            rest.append(next(s))
        except StopIteration:
            break
    return outs + [sent, len(rest)] + rest, sent, tally[0], held


# ---------------------------------------------------------------- B: engine zoo
def zoo(thorough, rng):
    """[(name, maker, inputs, oracle)]; oracle(result, input) -> None | message, judged on the implementation"""
    import cpppo
    from cpppo import automata as A
    from cpppo.server.enip import parser
    out = []
    alpha = [0, 1, 2, 3, 97, 98]

    def strings(maxlen, al=alpha):
        for n in range(maxlen + 1):
            for t in itertools.product(al, repeat=n):
                yield bytes(t)

    def limited_oracle(k):
        def orc(res, inp):
            if res[0] == 'ok' and res[1] > k:
                return 'completed having consumed %d symbols under limit %d' % (res[1], k)
        return orc

    # fixed limits around every leaf
    leaves = [
        ('octets3', lambda: parser.octets(context='o', repeat=3, terminal=True)),
        ('uint', lambda: parser.UINT(context='u', terminal=True)),
        ('dint', lambda: parser.DINT(context='u', terminal=True)),
        ('a*', lambda: A.regex_bytes(initial='a*', context='r', terminal=True)),
        ('a+b', lambda: A.regex_bytes(initial='a+b', context='r', terminal=True)),
        ('.*', lambda: A.regex_bytes(initial='.*', context='r', terminal=True)),
        ('[ab]{2}', lambda: A.regex_bytes(initial='[ab]{2}', context='r', terminal=True)),
        ('drop2', lambda: parser.octets_drop(context='o', repeat=2, terminal=True)),
    ]
    short = [bytes(t) for n in range(0, 6) for t in itertools.product([97, 98], repeat=n)]
    if thorough:
        short += [bytes(t) for t in itertools.product([97, 98], repeat=6)]
    for lname, mk in leaves:
        for k in range(0, 6):
            out.append(('limit%d(%s)' % (k, lname),
                        (lambda mk=mk, k=k: A.dfa(name='lim', context='x', initial=mk(), limit=k, terminal=True)),
                        short, limited_oracle(k)))
    # limit followed by the enclosing grammar's own symbol: the byte after the boundary belongs to the outer parser
    for lname, mk in leaves[:6]:
        for k in range(0, 4):
            def mk2(mk=mk, k=k):
                inner = A.dfa(name='lim', context='i', initial=mk(), limit=k)
                inner[None] = parser.USINT(context='after', terminal=True)
                return A.dfa(name='outer', context='x', initial=inner, terminal=True)
            out.append(('limit%d(%s);USINT' % (k, lname), mk2, short, None))

    # length prefixed: USINT len, then <len> bytes governed by limit / repeat read from the data
    def lenpfx(body):
        def mk():
            u = parser.USINT(context='len')
            u[None] = body()
            return A.dfa(name='ls', context='x', initial=u, terminal=True)
        return mk
    bodies = [
        ('octets[.len]', lambda: parser.octets(context='d', repeat='..len', terminal=True)),
        ('.*limit=.len', lambda: A.dfa(name='s', context='d', initial=A.regex_bytes(initial='.*', context='r', terminal=True),
                                        limit='..len', terminal=True)),
        ('a*limit=.len', lambda: A.dfa(name='s', context='d', initial=A.regex_bytes(initial='a*', context='r', terminal=True),
                                        limit='..len', terminal=True)),
        ('drop2[.len]', lambda: A.dfa(name='recs', context='d', initial=parser.octets_drop(context='v', repeat=2, terminal=True),
                                       repeat='..len', terminal=True)),
        ('(ab)[.len]', lambda: A.regex_bytes(initial='ab', context='d', repeat='..len', terminal=True)),
        ('(a+b)[.len]', lambda: A.regex_bytes(initial='a+b', context='d', repeat='..len', terminal=True)),
        ('dfa(ab)[.len]', lambda: A.dfa(name='recs', context='d', initial=A.regex_bytes(initial='ab', context='r', terminal=True),
                                         repeat='..len', terminal=True)),
    ]
    pin = [bytes([n]) + t for n in range(0, 5) for t in short if len(t) < 6]

    def len_oracle(kind):
        def orc(res, inp):
            if res[0] != 'ok' or not inp:
                return None
            n = inp[0]
            if kind == 'limit' and res[1] > 1 + n:
                return 'length field %d but %d symbols consumed after it' % (n, res[1] - 1)
            if kind == 'octets' and res[2] and res[1] != 1 + n:
                return 'repeat %d but %d octets consumed' % (n, res[1] - 1)
        return orc
    for bname, body in bodies:
        out.append(('USINT;' + bname, lenpfx(body), pin,
                    len_oracle('limit' if 'limit' in bname else 'octets' if 'octets' in bname else '')))

    # fixed repeats of a selective sub-grammar: L^N exactly
    import re as _re
    for rx in ('ab', 'a+b', 'a|bb'):
        for n in range(0, 4):
            def mk(rx=rx, n=n):
                return A.regex_bytes(initial=rx, context='x', repeat=n, terminal=True)
            def orc(res, inp, rx=rx, n=n):
                if res[0] == 'ok' and res[2]:
                    pre = inp[:res[1]]
                    if not _re.fullmatch(b'(?:%s){%d}' % (rx.encode(), n), pre):
                        return 'repeat=%d of %r accepted %r' % (n, rx, pre)
            out.append(('(%s){%d}' % (rx, n), mk, short, orc))
    # nested: repeat inside limit
    for k in range(0, 6):
        def mk(k=k):
            inner = A.dfa(name='rep', context='i', initial=parser.octets_drop(context='v', repeat=2, terminal=True), repeat=2, terminal=True)
            return A.dfa(name='lim', context='x', initial=inner, limit=k, terminal=True)
        out.append(('limit%d(drop2[2])' % k, mk, short, limited_oracle(k)))
    return out


# ---------------------------------------------------------------- C: library parsers under a monitor
class Monitor:
    """Observes state.run / delegate of the live engine: the ending each run resolves, and sent at completion."""
    def __init__(self):
        self.events = []
        self.bad = []

    def __enter__(self):
        from cpppo import automata as A
        mon = self
        self.A = A
        self.saved = []
        endings = {}

        def wrap_delegate(cls):
            orig = cls.__dict__['delegate']
            def delegate(self, source, machine=None, path=None, data=None, ending=None):
                endings.setdefault(id(self), []).append(ending)
                return orig(self, source=source, machine=machine, path=path, data=data, ending=ending)
            mon.saved.append((cls, 'delegate', orig))
            cls.delegate = delegate

        orig_run = A.state.__dict__['run']

        def run(self, source, machine=None, path=None, data=None, ending=None):
            depth = len(endings.get(id(self), []))
            gen = orig_run(self, source=source, machine=machine, path=path, data=data, ending=ending)
            for x in gen:
                yield x
            stack = endings.get(id(self), [])
            if len(stack) > depth:
                resolved = stack[depth]
                del stack[depth:]
                mon.events.append((type(self).__name__, self.limit, ending, resolved, source.sent))
                if resolved is not None and source.sent > resolved:
                    mon.bad.append('%s completed at sent=%d beyond its ending %d (limit=%r)' % (self, source.sent, resolved, self.limit))
                if ending is not None and (resolved is None or resolved > ending):
                    mon.bad.append('%s relaxed the enclosing ending %r to %r' % (self, ending, resolved))
        mon.saved.append((A.state, 'run', orig_run))
        A.state.run = run
        for cls in (A.state, A.dfa_base):
            wrap_delegate(cls)
        return self

    def __exit__(self, *a):
        for cls, name, orig in self.saved:
            setattr(cls, name, orig)
        return False


def lib_cases(thorough, rng):
    """[(name, maker, bytes, expected_consumed or None)] — expected: the framing computed from the raw bytes"""
    from cpppo.server.enip import parser
    from cpppo import automata as A
    out = []
    texts = [b'', b'a', b'ab', b'abc', b'hello']
    for t in texts:
        for dl in (-2, -1, 0, 1, 2):
            n = len(t) + dl
            if 0 <= n < 256:
                for tail in (b'', b'Z', b'ZZ'):
                    # SSTRING: 1 + length
                    out.append(('SSTRING', lambda: parser.SSTRING(terminal=True), bytes([n]) + t + tail, 1 + n, 'SSTRING.length'))
                    # STRING: 2 + length + pad
                    out.append(('STRING', lambda: parser.STRING(terminal=True), struct.pack('<H', n) + t + tail, 2 + n + n % 2, 'STRING.length'))
    # encapsulation frame: 24 + length
    for body in (b'', b'\x01\x00\x00\x00', bytes(range(9))):
        for dl in (-2, -1, 0, 1, 3):
            n = len(body) + dl
            if n >= 0:
                hdr = struct.pack('<HHII8sI', 0x65, n, 7, 0, b'ctxtctxt', 0)
                for tail in (b'', b'\x99'):
                    out.append(('enip_machine', lambda: parser.enip_machine(terminal=True), hdr + body + tail, 24 + n, 'enip.length'))
    # CPF: count, then per item type, length, <length> bytes
    def cpf(items):
        b = struct.pack('<H', len(items))
        for tid, ln, content in items:
            b += struct.pack('<HH', tid, ln) + content
        return b
    ucmm = bytes([0x4C, 0x02, 0x20, 0x02, 0x24, 0x01, 0x01, 0x00])
    for dl in (-3, -1, 0, 1, 2):
        for tail in (b'', b'\x77\x66'):
            items = [(0x0000, 0, b''), (0x00B2, len(ucmm) + dl, ucmm)]
            out.append(('CPF', lambda: parser.CPF(terminal=True), cpf(items) + tail, 2 + 4 + 4 + len(ucmm) + dl, 'CPF.item[1].length'))
            items = [(0x00A1, 4 + dl, b'\x01\x02\x03\x04'), (0x00B1, 2 + len(ucmm), b'\x05\x00' + ucmm)]
            out.append(('CPF', lambda: parser.CPF(terminal=True), cpf(items) + tail, 2 + 4 + 4 + dl + 4 + 2 + len(ucmm), 'CPF.item[0].length'))
            items = [(0x0000, 0, b''), (0x9999, 5 + dl, b'abcde')]
            out.append(('CPF', lambda: parser.CPF(terminal=True), cpf(items) + tail, 2 + 4 + 4 + 5 + dl, 'CPF.item[1].length'))
    # the items with a dedicated parser (identity, communications service, legacy address): each is bounded by its own length field,
    # whether it is the last thing in the input, followed by another item, or followed by foreign bytes
    ident = (struct.pack('<H', 1) + struct.pack('>HHI', 2, 44818, 0x7F000001) + bytes(8) + struct.pack('<HHHBBHI', 1, 14, 54, 20, 11, 0x3160, 0x6C061A)
             + b'\x05hello' + b'\xff')
    comms = struct.pack('<HH', 1, 0x0120) + b'Communications\x00\x00'
    legacy = struct.pack('<HH', 1, 0) + struct.pack('>HHI', 2, 44818, 0xC0A805FD) + bytes(8) + b'192.168.5.253\x00\x00\x00'
    for tid, content in ((0x000C, ident), (0x0100, comms), (0x0001, legacy)):
        for dl in (-3, -1, 0, 1, 2):
            for tail in (b'', b'NEXT', b'\x00\x00\x00\x00'):
                items = [(tid, len(content) + dl, content)]
                out.append(('CPF', lambda: parser.CPF(terminal=True), cpf(items) + tail, 2 + 4 + len(content) + dl, 'CPF.item[0].length'))
            items = [(tid, len(content) + dl, content), (0x9999, 3, b'xyz')]
            out.append(('CPF', lambda: parser.CPF(terminal=True), cpf(items) + b'Z', 2 + 4 + len(content) + dl + 4 + 3, 'CPF.item[0].length'))
            items = [(0x0000, 0, b''), (tid, len(content) + dl, content + b'pad'[:max(dl, 0)])]
            out.append(('CPF', lambda: parser.CPF(terminal=True), cpf(items) + b'Z', 2 + 4 + 4 + len(content) + dl, 'CPF.item[1].length'))
    # a padded EPATH: size (words), a pad byte whose VALUE is irrelevant, the segments; extended status: count, then that many words
    segs = bytes([0x20, 0x02, 0x24, 0x01])
    for pad in (0x00, 0x01, 0x5A, 0x80, 0xFF):
        for nseg in (1, 2):
            for tail in (b'', bytes([0x20, 0x06, 0x24, 0x01]), b'\x28\x01'):
                data = bytes([nseg, pad]) + segs[:2 * nseg] + tail
                out.append(('EPATH_padded', lambda: parser.EPATH_padded(terminal=True), data, 2 + 2 * nseg, 'EPATH_padded.size!'))
                out.append(('route_path', lambda: parser.route_path(terminal=True), bytes([nseg, pad]) + bytes([0x01, 0x00, 0x01, 0x02])[:2 * nseg] + tail, 2 + 2 * nseg, 'route_path.size'))
    for n in range(0, 6):
        for tail in (b'', b'\x34\x12', b'\x00\x00\x00\x00'):
            data = bytes([0xFF if n else 0x00, n]) + b''.join(struct.pack('<H', 0x2100 + j) for j in range(n)) + tail
            out.append(('status', lambda: parser.status(terminal=True), data, 2 + 2 * n, 'status_ext.size!'))
    # every library machine under an outer fixed limit
    wraps = [('SSTRING', lambda: parser.SSTRING(), b'\x03abcZ'), ('STRING', lambda: parser.STRING(), b'\x03\x00abc\x00Z'),
             ('EPATH', lambda: parser.EPATH(), b'\x02\x20\x02\x24\x01Z'), ('EPATH_padded', lambda: parser.EPATH_padded(), b'\x02\x00\x20\x02\x24\x01Z'),
             ('status', lambda: parser.status(), b'\xff\x01\x05\x21Z'),
             ('typed_data', lambda: parser.typed_data(tag_type=0xC3), b'\x01\x00\x02\x00\x03\x00'),
             ('CPF', lambda: parser.CPF(), cpf([(0x0000, 0, b''), (0x00B2, len(ucmm), ucmm)]) + b'Z'),
             ('enip_machine', lambda: parser.enip_machine(), struct.pack('<HHII8sI', 0x65, 4, 7, 0, b'ctxtctxt', 0) + b'\x01\x00\x00\x00Z')]
    ucmm = bytes([0x4C, 0x02, 0x20, 0x02, 0x24, 0x01, 0x01, 0x00])
    usend = bytes([0x52, 0x02, 0x20, 0x06, 0x24, 0x01, 0x05, 0x9D, len(ucmm), 0x00]) + ucmm + bytes([0x01, 0x00, 0x01, 0x00])
    wraps += [('unconnected_send', lambda: parser.unconnected_send(), usend + b'Z'),
              ('send_data', lambda: parser.send_data(), struct.pack('<IH', 0, 5) + cpf([(0x0000, 0, b''), (0x00B2, len(usend), usend)]) + b'Z'),
              ('typed_data(REAL)', lambda: parser.typed_data(tag_type=0xCA), bytes(range(8))),
              ('typed_data(BOOL)', lambda: parser.typed_data(tag_type=0xC1), b'\x00\x01\xff'),
              ('typed_data(SSTRING)', lambda: parser.typed_data(tag_type=0xDA), b'\x02ab\x00\x01c')]
    # the library machines given their limit directly (their own limit= argument, not a wrapping machine's)
    own = [('SSTRING', parser.SSTRING, {}), ('STRING', parser.STRING, {}), ('EPATH', parser.EPATH, {}), ('status', parser.status, {}),
           ('typed_data', parser.typed_data, dict(tag_type=0xC3)), ('typed_data(REAL)', parser.typed_data, dict(tag_type=0xCA)),
           ('typed_data(BOOL)', parser.typed_data, dict(tag_type=0xC1)), ('typed_data(SSTRING)', parser.typed_data, dict(tag_type=0xDA)),
           ('typed_data(LINT)', parser.typed_data, dict(tag_type=0xC5)), ('CPF', parser.CPF, {}), ('unconnected_send', parser.unconnected_send, {})]
    datas = dict((n, d) for n, _, d in wraps); datas['typed_data(LINT)'] = bytes(range(24))
    for name, cls, kw in own:
        data = datas[name]
        for k in range(0, len(data) + 2):
            out.append(('%s(limit=%d)' % (name, k), (lambda cls=cls, kw=kw, k=k: cls(limit=k, terminal=True, **kw)), data, ('limit', k), None))
        for lim in ('..nolength', 'nolength', '...no.such'):
            # a limit that names a field the data does not hold bounds the machine to nothing (never: to no limit at all)
            out.append(('%s(limit=%r, absent)' % (name, lim), (lambda cls=cls, kw=kw, lim=lim: cls(limit=lim, terminal=True, **kw)), data, ('limit', 0), None))
    for name, mk, data in wraps:
        for k in range(0, len(data) + 2):
            def mkw(mk=mk, k=k):
                return A.dfa(name='lim', context='w', initial=mk(), limit=k, terminal=True)
            out.append(('limit%d(%s)' % (k, name), mkw, data, ('limit', k), None))
        # a limit that names a field the data does not hold bounds the machine to nothing (never: to no limit at all)
        out.append(('limit-by-absent-field(%s)' % name, (lambda mk=mk: A.dfa(name='lim', context='w', initial=mk(), limit='..nolength', terminal=True)), data, ('limit', 0), None))
        out.append(('limit-by-absent-field2(%s)' % name, (lambda mk=mk: A.dfa(name='lim', context='w', initial=mk(), limit='nolength', terminal=True)), data, ('limit', 0), None))
        # the bare machine on its input with one length/count/size byte altered, and on prefixes of it
        for j in range(len(data) if thorough else min(len(data), 12)):
            for delta in ((1, 2, 3, 127, 128, 255) if thorough else (1, 255, 2)):
                mut = bytearray(data); mut[j] = (mut[j] + delta) & 0xFF
                out.append(('%s~byte%d' % (name, j), (lambda mk=mk: A.dfa(name='bare', context='w', initial=mk(), terminal=True)), bytes(mut), None, None))
        for cut in range(0, len(data), 1 if thorough else 2):
            out.append(('%s[:%d]' % (name, cut), (lambda mk=mk: A.dfa(name='bare', context='w', initial=mk(), terminal=True)), data[:cut], None, None))
        for _ in range(150 if thorough else 6):
            rnd = bytes(rng.choice([0, 1, 2, 3, 4, 0x20, 0x24, 0x28, 0x91, 0xB2, 0xFF, rng.getrandbits(8)]) for _ in range(rng.randrange(0, 24)))
            out.append(('%s~random' % name, (lambda mk=mk: A.dfa(name='bare', context='w', initial=mk(), terminal=True)), rnd, None, None))
    return out


def lib_run(mk, data):
    import cpppo
    from cpppo import dotdict, automata as A
    tally = [0]
    source = cpppo.peekable(Counting(data, tally))
    d = dotdict()
    try:
        m = mk()
        with m as mm:
            for _ in mm.run(source=source, data=d):
                pass
            term = mm.terminal
        res = ('ok', source.sent, bool(term))
    except A.NonTerminal:
        res = ('fail', 'NonTerminal')
    except AssertionError as e:
        res = ('fail', 'assert')
    except Exception as e:
        res = ('fail', type(e).__name__)
    held = len(source._back)
    return res, source.sent, tally[0], held, d


def run(ctx):
    from props import enip_common as E
    E.quiet()
    ctx.prove()
    rng = ctx.rng
    cov = ctx.coverage
    ndis, nbad, first = 0, 0, None

    # ---- A
    N = 4000 if ctx.thorough else 600
    cases, meta = [], []
    for i in range(N):
        kind = ('peeking', 'chaining', 'remembering')[i % 3]
        inp, ops = source_case(rng, kind)
        cases.append(source_encode(inp, ops)); meta.append((kind, inp, ops))
    outs = core.run_model('source', cases)
    nsrc_nontrivial = 0
    for (kind, inp, ops), mo in zip(meta, outs):
        try:
            io, sent, pulled, held = source_impl(kind, inp, ops)
        except AssertionError:
            continue                      # remembering refuses a push that contradicts its memory
        supplied = len(inp) + sum(len(o[1]) for o in ops if o[0] == 'chain')
        pushes = sum(1 for o in ops if o[0] == 'push')
        if any(o[0] == 'chain' for o in ops) or pushes:
            nsrc_nontrivial += 1
        # the property on the implementation alone: sent = taken from the iterators - held back, counting pushes of foreign symbols
        nexts_ok = sum(1 for j, o in enumerate(ops) if o[0] == 'next' and io[2 * j] == 1)
        if sent != nexts_ok - pushes:
            nbad += 1
            ctx.violation(dict(kind=kind, input=inp, ops=ops, sent=sent, delivered=nexts_ok, pushed=pushes),
                          'source.sent differs from the net number of symbols delivered')
        if list(io) != list(mo):
            ndis += 1
            first = first or dict(part='source', kind=kind, input=inp, ops=ops, impl=io, model=mo)

    # ---- B
    z = zoo(ctx.thorough, rng)
    eng, emeta = [], []
    unsupported = []
    for name, mk, inputs, orc in z:
        m = mk()
        try:
            d = G.dump_machine(m)
        except G.Unsupported as e:
            unsupported.append('%s: %s' % (name, e)); continue
        for i in inputs:
            eng.append((m, d, i)); emeta.append((name, i, orc))
    if unsupported:
        raise core.HarnessError('zoo machine not dumpable: %s' % unsupported[:3])
    both = G.run_both(eng)
    nok = 0
    for (name, inp, orc), (ir, mr) in zip(emeta, both):
        if ir[0] == 'ok':
            nok += 1
        if orc is not None:
            msg = orc(ir, inp)
            if msg:
                nbad += 1
                if nbad <= 4:
                    ctx.violation(dict(machine=name, input=list(inp), result=repr(ir)[:300]), msg)
        if mr[0] == 'fail' and mr[1] == 9:
            raise core.HarnessError('engine model out of fuel on %s %r' % (name, inp))
        if not G.same(ir, mr):
            ndis += 1
            if first is None or first.get('part') != 'engine':
                first = dict(part='engine', machine=name, input=list(inp), impl=repr(ir)[:300], model=repr(mr)[:300])
            # a success of the implementation that the reference engine refuses for exceeding a limit / stalling in a
            # cycle is a failing input for the property itself
            if ir[0] == 'ok' and mr[0] == 'fail' and mr[1] in (2, 3) and nbad < 4:
                nbad += 1
                ctx.violation(dict(machine=name, input=list(inp), implementation=repr(ir)[:300], reference_engine=repr(mr)),
                              'parser completed where the limit / repeat rules of the engine require a failure')

    # ---- C
    lc = lib_cases(ctx.thorough, rng)
    # ... through the engine interpreter: decide predicates and callable limits answered from the tapes of the implementation's run
    leng, lmeta, lunsup = [], [], {}
    for name, mk, data, expect, field in lc:
        m = mk()
        try:
            d = G.dump_machine(m)
        except G.Unsupported as e:
            lunsup[name.split('(')[-1].split(')')[0].split('~')[0].split('[')[0]] = str(e); continue
        leng.append((m, d, data)); lmeta.append(name)
    nlibeng = 0
    for name, (m, d, data), (ir, mr) in zip(lmeta, leng, G.run_both(leng)):
        nlibeng += 1
        if mr[0] == 'fail' and mr[1] == 9:
            raise core.HarnessError('engine model out of fuel on %s %r' % (name, data))
        if not G.same(ir, mr, data=not d.has_decide):
            ndis += 1
            if first is None or first.get('part') != 'library machine through the engine interpreter':
                first = dict(part='library machine through the engine interpreter', machine=name, input=list(data), impl=repr(ir)[:200], model=repr(mr)[:200],
                             decide_outcomes=list(d.dec_tape)[:20])
            if ir[0] == 'ok' and mr[0] == 'fail' and mr[1] in (2, 3) and nbad < 4:
                nbad += 1
                ctx.violation(dict(machine=name, input=list(data), implementation=repr(ir)[:200], reference_engine=repr(mr)),
                              'library parser completed where the limit / repeat rules of the engine require a failure')
    nlib, nlib_ok, nevents = 0, 0, 0
    with Monitor() as mon:
        for name, mk, data, expect, field in lc:
            nlib += 1
            mon.events.clear()
            before = len(mon.bad)
            res, sent, pulled, held, d = lib_run(mk, data)
            nevents += len(mon.events)
            if len(mon.bad) > before:
                nbad += 1
                if nbad <= 6:
                    ctx.violation(dict(machine=name, input=list(data), monitor=mon.bad[before:][:3]), 'a state completed beyond its resolved ending')
            if sent != pulled - held:
                nbad += 1
                ctx.violation(dict(machine=name, input=list(data), sent=sent, pulled=pulled, held=held),
                              'source.sent differs from the number of symbols taken from the input')
            if res[0] == 'ok':
                nlib_ok += 1
                if isinstance(expect, tuple):
                    if sent > expect[1]:
                        nbad += 1
                        ctx.violation(dict(machine=name, input=list(data), sent=sent, limit=expect[1]), 'completed beyond the fixed limit')
                elif res[2] and (sent > expect or (field and field.endswith('!') and sent != expect)):
                    # ('!': the input is consistent with its count field, so the counted sub-grammar must have run exactly that many times)
                    nbad += 1
                    if nbad <= 6:
                        ctx.violation(dict(machine=name, input=list(data), sent=sent, framing_from_bytes=expect, field=field),
                                      'parser completed having consumed a different number of symbols than its length / count field says')
    # ---- C'. chained input blocks: a library parser fed its input in two blocks (cut at every / a sample of positions) completes with
    # exactly the consumption and the data of the single-block run ("... across pushed-back symbols and chained input blocks")
    import cpppo
    from cpppo import dotdict as _dd
    nchain = 0
    seen_mk = set()
    per_name = {}
    for name, mk, data, expect, field in lc:
        if isinstance(expect, tuple) or expect is None or (name, bytes(data)) in seen_mk or len(data) < 2:
            continue
        seen_mk.add((name, bytes(data)))
        per_name[name] = per_name.get(name, 0) + 1
        if per_name[name] > (40 if ctx.thorough else 8):          # a few inputs of every machine rather than many of the first
            continue
        def run_blocks(blocks, mk=mk):
            src = cpppo.chainable(); d = _dd(); pend = list(blocks)
            try:
                m = mk()
                with m as mm:
                    for _m, sta in mm.run(source=src, data=d):
                        if sta is not None or src.peek() is not None:
                            continue
                        if not pend:
                            break
                        src.chain(pend.pop(0))
                    term = mm.terminal
                return ('ok', src.sent, bool(term), sorted((k, repr(v)) for k, v in d.items() if not k.endswith('peer')))
            except Exception as e:
                return ('fail', type(e).__name__)
        whole = run_blocks([data])
        if whole[0] != 'ok' or not whole[2]:
            continue
        cuts = range(1, len(data)) if ctx.thorough else sorted(set([1, len(data) // 2, len(data) - 1, 24, 25]) & set(range(1, len(data))))
        for c in cuts:
            nchain += 1
            two = run_blocks([data[:c], data[c:]])
            if two != whole:
                nbad += 1
                if nbad <= 6:
                    ctx.violation(dict(machine=name, input=list(data), cut=c, whole=repr(whole)[:300], two_blocks=repr(two)[:300]),
                                  'a parser fed its input in two chained blocks completes differently from the single-block run')
                break
    cov['chained_block_runs'] = nchain
    # ---- D. the command parsers take their limit from the header's length FIELD (enip.length), also when the collected payload
    # (enip.input) is longer - the way client.py runs them: path='enip', source = the payload bytes
    import cpppo
    from cpppo import dotdict
    from cpppo.server.enip import parser as P
    ncip = 0
    ucmm = bytes([0x4C, 0x02, 0x20, 0x02, 0x24, 0x01, 0x01, 0x00])
    sdata = struct.pack('<IHHHHHH', 0, 5, 2, 0, 0, 0xB2, len(ucmm)) + ucmm
    for cmd, body in ((0x65, struct.pack('<HH', 1, 0)), (0x6F, sdata), (0x04, struct.pack('<HHHHH', 1, 0x100, 20, 1, 0x20) + b'Communications\x00\x00'),
                      (0x63, b''), (0x70, struct.pack('<IHHHHIHH', 0, 0, 2, 0xA1, 4, 7, 0xB1, 2 + len(ucmm)) + b'\x01\x00' + ucmm)):
        for declared in sorted({len(body), max(len(body) - 1, 0), max(len(body) - 3, 0), len(body) // 2, 0}):
            for extra in (b'', b'\x00', b'\x01\x00\x00\x00', b'\x00' * 8):
                d = dotdict()
                d.enip = dotdict(command=cmd, length=declared, session_handle=7, status=0, options=0)
                d.enip.sender_context = dotdict(input=bytearray(b'ctxtctxt'))
                d.enip.input = bytearray(body + extra)
                src = cpppo.peekable(bytes(body + extra))
                ncip += 1
                try:
                    with P.CIP(terminal=True) as m:
                        for _ in m.run(path='enip', source=src, data=d):
                            pass
                        term = m.terminal
                except Exception:
                    continue                       # failing is allowed
                if term and src.sent > declared:
                    nbad += 1
                    if nbad <= 6:
                        ctx.violation(dict(machine='CIP (command 0x%02x) run on enip.input' % cmd, payload=list(body + extra), declared_length=declared, consumed=src.sent),
                                      'command parser completed having consumed more than the header length field allows')
    cov['cip_on_payload_runs'] = ncip
    cov['evaluations'] = len(cases) + len(eng) + nlib + nlibeng + ncip
    cov['library_machines_outside_the_interpreter'] = lunsup
    cov['distinct_nontrivial'] = nsrc_nontrivial + nok + nlib_ok
    cov['exhaustive'] = False
    cov['rule'] = ('A: %d random op sequences (next/push/peek/chain, mostly legitimate pushes) on peeking/chaining/remembering; '
                   'B: %d machine graphs (8 leaves x fixed limits 0..5, limit followed by an outer symbol, 6 length/count-prefixed bodies, '
                   'regex repeats 0..3, nested repeat in limit) x %s inputs over {a,b} up to length 5 = %d runs, %d completing; '
                   'C: %d runs of SSTRING/STRING/enip_machine/CPF with length fields -3..+3 off and trailing bytes, 13 library parsers (SSTRING, STRING, EPATH, '
                   'EPATH_padded, status, typed_data x4, CPF, enip_machine, unconnected_send, send_data) under every outer limit, with one byte altered and truncated, '
                   'under the run/delegate monitor (%d limit resolutions observed), %d completing; %d of these runs also through the engine interpreter with the decide / '
                   'callable-limit outcomes of the implementation as oracle tapes'
                   % (len(cases), len(z), 'all' if ctx.thorough else 'sampled', len(eng), nok, nlib, nevents, nlib_ok, nlibeng))
    cov['impl_model_disagreements'] = ndis
    cov['impl_property_failures'] = nbad
    if ndis and not nbad:
        ctx.unresolved('correspondence cpppo automata engine / sources = Model.Engine.run / Model.Source.run_ops', first)
    elif ndis:
        ctx.broken.append('correspondence cpppo automata engine / sources = Model.Engine / Model.Source')
        ctx.notes.append(repr(first)[:1500])
    for (name, inp, orc), (ir, mr) in list(zip(emeta, both))[:: max(1, len(emeta) // 4)][:4]:
        ctx.sample(dict(machine=name, input=list(inp), impl=repr(ir)[:200]))
    ctx.assumptions += ['decide predicates and callable limits are external calls of the interpreter model: their outcomes are taken from the implementation\'s own run '
                        '(oracle tapes); move_if side effects on the data are not modelled, so for those machines status / consumed count / terminal are compared, not the data',
                        'inputs are completely available (chunked feeding is covered for regex machines in C11 and frames in C02)']


def replay(ctx, rep):
    print(rep.get('what'), rep.get('witness'))
    return 1
