"""C18 — history replay delivers every logged record exactly once, in order, on time.
Theorems: coq/Properties/C18.v over coq/Model/History.v (reader.open selection + pacing, loader.load state machine).
Tie (correspondence): generated histories are written to real files (rotated extensions, plain / gz / bz2 copies side by
side, comment and blank lines, truncated JSON, notes, null records) and replayed by the live cpppo.history.files.loader
under a frozen clock (files.timer / times.timer replaced from outside) for generated schedules of load() calls; the
states, events and final register map of every call are compared with the extracted model.  The property itself is judged
on the implementation by an independent oracle computed from the history (exactly once, in order, not early, not late,
final map).  Two recorded findings (known_findings.json) are recognised by their shape."""
import bz2, gzip, json, os, shutil, signal, tempfile
from vlib import core


class Hang(BaseException):
    """raised by the interval timer when one load() call does not return (BaseException: load() swallows Exception)"""


_armed = [False]


def _alarm(*a):
    if _armed[0]:                  # the timer repeats: an alarm swallowed somewhere is followed by another
        raise Hang()

EPOCH = 1400000000.0
BASIS = 1000.0
ST = {0: 'INITIAL', 1: 'SWITCHING', 2: 'STREAMING', 3: 'EXHAUSTED', 4: 'AWAITING', 5: 'COMPLETE', 6: 'FAILED'}


# history: list of files, NEWEST FIRST; file = dict(ext=..., copies=[...], recs=[(ts_ms, kind, regs)], comments=...)
def gen_history(rng, shape=None):
    shape = shape or rng.choice(['plain', 'plain', 'plain', 'equal-boundary', 'single', 'allequal', 'mixed', 'many'])
    nfiles = rng.choice([1, 2, 2, 3, 3, 4]) if shape != 'many' else rng.choice([11, 12, 13, 21])      # 'many': rotations beyond .9 (natural order, .1 vs .10)
    t = rng.randrange(1, 20) * 10
    files = []
    for i in range(nfiles):
        if shape == 'single' or (shape == 'mixed' and rng.random() < 0.3):
            n = 1
        else:
            n = rng.choice([2, 2, 3, 4, 6])
        recs = []
        for j in range(n):
            kind = 0 if j == 0 or rng.random() < 0.75 else rng.choice([1, 2, 3])
            regs = [(40001 + rng.randrange(0, 3), rng.randrange(0, 1000)) for _ in range(rng.choice([1, 1, 2]))]
            regs = list(dict(regs).items())
            recs.append((t, kind, regs if kind == 0 else []))
            if j + 1 < n:
                if shape == 'allequal' or (shape == 'mixed' and rng.random() < 0.2):
                    pass
                else:
                    t += rng.choice([10, 10, 20, 50, 200])
        files.append(recs)
        # boundary to the next (newer) file
        if shape == 'equal-boundary' or (shape in ('mixed', 'allequal', 'single') and rng.random() < 0.4):
            pass
        else:
            t += rng.choice([10, 20, 100])
    files.reverse()                                  # newest first
    return files


def write_history(d, files, rng, decorate=True):
    """-> list of (ext, recs) in natural order (what the reader will scan), incl. compressed copies"""
    base = os.path.join(d, 'hist.hst')
    scan = []
    for i, recs in enumerate(files):
        ext = '' if i == 0 else '.%d' % (i - 1)
        lines = []
        if decorate and rng.random() < 0.5:
            lines.append('# opened\n')
        for k, (ts, kind, regs) in enumerate(recs):
            from cpppo.history.times import timestamp
            tstr = str(timestamp(EPOCH + ts / 1000.0))
            if kind == 0:
                js = json.dumps({str(r): v for r, v in regs})
            elif kind == 1:
                js = 'null'
            elif kind == 2:
                js = json.dumps('a note')
            else:
                # corrupt: cut short, or well-formed JSON of the wrong shape (a list, a bare number, true, an overflowing value)
                js = rng.choice(['{"40001": 1'[:rng.randrange(1, 10)], '{"40001": 1'[:rng.randrange(1, 10)], '[1, 2]', '17', 'true', '{"40001": 1e999}', '{"x": 1}'])
            lines.append('\t'.join((tstr, json.dumps(k), js)) + '\n')
            if decorate and rng.random() < 0.25:
                lines.append(rng.choice(['# comment\n', '\n', '   \n', '#\n']))
        if decorate and rng.random() < 0.3:
            lines.append('# closed\n')
        text = ''.join(lines).encode('ascii')
        forms = ['plain']
        if i > 0 and decorate:
            forms = rng.choice([['plain'], ['gz'], ['bz2'], ['plain', 'gz'], ['plain', 'bz2'], ['gz', 'bz2'], ['plain', 'bz2', 'gz']])
        for fm in sorted(forms, key=lambda x: {'plain': 0, 'bz2': 1, 'gz': 2}[x]):
            if fm == 'plain':
                open(base + ext, 'wb').write(text); scan.append((ext, recs))
            elif fm == 'gz':
                with gzip.open(base + ext + '.gz', 'wb') as f:
                    f.write(text)
                scan.append((ext + '.gz', recs))
            else:
                with bz2.BZ2File(base + ext + '.bz2', 'wb') as f:
                    f.write(text)
                scan.append((ext + '.bz2', recs))
    return base, scan


def impl_replay(base, look, limit, sched, factor=1.0, upcomings=None):
    from cpppo.history import files as F, times as T
    from cpppo.history.times import timestamp
    clock = [BASIS]
    signal.signal(signal.SIGALRM, _alarm)
    saved = F.timer, T.timer
    F.timer = T.timer = lambda: clock[0]
    out = []
    try:
        # `sched` is the historical clock (ms after EPOCH) at each load(); at speed `factor` the wall clock runs 1/factor as fast
        clock[0] = BASIS + sched[0] / 1000.0 / factor
        ld = F.loader(base, historical=EPOCH, basis=BASIS, factor=factor, lookahead=look / 1000.0)
        for now in sched:
            clock[0] = BASIS + now / 1000.0 / factor
            _armed[0] = True
            signal.setitimer(signal.ITIMER_REAL, 1.5, 0.5)
            try:
                up = None if upcomings is None else upcomings[len(out)]
                cur, events = ld.load(limit=limit) if up is None else ld.load(limit=limit, upcoming=timestamp(EPOCH + up / 1000.0))
            except Hang:
                _armed[0] = False
                out.append(('HANG', now)); break
            except Exception as e:
                out.append(('EXC', type(e).__name__)); break
            finally:
                _armed[0] = False
                signal.setitimer(signal.ITIMER_REAL, 0)
            evs = [(int(round((e['timestamp'].value - EPOCH) * 1000)), sorted((int(r), int(v)) for r, v in e['values'].items())) for e in events]
            out.append((ld.state, evs))
        vals = sorted((int(r), int(v[1])) for r, v in ld.values.items())
    finally:
        F.timer, T.timer = saved
    return out, vals


def enc_case(scan, look, limit, sched):
    c = [look, 0 if limit is None else 1, limit or 0, len(scan)]
    for ext, recs in scan:
        c.append(len(recs))
        for ts, kind, regs in recs:
            c += [ts, kind]
            if kind == 0:
                c.append(len(regs))
                for r, v in regs:
                    c += [r, v]
    c += [len(sched)] + list(sched)
    return c


def dec_model(o, nsched):
    i = 0
    out = []
    for _ in range(nsched):
        st, n = o[i], o[i + 1]; i += 2
        evs = []
        for _ in range(n):
            ts, k = o[i], o[i + 1]; i += 2
            regs = sorted((o[i + 2 * j], o[i + 2 * j + 1]) for j in range(k)); i += 2 * k
            evs.append((ts, regs))
        out.append((st, evs))
    k = o[i]; i += 1
    vals = sorted((o[i + 2 * j], o[i + 2 * j + 1]) for j in range(k))
    return out, vals


def oracle(files, look, limit, sched, out, vals):
    """the property on the implementation's observable behaviour -> None | (message, known_key)"""
    oldest_first = list(reversed(files))
    start = sched[0]
    # the initial file: the newest file beginning at or before the start, else the oldest
    k0 = 0
    for k, recs in enumerate(oldest_first):
        if recs[0][0] <= start + 1:
            k0 = k
    expected = [(ts, sorted(regs)) for recs in oldest_first[k0:] for ts, kind, regs in recs if kind == 0]
    if any(o[0] == 'EXC' for o in out):
        return 'load() raised', None
    if any(o[0] == 'HANG' for o in out):
        # a file is re-opened for ever: its last data record carries the file's first timestamp and _strict was released by a later non-data record
        def trailing(recs):
            data = [r for r in recs if r[1] == 0]
            return bool(data) and data[-1][0] <= recs[0][0] + 1 and any(r[1] != 0 and r[0] > recs[0][0] + 1 for r in recs)
        trail = any(trailing(recs) for recs in oldest_first)
        return ('load() does not return (the same history file is re-opened for ever, its records delivered again and again)',
                'C18/trailing-non-data-records-loop' if trail else None)
    delivered_all = [e for st, evs in out for e in evs]
    final_state = out[-1][0]
    # several files may begin at the very instant of the file the replay starts in: which of them is "the file at the
    # start" is ambiguous, so register records of OLDER files carrying that same timestamp may or may not be replayed
    t_start = oldest_first[k0][0][0]
    optional = [(ts, sorted(regs)) for recs in oldest_first[:k0] for ts, kind, regs in recs if kind == 0 and ts >= t_start - 1]
    delivered, used_optional = [], False
    pool = list(optional)
    for e in delivered_all:
        if e in pool and e not in expected:
            pool.remove(e); used_optional = True
        else:
            delivered.append(e)
    if any(a[0] > b[0] + 1 for a, b in zip(delivered_all, delivered_all[1:])):
        return 'records delivered out of timestamp order: %r' % (delivered_all[:8],), None
    # histories / settings outside the property's premise are not judged
    mono = all(a[0] <= b[0] for a, b in zip(expected, expected[1:]))
    if not mono:
        return None
    if oldest_first[k0][0][1] != 0:
        return None                                  # corrupt initial frame: replay may legitimately fail
    def trailing(recs):      # the last data record carries the file's first timestamp and non-data records with later timestamps follow
        data = [r for r in recs if r[1] == 0]
        return bool(data) and data[-1][0] <= recs[0][0] + 1 and any(r[1] != 0 and r[0] > recs[0][0] + 1 for r in recs)
    def flat(recs):          # one record, or every record carries the same timestamp
        return all(abs(r[0] - recs[0][0]) <= 1 for r in recs)
    if final_state == 6:
        return 'replay FAILED although the initial frame is intact: the records after the failure are lost (%d of %d delivered)' % (len(delivered), len(expected)), None
    dup = [e for i, e in enumerate(delivered) if e in delivered[:i] and expected.count(e) < delivered.count(e)]
    if dup:
        home = [recs for recs in oldest_first if any((ts, sorted(regs)) == dup[0] for ts, kind, regs in recs if kind == 0)]
        if any(trailing(r) for r in home):
            return ('record delivered more than once (file re-opened after trailing non-data records): %r' % (dup[0],), 'C18/trailing-non-data-records-loop')
        if any(flat(r) for r in home):
            return ('record delivered more than once: %r' % (dup[0],), 'C18/equal-timestamp-file-redelivered')
        return ('record delivered more than once: %r' % (dup[0],), None)
    if final_state == 5 or (final_state in (3, 5)):
        if delivered != expected:
            missing = [e for e in expected if e not in delivered]
            if missing:
                # which boundary? a file whose records all carry one timestamp T followed by a file that starts at T
                eqb = any(all(r[0] == a[0][0] for r in a) and abs(b[0][0] - a[-1][0]) <= 1 for a, b in zip(oldest_first, oldest_first[1:]))
                return ('record never delivered although replay ended: %r' % (missing[0],), 'C18/equal-boundary-file-skipped' if eqb else None)
            return 'records delivered out of order: %r' % (delivered[:6],), None
    else:
        # still running: what was delivered must be a prefix of the expectation
        if delivered != expected[:len(delivered)]:
            return 'delivered records are not a prefix of the logged sequence: %r' % (delivered[:6],), None
    # timing: never before clock + look-ahead reaches the record; without a limit, at the first load after it has
    seen = 0
    for now, (st, evs) in zip(sched, out):
        for ts, regs in evs:
            if ts > now + look + 1:
                return 'record %d delivered at clock %d with look-ahead %d (early)' % (ts, now, look), None
        seen += len(evs)
        if limit is None:
            due = sum(1 for e in expected if e[0] <= now + look - 1)
            if seen < due and final_state != 6:
                return 'only %d of %d due records delivered by clock %d' % (seen, due, now), None
    if final_state == 5 and not used_optional:
        last = {}
        for ts, regs in expected:
            for r, v in regs:
                last[r] = v
        if sorted(last.items()) != vals:
            return 'final register map %r differs from the last logged values %r' % (vals, sorted(last.items())), None
    return None


def gen_sched(rng, files, look):
    lo = min(r[0] for recs in files for r in recs)
    hi = max(r[0] for recs in files for r in recs)
    kind = rng.choice(['catchup', 'paced', 'paced', 'coarse', 'late-start'])
    if kind == 'catchup':
        s = [hi + 500]
    elif kind == 'paced':
        s = list(range(lo - 20, hi + look + 60, 10))
    elif kind == 'coarse':
        s = sorted(set(rng.randrange(lo // 10 - 3, hi // 10 + 10) * 10 for _ in range(rng.randrange(2, 8))))
    else:
        st = rng.randrange(lo // 10, hi // 10 + 1) * 10
        s = list(range(st, hi + 100, rng.choice([10, 30, 70])))
    # finish: let the loader drain and complete
    s += [s[-1] + 1000 + look, s[-1] + 2000 + look, s[-1] + 3000 + look]
    return s


def run(ctx):
    import logging
    logging.getLogger().setLevel(logging.CRITICAL + 10)
    for nme in ('cpppo', 'history', 'cpppo.history'):
        logging.getLogger(nme).setLevel(logging.CRITICAL + 10)
    ctx.prove()
    rng = ctx.rng
    cov = ctx.coverage
    N = 1500 if ctx.thorough else 260
    cases, meta = [], []
    tmp = tempfile.mkdtemp(prefix='c18_')
    nfactor = {}
    ndis, nbad, first = 0, 0, None
    nknown = 0
    try:
        fixed = [
            # the two recorded shapes, always exercised
            ([[(300, 0, [(40001, 7)])], [(100, 0, [(40001, 5)]), (200, 0, [(40001, 6)])]], 0, None, [50, 250, 400, 1400, 2400, 3400]),
            ([[(200, 0, [(40001, 9)]), (300, 0, [(40001, 8)])], [(200, 0, [(40001, 5)]), (200, 0, [(40002, 6)])],
              [(100, 0, [(40001, 1)]), (150, 0, [(40001, 2)])]], 0, None, [50, 1000, 2000, 3000]),
            ([[(20, 0, [(40001, 2)]), (40, 0, [(40001, 4)])], [(10, 0, [(40001, 1)]), (20, 3, [])]], 0, 1, [0, 100, 200, 300, 400]),
            ([[(20, 0, [(40001, 2)]), (40, 0, [(40001, 4)])], [(10, 0, [(40001, 1)]), (20, 3, [])]], 0, None, [0, 100]),
        ]
        for i in range(N):
            if i < len(fixed):
                files, look, limit, sched = fixed[i]
            else:
                files = gen_history(rng)
                look = rng.choice([0, 0, 20, 100])
                limit = rng.choice([None, None, None, 1, 2])
                sched = gen_sched(rng, files, look)
                if limit is not None:
                    sched = sorted(sched + [sched[-1] + 100 * k for k in range(1, 3 * sum(len(f) for f in files))])
            d = os.path.join(tmp, 'h%d' % i)
            os.mkdir(d)
            base, scan = write_history(d, files, rng, decorate=i >= len(fixed))
            factor = 1.0 if i < len(fixed) else rng.choice([1.0, 1.0, 2.0, 4.0, 0.5])
            nfactor[factor] = nfactor.get(factor, 0) + 1
            out, vals = impl_replay(base, look, limit, sched, factor)
            shutil.rmtree(d, ignore_errors=True)
            cases.append(enc_case(scan, look, limit, sched)); meta.append((files, scan, look, limit, sched, out, vals, factor))
    finally:
        shutil.rmtree(tmp, ignore_errors=True)
    # ---- load( upcoming=... ): events at or after the given horizon are held back, not lost.  Outside the model (which has no `upcoming`):
    # judged on the implementation alone, on histories without any of the recorded shapes (strictly increasing, files strictly ordered)
    nup = 0
    tmp2 = tempfile.mkdtemp(prefix='c18u_')
    try:
        for i in range(120 if ctx.thorough else 25):
            files = gen_history(rng, shape='plain')
            files = [[r for r in recs if r[1] == 0] for recs in files]
            if any(len(recs) < 2 for recs in files):
                continue
            look = rng.choice([0, 0, 50])
            sched = gen_sched(rng, files, look)
            ups = []
            for now in sched[:-3]:
                allts = [r[0] for recs in files for r in recs]
                ups.append(rng.choice([None, now, now - 10, now - 40, now + 30, rng.choice(allts)]))
            ups += [None, None, None]
            d = os.path.join(tmp2, 'u%d' % i); os.mkdir(d)
            base, scan = write_history(d, files, rng, decorate=False)
            out, vals = impl_replay(base, look, None, sched, 1.0, ups)
            shutil.rmtree(d, ignore_errors=True)
            nup += 1
            desc = dict(files_newest_first=[(ext, recs) for ext, recs in scan], lookahead_ms=look, schedule_ms=sched, upcoming_ms=ups)
            expected_all = [(ts, sorted(regs)) for recs in reversed(files) for ts, kind, regs in recs]
            start = sched[0]
            k0 = 0
            for k, recs in enumerate(reversed(files)):
                if recs[0][0] <= start + 1:
                    k0 = k
            expected = [(ts, sorted(regs)) for recs in list(reversed(files))[k0:] for ts, kind, regs in recs]
            if any(x[0] in ('EXC', 'HANG') for x in out):
                nbad += 1; ctx.violation(desc, 'load( upcoming=... ) raised or did not return'); continue
            early = [(up, e) for (st, evs), up in zip(out, ups) if up is not None for e in evs if e[0] >= up + 1]
            delivered = [e for st, evs in out for e in evs]
            last = {}
            for ts, regs in expected:
                for r, v in regs:
                    last[r] = v
            # (`upcoming` governs when a record is applied to the register map, not when load() reports having read it: not judged)
            if out[-1][0] != 5 or delivered != expected:
                nbad += 1; ctx.violation(dict(desc, states=[ST.get(x[0], x[0]) for x in out], events=[x[1] for x in out]),
                                         'with `upcoming` horizons the replay did not deliver every record exactly once, in order, and complete')
            elif sorted(last.items()) != vals:
                nbad += 1; ctx.violation(dict(desc, final_values=vals, last_logged=sorted(last.items())),
                                         'after a replay that used `upcoming` horizons the register map differs from the last value logged for each register')
    finally:
        shutil.rmtree(tmp2, ignore_errors=True)
    cov['upcoming_replays'] = nup
    outs = core.run_model('history', cases)
    ncomplete = 0
    for (files, scan, look, limit, sched, out, vals, factor), o in zip(meta, outs):
        desc = dict(files_newest_first=[(ext, recs) for ext, recs in scan], lookahead_ms=look, limit=limit, schedule_ms=sched, factor=factor)
        if any(x[0] == 'EXC' for x in out):
            mout, mvals = None, None
        else:
            mout, mvals = dec_model(o, len(sched))
        hung = [j for j, x in enumerate(out) if x[0] == 'HANG']
        agrees = True
        if hung:
            # the model runs out of fuel (state FAILED) exactly where the implementation stops returning
            if mout is None or mout[:hung[0]] != out[:hung[0]] or mout[hung[0]][0] != 6:
                agrees = False
                ndis += 1
                first = first or dict(desc, impl='load() hangs at call %d' % hung[0], model=repr(mout)[:300])
        elif mout != out or mvals != vals:
            agrees = False
            ndis += 1
            if first is None:
                k = next((j for j, (a, b) in enumerate(zip(mout or [], out)) if a != b), None)
                first = dict(desc, first_difference_at_load=k, impl=repr(out[k] if k is not None and k < len(out) else (out[-1], vals))[:400],
                             model=repr(mout[k] if (mout and k is not None) else (mout and mout[-1], mvals))[:400])
        if out and out[-1][0] == 5:
            ncomplete += 1
        v = oracle(files, look, limit, sched, out, vals)
        if v:
            msg, key = v
            # the recorded findings are behaviours of the faithful model (theorems C18_exactly_once_refuted_*): a failure that the model
            # of the unchanged loader does not reproduce step by step is not one of them, whatever its shape
            if key and agrees:
                nknown += 1
                ctx.violation(dict(desc, states=[ST.get(x[0], x[0]) for x in out], events=[x[1] for x in out]), msg, known_key=key)
            else:
                nbad += 1
                if nbad <= 4:
                    ctx.violation(dict(desc, states=[ST.get(x[0], x[0]) for x in out], events=[x[1] for x in out], final_values=vals), msg)
    cov['evaluations'] = len(cases)
    cov['distinct_nontrivial'] = ncomplete
    cov['exhaustive'] = False
    cov['rule'] = ('%d generated histories (1-4 rotated files, 1-6 records each, equal timestamps inside files and across file boundaries, single-record files, '
                   'notes / null / truncated-JSON records, comment and blank lines incl. last line, plain+gz+bz2 copies side by side) x schedules (catch-up, paced every '
                   '10 ms, coarse random, late start) x look-ahead {0,20,100} ms x limit {none,1,2}; %d replays ran to COMPLETE; %d matched the recorded findings'
                   % (len(cases), ncomplete, nknown))
    cov['speed_factors'] = {str(k): v for k, v in nfactor.items()}
    cov['impl_model_disagreements'] = ndis
    cov['impl_property_failures'] = nbad
    if ndis and not nbad:
        ctx.unresolved('correspondence cpppo.history.files loader/reader = Model.History.replay', first)
    elif ndis:
        ctx.broken.append('correspondence cpppo.history.files loader/reader = Model.History.replay')
        ctx.notes.append(repr(first)[:1500])
    ctx.sample(dict(history=meta[0][1], schedule=meta[0][4], states=[ST.get(x[0], x[0]) for x in meta[0][5]]))
    ctx.assumptions += ['frozen clock per load() (files.timer / times.timer replaced from outside); speed factor 1, 2, 4 or 0.5 (the schedule is stated in historical time, the frozen wall clock scaled accordingly; the model has no factor); timestamps multiples of 10 ms (cpppo timestamps 1 ms apart compare by float noise)',
                        'no duration / upcoming; default on_bad_iframe / on_bad_data; xz copies not generated (needs the xz binary)']


def replay(ctx, rep):
    print(rep.get('what'), rep.get('witness'))
    return 1
