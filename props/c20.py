"""C20 — tnetstring serialisation round-trips and the streaming parser agrees with it.
Theorems: coq/Properties/C20.v over coq/Model/Tnet.v.
Tie: correspondence — tnetstrings.dump/parse and tnet_machine (fed in chunks) against the extracted model on
generated values; oracle: parse(dump(v)+tail) == (v, tail) and machine payload/position, directly on the impl."""
import math, struct
from vlib import core

C = dict(hash=35, rbrace=125, rbrack=93, comma=44, dollar=36, bang=33, tilde=126, caret=94)


# ---- values <-> flat ints --------------------------------------------------------------------------
def enc_val(v):
    if v is None:
        return [3]
    if isinstance(v, bool):
        return [2, int(v)]
    if isinstance(v, int):
        return [0, v]
    if isinstance(v, float):
        r = str(v).encode('ascii')
        return [1, len(r)] + list(r)
    if isinstance(v, bytes):
        return [4, len(v)] + list(v)
    if isinstance(v, str):
        u = v.encode('utf-8')
        return [5, len(u)] + list(u)
    if isinstance(v, (list, tuple)):
        out = [6, len(v)]
        for e in v:
            out += enc_val(e)
        return out
    if isinstance(v, dict):
        out = [7, len(v)]
        for k, e in v.items():
            kb = str(k).encode('ascii')
            out += [len(kb)] + list(kb) + enc_val(e)
        return out
    raise TypeError(type(v))


def dec_val(l, i=0):
    k = l[i]
    if k == 0:
        return l[i + 1], i + 2
    if k == 1:
        n = l[i + 1]; return ('float', bytes(l[i + 2:i + 2 + n])), i + 2 + n
    if k == 2:
        return bool(l[i + 1]), i + 2
    if k == 3:
        return None, i + 1
    if k == 4:
        n = l[i + 1]; return bytes(l[i + 2:i + 2 + n]), i + 2 + n
    if k == 5:
        n = l[i + 1]; return ('text', bytes(l[i + 2:i + 2 + n])), i + 2 + n
    if k == 6:
        n = l[i + 1]; i += 2; out = []
        for _ in range(n):
            v, i = dec_val(l, i); out.append(v)
        return out, i
    if k == 7:
        n = l[i + 1]; i += 2; out = []
        for _ in range(n):
            kn = l[i]; key = bytes(l[i + 1:i + 1 + kn]); i += 1 + kn
            v, i = dec_val(l, i); out.append((key, v))
        return ('dict', out), i
    raise ValueError(k)


def canon(v):
    """canonical, comparable form of a Python value as the model presents it"""
    if isinstance(v, bool) or v is None or isinstance(v, (int, bytes)):
        return v
    if isinstance(v, float):
        return ('float', str(v).encode('ascii'))
    if isinstance(v, str):
        return ('text', v.encode('utf-8'))
    if isinstance(v, (list, tuple)):
        return [canon(e) for e in v]
    if isinstance(v, dict):
        return ('dict', [(str(k).encode('ascii'), canon(e)) for k, e in v.items()])
    raise TypeError(type(v))


def same(a, b):
    """equal value of the same types (1 != True, 1 != 1.0)"""
    if type(a) != type(b):
        return False
    if isinstance(a, float):
        return a == b or (math.isnan(a) and math.isnan(b))
    if isinstance(a, (list, tuple)):
        return len(a) == len(b) and all(same(x, y) for x, y in zip(a, b))
    if isinstance(a, dict):
        return list(a.keys()) == list(b.keys()) and all(same(a[k], b[k]) for k in a)
    return a == b


# ---- generators -------------------------------------------------------------------------------------
TRICKY = [b'', b'0:~', b'12:', b':', b'3:abc,', b',', b'}', b']', b'#$^!~', b'5', b'1:', b'\n', b'10:0123456789,', bytes(range(256)),
          b'4:true!', b'::::', b'9999999999:']
TEXTS = ['', 'a', 'é', '12:', '中文', ':,', 'x' * 300, '\U0001f600~', '\n\n', '\ufeff', '\ufeffBOM first', 'mid\ufeffdle', '\x00', '\ufffe\uffff', '\u2028', 'e\u0301']
FLOATS = [0.0, -0.0, 1.5, 0.1, 1 / 3, 1e22, 1e-7, 1.7976931348623157e308, 5e-324, 2.0 ** 53, 0.1 + 0.2, 123456789.123456789, float('inf'),
          -float('inf'), 2.5e-5, 1e16, 123456789012345678.0]
INTS = [0, 1, -1, 9, 10, -10, 99, 100, 2 ** 31, -2 ** 63, 2 ** 64, 10 ** 30, -10 ** 30, 12345]


def gen_scalar(rng):
    k = rng.randrange(7)
    if k == 0:
        return rng.choice(INTS + [rng.randint(-10 ** 6, 10 ** 6), rng.getrandbits(rng.randint(1, 200)) * rng.choice([1, -1])])
    if k == 1:
        f = rng.choice(FLOATS + [rng.uniform(-1e6, 1e6), struct.unpack('<d', struct.pack('<Q', rng.getrandbits(64)))[0]])
        return 0.5 if math.isnan(f) else f
    if k == 2:
        return rng.random() < 0.5
    if k == 3:
        return None
    if k == 4:
        return rng.choice(TRICKY + [bytes(rng.getrandbits(8) for _ in range(rng.choice([1, 2, 9, 10, 11, 99, 100, 101, 1000])))])
    if k == 5:
        return rng.choice(TEXTS + [''.join(chr(rng.choice([rng.randint(32, 126), rng.randint(0xa0, 0x7ff), rng.randint(0x800, 0xd7ff)]))
                                            for _ in range(rng.randint(0, 12)))])
    return rng.choice(TRICKY)


def gen_value(rng, depth):
    if depth <= 0 or rng.random() < 0.45:
        return gen_scalar(rng)
    if rng.random() < 0.5:
        return [gen_value(rng, depth - 1) for _ in range(rng.choice([0, 0, 1, 2, 3, 5, 12]))]
    keys = rng.sample(['a', 'b', 'key', 'K9', '12', ':', 'x' * 20, '', 'type', '0:~', 'n,', 'z}'], rng.choice([0, 1, 2, 3, 5]))
    return {k: gen_value(rng, depth - 1) for k in keys}


def chunkings(rng, data, n_random):
    out = [[data]]
    out.append([bytes([b]) for b in data])
    for _ in range(n_random):
        k = rng.randint(1, min(6, len(data)))
        cuts = sorted(rng.sample(range(1, len(data)), k - 1)) if len(data) > 1 else []
        b = [0] + cuts + [len(data)]
        out.append([data[x:y] for x, y in zip(b, b[1:])])
    return out


# ---- implementation ----------------------------------------------------------------------------------
def impl_stream(chunks, path=None):
    """Feed tnet_machine chunk by chunk (optionally run under a data path, as an embedding grammar would).
    -> (status, type byte, payload bytes, bytes left unconsumed, converted?)"""
    import cpppo
    from cpppo.server import tnet
    total = sum(len(c) for c in chunks)
    source = cpppo.chainable()
    data = cpppo.dotdict()
    pending = list(chunks)
    try:
        with tnet.tnet_machine() as engine:
            for mch, sta in (engine.run(source=source, data=data) if path is None else engine.run(source=source, data=data, path=path)):
                if sta is not None or source.peek() is not None:
                    continue
                if not pending:
                    break
                source.chain(pending.pop(0))
            terminal = engine.terminal
    except Exception as e:
        return ('exc', type(e).__name__, source.sent)
    if not terminal:
        return ('more',)
    left = total - source.sent
    pre = '' if path is None else path + '.'
    raw = data.get(pre + 'tnet.data.input')
    payload = raw.tobytes() if raw is not None else b''
    return ('done', payload, left, data[pre + 'tnet.type.input'])


class ChunkedConn(object):
    """Delivers prepared chunks one per recv() to tnet_from, EOF after the last (needs a selectable fileno)."""

    def __init__(self, chunks):
        import socket
        self.socket = socket
        self.rx, self.tx = socket.socketpair()
        self.chunks, self.pending, self.closed = list(chunks), 0, False

    def fileno(self):
        if not self.pending and not self.closed:
            if self.chunks:
                c = self.chunks.pop(0); self.tx.sendall(c); self.pending += len(c)
            else:
                self.tx.shutdown(self.socket.SHUT_WR); self.closed = True
        return self.rx.fileno()

    def recv(self, n):
        d = self.rx.recv(n); self.pending -= len(d); return d

    def close(self):
        self.rx.close(); self.tx.close()


def impl_from(chunks, ignore):
    """tnet_from over a chunked connection -> (list of yielded values, error name or None)"""
    from cpppo.server import tnet
    conn = ChunkedConn(chunks)
    out, err = [], None
    try:
        for m in tnet.tnet_from(conn, ('verif', 0), ignore=ignore):
            out.append(m)
    except Exception as e:
        err = type(e).__name__
    finally:
        conn.close()
    return out, err


def impl_from_gaps(chunks, ignore):
    """tnet_from with a receive timeout that expires before every chunk (a gap longer than the timeout between any two chunks,
    also in mid-message): recv is scripted - None (timed out) then the chunk - and the timeout is 0, so each None makes
    tnet_from yield None and start a fresh timeout.  -> (messages yielded, Nones filtered out; error name or None)"""
    from cpppo.server import tnet
    script = []
    for c in chunks:
        script += [None, c]
    script += [None, b'']
    saved = tnet.network.recv
    tnet.network.recv = lambda conn, maxlen=4096, timeout=None: script.pop(0) if script else b''
    out, err = [], None
    try:
        for m in tnet.tnet_from(None, ('verif', 1), timeout=0, ignore=ignore):
            if m is not None:
                out.append(m)
            if len(out) > 50:
                break
    except Exception as e:
        err = type(e).__name__
    finally:
        tnet.network.recv = saved
    return out, err


def run(ctx):
    ctx.prove()
    from cpppo.server import tnetstrings
    rng = ctx.rng
    n = 4000 if ctx.thorough else 500
    vals = [gen_value(rng, rng.choice([0, 1, 2, 3, 5, 8])) for _ in range(n)]
    vals += [[[[[[[[[[1]]]]]]]]], {}, [], b'', '', {'a': {'b': {'c': {'d': [None, {'e': b':'}]}}}}]
    # "nested to any depth": towers of lists, of dicts, alternating, with siblings, at depths around common guard values and beyond
    def tower(depth, kind):
        v = rng.choice([1, b'x', None, 'y'])
        for lvl in range(depth):
            k = kind if kind != 'alt' else ('list', 'dict')[lvl % 2]
            v = [v] if k == 'list' else ({'k': v} if k == 'dict' else [lvl, v, 'sib'])
        return v
    for depth in (16, 31, 32, 33, 34, 64, 100, 150):
        for kind in ('list', 'dict', 'alt', 'sib'):
            vals.append(tower(depth, kind))
    tails = [b'', b'0:~', b'\n', b'3:abc,', bytes(rng.getrandbits(8) for _ in range(7)), b'12', b'}']
    cov = ctx.coverage
    cases, meta = [], []
    nbad = 0

    def bad(w, what):
        nonlocal nbad
        nbad += 1
        if nbad <= 3:
            ctx.violation(w, what)

    # A. dump: impl bytes vs model bytes ; B. parse(dump+tail) on both
    dumps = []
    for v in vals:
        try:
            d = tnetstrings.dump(v)
        except Exception as e:
            d = None
            bad(dict(value=repr(v)[:300]), 'dump raised %s' % type(e).__name__)
        dumps.append(d)
        cases.append([0] + enc_val(v)); meta.append(('dump', v, d))
    for v, d in zip(vals, dumps):
        if d is None:
            continue
        tl = rng.choice(tails)
        cases.append([1, len(d + tl)] + list(d + tl)); meta.append(('parse', v, d, tl))
        try:
            pv, rem = tnetstrings.parse(d + tl)
            if not same(pv, v) or rem != tl:
                bad(dict(value=repr(v)[:300], dump=d[:200].hex(), tail=tl.hex(), parsed=repr(pv)[:300], remain=rem[:50].hex()),
                    'parse(dump(v)+tail) != (v, tail)')
        except Exception as e:
            bad(dict(value=repr(v)[:300], dump=d[:200].hex(), tail=tl.hex()), 'parse(dump(v)+tail) raised %s' % type(e).__name__)
    # text in other encodings: parse(dump(v, encoding=E), encoding=E) gives v back, whatever E and wherever the text sits
    nenc = 0
    texts = ['caf\xe9', '\xb5m', 'na\xefve \xff', 'plain']
    for encn in ('latin-1', 'utf-16', 'utf-8', 'cp1252'):
        for t in texts:
            for v in (t, [t], {'k': t}, {'a': {'b': [t, {'c': t}]}}, [{'k': [t]}, t], {'k': 1, 'l': [None, t, b'raw']}):
                nenc += 1
                try:
                    d = tnetstrings.dump(v, encoding=encn)
                    pv, rem = tnetstrings.parse(d + b'~tail', encoding=encn)
                except Exception as e:
                    bad(dict(value=repr(v), encoding=encn), 'parse(dump(v, encoding), encoding) raised %s' % type(e).__name__); continue
                if not same(pv, v) or rem != b'~tail':
                    bad(dict(value=repr(v), encoding=encn, dump=d.hex(), parsed=repr(pv)), 'parse(dump(v, encoding=E) + tail, encoding=E) != (v, tail)')
    cov['round_trips_in_other_text_encodings'] = nenc
    # float text oracle assumption
    nfl = 0
    for f in FLOATS + [rng.uniform(-1e9, 1e9) for _ in range(200)]:
        nfl += 1
        if float(str(f)) != f:
            ctx.unresolved('oracle assumption float(str(f)) == f', repr(f))
    # C. streaming machine on dumps of every type, several chunkings, tails
    stream_cases = []
    svals = [v for v in vals if not isinstance(v, (list, dict))][: (800 if ctx.thorough else 160)]
    svals += [[1, 2], {'a': 1}, True, 1.5]       # unsupported types: payload/position still compared
    for v in svals:
        d = tnetstrings.dump(v)
        tl = rng.choice(tails)
        for ch in chunkings(rng, d + tl, 6 if ctx.thorough else 3):
            ch = [c for c in ch if c]
            flat = [2, len(ch)]
            for c in ch:
                flat += [len(c)] + list(c)
            cases.append(flat); meta.append(('stream', v, d, tl, ch))
    # truncated streams (machine must ask for more, not finish)
    for v in svals[:60]:
        d = tnetstrings.dump(v)
        k = rng.randint(1, len(d) - 1)
        flat = [2, 1, k] + list(d[:k])
        cases.append(flat); meta.append(('stream', v, d[:k], None, [d[:k]]))
    # D. the receive loop tnet_from: several messages separated by ignorable symbols, chunked
    for _ in range(400 if ctx.thorough else 80):
        ign = rng.choice([b'\n', b'\n', b'\r\n ', b''])
        msgs = [rng.choice([v for v in svals if isinstance(v, (int, bytes, str, type(None))) and not isinstance(v, bool)]
                           + [b'a\nb', b'\n', b'\n\n,', 'x\ny', b' \r\n']) for _ in range(rng.randint(1, 4))]
        wire = b''
        for mv in msgs:
            wire += bytes(rng.choice(ign) for _ in range(rng.choice([0, 0, 1, 2]))) if ign else b''
            wire += tnetstrings.dump(mv)
        wire += bytes(rng.choice(ign) for _ in range(rng.choice([0, 1]))) if ign else b''
        splits = chunkings(rng, wire, 3)
        # cuts right before / after every separator and payload byte that is in `ign`
        edges = [i for i in range(1, len(wire)) if wire[i:i + 1] in [bytes([c]) for c in ign] or wire[i - 1:i] in [bytes([c]) for c in ign]]
        for e in edges[:6]:
            splits.append([wire[:e], wire[e:]])
        for ch in splits:
            ch = [c for c in ch if c]
            flat = [3, len(ign)] + list(ign) + [len(ch)]
            for c in ch:
                flat += [len(c)] + list(c)
            cases.append(flat); meta.append(('from', msgs, wire, ign, ch))
    # receive buffers filled to the brim (4096 bytes and more arrive at once, the connection closes right after): nothing buffered is lost
    for sizes in ([1500, 1500, 1500, 3, 3], [4090, 2, 2], [5000, 1], [2040, 2040, 1, 1, 1], [9000, 4, 4]):
        msgs = [bytes(rng.getrandbits(8) for _ in range(k)) if k > 8 else rng.randrange(10 ** k) for k in sizes]
        wire = b'\n'.join(tnetstrings.dump(mv) for mv in msgs) + b'\n'
        for ch in ([wire], [wire[:4096], wire[4096:]], [wire[:4095], wire[4095:]]):
            flat = [3, 1, 10, len(ch)]
            for c in ch:
                flat += [len(c)] + list(c)
            cases.append(flat); meta.append(('from', msgs, wire, b'\n', ch))
    outs = core.run_model('tnet', cases)
    ndis = 0
    first = None
    kinds = {}
    for c, m, o in zip(cases, meta, outs):
        kinds[m[0]] = kinds.get(m[0], 0) + 1
        if m[0] == 'dump':
            mo = bytes(o[2:2 + o[1]]) if o and o[0] == 1 else None
            if mo != m[2]:
                ndis += 1; first = first or dict(kind='dump', value=repr(m[1])[:300], impl=m[2][:200].hex() if m[2] else None, model=mo[:200].hex() if mo else None)
        elif m[0] == 'parse':
            try:
                iv, rem = tnetstrings.parse(m[2] + m[3]); io = (canon(iv), len(rem))
            except Exception:
                io = None
            if o and o[0] == 1:
                mv, i = dec_val(o, 1); mo = (mv, o[i])
            else:
                mo = None
            if io != mo:
                ndis += 1; first = first or dict(kind='parse', data=(m[2] + m[3])[:200].hex(), impl=repr(io)[:300], model=repr(mo)[:300])
        elif m[0] == 'from':
            msgs, wire, ign, ch = m[1], m[2], m[3], m[4]
            iout, ierr = impl_from(ch, ign or None)
            nout = o[1]; i = 2; mouts = []
            for _ in range(nout):
                ty = o[i]; n = o[i + 1]; mouts.append((ty, bytes(o[i + 2:i + 2 + n]))); i += 2 + n
            def conv(ty, p):
                return {44: lambda: p, 36: lambda: p.decode('utf-8'), 35: lambda: int(p), 126: lambda: None}[ty]()
            mvals = [conv(ty, p) for ty, p in mouts]
            ok = len(iout) == len(mvals) and all(same(a, b) for a, b in zip(iout, mvals)) and ((ierr is not None) == (o[0] == 2))
            if not ok:
                ndis += 1; first = first or dict(kind='tnet_from', chunks=[c.hex() for c in ch][:8], ignore=ign.hex(), impl=repr((iout, ierr))[:300],
                                                 model=repr((mvals, o[0]))[:300])
            gout, gerr = impl_from_gaps(ch, ign or None)
            inn = [x for x in iout if x is not None]       # a null message and an expired timeout are both yielded as None
            if gerr != ierr or len(gout) != len(inn) or not all(same(a, b) for a, b in zip(gout, inn)):
                bad(dict(messages=repr(msgs)[:300], chunks=[c.hex() for c in ch][:10], ignore=ign.hex(), yielded=repr(iout)[:300], error=ierr,
                         yielded_with_timeouts=repr(gout)[:300], error_with_timeouts=gerr),
                    'tnet_from yields different messages when receive timeouts expire between the chunks of the stream')
            if ierr is not None or len(iout) != len(msgs) or not all(same(a, b) for a, b in zip(iout, msgs)):
                bad(dict(messages=repr(msgs)[:300], chunks=[c.hex() for c in ch][:10], ignore=ign.hex(), yielded=repr(iout)[:300], error=ierr),
                    'tnet_from did not yield exactly the messages of the stream for this chunking')
        else:
            io = impl_stream(m[4])
            # the same machine run under a data path (as an embedding grammar would): same result, found under that path
            iop = impl_stream(m[4], path=('x', 'a.b')[len(m[4]) % 2])
            if iop != io:
                bad(dict(value=repr(m[1])[:200], chunks=[c.hex() for c in m[4]][:10], plain=repr(io)[:200], under_a_path=repr(iop)[:200]),
                    'the streaming parser run under a data path extracts a different payload / value')
            v, d, tl = m[1], m[2], m[3]
            if o[0] == 1:
                n = o[2]; mo = ('done', bytes(o[3:3 + n]), o[3 + n], o[4 + n])
            elif o[0] == 0:
                mo = ('more',)
            else:
                mo = ('fail',)
            if io[0] == 'exc':
                # conversion failures of unsupported types surface as exceptions in the implementation
                ok = (mo[0] == 'fail') or (mo[0] == 'done' and mo[3] == 0)
            elif io[0] == 'done':
                ok = mo[0] == 'done' and io[1] == mo[1] and io[2] == mo[2]
            else:
                ok = mo[0] == 'more'
            if not ok:
                ndis += 1; first = first or dict(kind='stream', chunks=[c.hex() for c in m[4]][:8], impl=repr(io)[:300], model=repr(mo)[:300])
            # oracle on the implementation: supported types, complete message
            if tl is not None and isinstance(v, (int, bytes, str, type(None))) and not isinstance(v, bool):
                exp_payload = d[d.index(b':') + 1:-1]
                if io[0] != 'done' or io[1] != exp_payload or io[2] != len(tl) or not same(io[3], v):
                    bad(dict(value=repr(v)[:200], chunks=[c.hex() for c in m[4]][:10], tail=tl.hex(), machine=repr(io)[:300]),
                        'streaming parser did not extract the payload of dump(v) and stop at its end for this chunking')
    cov['evaluations'] = len(cases)
    cov['distinct_nontrivial'] = len({repr(m[1]) for m in meta if isinstance(m[1], (list, dict, bytes, str)) and len(m[1]) > 0})
    cov['rule'] = ('seeded values: ints of any size, floats (incl. extremes), bools, None, bytes/text containing the protocol delimiters and '
                   'length-prefix look-alikes, lists/dicts nested to depth 8; each is dumped (impl vs model bytes), parsed with a random tail '
                   '(impl vs model, and directly against v), and the dumps of scalar values are streamed through tnet_machine whole, byte by '
                   'byte and in random chunkings, plus truncated prefixes; distinct_nontrivial = distinct non-empty container/bytes/text values')
    cov['input_distribution'] = kinds
    cov['impl_model_disagreements'] = ndis
    cov['impl_property_failures'] = nbad
    cov['float_text_oracle_checked'] = nfl
    if ndis:
        name = 'correspondence tnetstrings.dump/parse, tnet_machine = Model.Tnet'
        if nbad:
            ctx.broken.append(name)
        else:
            ctx.unresolved(name, first)
    for m in meta[:: max(1, len(meta) // 4)][:4]:
        ctx.sample(dict(kind=m[0], value=repr(m[1])[:120]))
    ctx.assumptions += ['float(str(f)) == f for finite and infinite doubles (CPython repr); floats are carried as their text in the model',
                        'text is valid UTF-8; dictionary keys are ASCII str',
                        'only spellings of integers/lengths that dump produces are modelled (int() accepts more)']


def replay(ctx, rep):
    print(rep['witness'], rep['what'])
    return 1
