"""C16 — dotdict behaves as a tree of nested mappings addressed by dotted paths.
Theorems: coq/Properties/C16.v over coq/Model/Dotdict.v.
Tie: correspondence — (a) _resolve exhaustively over all strings up to a length bound over {a,b,.,[,]};
(b) random operation sequences (set/get/in/del/pop/setdefault/iterate/copy) on cpppo.dotdict vs the model;
oracle: a nested-dict spec for canonical paths, judged on the implementation alone."""
import copy, itertools
from vlib import core

EK = {1: 'KeyError', 2: 'IndexError', 3: 'TypeError', 4: 'NameError', 6: 'ValueError', 99: 'UNMODELLED'}
ECODE = {'KeyError': 1, 'IndexError': 2, 'TypeError': 3, 'NameError': 4, 'ValueError': 6, 'AttributeError': 1}


def kenc(s):
    b = [ord(c) for c in s]
    return [len(b)] + b


def venc(v):
    """encode a *generator* value: int | list | ('plain', dict) | ('dot', dict)"""
    if isinstance(v, int):
        return [0, v]
    if isinstance(v, list):
        return [1, len(v)] + [x for e in v for x in venc(e)]
    tag, d = v
    out = [2 if tag == 'dot' else 3, len(d)]
    for k, e in d.items():
        out += kenc(k) + venc(e)
    return out


def vdec(l, i=0):
    t = l[i]
    if t == 0:
        return l[i + 1], i + 2
    if t == 1:
        n = l[i + 1]; i += 2; out = []
        for _ in range(n):
            v, i = vdec(l, i); out.append(v)
        return out, i
    if t in (2, 3):
        n = l[i + 1]; i += 2; out = []
        for _ in range(n):
            kn = l[i]; k = ''.join(map(chr, l[i + 1:i + 1 + kn])); i += 1 + kn
            v, i = vdec(l, i); out.append((k, v))
        return ('dot' if t == 2 else 'plain', out), i
    raise ValueError(l[i:i + 5])


RESERVED = ('keys', 'get', 'items', 'pop', 'update', 'copy', 'clear', 'set', 'values', 'setdefault', 'iterkeys', 'itervalues', 'iteritems', 'listkeys', 'listvalues', 'listitems')
NONE = -777777        # stands for a None leaf in the model's integer vocabulary


def to_py(v):
    """generator value -> Python object handed to the implementation"""
    from cpppo import dotdict
    if isinstance(v, int):
        return None if v == NONE else v
    if isinstance(v, list):
        return [to_py(e) for e in v]
    tag, d = v
    if tag == 'plain':
        return {k: to_py(e) for k, e in d.items()}
    dd = dotdict()
    for k, e in d.items():
        dict.__setitem__(dd, k, to_py(e))
    return dd


def canon(o):
    """Python object -> comparable structure in the model's vocabulary"""
    from cpppo.dotdict import dotdict_base
    if o is None:
        return NONE
    if isinstance(o, bool) or not isinstance(o, (int, list, dict)):
        return ('other', repr(o))
    if isinstance(o, int):
        return o
    if isinstance(o, list):
        return [canon(e) for e in o]
    if isinstance(o, dotdict_base):
        return ('dot', [(k, canon(v)) for k, v in dict.items(o)])
    return ('plain', [(k, canon(v)) for k, v in o.items()])


# ---- generators ---------------------------------------------------------------------------------------
NAMES = ['a', 'b', 'c', 'ab', 'x1', 'l', 'm', 'keys', 'get', '__x', 'items', 'n_0', '_id', '_m']


def gen_value(rng, depth=2):
    k = rng.random()
    if k < 0.45 or depth == 0:
        return NONE if rng.random() < 0.12 else rng.randint(-5, 99)      # a leaf may hold None: it is in the tree all the same
    if k < 0.55:
        return [rng.randint(0, 9) for _ in range(rng.randint(0, 3))]
    if k < 0.7:
        n = rng.choice([1, 2, 3, 11])
        return [('dot', {rng.choice(NAMES[:7]): gen_value(rng, 0) for _ in range(rng.randint(0, 2))}) for _ in range(n)]
    keys = rng.sample(NAMES[:7] + ['a.b', 'c.d.e', 'b..c'], rng.randint(0, 3))
    return ('plain', {key: gen_value(rng, depth - 1) for key in keys})


def gen_key(rng, known):
    r = rng.random()
    if r < 0.45 and known:
        k = rng.choice(known)
        if rng.random() < 0.3:
            k = k.rsplit('.', 1)[0]
        elif rng.random() < 0.2:
            k = k + '.' + rng.choice(NAMES[:6])
        return k
    parts = [rng.choice(NAMES) for _ in range(rng.randint(1, 4))]
    k = '.'.join(parts)
    r = rng.random()
    if r < 0.15:
        i = rng.randint(0, len(parts) - 1)
        parts.insert(i + 1, ''); parts.insert(i + 2, rng.choice(NAMES[:5])) if rng.random() < 0.7 else None
        k = '.'.join(parts)
    elif r < 0.22:
        k = '.' + k
    elif r < 0.27:
        k = k + '.'
    elif r < 0.33:
        k = k + '..' + rng.choice(NAMES[:4])
    elif r < 0.36:
        k = '...' + k
    elif r < 0.45:
        k = rng.choice(['l', 'm', 'a']) + '[%d]' % rng.choice([0, 0, 1, 2, 5]) + rng.choice(['', '.' + rng.choice(NAMES[:5])])
    elif r < 0.48:
        k = rng.choice(['l', 'm']) + '[ %d].' % rng.randint(0, 2) + rng.choice(NAMES[:5])
    return k


def gen_ops(rng, n):
    ops, known, lists = [], [], []
    for _ in range(n):
        r = rng.random()
        k = gen_key(rng, known)
        if lists and rng.random() < 0.3:
            # address an element of a list of mappings stored earlier: name[i], name[i].sub, name[i].sub.x
            lk, ln = rng.choice(lists)
            k = '%s[%d]' % (lk, rng.randint(0, ln)) + rng.choice(['', '', '.' + rng.choice(NAMES[:5]), '.a.b'])
        if r < 0.38:
            v = gen_value(rng)
            ops.append(('set', k, v))
            if isinstance(v, list) and v and all(isinstance(e, tuple) for e in v) and '[' not in k and '..' not in k and not k.startswith('.') and not k.endswith('.'):
                lists.append((k, len(v) - 1))
            if '[' not in k and '..' not in k and not k.startswith('.') and not k.endswith('.'):
                known.append(k)
        elif r < 0.55:
            ops.append(('get', k))
        elif r < 0.67:
            ops.append(('in', k))
        elif r < 0.77:
            ops.append(('del', k))
        elif r < 0.85:
            ops.append(('pop', k, None if rng.random() < 0.5 else rng.randint(100, 105)))
        elif r < 0.93:
            ops.append(('setdefault', k, gen_value(rng, 1)))
        else:
            ops.append(('keys',))
    ops.append(('keys',))
    return ops


def gen_scenario(rng):
    """lists of mappings addressed as name[i]: assign by index (ints, plain dicts, mappings), look inside, iterate"""
    base = rng.choice(['rack.slots', 'l', 'a.b.m', 'x1'])
    n = rng.choice([1, 2, 3, 11, 12])
    ops = [('set', base, [('dot', {rng.choice(NAMES[:5]): rng.randint(0, 9)}) for _ in range(n)])]
    for _ in range(rng.randint(2, 8)):
        i = rng.randint(0, n)
        idx = rng.choice(['[%d]' % i, '[%d]' % i, '[ %d]' % i])
        sub = rng.choice(NAMES[:5])
        r = rng.random()
        if r < 0.35:
            ops.append(('set', base + idx, gen_value(rng, 1) if rng.random() < 0.4 else ('plain', {sub: rng.randint(0, 9), 'c.d': 7})))
        elif r < 0.55:
            ops.append(('set', base + idx + '.' + sub, gen_value(rng, 1)))
        elif r < 0.75:
            ops.append(('get', base + idx + rng.choice(['', '.' + sub, '.c.d'])))
        elif r < 0.85:
            ops.append(('in', base + idx + '.' + sub))
        else:
            ops.append(('keys',))
    ops.append(('keys',))
    return ops


def enc_op(op):
    t = op[0]
    if t == 'set':
        body = [0] + kenc(op[1]) + venc(op[2])
    elif t == 'get':
        body = [1] + kenc(op[1])
    elif t == 'in':
        body = [2] + kenc(op[1])
    elif t == 'del':
        body = [3] + kenc(op[1])
    elif t == 'pop':
        body = [4, 0 if op[2] is None else 1] + kenc(op[1]) + ([] if op[2] is None else venc(op[2]))
    elif t == 'setdefault':
        body = [5] + kenc(op[1]) + venc(op[2])
    else:
        body = [6]
    return [len(body)] + body


_SUB = []


def _sub():
    if not _SUB:
        from cpppo import dotdict
        _SUB.append(type('config', (dotdict,), {}))
    return _SUB[0]


def impl_run(ops, cls=None):
    from cpppo import dotdict
    d = (cls or dotdict)()
    outs = []
    for op in ops:
        t = op[0]
        try:
            if t == 'set':
                d[op[1]] = to_py(op[2]); o = ('ok',)
            elif t == 'get':
                o = ('val', canon(d[op[1]]))
            elif t == 'in':
                o = ('val', 1 if op[1] in d else 0)
            elif t == 'del':
                del d[op[1]]; o = ('ok',)
            elif t == 'pop':
                o = ('val', canon(d.pop(op[1]) if op[2] is None else d.pop(op[1], op[2])))
            elif t == 'setdefault':
                o = ('val', canon(d.setdefault(op[1], to_py(op[2]))))
            else:
                o = ('val', ('dot', [(k, canon(v)) for k, v in d.items()]))
        except Exception as e:
            o = ('err', ECODE.get(type(e).__name__, type(e).__name__))
        outs.append(o)
    return outs, canon(d), d


def model_decode(out, ops):
    i, res = 0, []
    for op in ops:
        n = out[i]; body = out[i + 1:i + 1 + n]; i += 1 + n
        t = op[0]
        if t in ('set', 'del'):
            res.append(('ok',) if body == [0] else ('err', body[0]))
        elif t == 'in':
            res.append(('val', body[1]) if body[0] == 0 else ('err', body[0]))
        else:
            res.append(('val', vdec(body, 1)[0]) if body[0] == 0 else ('err', body[0]))
    assert out[i] == 9999
    return res, vdec(out, i + 1)[0]


def spec_check(ops):
    """Oracle on the implementation alone, for canonical paths (no '..', leading/trailing dots or indices):
    a nested-dict spec; lookups succeed exactly when the tree contains the path; keys() lists exactly the leaves."""
    from cpppo import dotdict
    from cpppo.dotdict import dotdict_base
    d = dotdict()
    for n, op in enumerate(ops):
        t = op[0]
        if t == 'keys':
            try:
                ks = list(d.keys()); list(d.items()); list(d.values()); list(d)
            except Exception as e:
                return n, 'iterating the tree (keys / items / values) raises %s' % type(e).__name__
            for k in ks:
                try:
                    v = d[k]
                except Exception as e:
                    return n, 'key %r listed by iteration but lookup raises %s' % (k, type(e).__name__)
                if k not in d:
                    return n, 'key %r listed by iteration but not `in`' % (k,)
            its = list(d.items())
            for k, v in its:
                if d[k] is not v and d[k] != v:
                    return n, 'items() value for %r differs from lookup' % (k,)
            continue
        k = op[1]
        simple = '[' not in k and '..' not in k and not k.startswith('.') and not k.endswith('.') and k != ''
        try:
            if t == 'set':
                before = copy.deepcopy(d)
                d[k] = to_py(op[2])
                if isinstance(op[2], tuple) and op[2][0] == 'plain' and '..' not in k and not k.startswith('.') and not k.endswith('.'):
                    if not isinstance(d[k], dotdict_base):
                        return n, 'plain dict assigned at %r did not become an addressable level (lookup returns %s)' % (k, type(d[k]).__name__)
                if simple:
                    got = d[k]
                    if isinstance(op[2], int) and canon(got) != op[2]:
                        return n, 'after d[%r] = %r lookup returns %r' % (k, op[2], got)
                    if k not in d:
                        return n, 'after assignment %r not in tree' % (k,)
                    if isinstance(op[2], tuple) and op[2][0] == 'plain' and not isinstance(got, dotdict_base):
                        return n, 'plain dict assigned at %r did not become an addressable level' % (k,)
                    # frame: paths that are neither prefix nor extension of k keep their values
                    for q, v in before.items():
                        if not (q == k or q.startswith(k + '.') or k.startswith(q + '.') or k.startswith(q + '[') or q.startswith(k + '[')):
                            if q not in d or canon(d[q]) != canon(v):
                                return n, 'assignment to %r changed unrelated path %r' % (k, q)
            elif t == 'get':
                v = d[k]
                comps = k.split('.')
                if simple and all(c.isidentifier() and not c.startswith('__') and c not in RESERVED for c in comps):
                    # attribute form: d.a.b.c is d['a.b.c'] (single leading underscores are ordinary names)
                    try:
                        o = d
                        for c in comps:
                            o = getattr(o, c)
                    except Exception as e:
                        return n, 'path %r looks up by index form but its attribute form raises %s' % (k, type(e).__name__)
                    if o is not v and canon(o) != canon(v):
                        return n, 'attribute form and index form of %r return different values' % (k,)
            elif t == 'in':
                r = k in d
                try:
                    d[k]; ok = True
                except KeyError:
                    ok = False
                if r != ok:
                    return n, 'membership of %r is %r but lookup %s' % (k, r, 'succeeds' if ok else 'fails')
            elif t == 'del':
                tgt = d.get(k) if simple else None
                nonempty = isinstance(tgt, dotdict_base) and len(tgt) > 0
                del d[k]
                if simple and nonempty:
                    return n, 'deleting non-empty level %r was not refused' % (k,)
                if simple and k in d:
                    return n, 'deleted %r still present' % (k,)
            elif t == 'pop':
                had = (k in d) if simple else None
                try:
                    got = d.pop(k) if op[2] is None else d.pop(k, op[2])
                    raised = False
                except KeyError:
                    raised = True
                par = k.rsplit('.', 1)[0] if '.' in k else None
                try:
                    par_is_level = par is None or isinstance(d[par], dotdict_base)
                except Exception:
                    par_is_level = False
                if simple and had is False and par_is_level:           # (the level exists, its last component does not)
                    if op[2] is None and not raised:
                        return n, 'pop of %r, which is not in the tree, without a default did not raise KeyError (returned %r)' % (k, got)
                    if op[2] is not None and (raised or got != op[2]):
                        return n, 'pop of %r, which is not in the tree, did not return the given default' % (k,)
                if simple and had and k in d:
                    return n, 'popped %r still present' % (k,)
            elif t == 'setdefault':
                had = (k in d) if simple else None
                old = canon(d[k]) if had else None
                r = d.setdefault(k, to_py(op[2]))
                if had and canon(r) != old:
                    return n, 'setdefault replaced existing %r' % (k,)
        except Exception:
            pass
        if t in ('set', 'setdefault') and simple:
            comps = k.split('.')
            for ci, comp in enumerate(comps):
                if comp in RESERVED or comp.startswith('__'):
                    pre = '.'.join(comps[:ci + 1])
                    try:
                        present = pre in d
                    except Exception:
                        present = False
                    if present:
                        return n, 'reserved name %r accepted as a key (path %r)' % (comp, pre)
    # '..' addresses the parent level, also as the LAST component: for a leaf a.b.c in the tree, 'a.b.c..' is the level a.b
    try:
        leafs = [k for k in d.keys() if '[' not in k and k.count('.') >= 1][:6]
    except Exception:
        leafs = []
    for q in leafs:
        parent = q.rsplit('.', 1)[0]
        try:
            want = canon(d[parent])
        except Exception:
            continue
        for up in (q + '..', q + '.zz...'):
            try:
                got = canon(d[up]); present = up in d
            except Exception as e:
                return len(ops), 'path %r (the parent level of %r) cannot be looked up: %s' % (up, q, type(e).__name__)
            if got != want or not present:
                return len(ops), 'path %r does not address the parent level %r' % (up, parent)
    # copies are structurally independent
    try:
        c = copy.deepcopy(d); snap = canon(d)
    except Exception as e:
        return len(ops), 'the tree can no longer be deep-copied (%s): a reserved name got in as a level' % type(e).__name__
    # ... the shallow copy too, as far as levels and lists go (copy.copy copies every level and every list; list ELEMENTS are
    # shared, so only whole elements are replaced here)
    try:
        sc = copy.copy(d)
    except Exception as e:
        return len(ops), 'the tree cannot be copied (%s)' % type(e).__name__
    for k in list(sc.keys())[:6]:
        tgt = k if '[' not in k else k[:k.index(']') + 1]
        try:
            sc[tgt] = 777
        except Exception:
            pass
    try:
        sc['fresh_level.x'] = 1
    except Exception:
        pass
    if canon(d) != snap:
        return len(ops), 'mutating a shallow copy (replacing leaves / list elements, adding a level) changed the original'
    for k in list(c.keys())[:3]:
        try:
            c[k] = 12345
        except Exception:
            pass
    def empty_levels(o, pre=''):
        for k, v in dict.items(o):
            if isinstance(v, dotdict_base):
                if len(v) == 0:
                    yield pre + k
                else:
                    for x in empty_levels(v, pre + k + '.'):
                        yield x
    for lv in list(empty_levels(c))[:4]:                 # an empty level is a level of its own in the copy, too
        try:
            c[lv + '.zz'] = 1
        except Exception:
            pass
    if canon(d) != snap:
        return len(ops), 'mutating a deep copy changed the original'
    return None


def nested_index_check(rng):
    """-> None | (tree description, path, what)"""
    from cpppo import dotdict
    n = rng.randrange(1, 5)
    # (the index expression is evaluated at the level that holds the list: the selector lives at that same level)
    pre = rng.choice(['', '', 'a.', 'm.n.'])
    rows, sel = pre + rng.choice(['rows', 'm']), rng.choice(['sel', 's', 'cfg.sel'])
    sub, ix = rng.choice(['name', 'v', 'x.y']), rng.choice(['idx', 'i', 'p.q'])
    d = dotdict()
    vals = [rng.randrange(100, 200) for _ in range(n)]
    picks = [rng.randrange(n) for _ in range(rng.randrange(1, 4))]
    d[rows] = [dotdict({sub: v}) for v in vals]
    d[pre + sel] = [dotdict({ix: k}) for k in picks]
    desc = {rows: vals, pre + sel: picks, 'sub': sub, 'ix': ix}
    for j, k in enumerate(picks):
        path = '%s[%s[%d].%s].%s' % (rows, sel, j, ix, sub)
        try:
            got = d[path]
        except Exception as e:
            return desc, path, 'a path that is in the tree (element %d of %s) cannot be looked up: %s' % (k, rows, type(e).__name__)
        if got != vals[k]:
            return desc, path, 'lookup returns %r, the element it denotes holds %r' % (got, vals[k])
        try:
            if path not in d or d.get(path) != vals[k]:
                return desc, path, 'membership / get disagree with lookup'
            d[path] = vals[k] + 1000
            if d['%s[%d].%s' % (rows, k, sub)] != vals[k] + 1000:
                return desc, path, 'assignment by the nested index did not reach the element it denotes'
            vals[k] += 1000
        except Exception as e:
            return desc, path, 'membership / get / assignment by a path that is in the tree raises %s' % type(e).__name__
    return None


def resolve_cases(maxlen):
    alpha = 'ab.[]'
    for n in range(1, maxlen + 1):
        for t in itertools.product(alpha, repeat=n):
            s = ''.join(t)
            if '.' in s:
                yield s


def impl_resolve(s):
    from cpppo import dotdict
    try:
        m, r = dotdict()._resolve(s)
        return ('ok', m, r)
    except Exception as e:
        return ('err', ECODE.get(type(e).__name__, type(e).__name__))


def run(ctx):
    ctx.prove()
    rng = ctx.rng
    cov = ctx.coverage
    ndis, nbad, first = 0, 0, None
    # (a) _resolve, exhaustively
    rs = list(resolve_cases(8 if ctx.thorough else 6))
    outs = core.run_model('dotdict', [[1] + kenc(s) for s in rs])
    for s, o in zip(rs, outs):
        io = impl_resolve(s)
        if o[0] == 0:
            n = o[1]; m = ''.join(map(chr, o[2:2 + n])); j = 2 + n
            r = None
            if o[j] == 1:
                rn = o[j + 1]; r = ''.join(map(chr, o[j + 2:j + 2 + rn]))
            mo = ('ok', m, r)
        else:
            mo = ('err', o[0])
        if io != mo:
            ndis += 1; first = first or dict(kind='_resolve', key=s, impl=repr(io), model=repr(mo))
    # (b) operation sequences
    nseq = 3000 if ctx.thorough else 400
    seqs = [gen_ops(rng, rng.randint(3, 30)) if rng.random() < 0.8 else gen_scenario(rng) for _ in range(nseq)]
    # scripted sequences, run with every seed: the shapes earlier rounds of seeded changes needed (so that catching them does not hang on a seed)
    seqs = [
        [('set', 'a.n', NONE), ('setdefault', 'a.n', 5), ('get', 'a.n'), ('in', 'a.n'), ('setdefault', 'a.n', ('plain', {'x': 1})), ('keys',)],
        [('set', 'm.c', 3), ('set', 'm.items.c', 4), ('set', 'm.keys', 5), ('set', 'get.x', 1), ('setdefault', 'pop.x', 1), ('set', 'm.set', 2),
         ('set', 'm.iteritems.x', 2), ('set', 'listkeys', 2), ('keys',)],
        [('set', 'a.b.c', 1), ('get', 'a.b.c..'), ('in', 'a.b.c..'), ('get', 'a.b.c.zz...'), ('pop', 'a.b.zz', None), ('pop', 'a.b.zz', 104), ('pop', 'a.b.c', None), ('keys',)],
        [('set', 'l', [('dot', {'a': 1}), ('dot', {'b': 2})]), ('set', 'l[1]', 7), ('keys',), ('set', 'l[0]', NONE), ('keys',), ('get', 'l')],
        [('set', '_id', 4), ('set', 'a._m.x', 5), ('get', '_id'), ('get', 'a._m.x'), ('get', 'a._m'), ('keys',)],
        [('set', 'e', ('plain', {})), ('set', 'a.b', 1), ('del', 'a.b'), ('keys',), ('set', 'e.x', 2), ('set', 'a.y', 3), ('keys',)],
    ] + seqs
    cases = []
    for ops in seqs:
        flat = [0, len(ops)]
        for op in ops:
            flat += enc_op(op)
        cases.append(flat)
    mouts = core.run_model('dotdict', cases)
    unmodelled = 0
    kinds = {}
    for ops, mo in zip(seqs, mouts):
        iouts, ifinal, _ = impl_run(ops)
        mres, mfinal = model_decode(mo, ops)
        for op in ops:
            kinds[op[0]] = kinds.get(op[0], 0) + 1
        skip = False
        for n, (a, b) in enumerate(zip(iouts, mres)):
            if b == ('err', 99) or (b[0] == 'val' and '-9' in repr(b)):
                unmodelled += 1; skip = True; break
            if a != b:
                ndis += 1
                first = first or dict(kind='ops', ops=[repr(o)[:120] for o in ops[:n + 1]][-6:], at=n, impl=repr(a)[:300], model=repr(b)[:300])
                skip = True
                break
        if not skip and ifinal != mfinal:
            ndis += 1; first = first or dict(kind='final-tree', ops=[repr(o)[:100] for o in ops][-8:], impl=repr(ifinal)[:300], model=repr(mfinal)[:300])
        # the same operations on a tree whose root is a dotdict SUBCLASS (as cpppo's own apidict is, as applications' config classes are)
        o2, f2, _ = impl_run(ops, cls=_sub())
        if (o2, f2) != (iouts, ifinal) and nbad < 6:
            n = next((k for k, (a, b) in enumerate(zip(iouts, o2)) if a != b), len(ops))
            nbad += 1
            ctx.violation(dict(ops=[repr(o)[:120] for o in ops[:n + 1]][-8:], at=n, dotdict=repr(iouts[n:n + 1] or ifinal)[:300], subclass=repr(o2[n:n + 1] or f2)[:300]),
                          'a tree rooted at a dotdict subclass answers differently from a plain dotdict')
        bad = spec_check(ops)
        if bad is not None:
            nbad += 1
            if nbad <= 3:
                ctx.violation(dict(ops=[repr(o)[:160] for o in ops[:bad[0] + 1]], at=bad[0]), bad[1])
    # index expressions that are themselves paths into the tree (rows[sel[0].idx].name): outside the model (which knows name[<digits>]),
    # judged on the implementation alone against the element they denote
    nnest = 0
    for _ in range(200 if ctx.thorough else 40):
        res = nested_index_check(rng)
        nnest += 1
        if res is not None:
            nbad += 1
            if nbad <= 3:
                ctx.violation(dict(tree=res[0], path=res[1]), res[2])
    cov['nested_index_scenarios'] = nnest
    cov['evaluations'] = len(rs) + sum(len(o) for o in seqs) + nnest
    cov['distinct_nontrivial'] = len({repr(o) for ops in seqs for o in ops if o[0] != 'keys' and ('.' in o[1])})
    cov['rule'] = ('(a) every string with a dot over {a,b,.,[,]} up to length %d through _resolve (exhaustive); (b) %d seeded operation sequences of 3-30 '
                   'set/get/in/del/pop/setdefault/keys over dotted paths (depth<=4, ".." segments, leading/trailing dots, name[i] and name[ i] '
                   'indices into lists of mappings, reserved names, plain dicts with dotted keys as values); distinct_nontrivial = distinct dotted-path '
                   'operations' % (8 if ctx.thorough else 6, nseq))
    cov['exhaustive_resolve_strings'] = len(rs)
    cov['input_distribution'] = kinds
    cov['sequences_cut_at_unmodelled_index_expression'] = unmodelled
    cov['impl_model_disagreements'] = ndis
    cov['impl_property_failures'] = nbad
    if ndis:
        name = 'correspondence cpppo.dotdict = Model.Dotdict'
        if nbad:
            ctx.broken.append(name)
        else:
            ctx.unresolved(name, first)
    for ops in seqs[:3]:
        ctx.sample([repr(o)[:100] for o in ops[:5]])
    ctx.assumptions += ['index expressions are literal name[<spaces><digits>] only (the implementation eval()s arbitrary expressions)',
                        'aliasing ("copies are structurally independent") is checked on the implementation only: a functional tree cannot alias',
                        'values are ints, lists, dotdicts and plain dicts']


def replay(ctx, rep):
    print(rep['witness'], rep['what'])
    return 1
