"""C15 — route-path filtering follows the configured device personality.
Theorems: coq/Properties/C15.v over coq/Model/Route.v (+ Model/Logix.v).
Tie: correspondence — complete SendRRData frames through logix.process with a UCMM subclass per personality
(exactly what main() builds for --route-path / --simple) against the extracted model; textual route paths
through device.parse_route_path against the model's parser/printer."""
import itertools, json
from vlib import core
from props import logix_common as L, enip_common as E


def seg_py(s):
    p, l = s
    return {'port': p, 'link': l if isinstance(l, (int, str)) else '.'.join(map(str, l))}


def enc_seg(s):
    """link: int = numeric, 4-tuple = dotted quad, str = any other address string as the port segment carries it"""
    p, l = s
    if isinstance(l, str):
        return [p, 2, int.from_bytes(b'\x01' + l.encode('latin-1'), 'big'), 0, 0, 0]
    return [p, 0, l, 0, 0, 0] if isinstance(l, int) else [p, 1] + list(l)


# request route paths whose link is an address STRING that merely spells a configured number (or nearly a configured address)
TEXT_LINK_PATHS = [[(1, '0')], [(1, '00')], [(1, ' 0')], [(1, '1')], [(2, '1.2.3.4x')], [(1, '0'), (2, 5)], [(3, '7')], [(1, '0'), (2, '5')], [(16, '200')]]


def enc_opath(p):
    if p is None:
        return [0]
    return [1, len(p)] + [x for s in p for x in enc_seg(s)]


def gen_paths(rng):
    segs = [(1, 0), (1, 1), (2, 0), (2, (1, 2, 3, 4)), (2, (1, 2, 3, 5)), (3, 7), (1, (0, 0, 0, 0)), (2, 1), (15, 0), (16, 200)]
    paths = [[s] for s in segs] + [[(1, 0), (2, 5)], [(1, 0), (1, 0)], [(1, 0), (2, (1, 2, 3, 4))], [(2, (1, 2, 3, 4)), (1, 0)], [(1, 0), (2, 5), (1, 1)]]
    return paths


def text_of(path):
    return '/'.join('%d/%s' % (p, l if isinstance(l, int) else '.'.join(map(str, l))) for p, l in path)


def client_to_configured_device(ctx):
    """End to end with cpppo's own client: a simulator configured --route-path 1/0 over TCP; lists of writes, each to its own element
    with its own value and its own per-operation route path (absent, the configured one, others), issued unbundled and bundled.
    A write whose route path the device must refuse must never land (whatever the client did with it); the writes the device must
    accept that precede the first refusal must land.  -> list of problems"""
    import socket, subprocess, sys, time
    from cpppo.server.enip import client, device
    import struct
    for _ in range(50):
        s = socket.socket(); s.bind(('127.0.0.1', 0)); port = s.getsockname()[1]
        u = socket.socket(socket.AF_INET, socket.SOCK_DGRAM)
        try:
            u.bind(('127.0.0.1', port)); break
        except OSError:
            continue
        finally:
            u.close(); s.close()
    proc = subprocess.Popen([sys.executable, '-m', 'cpppo.server.enip', '-a', '127.0.0.1:%d' % port, '--route-path', '1/0', 'T=DINT[12]', 'U@0x99/1/3=DINT'],
                            stdout=subprocess.DEVNULL, stderr=subprocess.DEVNULL, cwd='/')
    problems = []
    try:
        # the first thing this simulator ever hears is a UDP List Identity (what a discovery scan sends); the configured personality
        # must hold whatever came first
        u = socket.socket(socket.AF_INET, socket.SOCK_DGRAM); u.settimeout(0.2)
        try:
            for _ in range(150):
                try:
                    u.sendto(struct.pack('<HHII8sI', 0x63, 0, 0, 0, b'scanscan', 0), ('127.0.0.1', port))
                    if u.recvfrom(4096)[0][:2] == b'\x63\x00':
                        break
                except OSError:
                    time.sleep(0.1)
            else:
                raise core.HarnessError('configured simulator did not start')
        finally:
            u.close()
        good = [None, [{'port': 1, 'link': 0}]]
        other = [[{'port': 1, 'link': 1}], [{'port': 2, 'link': 0}], [{'port': 2, 'link': '1.2.3.4'}], [{'port': 1, 'link': 0}, {'port': 2, 'link': 5}]]
        rng = ctx.rng
        serial = [0]
        for rnd in range(10 if ctx.thorough else 4):
            for multiple in (0, 500):
                n = rng.randrange(3, 9)
                routes = [rng.choice(good) if rng.random() < 0.6 else rng.choice(other) for _ in range(n)]
                if all(r in good for r in routes):
                    routes[rng.randrange(1, n)] = rng.choice(other)
                serial[0] += 1
                vals = [serial[0] * 100 + i for i in range(n)]
                ops = []
                for i, r in enumerate(routes):
                    op = dict(path=[{'symbolic': 'T'}, {'element': i}], elements=1, tag_type=196, data=[vals[i]], method='write')
                    if r is not None:
                        op['route_path'] = r
                    ops.append(op)
                try:
                    conn = client.connector(host='127.0.0.1', port=port, timeout=3)
                    try:
                        with conn:
                            list(conn.operate(ops, depth=2, multiple=multiple, timeout=3))
                    finally:
                        conn.close()
                except Exception:
                    pass
                with client.connector(host='127.0.0.1', port=port, timeout=3) as rd:
                    now = None
                    for _i, _d, _q, _r, sts, val in rd.operate(list(client.parse_operations(['T[0-11]'])), depth=0, timeout=3):
                        now = list(val) if val else None
                if now is None:
                    problems.append('read-back failed'); return problems
                first_bad = next(i for i, r in enumerate(routes) if r not in good)
                w = dict(multiple=multiple, routes=routes, values=vals, tag_after=now)
                for i, r in enumerate(routes):
                    if r not in good and now[i] == vals[i]:
                        problems.append(dict(w, problem='write #%d carried route path %r, which a device configured 1/0 must refuse, yet it landed' % (i, r)))
                        return problems
                    if r in good and i < first_bad and now[i] != vals[i]:
                        problems.append(dict(w, problem='write #%d (acceptable route path, before any refusal) did not land' % i))
                        return problems
        # a connector whose DEFAULT route path was changed (class / instance attribute route_path_default): operations that name no route
        # path of their own travel with that default - a device configured 1/0 refuses 1/3 and accepts a default of 1/0 or none at all
        for k, (dflt, acceptable) in enumerate(((None, True), ([{'port': 1, 'link': 3}], False), ('1/0', True), (False, True), ([{'port': 2, 'link': '1.2.3.4'}], False))):
            val = 9000 + k
            ops = [dict(path=[{'symbolic': 'T'}, {'element': 11}], elements=1, tag_type=196, data=[val], method='write')]
            try:
                conn = client.connector(host='127.0.0.1', port=port, timeout=3)
                if dflt is not None:
                    conn.route_path_default = dflt if not isinstance(dflt, str) else device.parse_route_path(dflt)
                try:
                    with conn:
                        list(conn.operate(ops, depth=0, multiple=0, timeout=3))
                finally:
                    conn.close()
            except Exception:
                pass
            with client.connector(host='127.0.0.1', port=port, timeout=3) as rd:
                now = None
                for _i, _d, _q, _r, sts, v in rd.operate(list(client.parse_operations(['T[11]'])), depth=0, timeout=3):
                    now = list(v) if v else None
            w = dict(connector_route_path_default=dflt, value=val, element_after=now)
            if acceptable and now != [val]:
                problems.append(dict(w, problem='a write through a connector whose default route path is %r did not land' % (dflt,))); return problems
            if not acceptable and now == [val]:
                problems.append(dict(w, problem='a write through a connector whose default route path is %r landed on a device configured 1/0' % (dflt,))); return problems
        # the attribute services too: Set Attribute Single on the scalar attribute @0x99/1/3, one operation per connection, each with its
        # own route path
        from cpppo.server.enip.get_attribute import attribute_operations
        for k, r in enumerate(good + other):
            val = 7000 + k
            ops = list(attribute_operations(['@0x99/1/3=(DINT)%d' % val]))
            for op in ops:
                if r is not None:
                    op['route_path'] = r
            try:
                conn = client.connector(host='127.0.0.1', port=port, timeout=3)
                try:
                    with conn:
                        list(conn.operate(ops, depth=0, multiple=0, timeout=3))
                finally:
                    conn.close()
            except Exception:
                pass
            with client.connector(host='127.0.0.1', port=port, timeout=3) as rd:
                now = None
                for _i, _d, _q, _r, sts, v in rd.operate(list(client.parse_operations(['U'])), depth=0, timeout=3):
                    now = list(v) if v else None
            w = dict(service='Set Attribute Single @0x99/1/3', route=r, value=val, attribute_after=now)
            if r in good and now != [val]:
                problems.append(dict(w, problem='a Set Attribute Single carrying an acceptable route path (%r) did not land' % (r,))); return problems
            if r not in good and now == [val]:
                problems.append(dict(w, problem='a Set Attribute Single carrying route path %r, which a device configured 1/0 must refuse, landed' % (r,))); return problems
        # ---- on a Forward Open connection (client.implicit): an operation WITH a route path leaves the connection and travels as an
        # Unconnected Send carrying that path, so the device's filter judges it like any other; one without travels connected
        try:
            ic = client.implicit(host='127.0.0.1', port=port, timeout=3)
        except Exception as e:
            problems.append(dict(api='client.implicit', problem='a Forward Open connection could not be established: %s' % type(e).__name__)); return problems
        try:
            with ic:
                for r in [None, [{'port': 1, 'link': 0}], [{'port': 1, 'link': 1}], [{'port': 2, 'link': '1.2.3.4'}], [{'port': 1, 'link': 0}, {'port': 2, 'link': 5}]]:
                    serial[0] += 1
                    val = serial[0] * 100 + 77
                    op = dict(path=[{'symbolic': 'T'}, {'element': 11}], elements=1, tag_type=196, data=[val], method='write')
                    if r is not None:
                        op['route_path'] = r
                    try:
                        list(ic.operate([op], depth=0, multiple=0, timeout=3))
                    except Exception:
                        pass
                    with client.connector(host='127.0.0.1', port=port, timeout=3) as rd:
                        now = None
                        for _i, _d, _q, _r, sts, v in rd.operate(list(client.parse_operations(['T[11]'])), depth=0, timeout=3):
                            now = list(v) if v else None
                    w = dict(api='client.implicit (Forward Open connection)', route=r, value=val, element_after=now)
                    if r in good and now != [val]:
                        problems.append(dict(w, problem='a write on an implicit connection with an acceptable route path (%r) did not land' % (r,))); break
                    if r not in good and now == [val]:
                        problems.append(dict(w, problem='a write on an implicit connection carrying route path %r, which a device configured 1/0 must refuse, landed' % (r,))); break
        finally:
            try:
                ic.close()
            except Exception:
                pass
        return problems
    finally:
        proc.terminate()
        try:
            proc.wait(5)
        except Exception:
            proc.kill()


def run(ctx):
    ctx.prove()
    E.quiet()
    from cpppo.server.enip import logix, device, ucmm
    from cpppo import dotdict
    rng = ctx.rng
    paths = gen_paths(rng)
    cfgs = [None, 'simple-false', []] + paths
    rps = [None, []] + paths + TEXT_LINK_PATHS
    tags = [dict(name='A', ty='INT', scalar=False, n=4, addr=None, init=[('i', 1), ('i', 2), ('i', 3), ('i', 4)]),
            dict(name='B', ty='DINT', scalar=False, n=2, addr=(0x99, 1, 2), init=[('i', 7), ('i', 8)])]
    reqs = [('read', ('sym', 'A', 1), 2), ('readf', ('sym', 'b', None), 2, 0), ('write', ('sym', 'A', 0), 195, 2, [('i', 9), ('i', 8)]),
            ('writef', ('num', 0x99, 1, 2, 0), 196, 2, 4, [('i', -5)]), ('get', ('num', 0x99, 1, 2, None)),
            ('set', ('num', 2, 1, 1, None), [1, 0, 2, 0, 3, 0, 4, 0]),
            ('multi', [('read', ('sym', 'A', None), 1), ('write', ('sym', 'A', 3), 195, 1, [('i', 77)])])]
    combos = [(c, r, q) for c in cfgs for r in rps for q in (reqs if ctx.thorough else rng.sample(reqs, 3))]
    if not ctx.thorough:
        combos = [x for x in combos if x[0] is None or x[1] is None or rng.random() < 0.55]
    # every port number with its own segment encoding (1..14 inline, 15 and up extended), with a numeric and with an address link, alone
    # and behind the configured hop: each differs from the personality 1/0 and must be refused by it, and accepted by its own personality
    wr = reqs[2]
    for pnum in list(range(1, 18)) + [255, 256]:
        for link in (0, (1, 2, 3, 4)):
            if (pnum, link) != (1, 0):
                combos.append(([(1, 0)], [(pnum, link)], wr))
            combos.append(([(1, 0)], [(1, 0), (pnum, link)], wr))
            if pnum in (13, 14, 15, 16):
                combos.append(([(pnum, link)], [(pnum, link)], wr))
                combos.append(([(pnum, (1, 2, 3, 4))], [(pnum, (1, 2, 3, 5))], wr))
    # a bare (unwrapped) Read Tag Fragmented is service 0x52 = Unconnected Send: documented ambiguity, never sent bare
    combos = [x for x in combos if not (x[1] is None and x[2][0] == 'readf')]
    cases, obs = [], []
    nbad = 0
    names = {}
    base = L.enc_case((488, tags, []))        # [quirks, maxb, attrs..., dir..., sym..., nreq=0]
    store_enc = base[1:-1]                      # maxb .. sym
    for cfg, rp, q in combos:
        cfg_model = None if cfg is None else ([] if cfg in ('simple-false', []) else cfg)
        cfg_py = None if cfg is None else (False if cfg == 'simple-false' else [seg_py(s) for s in cfg])
        # every other personality also has a route table - for hops (9/9, and link ranges just above the links that are used) that no request names, so every request stays local and the
        # personality's filter must judge it exactly as without a table
        combo_i = len(cases)
        U = type('UCMM_verif', (ucmm.UCMM,), dict({'route_path': cfg_py}, **({'route': {'9/9': '127.0.0.1:9', '1/2-9': '127.0.0.1:9', '2/6-7': '127.0.0.1:9', '3/8-9': '127.0.0.1:9'}} if combo_i % 2 else {})))      # ranges just above links the requests use (1/1, 2/5, 3/7)
        device.lookup_reset(); logix.setup_reset()
        im = L.Impl(488, tags)      # builds tags + default objects (setup() then keeps what exists)
        try:
            logix.setup_reset()
            before = im.image()
            wire = E.build_unconnected(L.py_req(q), route_path=None if rp is None else [seg_py(s) for s in rp])
            res = E.process_frame(wire, UCMM_class=U)
            after = im.image()
        finally:
            im.close()
        nm = {}
        enc = [3] + enc_opath(cfg_model) + enc_opath(rp) + store_enc + L.enc_req(q, {t['name'].lower(): i for i, t in enumerate(tags)})
        cases.append(enc)
        if res[0] == 'exc':
            o = ('exc', res[1])
        elif res[1] != 0:
            o = ('refused', res[1])
        else:
            o = ('reply', E.unwrap_send_data(res[2]))
        obs.append((cfg, rp, q, o, L.hash_list(after), before == after))
        # the property, directly: accept iff (cfg none) or rp absent/empty or rp == cfg
        should = cfg is None or not rp or (cfg_model != [] and rp == cfg_model)
        if should and o[0] != 'reply':
            nbad += 1
            ctx.violation(dict(configured=cfg, request_route_path=rp, request=L.describe_req(q), outcome=repr(o)),
                          'request that the personality must accept was refused') if nbad <= 3 else None
        if not should and (o[0] != 'refused' or o[1] == 0 or before != after):
            nbad += 1
            ctx.violation(dict(configured=cfg, request_route_path=rp, request=L.describe_req(q), outcome=repr(o), tags_changed=before != after),
                          'request with a route path the personality must refuse was %s' % ('executed' if before != after else 'not refused')) if nbad <= 3 else None
    outs = core.run_model('route', cases)
    ndis, first = 0, None
    for (cfg, rp, q, o, h, same), mo in zip(obs, outs):
        if mo[0] == 0:
            m = ('refused', mo[1]); mh = mo[2]
        elif mo[0] == 1 and mo[1] >= 0:
            m = ('reply', bytes(mo[2:2 + mo[1]])); mh = mo[2 + mo[1]]
        else:
            m = ('exc', None); mh = mo[-1]
        if (o[0], o[1] if o[0] != 'exc' else None) != (m[0], m[1] if m[0] != 'exc' else None) or h != mh:
            ndis += 1
            first = first or dict(configured=cfg, request_route_path=rp, request=L.describe_req(q), impl=repr(o), model=repr(m),
                                  store_hash_equal=h == mh)
    for pm in client_to_configured_device(ctx)[:2]:
        nbad += 1
        ctx.violation(dict(scenario='cpppo client -> TCP -> simulator --route-path 1/0', detail=pm), 'client to configured device: %s' % (pm['problem'] if isinstance(pm, dict) else pm))
    # textual route paths
    texts = []
    for p in paths + [[(1, 0), (2, 5), (3, (10, 0, 0, 1)), (4, 4)]]:
        texts.append((p, text_of(p)))
    tcases = [[1, len(t.encode())] + list(t.encode()) for _, t in texts] + [[2, len(p)] + [x for s in p for x in enc_seg(s)] for p, _ in texts]
    touts = core.run_model('route', tcases)
    for (p, t), mo, mp in zip(texts, touts[:len(texts)], touts[len(texts):]):
        try:
            ip = device.parse_route_path(t)
        except Exception as e:
            ip = 'EXC ' + type(e).__name__
        want = [seg_py(s) for s in p]
        if ip != want:
            nbad += 1
            ctx.violation(dict(text=t, parsed=repr(ip), spelled=want), 'textual route path does not denote the segments it spells')
        # JSON form
        try:
            jp = device.parse_route_path(json.dumps(want))
        except Exception as e:
            jp = 'EXC'
        if jp != want:
            nbad += 1
            ctx.violation(dict(json=json.dumps(want), parsed=repr(jp)), 'JSON route path does not denote the segments it spells')
        msegs = None
        if mo and mo[0] == 1:
            msegs = []
            for i in range(mo[1]):
                e = mo[2 + 6 * i: 8 + 6 * i]
                msegs.append({'port': e[0], 'link': e[2] if e[1] == 0 else '.'.join(map(str, e[2:6]))})
        if msegs != (ip if isinstance(ip, list) else None) or bytes(mp[1:1 + mp[0]]).decode() != t:
            ndis += 1
            first = first or dict(text=t, impl=repr(ip), model=repr(msegs), model_print=bytes(mp[1:1 + mp[0]]).decode())
    cov = ctx.coverage
    cov['evaluations'] = len(cases) + len(tcases)
    cov['distinct_nontrivial'] = len({(repr(c), repr(r)) for c, r, q, o, h, s in obs if c is not None and r})
    cov['exhaustive'] = bool(ctx.thorough)
    cov['rule'] = ('personalities {none, simple (False), simple ([]), 15 route paths of 1-3 segments with numeric and address links} x request route '
                   'paths {absent, empty, the same 15} x 7 services (quick: a ~55% sample of the mismatching pairs x 3 services; thorough: all), each '
                   'as a complete SendRRData frame through logix.process with the UCMM subclass main() would build; plus 16 textual route paths '
                   'through parse_route_path (text and JSON); non-trivial = configured personality with a non-empty request route path')
    cov['input_distribution'] = dict(accepted=sum(1 for x in obs if x[3][0] == 'reply'), refused=sum(1 for x in obs if x[3][0] == 'refused'),
                                     raised=sum(1 for x in obs if x[3][0] == 'exc'))
    cov['impl_model_disagreements'] = ndis
    cov['impl_property_failures'] = nbad
    if ndis:
        name = 'correspondence UCMM.request route-path filter / parse_route_path = Model.Route'
        if nbad:
            ctx.broken.append(name)
        else:
            ctx.unresolved(name, first)
    for x in obs[:: max(1, len(obs) // 4)][:4]:
        ctx.sample(dict(configured=x[0], request_route_path=x[1], request=L.describe_req(x[2])[:3], outcome=repr(x[3])[:80]))
    ctx.assumptions += ['requests are valid tag/attribute services on existing tags (unknown paths are C05/C07 business)',
                        'remote routing through a configured UCMM.route table is not modelled (no routes configured)',
                        'IPv4 dotted-quad address links only (ipaddress canonicalisation of other spellings is not modelled)']


def replay(ctx, rep):
    print(rep['witness'], rep['what'])
    return 1
