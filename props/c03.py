"""C03 — tags behave as typed arrays: a read returns the most recently written values.
Theorems: coq/Properties/C03.v over coq/Model/Logix.v.  Tie: correspondence (props/logix_common.py)."""
from props import logix_common as L


def gen(ctx):
    n = 2500 if ctx.thorough else 260
    cases = []
    for _ in range(n):
        tags = L.gen_tags(ctx.rng)
        cases.append((ctx.rng.choice([488, 488, 8, 16, 5, 24, 100]), tags, L.gen_history(ctx.rng, tags, nmax=40 if ctx.thorough else 25)))
    return cases


def run(ctx):
    ctx.prove()
    # string tags (STRING / SSTRING arrays) are outside the tag-store model: judged on the implementation against a list of strings
    import random
    nstr = 0
    for k in range(150 if ctx.thorough else 25):
        nstr += 1
        res = L.string_tags_check(random.Random(ctx.seed * 1000 + k), 40)
        if res is not None:
            ctx.violation(dict(string_tags=dict(S='STRING[3]', T='SSTRING[2]'), history=res[0][-12:]), res[1])
            break
    ctx.coverage['string_tag_histories'] = nstr
    L.logix_check(ctx, 'C03', gen(ctx),
                  rule='seeded random tag configurations (1-5 tags, all 11 scalar CIP types, scalar and array, auto-allocated in the Message '
                       'Router or at explicit @class/instance/attribute, several sharing an instance) x histories of 1-25 (thorough 1-40) requests '
                       '(Read/Write Tag [Fragmented], Get/Set Attribute Single, bundles) addressed by name (random case) or by address, indices and '
                       'counts biased to 0/len-1/len/len+1, values at type boundaries, cross-type writes; distinct by request list',
                  nontrivial=lambda c: any(r[0] in ('write', 'writef', 'set', 'multi') for r in c[2]) and any(r[0] in ('read', 'readf', 'get', 'multi') for r in c[2]))


def replay(ctx, rep):
    case = L.case_from_description(rep['witness']['case'])
    res = L.check_history(case, 'C03')
    print('property C03 on the implementation:', res or 'holds')
    return 1 if res else 0
