"""C03 — tags behave as typed arrays: a read returns the most recently written values.
Theorems: coq/Properties/C03.v over coq/Model/Logix.v.  Tie: correspondence (props/logix_common.py)."""
from props import logix_common as L


def gen(ctx):
    n = 2500 if ctx.thorough else 260
    cases = []
    for _ in range(n):
        tags = L.gen_tags(ctx.rng)
        cases.append((ctx.rng.choice([488, 488, 8, 16, 5, 24, 100]), tags, L.gen_history(ctx.rng, tags, nmax=40 if ctx.thorough else 25)))
    return cases


def run(ctx):
    ctx.prove()
    # string tags (STRING / SSTRING arrays) are outside the tag-store model: judged on the implementation against a list of strings
    import random
    nstr = 0
    for k in range(150 if ctx.thorough else 25):
        nstr += 1
        res = L.string_tags_check(random.Random(ctx.seed * 1000 + k), 40)
        if res is not None:
            ctx.violation(dict(string_tags=dict(S='STRING[3]', T='SSTRING[2]'), history=res[0][-12:]), res[1])
            break
    ctx.coverage['string_tag_histories'] = nstr
    # element indices that need the 16-bit and 32-bit forms of the element segment: a tag of 70000 elements, written and read back at
    # 255/256, 32767/32768, 65535/65536 and the last element, by name and by address, by all three read services
    big = dict(name='Big', ty='INT', scalar=False, n=70000, addr=(0x99, 1, 3), init=[('i', 0)] * 70000)
    reqs, expect = [], {}
    for k, idx in enumerate((0, 255, 256, 32767, 32768, 40000, 65535, 65536, 69999)):
        v = 1000 + k
        p = ('sym', 'big', idx) if k % 2 else ('num', 0x99, 1, 3, idx)
        reqs.append(('write' if k % 3 else 'writef', p, 195, 1) + (([('i', v)],) if k % 3 else (0, [('i', v)])))
        expect[idx] = v
    for idx, v in expect.items():
        reqs.append(('read', ('sym', 'BIG', idx), 1))
        reqs.append(('readf', ('num', 0x99, 1, 3, idx), 1, 0))
    obs, _ = L.run_impl((488, [big], reqs))
    import struct
    for r, (b, _h) in zip(reqs, obs):
        if b is None or b[2] != 0:
            ctx.violation(dict(tag='Big=INT[70000]', request=L.describe_req(r), reply=b.hex() if b else 'raised'),
                          'a request addressing an element inside a large tag was refused'); break
        if r[0] in ('read', 'readf'):
            idx = r[1][2] if r[1][0] == 'sym' else r[1][4]
            got = struct.unpack('<h', b[6:8])[0]
            if got != expect[idx]:
                ctx.violation(dict(tag='Big=INT[70000]', request=L.describe_req(r), got=got, most_recently_written=expect[idx]),
                              'reading an element of a large tag does not return the value most recently written to it'); break
    ctx.coverage['large_tag_requests'] = len(reqs)
    L.logix_check(ctx, 'C03', gen(ctx),
                  rule='seeded random tag configurations (1-5 tags, all 11 scalar CIP types, scalar and array, auto-allocated in the Message '
                       'Router or at explicit @class/instance/attribute, several sharing an instance) x histories of 1-25 (thorough 1-40) requests '
                       '(Read/Write Tag [Fragmented], Get/Set Attribute Single, bundles) addressed by name (random case) or by address, indices and '
                       'counts biased to 0/len-1/len/len+1, values at type boundaries, cross-type writes; distinct by request list',
                  nontrivial=lambda c: any(r[0] in ('write', 'writef', 'set', 'multi') for r in c[2]) and any(r[0] in ('read', 'readf', 'get', 'multi') for r in c[2]))


def replay(ctx, rep):
    case = L.case_from_description(rep['witness']['case'])
    res = L.check_history(case, 'C03')
    print('property C03 on the implementation:', res or 'holds')
    return 1 if res else 0
