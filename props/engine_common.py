"""Dumper and correspondence harness for the automata engine model (coq/Model/Engine.v): C10, C11.

dump_machine() walks a live cpppo machine (states, dfas, regex machines, octets/words/struct parsers) and
emits the node list the Coq interpreter runs.  decide edges and callable limits are external calls: the dumper
emits them as oracle-answered targets / limits, and impl_run() records their outcomes (decide.__call__ wrapped
from outside, the callable limit of a dumped state wrapped on the instance) as the tapes the interpreter consumes.
Side effects of move_if are not modelled, so data is compared only for machines without decide edges.  Anything
else the model does not cover (recognizers, overridden process/terminate other than the known converters, odd
struct formats) raises Unsupported.
run_both() executes the same input through machine.run() and through the extracted interpreter."""
import array, struct
from vlib import core


class Unsupported(Exception):
    pass


def canonical(path):
    """dotted data path with '..' resolved the way the data artifact (dotdict) resolves it"""
    from cpppo import dotdict
    d = dotdict()
    d[path] = 1
    return next(iter(dict_leaves(d)))


def dict_leaves(d, prefix=''):
    for k, v in dict.items(d):
        if isinstance(v, dict):
            yield from dict_leaves(v, prefix + k + '.')
        else:
            yield prefix + k


FMT = {'B': (1, 0), 'b': (1, 1), '<H': (2, 0), '<h': (2, 1), '<I': (4, 0), '<i': (4, 1), '<Q': (8, 0), '<q': (8, 1),
       '<f': (4, 0), '<d': (8, 0), 'H': (2, 0), 'h': (2, 1), 'I': (4, 0), 'i': (4, 1),
       '>H': (2, 2), '>h': (2, 3), '>I': (4, 2), '>i': (4, 3), '>Q': (8, 2), '>q': (8, 3), '>f': (4, 2), '>d': (8, 2)}


class Dump:
    def __init__(self):
        self.nodes = []          # per node: dict
        self.ids = {}            # (id(state), path) -> node id
        self.keys = {}           # canonical data path -> key id
        self.post = []           # (ctx key path, input key path, kind) conversions done by terminate()
        self.floats = {}         # dst key -> struct format for float decodes
        self.objs = []           # the live state objects, for reset()
        self.has_decide = False  # decide edges present: data not compared (move_if side effects are not modelled)
        self.dec_tape = []       # outcomes of decide evaluations of the current run, in order
        self.lim_tape = []       # values returned by callable limits in the current run, in order

    def reset(self):
        """put every dfa of the machine back into its freshly constructed condition (cycle/final/current persist
        between runs of a cpppo machine and leak into .terminal when a later run performs no cycle)"""
        from cpppo import automata as A
        for st in self.objs:
            if isinstance(st, A.dfa_base):
                st.cycle, st.final, st.current = 0, 1, st.initial

    def key(self, path):
        p = canonical(path)
        return self.keys.setdefault(p, len(self.keys))

    def lim(self, st, path, l, what='limit'):
        if l is None:
            return (0, 0)
        if isinstance(l, bool):
            raise Unsupported('bool limit')
        if isinstance(l, int):
            return (1, l)
        if isinstance(l, str):
            return (2, self.key(st.context(path, l)))
        if callable(l) and what == 'limit':
            tape = self.lim_tape
            if not getattr(l, '_verif_recording', False):
                def recording(*a, _orig=l, **k):
                    v = _orig(*a, **k)
                    tape.append(int(v) if isinstance(v, int) and not isinstance(v, bool) else -999999)
                    return v
                recording._verif_recording = True
                st.limit = recording            # on the instance the harness created, for the harness's runs only
            return (3, 0)
        raise Unsupported('callable repeat')

    def visit(self, st, path):
        from cpppo import automata as A
        k = (id(st), path)
        if k in self.ids:
            return self.ids[k]
        nid = len(self.nodes)
        self.ids[k] = nid
        nd = dict(proc=0, store=None, term=bool(st._terminal), greedy=bool(st.greedy), limit=(0, 0), trans=[], sub=None, struct=None)
        self.nodes.append(nd)
        self.objs.append(st)
        if st.recognizers:
            raise Unsupported('recognizers')
        pf = type(st).process
        if pf is A.state_drop.process:
            nd['proc'] = 2
        elif pf is A.state_input.process:
            nd['proc'] = 1
            sp = st.context(path=path)
            nd['store'] = self.key(sp) if sp else None
        elif pf is A.state.process:
            nd['proc'] = 0
        else:
            raise Unsupported('process override %s' % type(st).__name__)
        tf = type(st).terminate
        if isinstance(st, A.state_struct):
            from cpppo.server.enip import parser as _P
            if tf is _P.BOOL.terminate:
                self.bools = getattr(self, 'bools', set()); self.bools.add(canonical(st.context(path=path)))
            elif tf in (_P.IPADDR.terminate, _P.IPADDR_network.terminate):
                self.has_decide = True          # value converters (int -> dotted quad text): data not compared
            elif tf is not A.state_struct.terminate:
                raise Unsupported('struct terminate override %s' % type(st).__name__)
            if st.offset or st.index or st.struct_format not in FMT:
                raise Unsupported('struct format %r' % st.struct_format)
            ours = st.context(path=path)
            size, signed = FMT[st.struct_format]
            nd['struct'] = (self.key(ours + st._input), self.key(ours), size, signed)
            if st.struct_format in ('<f', '<d', '>f', '>d'):
                self.floats[canonical(ours)] = st.struct_format
        elif tf is A.state.terminate:
            pass
        elif tf is A.string_base.terminate or tf is A.integer_base.terminate:
            ours = st.context(path=path)
            sub = st.initial.context(ours) if isinstance(st, A.dfa_base) else None
            self.post.append((canonical(ours), canonical(sub) if sub else None,
                              'int' if tf is A.integer_base.terminate else 'str', getattr(st, 'decode', None)))
        else:
            raise Unsupported('terminate override %s' % type(st).__name__)
        nd['limit'] = self.lim(st, path, st.limit)
        for enc, tgt in dict.items(st):
            if isinstance(enc, tuple):
                raise Unsupported('tuple symbol')
            if isinstance(enc, str):
                enc = ord(enc)
            choice = tgt if type(tgt) is list else [tgt]
            tl = []
            for pot in choice:
                if pot is None:
                    tl.append((0,))
                elif isinstance(pot, A.state):
                    tl.append((1, self.visit(pot, path)))
                elif isinstance(pot, A.decide):
                    self.has_decide = True
                    tl.append((2, None if pot.state is None else self.visit(pot.state, path)))
                else:
                    raise Unsupported('transition target %r' % type(pot).__name__)
            nd['trans'].append((enc, tl))
        if isinstance(st, A.dfa_base):
            sub_path = st.context(path)
            nd['sub'] = (self.visit(st.initial, sub_path), self.lim(st, path, st.repeat, 'repeat'))
        return nid

    def encode(self):
        out = [len(self.nodes)]
        for n in self.nodes:
            out += [n['proc'], 0 if n['store'] is None else 1, n['store'] or 0, int(n['term']), int(n['greedy']), n['limit'][0], n['limit'][1],
                    len(n['trans'])]
            for enc, tl in n['trans']:
                out += [enc, len(tl)]
                for t in tl:
                    if t[0] == 0:
                        out += [0]
                    elif t[0] == 1:
                        out += [1, t[1]]
                    else:
                        out += [2, 0 if t[1] is None else 1, t[1] or 0]
            if n['sub']:
                out += [1, n['sub'][0], n['sub'][1][0], n['sub'][1][1]]
            else:
                out += [0, 0, 0, 0]
            if n['struct']:
                out += [1] + list(n['struct'])
            else:
                out += [0, 0, 0, 0, 0]
        return out


def dump_machine(mach):
    d = Dump()
    d.visit(mach, '')
    return d


def sym(c):
    return c if isinstance(c, int) else ord(c)


def impl_run(mach, inp, dump=None):
    """-> ('fail', code) | ('ok', sent, terminal, {path: value}); with a dump, the decide / callable-limit outcomes of this
    run are recorded into dump.dec_tape / dump.lim_tape"""
    import cpppo
    from cpppo import dotdict, automata as A
    source = cpppo.peekable(inp)
    data = dotdict()
    saved_call = A.decide.__call__
    if dump is not None:
        dump.dec_tape.clear(); dump.lim_tape.clear()
        tape = dump.dec_tape

        def recording_call(self, machine=None, source=None, path=None, data=None):
            r = saved_call(self, machine=machine, source=source, path=path, data=data)
            tape.append(1 if r else 0)
            return r
        A.decide.__call__ = recording_call
    try:
        return _impl_run(mach, source, data)
    finally:
        A.decide.__call__ = saved_call


def _impl_run(mach, source, data):
    import array, struct
    from cpppo import automata as A
    try:
        with mach as m:
            for _ in m.run(source=source, data=data):
                pass
            term = m.terminal
    except A.NonTerminal:
        return ('fail', 2)
    except AssertionError as e:
        msg = str(e)
        return ('fail', 1 if 'no progress' in msg else 3 if 'exceeded limit' in msg else 4)
    except (KeyError, struct.error, TypeError, ValueError, AttributeError, IndexError, UnicodeDecodeError):
        return ('fail', 4)
    vals = {}
    for k in dict_leaves(data):
        v = data[k]
        if isinstance(v, array.array):
            vals[k] = ('b', [sym(c) for c in v])
        elif isinstance(v, bool):
            vals[k] = ('o', repr(v))
        elif isinstance(v, int):
            vals[k] = ('i', v)
        elif isinstance(v, float):
            vals[k] = ('f', v)
        elif isinstance(v, (str, bytes)):
            vals[k] = ('s', v)
        else:
            vals[k] = ('o', repr(v))
    return ('ok', source.sent, bool(term), vals)


def model_run(dump, inp, fuel=400, decs=(), lims=()):
    case = dump.encode() + [fuel, len(inp)] + [sym(c) for c in inp] + [len(decs)] + list(decs) + [len(lims)] + list(lims)
    return case


def decode_model(dump, out):
    if out[0] == 0:
        return ('fail', out[1])
    if out[0] != 1:
        raise core.HarnessError('engine model could not decode the machine: %r' % (out[:5],))
    snt, term, n = out[1], bool(out[2]), out[3]
    i = 4
    inv = {v: k for k, v in dump.keys.items()}
    vals = {}
    for _ in range(n):
        key, kind = out[i], out[i + 1]
        if kind == 0:
            if key >= 0:
                vals[inv[key]] = ('i', out[i + 2])
            i += 3
        else:
            ln = out[i + 2]
            if key >= 0:                      # keys -1 / -2 are the oracle tapes' leftovers
                vals[inv[key]] = ('b', out[i + 3:i + 3 + ln])
            i += 3 + ln
    # conversions that terminate() methods of the string/integer wrappers perform on the collected input
    for ctx, sub, kind, decode in dump.post:
        src = sub if sub in vals else None
        if src is None:
            continue
        raw = vals.pop(src)[1]
        for k in [k for k in vals if k.startswith(ctx + '.')]:
            vals.pop(k)
        try:
            if kind == 'int':
                txt = bytes(raw).decode('ascii') if all(c < 256 for c in raw) else ''.join(map(chr, raw))
                vals[ctx] = ('i', int(txt))
            else:
                if decode:
                    vals[ctx] = ('s', bytes(raw).decode(decode))
                else:
                    vals[ctx] = ('s', ''.join(map(chr, raw)))
        except Exception:
            return ('fail', 4)
    for k, f in dump.floats.items():
        if k in vals and vals[k][0] == 'i':
            width = 'I' if f[1] == 'f' else 'Q'
            vals[k] = ('f', struct.unpack(f, struct.pack(f[0] + width, vals[k][1]))[0])
    for k in getattr(dump, 'bools', ()):
        if k in vals and vals[k][0] == 'i':
            vals[k] = ('o', repr(bool(vals[k][1])))
    return ('ok', snt, term, vals)


def same(a, b, data=True):
    if a[0] != b[0]:
        return False
    if a[0] == 'fail':
        # with unmodelled move_if side effects the implementation may fail earlier, in a data operation: any failure matches
        return a[1] == b[1] or not data
    if a[1] != b[1] or a[2] != b[2]:
        return False
    if not data:
        return True
    va, vb = a[3], b[3]
    if set(va) != set(vb):
        return False
    for k in va:
        x, y = va[k], vb[k]
        if x[0] == 'f' and y[0] == 'f':
            if not (x[1] == y[1] or (x[1] != x[1] and y[1] != y[1])):
                return False
        elif (x[0], list(x[1]) if isinstance(x[1], list) else x[1]) != (y[0], list(y[1]) if isinstance(y[1], list) else y[1]):
            return False
    return True


def run_both(machines_inputs):
    """[(machine, dump, input)] -> [(impl_result, model_result)]"""
    impl, cases = [], []
    for mach, d, inp in machines_inputs:
        d.reset()
        impl.append(impl_run(mach, inp, d))
        cases.append(model_run(d, inp, decs=list(d.dec_tape), lims=list(d.lim_tape)))
    outs = core.run_model('engine', cases)
    res = []
    for (mach, d, inp), ir, o in zip(machines_inputs, impl, outs):
        try:
            mr = decode_model(d, o)
        except KeyError:
            mr = ('fail', 4)
        res.append((ir, mr))
    return res
