"""C02 — message framing ignores stream segmentation; an incomplete frame has no effect.
Theorems: coq/Properties/C02.v over coq/Model/Framing.v.
Tie (correspondence):
  server: the real receive loop server/enip/main.py enip_srv_tcp is run in-process on a scripted connection (network.recv
    replaced from outside by a deliverer of the planned blocks) with the real logix.process behind it.  For every chunk plan
    the frames handed to the request processor must be the frames of the extracted framer, and replies + tag read-back over
    a second session must equal those of whole-frame delivery; for every truncation offset, those of whole-frame delivery
    of exactly the frames the model says are complete, and the session must end with an error iff a frame was unfinished;
  client: client.__next__ on a scripted recvfrom, same plans, messages compared with whole-frame delivery and the model;
  engine: the dumped enip_machine graph through the engine interpreter (Model/Engine.v) must consume 24 + declared;
  TCP: a simulator subprocess, a session cut inside a frame, then a second session on the same listener."""
import itertools, os, socket, struct, subprocess, sys, time
from vlib import core
from props import engine_common as G, enip_common as E, logix_common as L

ADDR1, ADDR2 = ('10.9.8.7', 40001), ('10.9.8.6', 40002)
TAGS = [dict(name='T', ty='DINT', scalar=False, n=4, addr=None, init=[('i', 0)] * 4),
        dict(name='S', ty='INT', scalar=False, n=3, addr=None, init=[('i', 5), ('i', 6), ('i', 7)])]


class FakeConn:
    def __init__(self, blocks):
        self.blocks = list(blocks)
        self.sent = []
        self.closed = False
    def recv(self, maxlen=4096):
        return self.blocks.pop(0) if self.blocks else b''
    def send(self, b):
        b = bytes(b)
        if b[:2] == b'\x65\x00':
            b = b[:4] + b'\0\0\0\0' + b[8:]          # the session handle a Register reply assigns is random
        self.sent.append(b); return len(b)
    def close(self):
        self.closed = True
    def fileno(self):
        return -1


def register_frame():
    return struct.pack('<HHII8sI', 0x65, 4, 0, 0, b'reg-ctx0', 0) + struct.pack('<HH', 1, 0)


def request_stream(which):
    """a list of request frames (bytes)"""
    wr = lambda vals, el=0: ('writef', ('sym', 'T', el), 196, len(vals), 0, [('i', v) for v in vals])
    frames = [register_frame()]
    if which == 0:
        frames += [E.build_unconnected(L.py_req(wr([11, 22, 33, 44])), ctx=b'w1'),
                   E.build_unconnected(L.py_req(('readf', ('sym', 'T', None), 4, 0)), ctx=b'r1', wrap=True)]
    elif which == 1:
        frames += [E.build_unconnected(L.py_req(('write', ('sym', 'S', 1), 195, 2, [('i', -3), ('i', 9)])), ctx=b'w2'),
                   E.build_unconnected(L.py_req(('multi', [('read', ('sym', 'S', None), 3), wr([7], 2)])), ctx=b'm1'),
                   E.build_unconnected(L.py_req(('read', ('sym', 'S', 7), 1)), ctx=b'bad'),
                   E.build_unconnected(L.py_req(wr([1, 2], 1)), ctx=b'w3', route_path=[{'port': 1, 'link': 0}])]
    else:
        # a payload whose bytes look like headers / lengths
        frames += [E.build_unconnected(L.py_req(wr([0x00040065, 0x18, 0, 0x00650004])), ctx=b'\x65\x00\x04\x00'),
                   E.build_unconnected(L.py_req(('readf', ('sym', 'T', None), 4, 0)), ctx=b'r9', wrap=True)]
    return frames


def readback_frames():
    return [register_frame(),
            E.build_unconnected(L.py_req(('readf', ('sym', 'T', None), 4, 0)), ctx=b'rbT', wrap=True),
            E.build_unconnected(L.py_req(('readf', ('sym', 'S', None), 3, 0)), ctx=b'rbS', wrap=True)]


def run_session(blocks, addr):
    """the real enip_srv_tcp on a scripted connection -> (frames handed to the processor, replies, error name | None)"""
    from cpppo import dotdict
    from cpppo.server.enip import main, logix
    from cpppo.server import network
    conn = FakeConn(blocks)
    calls = []

    def proc(a, data, **kw):
        if 'request' in data and 'enip' in data.request:
            e = data.request.enip
            calls.append(struct.pack('<HHII8sI', e.command, e.length, e.session_handle, e.status,
                                     bytes(bytearray(e.sender_context.input)), e.options) + bytes(bytearray(e.get('input', b''))))
        return logix.process(a, data=data, **kw)
    srv = dotdict(); srv.control = dotdict(latency=0.0, done=False, disable=False)
    saved = network.recv
    network.recv = lambda c, maxlen=4096, timeout=None: c.recv(maxlen)
    err = None
    try:
        main.enip_srv_tcp(conn, addr, 'c02', proc, server=srv)
    except Exception as e:
        err = type(e).__name__
    finally:
        network.recv = saved
    return calls, conn.sent, err, conn.closed


def concurrent_sessions(frames, cut):
    """Two sessions at once, each in its own thread as in the simulator: session A has received `cut` bytes (it sits inside a frame,
    waiting for more) while session B sends complete frames.  B's frames are acted upon without waiting for A.  -> problem | None"""
    import threading
    from cpppo.server.enip import logix, device, main
    device.lookup_reset(); logix.setup_reset()
    main.connections.clear() if hasattr(main.connections, 'clear') else None
    im = L.Impl(488, TAGS)
    release = threading.Event()
    stream = b''.join(frames)

    class Waiting(FakeConn):
        def recv(self, maxlen=4096):
            if self.blocks:
                return self.blocks.pop(0)
            release.wait(20)
            return b''
    from cpppo import dotdict
    from cpppo.server import network
    saved = network.recv
    network.recv = lambda c, maxlen=4096, timeout=None: c.recv(maxlen)
    try:
        srv = dotdict(); srv.control = dotdict(latency=0.0, done=False, disable=False)
        ca, cb = Waiting([stream[:cut]]), FakeConn(readback_frames())
        def serve(conn, addr, name):
            try:
                main.enip_srv_tcp(conn, addr, name, logix.process, server=srv)
            except Exception:
                pass                                   # (a stream that ends inside a frame ends its own session with an error)
        ta = threading.Thread(target=serve, args=(ca, ADDR1, 'c02a'), daemon=True)
        tb = threading.Thread(target=serve, args=(cb, ADDR2, 'c02b'), daemon=True)
        ta.start(); time.sleep(0.05); tb.start()
        tb.join(8)
        stuck = tb.is_alive()
        release.set(); ta.join(8); tb.join(8)
        if stuck:
            return 'a session that sent %d complete frames got %d replies within 8 s while another session sat %d bytes into its stream' % (3, len(cb.sent), cut)
        if len(cb.sent) != 3:
            return 'a session that sent 3 complete frames got %d replies while another session sat %d bytes into its stream' % (len(cb.sent), cut)
    finally:
        release.set()
        network.recv = saved
        im.close()
    return None


def scenario(blocks, same_peer=False):
    """fresh simulator; session 1 receives `blocks` then end-of-stream; session 2 reads everything back"""
    from cpppo.server.enip import logix, device, main
    device.lookup_reset(); logix.setup_reset()
    main.connections.clear() if hasattr(main.connections, 'clear') else None
    im = L.Impl(488, TAGS)
    try:
        calls, replies, err, closed = run_session(blocks, ADDR1)
        rb_calls, rb_replies, rb_err, _ = run_session(readback_frames(), ADDR2)
        # ... and a new session from the very peer address (host, port) whose session has just ended, possibly inside a frame
        rs_replies, rs_err = rb_replies, None
        if same_peer:
            _, rs_replies, rs_err, _ = run_session(readback_frames(), ADDR1)
        image = im.image()
    finally:
        im.close()
    return dict(calls=calls, replies=replies, err=err, closed=closed, readback=rb_replies,
                rb_ok=(rb_err is None and len(rb_replies) == 3 and rs_err is None and rs_replies == rb_replies), image=image)


def model_frames(plans):
    cases = [[len(p)] + [x for b in p for x in [len(b)] + list(b)] for p in plans]
    outs = core.run_model('framing', cases)
    res = []
    for o in outs:
        n = o[0]; i = 1; fr = []
        for _ in range(n):
            ln = o[i]; fr.append(bytes(o[i + 1:i + 1 + ln])); i += 1 + ln
        ln = o[i]; rest = bytes(o[i + 1:i + 1 + ln])
        res.append((fr, rest))
    return res


def plans_for(stream, rng, thorough, quick_step):
    n = len(stream)
    plans = [('whole', [stream]), ('bytes', [stream[i:i + 1] for i in range(n)])]
    for k in range(1, n, 1 if thorough else quick_step):
        plans.append(('split@%d' % k, [stream[:k], stream[k:]]))
    for j in range(30 if thorough else 8):
        cuts = sorted(rng.sample(range(1, n), rng.choice([2, 3, 5, 8])))
        parts = [stream[a:b] for a, b in zip([0] + cuts, cuts + [n])]
        if rng.random() < 0.3:
            parts.insert(rng.randrange(len(parts)), b'') if False else None   # an empty recv() is EOF: never generated
        plans.append(('cuts%r' % cuts, parts))
    return plans


def client_messages(blocks, hold_open=False):
    """client.__next__ over scripted recvfrom -> (list of canonical messages, error name | None).
    hold_open: after the last block the connection stays up and silent (no end-of-stream to flush anything out): what has been
    delivered by then is all there is"""
    from cpppo.server.enip import client as C, parser
    lst = socket.socket(); lst.bind(('127.0.0.1', 0)); lst.listen(1)
    port = lst.getsockname()[1]
    cl = C.client(host='127.0.0.1', port=port)
    plan = list(blocks)
    addr = ('127.0.0.1', port)
    idle = [0]
    def scripted(timeout=None):
        if plan:
            return plan.pop(0), addr
        if hold_open:
            idle[0] += 1
            return None, addr
        return b'', addr
    cl.recvfrom = scripted
    msgs, err = [], None
    try:
        cl.frame.__enter__()
        try:
            if hold_open:
                # the way every user of the client waits for a reply: await_response re-enters the parser only when the socket is readable
                cl.readable = lambda timeout=None: bool(plan)
            for _ in range(20000):
                try:
                    if hold_open:
                        r, _ela = C.await_response(cl, timeout=0.01)
                        if r is None or not r:
                            break
                    else:
                        r = next(cl)
                except StopIteration:
                    break
                except Exception as e:
                    err = type(e).__name__
                    break
                if r is not None:
                    r.pop('peer', None)
                    msgs.append(parser.enip_format(r, sort_keys=True))
                elif idle[0] >= 3:
                    break
        finally:
            cl.frame.__exit__(None, None, None)
    finally:
        cl.close(); lst.close()
    return msgs, err


def tcp_smoke(ctx):
    """a real listener: a session cut inside a frame must not disturb the tag, later sessions or the listener"""
    s = socket.socket(); s.bind(('127.0.0.1', 0)); port = s.getsockname()[1]; s.close()
    env = dict(os.environ, PYTHONPATH=os.path.dirname(core.REPO) if False else os.environ.get('PYTHONPATH', ''))
    p = subprocess.Popen([sys.executable, '-m', 'cpppo.server.enip', '-a', '127.0.0.1:%d' % port, 'T=DINT[4]'],
                         stdout=subprocess.DEVNULL, stderr=subprocess.DEVNULL, env=env, cwd='/')
    problems = []
    try:
        for _ in range(100):
            try:
                c = socket.create_connection(('127.0.0.1', port), timeout=0.5); c.close(); break
            except OSError:
                time.sleep(0.1)
        else:
            raise core.HarnessError('simulator subprocess did not start listening')
        write = E.build_unconnected(L.py_req(('writef', ('sym', 'T', 0), 196, 4, 0, [('i', v) for v in (5, 6, 7, 8)])), ctx=b'tw')
        read = E.build_unconnected(L.py_req(('readf', ('sym', 'T', None), 4, 0)), ctx=b'tr', wrap=True)

        def exchange(sock, frame):
            sock.sendall(frame)
            buf = b''
            while len(buf) < 24 or len(buf) < 24 + struct.unpack('<H', buf[2:4])[0]:
                d = sock.recv(4096)
                if not d:
                    return None
                buf += d
            return buf
        for cut in (10, 24, len(write) - 1):
            c = socket.create_connection(('127.0.0.1', port), timeout=3)
            if exchange(c, register_frame()) is None:
                problems.append('no Register reply'); break
            c.sendall(write[:cut]); c.shutdown(socket.SHUT_WR)
            c.settimeout(3)
            try:
                extra = c.recv(4096)
            except socket.timeout:
                extra = b'timeout'
            c.close()
            if extra:
                problems.append('reply %r to a request cut at byte %d' % (extra[:30], cut))
            c2 = socket.create_connection(('127.0.0.1', port), timeout=3)
            r1 = exchange(c2, register_frame()); r2 = exchange(c2, read)
            c2.close()
            if r1 is None or r2 is None:
                problems.append('second session got no reply after a session cut at byte %d' % cut)
            elif r2[-16:] != struct.pack('<4i', 0, 0, 0, 0):
                problems.append('tag changed by a request cut at byte %d: %r' % (cut, r2[-16:]))
    finally:
        p.terminate()
        try:
            p.wait(5)
        except Exception:
            p.kill()
    return problems


def run(ctx):
    E.quiet()
    ctx.prove()
    rng = ctx.rng
    cov = ctx.coverage
    ndis, nbad, first = 0, 0, None
    nrun = 0
    nontriv = 0

    def bad(w, what):
        nonlocal nbad
        nbad += 1
        if nbad <= 4:
            ctx.violation(w, what)

    reply_streams = []
    for which in ((0, 1, 2) if ctx.thorough else (0, 1)):
        frames = request_stream(which)
        stream = b''.join(frames)
        ends = list(itertools.accumulate(len(f) for f in frames))
        # baselines: the first k frames, delivered one frame per recv()
        base = {k: scenario(frames[:k]) for k in range(len(frames) + 1)}
        full = base[len(frames)]
        if full['err'] or len(full['replies']) != len(frames) or not full['rb_ok']:
            bad(dict(stream=which, frames=[f.hex() for f in frames], processed=len(full['calls']), replies=[x.hex() for x in full['replies']], error=full['err'],
                     later_session_served=full['rb_ok']),
                'complete request frames delivered one per recv() and followed by end-of-stream were not all acted upon (%d replies for %d frames)'
                % (len(full['replies']), len(frames)))
            continue
        reply_streams.append(full['replies'])
        # --- another session is served while this one sits inside a frame (header only / inside the payload / between frames)
        for cut in sorted({10, 24, ends[0] + 24, ends[0] + 30, ends[1] - 1, ends[1]}):
            pm = concurrent_sessions(frames, cut)
            nrun += 1
            if pm:
                bad(dict(stream=which, bytes_received_by_the_waiting_session=cut), pm); break
        # --- chunk plans of the complete stream
        plans = plans_for(stream, rng, ctx.thorough, 5 if which else 3)
        mfr = model_frames([p for _, p in plans])
        for (pname, blocks), (mf, mrest) in zip(plans, mfr):
            nrun += 1
            r = scenario(blocks)
            if mf != frames or mrest != b'':
                raise core.HarnessError('framing model disagrees with the generator on %s' % pname)
            if r['calls'] != mf:
                ndis += 1
                first = first or dict(part='server framing', stream=which, plan=pname, handed_to_processor=[c.hex() for c in r['calls']][:6],
                                      model_frames=[f.hex() for f in mf][:6])
            if r['replies'] != full['replies'] or r['readback'] != full['readback'] or r['image'] != full['image'] or r['err']:
                bad(dict(stream=which, plan=pname, blocks=[b.hex() for b in blocks][:12], replies=[x.hex() for x in r['replies']],
                         whole_frame_replies=[x.hex() for x in full['replies']], error=r['err'], readback_equal=r['readback'] == full['readback']),
                    'server replies / tag values depend on how the request stream was cut into received blocks')
            else:
                nontriv += 1
        # --- truncation at every offset, then end-of-stream
        offs = range(0, len(stream) + 1) if ctx.thorough or which == 0 else range(0, len(stream) + 1, 3)
        tplans = [[stream[:n]] if n else [] for n in offs]
        tm = model_frames(tplans)
        for n, blocks, (mf, mrest) in zip(offs, tplans, tm):
            nrun += 1
            k = len(mf)
            if k != sum(1 for e in ends if e <= n):
                raise core.HarnessError('framing model disagrees with the generator at truncation %d' % n)
            r = scenario(blocks, same_peer=(n % 4 == 1 or n in ends))
            b = base[k]
            w = dict(stream=which, truncated_at=n, complete_frames=k, frame_ends=ends, replies=[x.hex() for x in r['replies']],
                     error=r['err'], processed=[c.hex() for c in r['calls']])
            if r['calls'] != mf:
                ndis += 1
                first = first or dict(part='server truncation', **w)
            if len(r['replies']) > k or r['calls'][k:]:
                bad(w, 'a request whose final byte was never delivered was handed to the request processor / answered')
            elif r['image'] != b['image'] or r['readback'] != b['readback']:
                bad(w, 'a connection that ended inside a frame changed tag values')
            elif r['replies'] != b['replies']:
                bad(w, 'complete requests before the cut were not answered as in whole-frame delivery')
            elif not r['rb_ok']:
                bad(w, 'a later session did not work after a connection ended inside a frame')
            elif (mrest != b'') != (r['err'] is not None):
                ndis += 1
                first = first or dict(part='end-of-stream handling', unfinished=mrest.hex(), **w)
            else:
                nontriv += 1

    # ---- frames whose declared length needs all 16 bits of the field (>= 0x8000), followed by further frames
    nbig = 0
    for n in ((8100, 8190, 16300) if ctx.thorough else (8190,)):
        big = E.build_unconnected(L.py_req(('writef', ('sym', 'T', 0), 196, n, 0, [('i', k) for k in range(n)])), ctx=b'big')
        frames = [register_frame(), big, E.build_unconnected(L.py_req(('readf', ('sym', 'T', None), 4, 0)), ctx=b'r1', wrap=True)]
        stream = b''.join(frames)
        cuts = [None, 28 + 3, 28 + 24, 28 + 32767 + 24, len(stream) - len(frames[2]) - 1, len(stream) - len(frames[2]) + 5]
        for cut in (cuts if ctx.thorough else cuts[:1] + [rng.choice(cuts[1:])]):
            blocks = [stream] if cut is None else [stream[:cut], stream[cut:]]
            mf, mrest = frames, b''        # (the extracted list-based model needs a minute for 33 kB; the generator's own framing stands in)
            r = scenario(blocks)
            nrun += 1; nbig += 1
            w = dict(frame_lengths=[len(f) for f in frames], declared_length=len(big) - 24, cut=cut, processed=[len(c) for c in r['calls']],
                     replies=[x.hex()[:96] for x in r['replies']], error=r['err'])
            if mf != frames or mrest != b'':
                raise core.HarnessError('framing model disagrees with the generator on the big frame')
            if r['calls'] != mf:
                ndis += 1
                first = first or dict(part='server framing, declared length >= 0x8000', **w)
            if len(r['replies']) != 3 or r['err'] or not r['rb_ok'] or r['replies'][2][40:44] != bytes.fromhex('d2000000'):
                bad(w, 'a frame with a declared length of %d bytes did not consume exactly 24 + length bytes: the frames after it were not answered' % (len(big) - 24))
            else:
                nontriv += 1
    cov['big_frame_runs'] = nbig

    # ---- client side
    ncl = 0
    for replies in reply_streams:
        stream = b''.join(replies)
        whole, werr = client_messages(list(replies))
        if werr or len(whole) != len(replies):
            raise core.HarnessError('client baseline failed: %r %d' % (werr, len(whole)))
        plans = plans_for(stream, rng, ctx.thorough, 4)
        mfr = model_frames([p for _, p in plans])
        for (pname, blocks), (mf, mrest) in zip(plans, mfr):
            ncl += 1
            msgs, err = client_messages(blocks)
            if len(msgs) != len(mf) or err:
                ndis += 1
                first = first or dict(part='client framing', plan=pname, messages=len(msgs), model_frames=len(mf), error=err)
            if msgs != whole or err:
                bad(dict(plan=pname, blocks=[b.hex() for b in blocks][:12], messages=msgs[:3], whole_frame_messages=whole[:3], error=err),
                    'the messages the client parses depend on how the reply stream was cut into received blocks')
            else:
                nontriv += 1
        # truncation: only complete frames are delivered, then an error (inside a frame) or a clean stop (between frames)
        for n in (range(0, len(stream) + 1) if ctx.thorough else range(0, len(stream) + 1, 7)):
            ncl += 1
            (mf, mrest), = model_frames([[stream[:n]] if n else []])
            msgs, err = client_messages([stream[:n]] if n else [])
            if msgs != whole[:len(mf)]:
                bad(dict(truncated_at=n, messages=len(msgs), complete_frames=len(mf)),
                    'client delivered a message for a reply that was not completely received (or lost a complete one)')
            elif (mrest != b'') != (err is not None):
                ndis += 1
                first = first or dict(part='client end-of-stream', truncated_at=n, error=err, unfinished=mrest.hex())

    # ---- header-only reply frames (declared length 0: an error status that keeps the session open) among ordinary ones, the connection held
    # open and silent after the last byte: every complete frame is a message as soon as its last byte is in, whatever the cut
    if reply_streams:
        normal = reply_streams[0]
        empty = lambda st, cx: struct.pack('<HHII8sI', 0x6F, 0, 0x1234, st, cx, 0)
        for frames in ([normal[0], empty(8, b'hdronly1'), normal[-1]], [empty(3, b'hdronly2')], [normal[0], normal[-1], empty(0x65, b'hdronly3')],
                       [empty(8, b'a'), empty(8, b'b'), normal[-1], empty(1, b'c')]):
            stream = b''.join(frames)
            whole, werr = client_messages(list(frames), hold_open=True)
            if werr or len(whole) != len(frames):
                bad(dict(frames=[f.hex() for f in frames], messages=len(whole), error=werr),
                    'with the connection held open, %d complete reply frames (some of them header-only) were delivered as %d messages' % (len(frames), len(whole)))
                continue
            plans = [('whole', [stream]), ('bytes', [stream[i:i + 1] for i in range(len(stream))])] + [('split@%d' % k, [stream[:k], stream[k:]]) for k in range(1, len(stream), 5 if not ctx.thorough else 1)]
            for pname, blocks in plans:
                ncl += 1
                msgs, err = client_messages(blocks, hold_open=True)
                if msgs != whole or err:
                    bad(dict(plan=pname, frames=[f.hex() for f in frames], messages=len(msgs), expected=len(whole), error=err),
                        'the messages the client parses depend on how the reply stream was cut into received blocks (connection held open)'); break
    # ---- engine interpreter on the dumped enip_machine graph
    from cpppo.server.enip import parser
    m = parser.enip_machine(terminal=True)
    d = G.dump_machine(m)
    eng = []
    for fr in request_stream(1)[:3]:
        for tail in (b'', b'\x65\x00\x04\x00', fr[:30]):
            eng.append((m, d, fr + tail))
        for cut in (0, 5, 23, 24, len(fr) - 1):
            eng.append((m, d, fr[:cut]))
    neng = 0
    (fm_list) = model_frames([[x[2]] if x[2] else [] for x in eng])
    for (mm, dd, inp), (ir, mr), (mf, mrest) in zip(eng, G.run_both(eng), fm_list):
        neng += 1
        if not G.same(ir, mr):
            ndis += 1
            first = first or dict(part='engine interpreter on enip_machine', input=inp.hex(), impl=repr(ir)[:200], model=repr(mr)[:200])
        want = len(mf[0]) if mf else None
        if mr[0] == 'ok' and mr[2] and inp and mr[1] != want:
            ndis += 1
            first = first or dict(part='Model.Engine vs Model.Framing', input=inp.hex(), engine_consumed=mr[1], framing=want)

    # ---- real TCP listener
    probs = tcp_smoke(ctx)
    for pmsg in probs[:2]:
        bad(dict(tcp=pmsg), 'TCP: ' + pmsg)

    cov['evaluations'] = nrun + ncl + neng + 3
    cov['distinct_nontrivial'] = nontriv
    cov['exhaustive'] = False
    cov['rule'] = ('%d request streams (register, writes, reads, bundle, refused and routed requests, payload bytes that look like headers): every '
                   '%s two-way split, byte-at-a-time, random k-way splits, and truncation at %s offset followed by end-of-stream, through the real '
                   'enip_srv_tcp loop + logix.process with read-back over a second session (%d runs); the genuine reply streams through '
                   'client.__next__ under the same plans and truncations (%d runs); %d enip_machine runs through the engine interpreter; 3 cuts on a real TCP listener'
                   % (len(reply_streams), 'possible' if ctx.thorough else '3rd/5th', 'every' if ctx.thorough else 'every (stream 0) / every 3rd', nrun, ncl, neng))
    cov['impl_model_disagreements'] = ndis
    cov['impl_property_failures'] = nbad
    if ndis and not nbad:
        ctx.unresolved('correspondence enip_srv_tcp / client.__next__ / enip_machine = Model.Framing.feed', first)
    elif ndis:
        ctx.broken.append('correspondence enip_srv_tcp / client.__next__ = Model.Framing.feed')
        ctx.notes.append(repr(first)[:1500])
    ctx.sample(dict(stream=0, frames=[len(f) for f in request_stream(0)]))
    ctx.assumptions += ['recv() boundaries are scripted by replacing network.recv / client.recvfrom from outside; kernel socket behaviour is exercised only by the 3-cut TCP smoke run',
                        'the request processor is the real logix.process; the theorems hold for any processor']


def replay(ctx, rep):
    print(rep.get('what'), rep.get('witness'))
    return 1
