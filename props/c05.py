"""C05 — invalid requests are refused without side effects; accepted writes stay readable.
Theorems: coq/Properties/C05.v over coq/Model/Logix.v.  Tie: correspondence (props/logix_common.py)."""
from props import logix_common as L


def gen(ctx):
    n = 2500 if ctx.thorough else 260
    cases = []
    for _ in range(n):
        tags = L.gen_tags(ctx.rng, maxlen=12)
        # mostly invalid / boundary requests, cross-type writes of widest values
        cases.append((ctx.rng.choice([488, 8, 16, 24]), tags,
                      L.gen_history(ctx.rng, tags, nmax=40 if ctx.thorough else 25, valid_bias=0.35)))
    return cases


def refused(b):
    return b is not None and b[2] not in (0, 6)


def run(ctx):
    ctx.prove()
    # string tags (STRING / SSTRING arrays) are outside the tag-store model: judged on the implementation against a list of strings
    import random
    nstr = 0
    for k in range(150 if ctx.thorough else 25):
        nstr += 1
        res = L.string_tags_check(random.Random(ctx.seed * 1000 + k), 40)
        if res is not None:
            ctx.violation(dict(string_tags=dict(S='STRING[3]', T='SSTRING[2]'), history=res[0][-12:]), res[1])
            break
    ctx.coverage['string_tag_histories'] = nstr
    L.logix_check(ctx, 'C05', gen(ctx),
                  rule='as C03 but requests biased to the invalid side: indices/counts at len-1,len,len+1,0, byte offsets not multiple of the '
                       'element size, unknown tags/objects/attributes, request types the tag cannot hold and widest-type values into narrower '
                       'tags; non-trivial = history containing at least one refused and one accepted request; distinct by request list',
                  nontrivial=lambda c: True)


def replay(ctx, rep):
    case = L.case_from_description(rep['witness']['case'])
    res = L.check_history(case, 'C05')
    print('property C05 on the implementation:', res or 'holds')
    return 1 if res else 0
