"""C01 — wire codec round-trip over the EtherNet/IP CIP message grammar.
Theorems: coq/Properties/C01.v — round trips of the reference codec (coq/Model/Codec.v, built from verified
format combinators coq/Base/Fmt.v).  Tie: correspondence — for generated messages cpppo's producers must yield
the reference encoder's bytes, and cpppo's parsers must recover, from those bytes, the fields the reference
decoder recovers; plus the round trips judged on the implementation alone."""
import struct
from vlib import core
from props import codec_common as K

INT_TYPES = {193: (0, 1), 194: (-128, 127), 195: (-32768, 32767), 196: (-2**31, 2**31 - 1), 197: (-2**63, 2**63 - 1),
             198: (0, 255), 199: (0, 65535), 200: (0, 2**32 - 1), 201: (0, 2**64 - 1)}
ALL_TYPES = sorted(INT_TYPES) + [202, 203, 218, 208]


def gen_name(rng, n=None):
    n = rng.choice([1, 2, 3, 4, 5, 8, 11, 40, 254, 255]) if n is None else n
    alphabet = 'ABCDEFGHIJKLMNOPQRSTUVWXYZabcdefghijklmnopqrstuvwxyz0123456789_' + '\xe9\xfc'
    return ''.join(rng.choice(alphabet) for _ in range(n)).encode('iso-8859-1')


def gen_seg(rng, route=False):
    r = rng.random()
    if route or r < 0.2:
        port = rng.choice([1, 2, 3, 14, 15, 16, 255, 256, 513, 65535, rng.randint(1, 65535)])
        if rng.random() < 0.5:
            return ('port', port, rng.choice([0, 1, 255, rng.randint(0, 255)]))
        return ('porta', port, rng.choice([b'1.2.3.4', b'10.0.0.10', b'192.168.100.200', b'1.1.1.1', gen_name(rng, rng.choice([1, 2, 7, 8]))]))
    if r < 0.45:
        return ('sym', gen_name(rng))
    k = rng.choice(['class', 'instance', 'connection', 'attribute', 'element'])
    hi = 2**32 - 1 if k == 'element' else 65535
    return (k, rng.choice([0, 1, 2, 254, 255, 256, 257, 65534, 65535, hi, hi - 1, min(hi, 65536), rng.randint(0, hi)]))


def gen_path(rng, route=False):
    return [gen_seg(rng, route) for _ in range(rng.choice([0, 1, 1, 2, 2, 3, 4, 6]))]


def gen_values(rng, code, n):
    if code in INT_TYPES:
        lo, hi = INT_TYPES[code]
        return ('z', [rng.choice([lo, hi, 0, 1 if hi >= 1 else 0, hi - 1 if hi > 1 else hi, lo + 1 if lo < 0 else lo,
                                  rng.randint(lo, hi)]) for _ in range(n)])
    if code == 202:
        out = []
        for _ in range(n):
            b = rng.choice([0, 0x3f800000, 0xbf800000, 0x7f800000, 1, 0x00800000, 0x7f7fffff, rng.getrandbits(32)])
            if (b >> 23) & 0xff == 0xff and b & 0x7fffff:
                b = 0x42280000
            out.append(b)
        return ('z', out)
    if code == 203:
        out = []
        for _ in range(n):
            b = rng.choice([0, 0x3ff0000000000000, 0x7ff0000000000000, 1, rng.getrandbits(64)])
            if (b >> 52) & 0x7ff == 0x7ff and b & ((1 << 52) - 1):
                b = 0x4045000000000000
            out.append(b)
        return ('z', out)
    return ('s', [gen_name(rng, rng.choice([0, 1, 2, 3, 10, 11, 82, 255] + ([256, 1000] if code == 208 else []))) for _ in range(n)])


def gen_status(rng, ok=None):
    if ok:
        return (0, [])
    s = rng.choice([1, 4, 5, 6, 8, 0x13, 0x1e, 0x26, 0xff, rng.randint(1, 255)])
    return (s, [rng.choice([0, 0x2105, 0x2107, 65535, rng.randint(0, 65535)]) for _ in range(rng.choice([0, 0, 1, 1, 2, 4]))])


def gen_svc1(rng):
    svc = rng.choice([76, 82, 77, 83, 204, 210, 205, 211, 1, 14, 129, 142, 16, 144, 3, 131])
    m = dict(svc=svc, path=None, status=None, nums=[], data=('z', []))
    code = rng.choice(ALL_TYPES)
    n = rng.choice([1, 1, 2, 3, 7, 40])      # zero-element payloads: cpppo's parsers need at least one element (degenerate; excluded)
    e16 = lambda: rng.choice([0, 1, 255, 256, 65535, rng.randint(0, 65535)])
    e32 = lambda: rng.choice([0, 1, 65535, 65536, 2**32 - 1, rng.randint(0, 2**32 - 1)])
    if svc < 128:
        m['path'] = gen_path(rng)
    else:
        m['status'] = gen_status(rng, ok=rng.random() < 0.6)
    if svc == 76:
        m['nums'] = [e16()]
    elif svc == 82:
        m['nums'] = [e16(), e32()]
    elif svc == 77:
        m['nums'] = [code, e16()]; m['data'] = gen_values(rng, code, n)
    elif svc == 83:
        m['nums'] = [code, e16(), e32()]; m['data'] = gen_values(rng, code, n)
    elif svc in (204, 210):
        if rng.random() < 0.3:
            m['status'] = (6, [])
        if m['status'][0] in (0, 6):
            m['nums'] = [code]; m['data'] = gen_values(rng, code, n)
    elif svc in (129, 142):
        if m['status'][0] == 0:
            m['data'] = ('z', [rng.getrandbits(8) for _ in range(rng.choice([0, 1, 4, 9, 100]))])
    elif svc == 16:
        m['data'] = ('z', [rng.getrandbits(8) for _ in range(rng.choice([1, 2, 4, 9]))])
    elif svc == 3:
        ids = [rng.choice([1, 2, 3, 10, 65535]) for _ in range(rng.choice([1, 3, 5]))]
        m['data'] = ('z', [len(ids)] + ids)
    elif svc == 131:
        if m['status'][0] == 0:
            m['data'] = ('z', [rng.getrandbits(8) for _ in range(rng.choice([0, 3, 6, 7]))])
    if m['data'][0] == 's' and not m['data'][1]:
        m['data'] = ('s', [])
    return m


def gen_cip(rng):
    if rng.random() < 0.2:
        req = rng.random() < 0.5
        members = []
        for _ in range(rng.choice([1, 1, 2, 3, 5, 8])):
            while True:
                x = gen_svc1(rng)
                if (x['svc'] < 128) == req:
                    members.append(x); break
        if req:
            return dict(svc=10, path=gen_path(rng), status=None, members=members)
        st = (0, []) if rng.random() < 0.7 else rng.choice([(0x1e, []), (8, []), (0x16, [])])
        return dict(svc=138, path=None, status=st, members=members if st[0] in (0, 0x1e) else [])
    return gen_svc1(rng)


def gen_frame(rng):
    cmd = rng.choice([101, 102, 111, 111, 111, 112, 4, 99, 100])
    f = dict(cmd=cmd, session=rng.choice([0, 1, 2**32 - 1, rng.getrandbits(32)]), status=rng.choice([0, 0, 0, 1, 8, 0x65, 2**32 - 1]),
             ctx=bytes(rng.getrandbits(8) for _ in range(8)), options=rng.choice([0, 0, 1, 2**32 - 1]), nums=[], cpf=None)
    if cmd == 101:
        f['nums'] = [rng.choice([1, 0, 65535]), rng.choice([0, 65535])]
    elif cmd == 111:
        f['nums'] = [rng.choice([0, 2**32 - 1]), rng.choice([0, 5, 8, 65535])]
        msg = gen_cip(rng)
        # (a bare 0x52 request is the Unconnected Send service itself; a bare 0xD2 reply with an error status and no extended status is, byte
        # for byte, an Unconnected Send error reply - "impossible to distinguish", parser.py says of it: neither is ever carried bare)
        ambiguous = msg['svc'] == 82 or (msg['svc'] == 210 and msg.get('status') and msg['status'][0] != 0 and not msg['status'][1])
        if rng.random() < 0.6 or ambiguous:
            u = dict(kind='wrapper', path=[('class', 6), ('instance', 1)] if rng.random() < 0.6 else gen_path(rng),
                     priority=rng.choice([0, 5, 255]), ticks=rng.choice([0, 157, 255]), msg=msg,
                     route=rng.choice([[], [('port', 1, 0)], gen_path(rng, route=True)]))
        else:
            u = dict(kind='bare', msg=msg)
        f['cpf'] = [dict(tid=0), dict(tid=178, msg=u)]
    elif cmd == 112:
        f['nums'] = [0, rng.choice([0, 8])]
        f['cpf'] = [dict(tid=161, num=rng.choice([0, 1, 2**32 - 1, rng.getrandbits(32)])),
                    dict(tid=177, num=rng.choice([0, 1, 65535]), msg=dict(kind='bare', msg=gen_cip(rng)))]
    elif cmd in (4, 99, 100):
        if rng.random() < 0.5:
            f['cpf'] = [dict(tid=rng.choice([0x0086, 0x7777, 0x00b3]), raw=bytes(rng.getrandbits(8) for _ in range(rng.choice([0, 1, 20, 33]))))
                        for _ in range(rng.choice([0, 1, 2]))]
    return f


# ---------------------------------------------------------------------------------------------------------
def model_enc(which, param, trees):
    outs = core.run_model('codec', [[which, param, 0] + K.flat(t) for t in trees])
    # 1 = well-formed value and its bytes; 2 = value outside the format's domain (no encoding defined): 'BAD'
    return [bytes(o[2:2 + o[1]]) if o and o[0] == 1 else ('BAD' if o and o[0] == 2 else None) for o in outs]


def model_dec(which, param, blobs):
    outs = core.run_model('codec', [[which, param, 1, len(b)] + list(b) for b in blobs])
    res = []
    for o in outs:
        if o and o[0] == 1:
            res.append((K.unflat(o, 2)[0], o[1]))
        else:
            res.append(None)
    return res


def norm_cip(m):
    """normalise sem messages for comparison (empty data slots, status ext)"""
    m = dict(m)
    if 'members' in m:
        m['members'] = [norm_cip(x) for x in m['members']]
        m.pop('nums', None); m.pop('data', None)
    else:
        d = m.get('data') or ('z', [])
        m['data'] = (d[0] if d[1] else 'z', list(d[1]))
        m['nums'] = list(m.get('nums', []))
    return m


def norm_frame(f):
    f = dict(f)
    if f.get('cpf') is not None:
        items = []
        for it in f['cpf']:
            it = dict(tid=it['tid'], num=it.get('num', 0), raw=bytes(it.get('raw', b'')), msg=it.get('msg'))
            if it['msg'] is not None:
                u = dict(it['msg']); u['msg'] = norm_cip(u['msg']); it['msg'] = u
            items.append(it)
        f['cpf'] = items
    return f


def run(ctx):
    ctx.prove()
    from props import enip_common as E
    E.quiet()
    from cpppo.server.enip import parser
    rng = ctx.rng
    cov = ctx.coverage
    ndis, nbad, first = 0, 0, None
    kinds = {}

    alld = []

    def bad(w, what):
        nonlocal nbad
        nbad += 1
        if nbad <= 3:
            ctx.violation(w, what)

    def dis(d):
        nonlocal ndis, first
        ndis += 1
        first = first or d
        alld.append(d)
        # the property names the reference itself: "the bytes produced are the ones an independent encoder written directly from the
        # CIP layout tables yields" - a produce that differs from the reference encoder (Model.Codec) is a failing input, not only a
        # broken correspondence
        if str(d.get('kind', '')).endswith('produce') and isinstance(d.get('impl'), str) and not d['impl'].startswith('EXC') and d.get('model') not in (None, 'BAD'):
            bad(dict(d, reference_encoder=d['model']), 'the bytes produced differ from the ones the layout-table encoder yields for the same field values')

    # ---- A. elements: scalars, strings, EPATH, status ------------------------------------------------------
    cls = {193: parser.BOOL, 194: parser.SINT, 195: parser.INT, 196: parser.DINT, 197: parser.LINT, 198: parser.USINT,
           199: parser.UINT, 200: parser.UDINT, 201: parser.ULINT, 202: parser.REAL, 203: parser.LREAL, 218: parser.SSTRING, 208: parser.STRING}
    el = []
    for code in ALL_TYPES:
        kind, vals = gen_values(rng, code, 60 if ctx.thorough else 14)
        for v in vals:
            el.append((code, v))
    trees = [v if isinstance(v, int) else list(v) for _, v in el]
    encs = []
    for (code, v), t in zip(el, trees):
        which = 5 if code in INT_TYPES or code in (202, 203) else 7
        encs.append(model_enc(which, code, [t])[0])
    for (code, v), mb in zip(el, encs):
        kinds['scalar'] = kinds.get('scalar', 0) + 1
        try:
            ib = bytes(cls[code].produce(K.py_value(code, v)))
        except Exception as e:
            ib = 'EXC ' + type(e).__name__
        if mb != 'BAD' and ib != mb:
            dis(dict(kind='scalar produce', type=K.TYN[code], value=repr(v), impl=ib.hex() if isinstance(ib, bytes) else ib, model=mb.hex() if isinstance(mb, bytes) else mb))
        # parse back through typed_data
        if isinstance(ib, bytes):
            try:
                d, term, src = K.run_machine(parser.typed_data(tag_type=code, context='t'), ib)
                back = [K.sem_value(code, x) for x in d['t.data']]
                if back != [v]:
                    bad(dict(type=K.TYN[code], value=repr(v), bytes=ib.hex(), parsed=repr(back)), 'typed data does not parse back to the encoded value')
            except Exception as e:
                bad(dict(type=K.TYN[code], value=repr(v), bytes=ib.hex()), 'typed data parser raised %s' % type(e).__name__)
    # EPATHs
    paths = [gen_path(rng) for _ in range(1500 if ctx.thorough else 250)] + [[]]
    for kind_name, which, pcls in (('EPATH', 2, parser.EPATH), ('route_path', 6, parser.EPATH_padded)):
        ps = paths if which == 2 else [gen_path(rng, route=True) for _ in range(len(paths) // 3)]
        mbs = model_enc(which, 0, [[K.seg_tree(s) for s in p] for p in ps])
        for p, mb in zip(ps, mbs):
            kinds[kind_name] = kinds.get(kind_name, 0) + 1
            try:
                ib = bytes(pcls.produce(K.path_dd(p)))
            except Exception as e:
                ib = 'EXC ' + type(e).__name__
            if mb != 'BAD' and ib != mb:
                dis(dict(kind=kind_name + ' produce', path=repr(p)[:300], impl=ib.hex() if isinstance(ib, bytes) else ib, model=mb.hex() if isinstance(mb, bytes) else mb))
            if isinstance(ib, bytes):
                try:
                    d, term, src = K.run_machine(pcls(context='p'), ib + b'\x7f')
                    back = [K.dd_seg(s) for s in d['p.segment']]
                    if back != list(p) or src.sent != len(ib):
                        bad(dict(path=repr(p)[:300], bytes=ib.hex(), parsed=repr(back)[:300], consumed=src.sent), kind_name + ' does not parse back to the encoded segments')
                    elif bytes(pcls.produce(d['p'])) != ib:
                        bad(dict(path=repr(p)[:300], bytes=ib.hex()), kind_name + ' re-produced from its parse differs from the original bytes')
                except Exception as e:
                    bad(dict(path=repr(p)[:300], bytes=ib.hex()), kind_name + ' parser raised %s' % type(e).__name__)
    # ---- B. CIP messages of the Logix dialect ---------------------------------------------------------------
    msgs = [gen_cip(rng) for _ in range(4000 if ctx.thorough else 500)]
    mbs = model_enc(1, 0, [K.cip_tree(m) for m in msgs])
    blobs = []
    for m, mb in zip(msgs, mbs):
        kinds['cip/0x%02x' % m['svc']] = kinds.get('cip/0x%02x' % m['svc'], 0) + 1
        try:
            ib = K.impl_produce_cip(m)
        except Exception as e:
            ib = 'EXC ' + type(e).__name__
        if mb != 'BAD' and ib != mb:
            dis(dict(kind='CIP produce', msg=repr(m)[:400], impl=ib.hex()[:300] if isinstance(ib, bytes) else ib, model=mb.hex()[:300] if isinstance(mb, bytes) else mb))
        if isinstance(ib, bytes):
            blobs.append((m, ib))
    mds = model_dec(1, 0, [b for _, b in blobs])
    for (m, ib), md in zip(blobs, mds):
        try:
            back = norm_cip(K.impl_parse_cip(ib))
        except Exception as e:
            back = 'EXC ' + type(e).__name__
        want = norm_cip(m)
        if back != want:
            bad(dict(msg=repr(want)[:400], bytes=ib.hex()[:300], parsed=repr(back)[:400]), 'CIP message does not parse back to the encoded fields')
        mback = norm_cip(K.tree_cip(md[0])) if md else None
        if mback != (back if isinstance(back, dict) else None):
            dis(dict(kind='CIP parse', bytes=ib.hex()[:300], impl=repr(back)[:300], model=repr(mback)[:300]))
    # ---- C. whole frames --------------------------------------------------------------------------------------
    frames = [gen_frame(rng) for _ in range(2500 if ctx.thorough else 300)]
    mbs = model_enc(0, 0, [K.frame_tree(f) for f in frames])
    blobs = []
    for f, mb in zip(frames, mbs):
        kinds['frame/0x%02x' % f['cmd']] = kinds.get('frame/0x%02x' % f['cmd'], 0) + 1
        try:
            ib = K.impl_produce_frame(f)
        except Exception as e:
            ib = 'EXC ' + type(e).__name__
        if mb != 'BAD' and ib != mb:
            dis(dict(kind='frame produce', frame=repr(f)[:500], impl=ib.hex()[:400] if isinstance(ib, bytes) else ib, model=mb.hex()[:400] if isinstance(mb, bytes) else mb))
        if isinstance(ib, bytes):
            blobs.append((f, ib))
    # a message dict re-used as a template (a session bumping its sequence count, a poll re-sending with another request): produced, given
    # the next message's field values in place, produced again - the bytes are the second message's
    shape = lambda f: (f['cmd'], tuple(it['tid'] for it in (f['cpf'] or [])), tuple((it.get('msg') or {}).get('kind') for it in (f['cpf'] or [])))
    byshape = {}
    for f, ib in blobs:
        if f['cmd'] in (111, 112) and f['cpf']:
            byshape.setdefault(shape(f), []).append((f, ib))
    ntempl = 0
    for group in byshape.values():
        for (f1, _), (f2, b2) in list(zip(group, group[1:]))[: (40 if ctx.thorough else 8)]:
            ntempl += 1
            try:
                rb = K.impl_reproduce(f1, f2)
            except Exception as e:
                rb = 'EXC ' + type(e).__name__
            if rb != b2:
                bad(dict(first=repr(f1)[:300], then=repr(f2)[:300], produced=rb.hex()[:400] if isinstance(rb, bytes) else rb, expected=b2.hex()[:400]),
                    'a message dict produced, updated in place and produced again does not yield the bytes of the updated message')
    cov['template_reuse_pairs'] = ntempl
    tails = [b'', b'\x65\x00', bytes(24)]
    mds = model_dec(0, 0, [b + tails[i % 3] for i, (_, b) in enumerate(blobs)])
    for i, ((f, ib), md) in enumerate(zip(blobs, mds)):
        tl = tails[i % 3]
        try:
            back, left = K.impl_parse_frame(ib + tl)
            back = norm_frame(back)
        except Exception as e:
            back, left = 'EXC ' + type(e).__name__, None
        want = norm_frame(f)
        if back != want or left != len(tl):
            bad(dict(frame=repr(want)[:500], bytes=ib.hex()[:400], parsed=repr(back)[:500], left=left), 'frame does not parse back to the encoded fields / consumes other than 24+length bytes')
        mback = (norm_frame(K.tree_frame(md[0])), md[1]) if md else None
        if mback != ((back, left) if isinstance(back, dict) else None):
            dis(dict(kind='frame parse', bytes=ib.hex()[:400], impl=repr((back, left))[:300], model=repr(mback)[:300]))
    import os
    if os.environ.get('C01_DEBUG'):
        import json
        json.dump(alld, open('/tmp/w/c01dis.json', 'w'), default=str)
    # ---- D. Forward Open requests: connection parameters <-> NCP words, small and large ----------------------
    fos = []
    for _ in range(600 if ctx.thorough else 120):
        def conn():
            size = rng.choice([1, 2, 500, 510, 511, 512, 513, 1000, 4000, 65535, rng.randint(1, 65535)])
            return (rng.choice([0, 1, 2**32 - 1, rng.getrandbits(32)]), rng.choice([0, 2000, 2**32 - 1]),
                    (size, rng.randint(0, 1), rng.randint(0, 3), rng.randint(0, 3), rng.randint(0, 1)))
        fos.append(dict(path=[('class', 6), ('instance', 1)] if rng.random() < 0.7 else gen_path(rng), prio=rng.choice([0, 5, 255]),
                        ticks=rng.choice([0, 247, 255]), ot=conn(), to=conn(), serial=rng.getrandbits(16), vendor=rng.getrandbits(16),
                        oserial=rng.getrandbits(32), mult=rng.choice([0, 1, 255]), transport=rng.choice([0, 0xa3, 255]),
                        cpath=rng.choice([[('port', 1, 0), ('class', 2), ('instance', 1)], gen_path(rng), gen_path(rng, route=True)])))
    trees = []
    for m in fos:
        large = m['ot'][2][0] > 511 or m['to'][2][0] > 511
        trees.append(K.fo_tree(m, K.ncp_model(large, m['ot'][2]), K.ncp_model(large, m['to'][2]), large))
    mbs = model_enc(11, 0, trees)
    for m, mb in zip(fos, mbs):
        kinds['forward_open'] = kinds.get('forward_open', 0) + 1
        try:
            ib = K.impl_produce_fo(m)
        except Exception as e:
            ib = 'EXC ' + type(e).__name__
        if mb != 'BAD' and ib != mb:
            dis(dict(kind='Forward Open produce', msg=repr(m)[:500], impl=ib.hex()[:300] if isinstance(ib, bytes) else ib,
                     model=mb.hex()[:300] if isinstance(mb, bytes) else mb))
        if isinstance(ib, bytes):
            try:
                back = K.impl_parse_fo(ib)
            except Exception as e:
                back = 'EXC ' + type(e).__name__
            large = m['ot'][2][0] > 511 or m['to'][2][0] > 511
            want = dict(m, svc=91 if large else 84)
            if back != want:
                bad(dict(msg=repr(want)[:500], bytes=ib.hex()[:300], parsed=repr(back)[:500]),
                    'Forward Open request does not parse back to the encoded connection parameters')
    # ---- E. Connection Manager replies (Forward Open ok / failed, small and large) and Forward Close request / replies --------
    cms = []
    for _ in range(500 if ctx.thorough else 120):
        ids = dict(serial=rng.choice([0, 1, 65535, rng.getrandbits(16)]), vendor=rng.choice([0, 65535, rng.getrandbits(16)]),
                   oserial=rng.choice([0, 2**32 - 1, rng.getrandbits(32)]))
        app = bytes(rng.getrandbits(8) for _ in range(rng.choice([0, 0, 2, 4, 10, 254, 1, 3, 5, 253])))     # odd lengths travel padded to a whole word
        k = rng.choice(['fo_ok', 'fo_fail', 'fo_fail', 'fc_req', 'fc_ok', 'fc_min'])
        if k == 'fo_ok':
            m = dict(ids, kind=k, svc=rng.choice([0xD4, 0xDB]), otid=rng.getrandbits(32), toid=rng.choice([0, 2**32 - 1, rng.getrandbits(32)]),
                     otapi=rng.choice([0, 2000, 2**32 - 1]), toapi=rng.getrandbits(32), app=app)
        elif k == 'fo_fail':
            m = dict(ids, kind=k, svc=rng.choice([0xD4, 0xDB]), status=(rng.choice([1, 2, 0xFF]), [rng.choice([0x100, 0x315, 0xFFFF]) for _ in range(rng.randint(0, 2))]),
                     rps=rng.choice([None, 0, 0, 1, 2, 255]))
        elif k == 'fc_req':
            m = dict(ids, kind=k, path=[('class', 6), ('instance', 1)] if rng.random() < 0.7 else gen_path(rng), prio=rng.choice([0, 5, 255]),
                     ticks=rng.choice([0, 247, 255]), cpath=rng.choice([[('port', 1, 0), ('class', 2), ('instance', 1)], gen_path(rng), gen_path(rng, route=True)]))
        elif k == 'fc_ok':
            m = dict(ids, kind=k, app=app)
        else:
            m = dict(kind=k, status=(rng.choice([1, 5, 0xFF]), [rng.choice([0x107, 0xFFFF]) for _ in range(rng.randint(0, 2))]))
        cms.append(m)
    def padded(m):
        return dict(m, app=m['app'] + b'\x00') if len(m.get('app', b'')) % 2 else m
    mbs = model_enc(11, 0, [K.cm_tree(padded(m)) for m in cms])
    for m, mb in zip(cms, mbs):
        kinds['cm/' + m['kind']] = kinds.get('cm/' + m['kind'], 0) + 1
        try:
            ib = K.impl_produce_cm(m)
        except Exception as e:
            ib = 'EXC ' + type(e).__name__
        if mb != 'BAD' and ib != mb:
            dis(dict(kind='Connection Manager produce', msg=repr(m)[:500], impl=ib.hex()[:300] if isinstance(ib, bytes) else ib,
                     model=mb.hex()[:300] if isinstance(mb, bytes) else mb))
        if isinstance(ib, bytes):
            try:
                back = K.impl_parse_cm(ib)
            except Exception as e:
                back = 'EXC ' + type(e).__name__
            if back != padded(m):
                bad(dict(msg=repr(m)[:500], bytes=ib.hex()[:300], parsed=repr(back)[:500]),
                    'Connection Manager message does not parse back to the encoded fields')
    cov['evaluations'] = sum(kinds.values())
    cov['distinct_nontrivial'] = len({repr(m) for m in msgs}) + len({repr(f) for f in frames if f.get('cpf')}) + len({repr(p) for p in paths if len(p) > 1})
    cov['rule'] = ('grammar-directed generation with boundary bias per field: every scalar type at min/max/0/+-1/random and strings of 0..255/1000 chars; '
                   'EPATHs / route paths of 0-6 segments of every kind at the 8/16/32-bit thresholds, odd/even names, small/extended ports, numeric/address '
                   'links; every modelled service request and reply incl. bundles of 1-8 members and 0-4 extended status words; frames of every '
                   'command with null/b2/a1/b1/opaque CPF items, wrapped and bare requests, with trailing bytes.  Each case: cpppo produce vs reference '
                   'encoder, cpppo parse vs reference decoder, and parse(produce(m)) = m on the implementation alone')
    cov['input_distribution'] = kinds
    cov['impl_model_disagreements'] = ndis
    cov['impl_property_failures'] = nbad
    if ndis:
        name = 'correspondence cpppo produce/parse = Model.Codec enc/dec'
        if nbad:
            ctx.broken.append(name)
        else:
            ctx.unresolved(name, first)
    for m in msgs[:2]:
        ctx.sample(dict(cip=repr(m)[:200]))
    for f in frames[:2]:
        ctx.sample(dict(frame=repr(f)[:300]))
    ctx.assumptions += ['modelled: scalars, SSTRING/STRING, EPATH (all segment kinds), status, typed data, Read/Write Tag [Fragmented], Get/Set Attribute '
                        'Single, Get Attributes All, Get Attribute List, Multiple Service Packet, Unconnected Send, CPF items 0/0xA1/0xB1/0xB2 (others '
                        'opaque), Register/Unregister/SendRRData/SendUnitData/List* framing, encapsulation header',
                        'not modelled yet: identity/communications item contents, STRUCT/UDT data, generic service codes',
                        'REAL/LREAL carried as bit patterns (NaNs excluded); strings as ISO-8859-1 bytes']


def replay(ctx, rep):
    print(rep['witness'], rep['what'])
    return 1
