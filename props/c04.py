"""C04 — fragmented transfers reassemble exactly and every fragment makes progress.
Theorems: coq/Properties/C04.v over coq/Model/Logix.v (read_walk / write_walk).
Tie: correspondence on exhaustive small configurations; oracle = adaptive client walk on the implementation."""
import itertools
from vlib import core
from props import logix_common as L

TYPES = ['SINT', 'INT', 'DINT', 'LINT', 'REAL', 'LREAL', 'BOOL', 'UDINT', 'USINT', 'UINT', 'ULINT']


def budget_elems(maxb, sz):
    return max((maxb + sz - 1) // sz, 1)


def configs(ctx):
    if ctx.thorough:
        types, cnts, budgets = TYPES, [1, 2, 3, 4, 5, 6, 8, 12, 20], list(range(1, 25)) + [488]
    else:
        # every element type (each has its own data parser and producer), every count, and per (type, count) 9 of the budgets 1..19 in rotation
        types, cnts, budgets = TYPES, [1, 2, 3, 5, 8, 12], list(range(1, 20, 1))
    k = 0
    for ty in types:
        for cnt in cnts:
            k += 1
            for maxb in (budgets if ctx.thorough else [b for b in budgets if (b + k) % 2 == 0]):
                yield ty, cnt, maxb


def make_case(ctx, ty, cnt, maxb):
    sz = L.SIZ[ty]
    B = budget_elems(maxb, sz)
    init = [L.rand_val(ctx.rng, ty) for _ in range(cnt)]
    tag = dict(name='F', ty=ty, scalar=False, n=cnt, addr=None if ctx.rng.random() < 0.5 else (0x99, 1, 2), init=init)
    if ty in ('REAL', 'LREAL') and ctx.rng.random() < 0.5:
        # a floating-point tag whose backing list an application filled with Python ints ([0]*n, range(n)): still a REAL array
        tag['init'] = [('i', ctx.rng.choice([0, 0, k, 20])) for k in range(cnt)]
        tag['int_init'] = True
    other = dict(name='G', ty='INT', scalar=False, n=3, addr=None, init=[('i', 1), ('i', 2), ('i', 3)])
    reqs = []
    walks = []
    ranges = [(i, e) for i in range(cnt) for e in range(1, cnt - i + 1)]
    if not ctx.thorough and len(ranges) > 30:
        ranges = ctx.rng.sample(ranges, 30)
    for idx, elm in ranges:
        p = ('sym', 'F', idx)
        offs = list(range(0, elm, B))
        walks.append(('read', idx, elm, len(reqs), len(offs)))
        for j in offs:
            reqs.append(('readf', p, elm, j * sz))
    # write tilings: random partition of a range into consecutive pieces
    for _ in range(4):
        idx = ctx.rng.randint(0, cnt - 1)
        elm = ctx.rng.randint(1, cnt - idx)
        cuts = sorted(ctx.rng.sample(range(1, elm), ctx.rng.randint(0, min(3, elm - 1)))) if elm > 1 else []
        bounds = [0] + cuts + [elm]
        vals = [L.rand_val(ctx.rng, ty) for _ in range(elm)]
        walks.append(('write', idx, elm, len(reqs), len(bounds) - 1))
        for a, b in zip(bounds, bounds[1:]):
            reqs.append(('writef', ('sym', 'F', idx), L.TY[ty], elm, a * sz, vals[a:b]))
        reqs.append(('get', ('num',) + L.layout([tag, other])[0] + (None,)))
    return (maxb, [tag, other], reqs), walks


def adaptive_walks(case, walks):
    """The client's loop on the implementation: advance the byte offset by the data received."""
    maxb, tags, reqs = case
    tag = tags[0]
    ty, cnt, sz = tag['ty'], tag['n'], L.SIZ[tag['ty']]
    B = budget_elems(maxb, sz)
    im = L.Impl(maxb, tags)
    try:
        for kind, idx, elm, at, n in walks:
            if kind == 'read':
                img = im.image()
                whole = [att for att in im.attrs][0]
                vals = list(whole.value)
                expect = b''.join(L.pack_py(ty, v) for v in vals[idx:idx + elm])
                got, off, steps = b'', 0, 0
                while True:
                    steps += 1
                    if steps > elm + 2:
                        return dict(idx=idx, elm=elm), 'transfer does not terminate within %d fragments' % (elm + 2)
                    b, d = im.request(('readf', ('sym', 'F', idx), elm, off))
                    if b is None:
                        return dict(idx=idx, elm=elm, offset=off), 'Read Tag Fragmented raised'
                    svc, status, ext, pay = L.parse_reply(b)
                    if status not in (0, 6):
                        return dict(idx=idx, elm=elm, offset=off), 'fragment at offset %d refused with status 0x%02x %r' % (off, status, ext)
                    data = bytes(pay[2:])
                    if len(data) % sz or len(data) < sz:
                        return dict(idx=idx, elm=elm, offset=off), 'fragment carries %d bytes: not at least one whole %d-byte element' % (len(data), sz)
                    if len(data) > B * sz:
                        return dict(idx=idx, elm=elm, offset=off), 'fragment carries %d bytes > budget %d rounded up to whole elements (%d)' % (len(data), maxb, B * sz)
                    got += data; off += len(data)
                    if status == 0:
                        break
                if got != expect:
                    return dict(idx=idx, elm=elm), 'concatenated fragments %s != requested elements %s' % (got.hex(), expect.hex())
                if steps != -(-elm // B):
                    return dict(idx=idx, elm=elm), '%d fragments, expected ceil(%d/%d)' % (steps, elm, B)
            else:
                before = im.image()
                pieces = [reqs[at + j] for j in range(n)]
                vals = [v for p in pieces for v in p[5]]
                for p in pieces:
                    b, d = im.request(p)
                    if b is None or L.parse_reply(b)[1] != 0:
                        return dict(idx=idx, elm=elm, piece=L.describe_req(p)), 'Write Tag Fragmented piece refused: %s' % (b.hex() if b else 'EXC')
                att = im.attrs[0]
                now = list(att.value)
                tn = ty
                exp = [L.pack_py(ty, L.py_req_val(tn, v)) for v in vals]
                if [L.pack_py(ty, v) for v in now[idx:idx + elm]] != exp:
                    return dict(idx=idx, elm=elm), 'tiled write stored %r' % (now[idx:idx + elm],)
                after = im.image()
                # everything else unchanged
                spec = L.ArraySpec(tags)
        return None
    finally:
        im.close()


def client_sees_fragments(ctx):
    from props import c07
    import struct
    for ty, cnt, maxb in (('SINT', 5, 1), ('USINT', 3, 2), ('BOOL', 4, 1), ('SINT', 1, 488), ('INT', 3, 2), ('SINT', 9, 4), ('DINT', 2, 4)):
        sz = L.SIZ[ty]
        tag = dict(name='F', ty=ty, scalar=False, n=cnt, addr=None, init=[L.rand_val(ctx.rng, ty) for _ in range(cnt)])
        im = L.Impl(maxb, [tag])
        try:
            frames, want, off = [], [], 0
            for _ in range(cnt + 2):
                b, d = im.request(('readf', ('sym', 'F', 0), cnt, off))
                if b is None:
                    return dict(tag_type=ty, tag_length=cnt, max_bytes=maxb), 'Read Tag Fragmented raised'
                svc, status, ext, pay = L.parse_reply(b)
                data = bytes(pay[2:])
                fmt = {'SINT': 'b', 'USINT': 'B', 'BOOL': 'B', 'INT': 'h', 'DINT': 'i'}[ty]
                vals = list(struct.unpack('<%d%s' % (len(data) // sz, fmt), data))
                if ty == 'BOOL':
                    vals = [bool(v) for v in vals]
                frames.append(c07._frame(b)); want.append((status, [repr(v) for v in vals]))
                off += len(data)
                if status == 0:
                    break
        finally:
            im.close()
        try:
            got = c07.client_view(frames)
        except Exception as e:
            got = '%s: %s' % (type(e).__name__, str(e)[:100])
        if got != want:
            return (dict(tag_type=ty, tag_length=cnt, max_bytes=maxb, fragments=[f[40:].hex() for f in frames], client=repr(got)[:300], read_off_the_bytes=repr(want)[:300]),
                    'the client does not obtain the fragments\' status and elements (a fragment reply is mistaken for something else)')
    return None


def run(ctx):
    ctx.prove()
    cases, allwalks = [], []
    for ty, cnt, maxb in configs(ctx):
        c, w = make_case(ctx, ty, cnt, maxb)
        cases.append(c); allwalks.append(w)
    impls, models, dis = L.compare(cases, ctx, 'C04')
    cov = ctx.coverage
    cov['evaluations'] = sum(len(w) for w in allwalks)
    cov['requests'] = sum(len(c[2]) for c in cases)
    cov['distinct_nontrivial'] = sum(1 for c, ws in zip(cases, allwalks) for w in ws if w[4] > 1)
    cov['exhaustive'] = bool(ctx.thorough)
    cov['rule'] = ('configurations type x tag length x reply budget (quick: 4 types x {1,2,3,5,8,12} x budgets 1..19; thorough: 8 types x 9 lengths x '
                   'budgets 1..24,488 with ALL start/count ranges); per configuration every (or 30 sampled) (start,count) read walk at the offsets '
                   'the proved walk visits, plus 4 random write tilings; evaluations = transfers; non-trivial = transfer needing more than one fragment; '
                   'each transfer also walked adaptively on the implementation (offset advanced by bytes received)')
    cov['impl_model_disagreements'] = len(dis)
    nbad = 0
    for c, ws in zip(cases, allwalks):
        res = adaptive_walks(c, ws)
        if res is not None:
            nbad += 1
            if nbad <= 2:
                t = c[1][0]
                ctx.violation(dict(tag_type=t['ty'], tag_length=t['n'], max_bytes=c[0], init=[list(v) for v in t['init']], transfer=res[0]), res[1])
    # one transfer whose byte offsets need more than 16 bits: DINT[16600] moved completely at the default budget (137 fragments)
    n = 16600
    vals = [('i', (k * 7919) % 100003 - 50000) for k in range(n)]
    big = (488, [dict(name='F', ty='DINT', scalar=False, n=n, addr=None, init=vals)], [])
    res = adaptive_walks(big, [('read', 0, n, 0, 0), ('read', 16000, 600, 0, 0)])
    cov['big_transfer_elements'] = n
    # element counts that need all 16 bits of the count field: SINT[40000] moved completely, and its last 33000 elements
    if res is None:
        n2 = 40000
        big2 = (488, [dict(name='F', ty='SINT', scalar=False, n=n2, addr=None, init=[('i', (k * 31) % 251 - 125) for k in range(n2)])], [])
        res = adaptive_walks(big2, [('read', 0, n2, 0, 0), ('read', 7000, 33000, 0, 0)])
        n = n2
    # the official client's view of the same fragments: every reply of a sample of transfers, wrapped as the simulator sends it, is
    # parsed by client.connector.collect; status and values must be the ones read off the bytes (a one-element fragment of a 1-byte
    # type is as long as a bare error reply)
    if res is None:
        res = client_sees_fragments(ctx)
    if res is not None:
        nbad += 1
        ctx.violation(dict(tag_type='DINT', tag_length=n, max_bytes=488, transfer=res[0]), res[1])
    cov['impl_property_failures'] = nbad
    if dis:
        ci, ri, io, mo = dis[0]
        name = 'correspondence Logix.request (Read/Write Tag Fragmented) = Model.Logix.exec'
        if nbad:
            ctx.broken.append(name)
        else:
            ctx.unresolved(name, dict(case=L.describe_case((cases[ci][0], cases[ci][1], cases[ci][2][ri:ri + 1])), impl=L.fmt_obs(io), model=L.fmt_obs(mo)))
    for c, ws in list(zip(cases, allwalks))[:: max(1, len(cases) // 3)][:3]:
        ctx.sample(dict(tag_type=c[1][0]['ty'], tag_length=c[1][0]['n'], max_bytes=c[0], transfers=[list(w) for w in ws[:4]]))
    ctx.assumptions += ['fixed-size scalar element types only (strings/UDTs are outside the property)',
                        'Logix.MAX_BYTES is set per configuration (documented as user-alterable)']


def replay(ctx, rep):
    w = rep['witness']
    tag = dict(name='F', ty=w['tag_type'], scalar=False, n=w['tag_length'], addr=None, init=[tuple(v) for v in w['init']])
    t = w['transfer']
    case = (w['max_bytes'], [tag, dict(name='G', ty='INT', scalar=False, n=3, addr=None, init=[('i', 1), ('i', 2), ('i', 3)])], [])
    res = adaptive_walks(case, [('read', t['idx'], t['elm'], 0, 0)])
    print('property C04 on the implementation:', res or 'holds')
    return 1 if res else 0
