"""Building and processing complete EtherNet/IP frames in-process (used by C15, C06, C14, C02, C08).
Frames are produced with cpppo's own producers where a *request* is needed by a check whose subject is not the
codec, and processed through logix.process exactly as enip_srv_tcp does after framing."""
import logging
from vlib import core


def quiet():
    logging.getLogger().setLevel(logging.ERROR + 10)
    for n in ('enip.lgx', 'enip.dev', 'enip.srv', 'cpppo', 'enip.ucmm'):
        logging.getLogger(n).setLevel(logging.ERROR + 10)


def build_unconnected(request, route_path=None, send_path=None, ctx=b'', session=0x1234, wrap=None):
    """A SendRRData frame carrying `request` (a dict the Logix dialect can produce, or raw bytes).
    route_path None = no route path at all; with neither route_path nor send_path the request is sent 'simple'
    (no Unconnected Send wrapper) unless wrap=True."""
    from cpppo import dotdict
    from cpppo.server.enip import logix, parser, client
    cip = dotdict(); cip.send_data = {}
    sd = cip.send_data; sd.interface = 0; sd.timeout = 8; sd.CPF = {}
    sd.CPF.item = [dotdict(), dotdict()]
    sd.CPF.item[0].type_id = 0; sd.CPF.item[1].type_id = 0xb2; sd.CPF.item[1].unconnected_send = {}
    us = sd.CPF.item[1].unconnected_send
    if send_path is not None or route_path is not None or wrap:
        us.service = 0x52; us.status = 0; us.priority = 5; us.timeout_ticks = 157
        us.path = {'segment': [dotdict(s) for s in (send_path or [{'class': 6}, {'instance': 1}])]}
        if route_path is not None:
            us.route_path = {'segment': [dotdict(s) for s in route_path]}
    if isinstance(request, (bytes, bytearray)):
        us.request = dotdict(); us.request.input = bytearray(request)
    else:
        us.request = dotdict(request)
        us.request.input = bytearray(logix.Logix.produce(us.request))
    data = dotdict(); data.enip = {}
    data.enip.session_handle = session; data.enip.options = 0; data.enip.status = 0
    data.enip.sender_context = {}; data.enip.sender_context.input = client.format_context(ctx)
    data.enip.CIP = cip
    data.enip.input = bytearray(parser.CIP.produce(data.enip))
    return bytes(parser.enip_encode(data.enip))


def parse_header(wire):
    """enip_machine on a complete frame -> dotdict with .enip (header fields + .input payload)"""
    import cpppo
    from cpppo import dotdict
    from cpppo.server.enip import parser
    src = cpppo.peekable(wire); d = dotdict()
    with parser.enip_machine() as m:
        for _ in m.run(source=src, data=d):
            pass
    return d


def process_frame(wire, addr=('10.0.0.1', 4444), **kwds):
    """-> ('exc', name) | (proceed, enip_status, reply payload bytes | None, response dotdict)"""
    from cpppo import dotdict
    from cpppo.server.enip import logix
    d = parse_header(wire)
    data = dotdict(); data.request = dotdict(); data.request.enip = d.enip
    try:
        proceed = logix.process(addr, data=data, **kwds)
    except Exception as e:
        return ('exc', type(e).__name__)
    r = data.response.enip
    return (proceed, r.get('status'), bytes(r.input) if 'input' in r else None, data.response)


SEND_DATA_HDR = 16   # interface(4) timeout(2) count(2) item0 type(2) len(2) item1 type(2) len(2)


def unwrap_send_data(payload):
    """inner CIP reply bytes of a SendRRData reply payload (null address item + one data item), or None"""
    if payload is None or len(payload) < SEND_DATA_HDR:
        return None
    cnt = payload[6] | (payload[7] << 8)
    t0 = payload[8] | (payload[9] << 8); l0 = payload[10] | (payload[11] << 8)
    t1 = payload[12] | (payload[13] << 8); l1 = payload[14] | (payload[15] << 8)
    if cnt != 2 or t0 != 0 or l0 != 0 or t1 != 0xb2 or l1 != len(payload) - SEND_DATA_HDR:
        return None
    return bytes(payload[SEND_DATA_HDR:])
